import FrappyProofs.Lemmas.Activate
/-
Deadlock freedom of the lock discipline `_lock → accessLock → updateLock → _subscription_lock` (request threads, the
announcements they run themselves inside a `read` / `change`, updater threads).
-/
namespace Frappy.Activate
open Frappy.Spec.C08

/-! ## the updater slot of a connection is at rest unless the connection's thread is inside a call -/

theorem ownerOf_own (c : Nat) : ownerOf (own c) = some c := by
  have h1 : (2 * c + 1) % 2 = 1 := by omega
  have h2 : (2 * c + 1) / 2 = c := by omega
  simp [ownerOf, own, h1, h2]

theorem own_inj {c c' : Nat} (h : own c = own c') : c = c' := by
  simp only [own] at h; omega

theorem ownerOf_some {k c : Nat} (h : ownerOf k = some c) : k = own c := by
  unfold ownerOf at h
  by_cases hk : k % 2 = 1
  · rw [if_pos hk] at h; injection h with h; simp only [own]; omega
  · rw [if_neg hk] at h; cases h

theorem ownerOf_none {k : Nat} (h : ∀ c : Nat, k ≠ own c) : ownerOf k = none := by
  cases hk : ownerOf k with
  | none => rfl
  | some c => exact absurd (ownerOf_some hk) (h c)

structure OwnInv (σ : State) : Prop where
  notDone : ∀ c, σ.upc (own c) ≠ .done
  rest : ∀ c, inCall (σ.hpc c) = false → slotIdle σ (own c) = true

theorem ownInv_init (hs us cache) (h : ∀ c, us (own c) = []) : OwnInv (init hs us cache) := by
  constructor
  · intro c; simp [init]
  · intro c _; simp [init, slotIdle, h c]

@[simp] theorem inCall_afterStart (cfg r) : inCall (afterStart cfg r) = false := by
  cases r with
  | rw w m p e => by_cases hk : cfg.rw w m p = .calls <;> simp [afterStart, hk, inCall]
  | _ => rfl
@[simp] theorem inCall_afterSnap (s l) : inCall (afterSnap s l) = false := by cases l <;> rfl
@[simp] theorem inCall_afterTable (cfg c r) : inCall (afterTable cfg c r) = false := by
  cases r with
  | activate s => simp only [afterTable, inCall_afterSnap]
  | _ => rfl
@[simp] theorem inCall_firstPc (r) : inCall (firstPc r) = false := by cases r <;> rfl

theorem ownInv_stepH (cfg : Cfg) (σ σ' : State) (c : Conn) (hL : LockInv σ) (hI : OwnInv σ)
    (hs : stepH cfg σ c = some σ') : OwnInv σ' := by
  obtain ⟨f1, f2, f3, -⟩ := stepH_frame cfg σ σ' c (hL.noStartDisc c) hs
  have hidle : ∀ c', c' ≠ c → slotIdle σ' (own c') = slotIdle σ (own c') := by
    intro c' hc
    unfold slotIdle
    rw [f2, f3 (own c') (fun h => hc (own_inj h))]
  constructor
  · intro c'; rw [f2]; exact hI.notDone c'
  · intro c' hin
    by_cases hc : c' = c
    · subst hc
      have hr := hI.rest c'
      clear f1 f2 f3 hidle
      unfold stepH at hs
      step_cases hs
      all_goals simp only [set_same] at hin
      all_goals simp only [slotIdle, tableWrite_upc, tableWrite_uscript] at hr ⊢
      all_goals first
        | (simp [inCall] at hin; done)
        | (refine hr ?_; simp [*, inCall]; done)
        | (simpa [slotIdle] using ‹slotIdle σ (own c') = true›)
    · rw [f1, set_other _ _ _ _ hc] at hin
      rw [hidle c' hc]; exact hI.rest c' hin

theorem ownInv_stepUG (cfg : Cfg) (σ σ' : State) (k : Nat) (arg : Conn) (hI : OwnInv σ)
    (hs : stepUG cfg σ k arg = some σ') : OwnInv σ' := by
  have hg : gate σ k = true := by
    unfold stepUG at hs; split at hs
    · assumption
    · cases hs
  have hs' := stepUG_some hs
  obtain ⟨f1, f2, _⟩ := stepU_frame cfg σ σ' k arg hs'
  have hscr : ∀ k', k' ≠ k → σ'.uscript k' = σ.uscript k' := by
    intro k' hk
    unfold stepU at hs'
    step_cases hs'
    all_goals simp [set_apply, hk]
  constructor
  · intro c
    by_cases hk : own c = k
    · subst hk
      -- the slot of a connection moves only when it has something to do: it never ends
      have hni : slotIdle σ (own c) = false := by
        have hg' := hg
        simp only [gate, ownerOf_own, Bool.and_eq_true, Bool.not_eq_true'] at hg'
        exact hg'.2
      intro hd
      unfold stepU at hs'
      cases hpc : σ.upc (own c) with
      | idle =>
        cases hsc : σ.uscript (own c) with
        | nil => simp [slotIdle, hpc, hsc] at hni
        | cons a rest =>
          obtain ⟨m, p, e⟩ := a
          simp only [hpc, hsc] at hs'
          step_cases hs'
          all_goals simp at hd
      | wantSub m p e => simp only [hpc] at hs'; step_cases hs'; all_goals simp at hd
      | sending m p e l =>
        cases l <;> (simp only [hpc] at hs'; step_cases hs'; all_goals simp at hd)
      | relUpd m em => simp only [hpc] at hs'; step_cases hs'; all_goals simp at hd
      | done => exact hI.notDone c hpc
    · rw [f1, set_other _ _ _ _ hk]; exact hI.notDone c
  · intro c hin
    rw [f2] at hin
    have hk : own c ≠ k := by
      intro h; subst h
      simp only [gate, ownerOf_own] at hg
      rw [hin] at hg; simp at hg
    have := hI.rest c hin
    simp only [slotIdle] at this ⊢
    rw [f1, set_other _ _ _ _ hk, hscr _ hk]; exact this

theorem ownInv_reach (cfg : Cfg) (hs us cache) (hown : ∀ c, us (own c) = []) (σ : State)
    (h : Reach cfg (init hs us cache) σ) : OwnInv σ := by
  induction h with
  | init => exact ownInv_init hs us cache hown
  | step a hprev hstep ih =>
    have hL := lockInv_reach cfg hs us cache _ hprev
    unfold step at hstep
    split at hstep
    · exact ownInv_stepH cfg _ _ _ hL ih hstep
    · exact ownInv_stepUG cfg _ _ _ _ ih hstep

/-! ## no reachable state has every thread blocked -/

theorem stepH_enabled (cfg : Cfg) (σ : State) (c : Conn) :
    (stepH cfg σ c).isSome = (match σ.hpc c with
      | .start _ => decide (σ.disp = none)
      | .wantSub _ => decide (σ.sub = none)
      | .wantUpd _ m _ => decide (σ.upd m = none)
      | .wantAcc _ _ _ _ n => decide (1 < n) || slotIdle σ (own c)
      | .relAcc _ _ _ _ _ => slotIdle σ (own c)
      | .done => false
      | _ => true) := by
  unfold stepH
  cases hpc : σ.hpc c with
  | wantAcc w m p e n =>
    by_cases h1 : n ≤ 1 <;> cases h2 : slotIdle σ (own c) <;> simp [h1, h2] <;> omega
  | relAcc w m p e n => cases h2 : slotIdle σ (own c) <;> simp [h2]
  | idle => simp only []; split <;> simp
  | snapMod s m ps rest => cases ps <;> simp
  | start r => simp only []; split <;> simp_all
  | wantSub r => simp only []; split <;> simp_all
  | wantUpd s m rest => simp only []; split <;> simp_all
  | _ => simp

/-- the receiver an updater may always choose -/
def someArg (σ : State) (k : Nat) : Conn :=
  match σ.upc k with
  | .sending _ _ _ (x :: _) => x
  | _ => 0

theorem stepU_enabled (cfg : Cfg) (σ : State) (k : Nat) :
    (stepU cfg σ k (someArg σ k)).isSome = (match σ.upc k with
      | .idle => (match σ.uscript k with | [] => true | (m, _, _) :: _ => decide (σ.upd m = none))
      | .wantSub _ _ _ => decide (σ.sub = none)
      | .done => false
      | _ => true) := by
  cases hpc : σ.upc k with
  | idle =>
    simp only [stepU, hpc]
    split <;> simp_all
    split <;> simp_all
    split <;> simp_all
  | wantSub m p e => simp only [stepU, hpc]; split <;> simp_all
  | sending m p e l => cases l <;> simp [stepU, someArg, hpc]
  | relUpd m em => simp [stepU, hpc]
  | done => simp [stepU, hpc]

theorem stepUG_enabled (cfg : Cfg) (σ : State) (k : Nat) (arg : Conn) :
    (stepUG cfg σ k arg).isSome = (gate σ k && (stepU cfg σ k arg).isSome) := by
  unfold stepUG; split <;> simp_all

/-- an updater slot that is in the middle of an assignment may move: an updater thread always, the slot of a connection
because the connection's thread is then inside the call -/
theorem gate_of_busy (σ : State) (hO : OwnInv σ) (k : Nat) (h : σ.upc k ≠ .idle) : gate σ k = true := by
  unfold gate
  cases hk : ownerOf k with
  | none => rfl
  | some c =>
    have hk' := ownerOf_some hk
    subst hk'
    have hni : slotIdle σ (own c) = false := by
      simp only [slotIdle]
      cases hpc : σ.upc (own c) <;> simp_all
    have hin : inCall (σ.hpc c) = true := by
      cases hc : inCall (σ.hpc c) with
      | true => rfl
      | false => rw [hO.rest c hc] at hni; cases hni
    simp [hin, hni]

theorem no_deadlock (cfg : Cfg) (σ : State) (hI : LockInv σ) (hO : OwnInv σ) (t : Tid) (ht : finished σ t = false)
    (hreal : ∀ c, t ≠ .u (own c)) : ∃ a, (step cfg σ a).isSome = true := by
  cases hsub : σ.sub with
  | some t' =>
    have := (hI.sub t').2 hsub
    cases t' with
    | h c =>
      refine ⟨⟨.h c, 0⟩, ?_⟩
      simp only [step, stepH_enabled]
      simp only [holdsSub] at this
      cases hpc : σ.hpc c <;> simp_all
    | u k =>
      refine ⟨⟨.u k, someArg σ k⟩, ?_⟩
      simp only [holdsSub] at this
      have hg := gate_of_busy σ hO k (by intro h; rw [h] at this; simp at this)
      simp only [step, stepUG_enabled, stepU_enabled, hg, Bool.true_and]
      cases hpc : σ.upc k <;> simp_all
  | none =>
    by_cases hupd : ∃ m t', σ.upd m = some t'
    · obtain ⟨m, t', hm⟩ := hupd
      have := (hI.upd m t').2 hm
      cases t' with
      | h c =>
        refine ⟨⟨.h c, 0⟩, ?_⟩
        simp only [step, stepH_enabled]
        simp only [holdsUpd] at this
        cases hpc : σ.hpc c <;> simp_all
      | u k =>
        refine ⟨⟨.u k, someArg σ k⟩, ?_⟩
        simp only [holdsUpd] at this
        have hg := gate_of_busy σ hO k (by intro h; rw [h] at this; simp at this)
        simp only [step, stepUG_enabled, stepU_enabled, hg, Bool.true_and]
        cases hpc : σ.upc k <;> simp_all
    · have hfree : ∀ m, σ.upd m = none := by
        intro m
        cases h : σ.upd m with
        | none => rfl
        | some t' => exact absurd ⟨m, t', h⟩ hupd
      have hnoU : ∀ k, σ.upc k = .idle ∨ σ.upc k = .done := by
        intro k
        have h1 := (hI.upd · (.u k))
        have h2 := hI.sub (.u k)
        simp only [holdsUpd, holdsSub] at h1 h2
        cases hpc : σ.upc k with
        | idle => exact Or.inl rfl
        | done => exact Or.inr rfl
        | wantSub m p e => have := (h1 m).1 (by simp [hpc]); rw [hfree] at this; cases this
        | sending m p e l => have := (h1 m).1 (by simp [hpc]); rw [hfree] at this; cases this
        | relUpd m em => have := (h1 m).1 (by simp [hpc]); rw [hfree] at this; cases this
      cases hdisp : σ.disp with
      | some c =>
        have := (hI.disp c).2 hdisp
        have hu := fun m => (hI.upd m (.h c)).1
        simp only [holdsUpd] at hu
        have hs := (hI.sub (.h c)).1
        simp only [holdsSub] at hs
        -- the thread that holds `_lock` can move, or — inside a call — its updater slot can
        by_cases hcall : inCall (σ.hpc c) = true ∧ slotIdle σ (own c) = false
        · refine ⟨⟨.u (own c), someArg σ (own c)⟩, ?_⟩
          have hg : gate σ (own c) = true := by simp [gate, ownerOf_own, hcall.1, hcall.2]
          simp only [step, stepUG_enabled, stepU_enabled, hg, Bool.true_and]
          rcases hnoU (own c) with h | h
          · have hni := hcall.2
            simp only [slotIdle, h] at hni
            rw [h]
            cases hsc : σ.uscript (own c) with
            | nil => simp [hsc] at hni
            | cons a rest => obtain ⟨m, p, e⟩ := a; simp [hfree]
          · exact absurd h (hO.notDone c)
        · refine ⟨⟨.h c, 0⟩, ?_⟩
          simp only [step, stepH_enabled]
          have hrest := hO.rest c
          cases hpc : σ.hpc c <;> simp_all [inCall]
      | none =>
        cases t with
        | h c =>
          refine ⟨⟨.h c, 0⟩, ?_⟩
          simp only [step, stepH_enabled]
          simp only [finished] at ht
          have hd := (hI.disp c).1
          cases hpc : σ.hpc c <;> simp_all
        | u k =>
          refine ⟨⟨.u k, someArg σ k⟩, ?_⟩
          have hg : gate σ k = true := by
            unfold gate; rw [ownerOf_none (fun c h => hreal c (by rw [h]))]
          simp only [step, stepUG_enabled, stepU_enabled, hg, Bool.true_and]
          simp only [finished] at ht
          cases hpc : σ.upc k <;> simp_all
          split <;> simp_all

end Frappy.Activate
