import FrappyProofs.Lemmas.Activate
/-
Deadlock freedom of the lock discipline `_lock → accessLock → updateLock → _subscription_lock` (request threads, the
announcements they run themselves, updater threads).
-/
namespace Frappy.Activate
open Frappy.Spec.C08

/-! ## no reachable state has every thread blocked -/

theorem stepH_enabled (cfg : Cfg) (σ : State) (c : Conn) :
    (stepH cfg σ c).isSome = (match σ.hpc c with
      | .start _ => decide (σ.disp = none)
      | .wantSub _ => decide (σ.sub = none)
      | .wantUpd _ m _ => decide (σ.upd m = none)
      | .done => false
      | _ => true) := by
  unfold stepH
  repeat' split
  all_goals simp_all

/-- the receiver an updater may always choose -/
def someArg (σ : State) (k : Nat) : Conn :=
  match σ.upc k with
  | .sending _ _ _ (x :: _) => x
  | _ => 0

theorem stepU_enabled (cfg : Cfg) (σ : State) (k : Nat) :
    (stepU cfg σ k (someArg σ k)).isSome = (match σ.upc k with
      | .idle => (match σ.uscript k with | [] => true | (m, _, _) :: _ => decide (σ.upd m = none))
      | .wantSub _ _ _ => decide (σ.sub = none)
      | .done => false
      | _ => true) := by
  cases hpc : σ.upc k with
  | idle =>
    simp only [stepU, hpc]
    split <;> simp_all
    split <;> simp_all
    split <;> simp_all
  | wantSub m p e => simp only [stepU, hpc]; split <;> simp_all
  | sending m p e l => cases l <;> simp [stepU, someArg, hpc]
  | relUpd m em => simp [stepU, hpc]
  | done => simp [stepU, hpc]

theorem no_deadlock (cfg : Cfg) (σ : State) (hI : LockInv σ) (t : Tid) (ht : finished σ t = false) :
    ∃ a, (step cfg σ a).isSome = true := by
  cases hsub : σ.sub with
  | some t' =>
    have := (hI.sub t').2 hsub
    cases t' with
    | h c =>
      refine ⟨⟨.h c, 0⟩, ?_⟩
      simp only [step, stepH_enabled]
      simp only [holdsSub] at this
      cases hpc : σ.hpc c <;> simp_all
    | u k =>
      refine ⟨⟨.u k, someArg σ k⟩, ?_⟩
      simp only [step, stepU_enabled]
      simp only [holdsSub] at this
      cases hpc : σ.upc k <;> simp_all
  | none =>
    by_cases hupd : ∃ m t', σ.upd m = some t'
    · obtain ⟨m, t', hm⟩ := hupd
      have := (hI.upd m t').2 hm
      cases t' with
      | h c =>
        refine ⟨⟨.h c, 0⟩, ?_⟩
        simp only [step, stepH_enabled]
        simp only [holdsUpd] at this
        cases hpc : σ.hpc c <;> simp_all
      | u k =>
        refine ⟨⟨.u k, someArg σ k⟩, ?_⟩
        simp only [step, stepU_enabled]
        simp only [holdsUpd] at this
        cases hpc : σ.upc k <;> simp_all
    · have hfree : ∀ m, σ.upd m = none := by
        intro m
        cases h : σ.upd m with
        | none => rfl
        | some t' => exact absurd ⟨m, t', h⟩ hupd
      cases hdisp : σ.disp with
      | some c =>
        have := (hI.disp c).2 hdisp
        refine ⟨⟨.h c, 0⟩, ?_⟩
        simp only [step, stepH_enabled]
        have hu := fun m => (hI.upd m (.h c)).1
        simp only [holdsUpd] at hu
        have hs := (hI.sub (.h c)).1
        simp only [holdsSub] at hs
        cases hpc : σ.hpc c <;> simp_all
      | none =>
        cases t with
        | h c =>
          refine ⟨⟨.h c, 0⟩, ?_⟩
          simp only [step, stepH_enabled]
          simp only [finished] at ht
          cases hpc : σ.hpc c <;> simp_all
        | u k =>
          refine ⟨⟨.u k, someArg σ k⟩, ?_⟩
          simp only [step, stepU_enabled]
          simp only [finished] at ht
          cases hpc : σ.upc k <;> simp_all
          split <;> simp_all


end Frappy.Activate
