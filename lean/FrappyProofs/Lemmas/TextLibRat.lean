import FrappyProofs.Lemmas.RatWireLaws
/-
C02: the laws assumed of the text library (`Spec.C02.TextLib.Lawful`) are consistent — a concrete library over the
exact carrier `Rat` that satisfies all of them (non-vacuity of `text_roundtrip` / `client_string_write`).

Strings, bytes, integers and booleans are printed as tagged tokens that read back exactly; every float prints as the
same token `f`, which reads back as `0` — a format with no significant digit: idempotent, like `'%.0f'` on `[0, 0.5]`.
-/
namespace Frappy.Lemmas.C02
open FloatOps Frappy.Datatypes Frappy.Spec.C01 Frappy.Spec.C02

def exLib : TextLib Rat where
  fmtFloat _ _ := "f"
  fmtInt i := String.ofList ('i' :: (if i < 0 then '-' else '+') :: List.replicate i.natAbs '1')
  reprStr s := String.ofList ('s' :: s.toList)
  reprBytes b := String.ofList ('b' :: b.map (fun u => Char.ofNat u.toNat))
  reprBool b := if b then "True" else "False"
  evalAtom tok :=
    match tok.toList with
    | ['T', 'r', 'u', 'e'] => some (.bool true)
    | ['F', 'a', 'l', 's', 'e'] => some (.bool false)
    | ['f'] => some (.float 0)
    | 's' :: cs => some (.str (String.ofList cs))
    | 'i' :: '+' :: cs => some (.int cs.length)
    | 'i' :: '-' :: cs => some (.int (-(cs.length : Int)))
    | 'b' :: cs => some (.bytes (cs.map (fun c => c.toNat.toUInt8)))
    | _ => none
  strip s := s

theorem charNat : ∀ n, n < 256 → (Char.ofNat n).toNat = n := by decide +kernel

theorem bytes_back : ∀ b : List UInt8, List.map (fun c => c.toNat.toUInt8) (List.map (fun u => Char.ofNat u.toNat) b) = b
  | [] => rfl
  | u :: b => by
    rw [List.map_cons, List.map_cons, charNat u.toNat u.toNat_lt, bytes_back b]
    simp

theorem zero_call (scale : Rat) : DType.snap scale (0 : Rat) = some 0 ∧ SnapFix scale (0 : Rat) := by
  have hr : RatCarrier.round 0 = 0 := by decide +kernel
  have hg : DType.gridIndex scale (0 : Rat) = some 0 := by
    simp only [DType.gridIndex, FloatOps.div, FloatOps.round, Rat.div_def, Rat.zero_mul, hr]
  have hfin : isFinite (0 : Rat) = true := by decide +kernel
  constructor
  · simp only [DType.snap, hg, DType.ofGrid, FloatOps.ofInt, FloatOps.mul, Rat.intCast_ofNat, Rat.zero_mul]
  · simp only [SnapFix, DType.snap, hg, DType.ofGrid, FloatOps.ofInt, FloatOps.mul, Rat.intCast_ofNat, Rat.zero_mul, IsSome,
      FloatOps.same, decide_true]

theorem tokF : "f".toList = ['f'] := by decide +kernel
theorem tokTrue : "True".toList = ['T', 'r', 'u', 'e'] := by decide +kernel
theorem tokFalse : "False".toList = ['F', 'a', 'l', 's', 'e'] := by decide +kernel

theorem exLib_lawful : TextLib.Lawful exLib where
  evalStr s := by simp [exLib]
  evalBytes b := by
    simp only [exLib, String.toList_ofList]
    rw [bytes_back]
  evalInt i := by
    by_cases h : i < 0
    · simp [exLib, h]; omega
    · simp [exLib, h]; omega
  evalBool b := by cases b <;> simp [exLib, tokTrue, tokFalse]
  boolWordTrue := rfl
  boolWordFalse := rfl
  fmtDouble pos x hfin _ := ⟨.float 0, 0, by simp [exLib, tokF], rfl, rfl, rfl⟩
  fmtScaled pos scale x _ _ := by
    obtain ⟨h1, h2⟩ := zero_call scale
    exact ⟨.float 0, 0, 0, by simp [exLib, tokF], rfl, h1, by decide +kernel, rfl, h2⟩

end Frappy.Lemmas.C02
