import FrappyProofs.Lemmas.Klass
/- helper lemmas for C09: faithfulness of the heap layout for module properties
(`describeM` of a class shows exactly `ClassRec.pure.props`) -/
namespace Frappy.Klass
open Frappy.Spec.C09

/-! ### association lists -/

theorem mem_aput {α : Type} {l : List (Name × α)} {k k' : Name} {v v' : α} (h : (k, v) ∈ aput l k' v') :
    (k, v) = (k', v') ∨ (k, v) ∈ l := by
  induction l with
  | nil => simp [aput] at h; exact Or.inl (by simp [h])
  | cons x l ih =>
    obtain ⟨k0, v0⟩ := x
    simp only [aput] at h
    split at h
    · simp only [List.mem_cons] at h
      rcases h with h | h
      · exact Or.inl h
      · exact Or.inr (List.mem_cons_of_mem _ h)
    · simp only [List.mem_cons] at h
      rcases h with h | h
      · exact Or.inr (h ▸ List.mem_cons_self)
      · rcases ih h with h' | h'
        · exact Or.inl h'
        · exact Or.inr (List.mem_cons_of_mem _ h')

theorem mem_aput_self {α : Type} (l : List (Name × α)) (k : Name) (v : α) : (k, v) ∈ aput l k v := by
  induction l with
  | nil => simp [aput]
  | cons x l ih =>
    obtain ⟨k0, v0⟩ := x
    simp only [aput]
    split
    · exact List.mem_cons_self
    · exact List.mem_cons_of_mem _ ih

theorem mem_aput_of_ne {α : Type} {l : List (Name × α)} {k k' : Name} {v v' : α} (h : (k, v) ∈ l) (hne : k ≠ k') :
    (k, v) ∈ aput l k' v' := by
  induction l with
  | nil => cases h
  | cons x l ih =>
    obtain ⟨k0, v0⟩ := x
    simp only [aput]
    split
    · rename_i hk
      have hk' : k0 = k' := by simpa using hk
      simp only [List.mem_cons] at h
      rcases h with h | h
      · cases h; exact absurd hk' hne
      · exact List.mem_cons_of_mem _ h
    · simp only [List.mem_cons] at h
      rcases h with h | h
      · exact h ▸ List.mem_cons_self
      · exact List.mem_cons_of_mem _ (ih h)

/-- an entry that is not the one `aget?` finds under its key survives `aput` at any key -/
theorem mem_aput_of_not_first {α : Type} {l : List (Name × α)} {k k' : Name} {v v' : α} (h : (k, v) ∈ l)
    (hnf : aget? l k' ≠ some v) : (k, v) ∈ aput l k' v' := by
  induction l with
  | nil => cases h
  | cons x l ih =>
    obtain ⟨k0, v0⟩ := x
    simp only [aget?] at hnf
    simp only [aput]
    split
    · rename_i hk
      simp only [hk, if_true] at hnf
      simp only [List.mem_cons] at h
      rcases h with h | h
      · cases h; exact absurd rfl hnf
      · exact List.mem_cons_of_mem _ h
    · rename_i hk
      simp only [hk] at hnf
      simp only [List.mem_cons] at h
      rcases h with h | h
      · exact h ▸ List.mem_cons_self
      · exact List.mem_cons_of_mem _ (ih h hnf)

theorem keys_aput {α : Type} (l : List (Name × α)) (k : Name) (v : α) (x : Name) :
    x ∈ (aput l k v).map (·.1) ↔ x = k ∨ x ∈ l.map (·.1) := by
  induction l with
  | nil => simp [aput]
  | cons y l ih =>
    obtain ⟨k0, v0⟩ := y
    simp only [aput]
    split
    · rename_i hk
      have hk' : k0 = k := by simpa using hk
      subst hk'
      simp
    · simp only [List.map_cons, List.mem_cons, ih]
      constructor
      · rintro (h | h | h)
        · exact Or.inr (Or.inl h)
        · exact Or.inl h
        · exact Or.inr (Or.inr h)
      · rintro (h | h | h)
        · exact Or.inr (Or.inl h)
        · exact Or.inl h
        · exact Or.inr (Or.inr h)

theorem nodup_aput {α : Type} {l : List (Name × α)} (k : Name) (v : α) (h : KeysNodup l) : KeysNodup (aput l k v) := by
  unfold KeysNodup at h ⊢
  induction l with
  | nil => simp [aput]
  | cons y l ih =>
    obtain ⟨k0, v0⟩ := y
    simp only [List.map_cons, List.nodup_cons] at h
    simp only [aput]
    split
    · rename_i hk
      have hk' : k0 = k := by simpa using hk
      subst hk'
      simpa using h
    · rename_i hk
      have hk' : ¬ k0 = k := by simpa using hk
      simp only [List.map_cons, List.nodup_cons]
      refine ⟨?_, ih h.2⟩
      intro hin
      rcases (keys_aput l k v k0).1 hin with e | e
      · exact hk' e
      · exact h.1 e

theorem mem_aput_nodup {α : Type} {l : List (Name × α)} {k k' : Name} {v v' : α} (hn : KeysNodup l)
    (h : (k, v) ∈ aput l k' v') : (k = k' ∧ v = v') ∨ (k ≠ k' ∧ (k, v) ∈ l) := by
  by_cases hk : k = k'
  · subst hk
    left
    refine ⟨rfl, ?_⟩
    have hn' := nodup_aput k v' hn
    -- both (k, v) and (k, v') are in the result, whose keys are pairwise different
    have h2 := mem_aput_self l k v'
    generalize aput l k v' = m at h h2 hn'
    unfold KeysNodup at hn'
    induction m with
    | nil => cases h
    | cons y m ih =>
      simp only [List.map_cons, List.nodup_cons] at hn'
      simp only [List.mem_cons] at h h2
      rcases h with h | h <;> rcases h2 with h2 | h2
      · rw [← h2] at h; exact (Prod.mk.inj h).2
      · subst h
        exact absurd (List.mem_map.2 ⟨(k, v'), h2, rfl⟩) hn'.1
      · subst h2
        exact absurd (List.mem_map.2 ⟨(k, v), h, rfl⟩) hn'.1
      · exact ih h h2 hn'.2
  · right
    refine ⟨hk, ?_⟩
    rcases mem_aput h with e | e
    · exact absurd (Prod.mk.inj e).1 hk
    · exact e

theorem mem_aerase {α : Type} {l : List (Name × α)} {k k' : Name} {v : α} (h : (k, v) ∈ aerase l k') :
    (k, v) ∈ l := by
  unfold aerase at h
  exact (List.mem_filter.1 h).1

theorem nodup_aerase {α : Type} {l : List (Name × α)} (k : Name) (h : KeysNodup l) : KeysNodup (aerase l k) := by
  unfold KeysNodup aerase at *
  exact (List.filter_sublist.map _).nodup h

theorem aget?_of_mem_nodup {α : Type} {l : List (Name × α)} {k : Name} {v : α} (hn : KeysNodup l) (h : (k, v) ∈ l) :
    aget? l k = some v := by
  unfold KeysNodup at hn
  induction l with
  | nil => cases h
  | cons y l ih =>
    obtain ⟨k0, v0⟩ := y
    simp only [List.map_cons, List.nodup_cons] at hn
    simp only [aget?]
    simp only [List.mem_cons] at h
    rcases h with h | h
    · cases h; simp
    · have : ¬ k0 = k := fun e => hn.1 (e ▸ List.mem_map.2 ⟨_, h, rfl⟩)
      simp only [beq_iff_eq, this, if_false]
      exact ih hn.2 h

theorem aget?_append_left {α : Type} {l m : List (Name × α)} {k : Name} {v : α} (h : aget? l k = some v) :
    aget? (l ++ m) k = some v := by
  induction l with
  | nil => simp [aget?] at h
  | cons y l ih =>
    obtain ⟨k0, v0⟩ := y
    simp only [List.cons_append, aget?] at h ⊢
    split
    · rename_i hk; simpa [hk] using h
    · rename_i hk; simp only [hk] at h; exact ih h

theorem aget?_append_new {α : Type} {l : List (Name × α)} {k : Name} (v : α) (h : k ∉ l.map (·.1)) :
    aget? (l ++ [(k, v)]) k = some v := by
  induction l with
  | nil => simp [aget?]
  | cons y l ih =>
    obtain ⟨k0, v0⟩ := y
    simp only [List.map_cons, List.mem_cons, not_or] at h
    simp only [List.cons_append, aget?]
    have : ¬ k0 = k := fun e => h.1 e.symm
    simp only [beq_iff_eq, this, if_false]
    exact ih h.2

/-! ### where the module properties of a class come from (`HasProperties.__init_subclass__`) -/

/-- a property slot names a Property entry lying in the `__dict__` of its owner, one of the listed classes -/
def From (srcs : List (Name × List (Name × EntryV))) (ks : Name × PSlot) : Prop :=
  ∃ od ∈ srcs, od.1 = ks.2.owner ∧ (ks.1, EntryV.prop ks.2.val) ∈ od.2

def PInv (srcs : List (Name × List (Name × EntryV))) (acc : List (Name × PSlot)) : Prop :=
  KeysNodup acc ∧ ∀ ks ∈ acc, From srcs ks

theorem propsEntry_inv {srcs : List (Name × List (Name × EntryV))} {o : Name} {D : List (Name × EntryV)}
    (hsrc : (o, D) ∈ srcs) (acc : List (Name × PSlot)) (ke : Name × EntryV) (hke : ke ∈ D) (hacc : PInv srcs acc) :
    PInv srcs (propsEntry o acc ke) := by
  unfold propsEntry
  split
  · rename_i p hp
    refine ⟨nodup_aput _ _ hacc.1, ?_⟩
    intro ks hks
    obtain ⟨k, s⟩ := ks
    rcases mem_aput hks with e | e
    · cases e
      refine ⟨(o, D), hsrc, rfl, ?_⟩
      show (ke.1, EntryV.prop p) ∈ D
      rw [← hp]
      exact hke
    · exact hacc.2 _ e
  · exact ⟨nodup_aerase _ hacc.1, fun ks h => hacc.2 ks (mem_aerase h)⟩
  · exact hacc

theorem propsDict_inv {srcs : List (Name × List (Name × EntryV))} {o : Name} {D : List (Name × EntryV)}
    (hsrc : (o, D) ∈ srcs) (l : List (Name × EntryV)) (hl : ∀ ke ∈ l, ke ∈ D) (acc : List (Name × PSlot))
    (hacc : PInv srcs acc) : PInv srcs (l.foldl (propsEntry o) acc) := by
  induction l generalizing acc with
  | nil => exact hacc
  | cons ke l ih =>
    exact ih (fun x hx => hl x (List.mem_cons_of_mem _ hx)) _
      (propsEntry_inv hsrc acc ke (hl ke List.mem_cons_self) hacc)

theorem propsChain_inv {srcs : List (Name × List (Name × EntryV))} (L : List ClassV)
    (hL : ∀ cv ∈ L, (cv.decl.name, cv.dict) ∈ srcs) (acc : List (Name × PSlot)) (hacc : PInv srcs acc) :
    PInv srcs (L.foldl (fun acc cv => cv.dict.foldl (propsEntry cv.decl.name) acc) acc) := by
  induction L generalizing acc with
  | nil => exact hacc
  | cons cv L ih =>
    exact ih (fun x hx => hL x (List.mem_cons_of_mem _ hx)) _
      (propsDict_inv (hL cv List.mem_cons_self) cv.dict (fun _ h => h) acc hacc)

def chainSrcs (chain : List ClassV) : List (Name × List (Name × EntryV)) := chain.map (fun c => (c.decl.name, c.dict))

theorem propsWalk_inv (chain : List ClassV) (self : Name) (dict0 : List (Name × EntryV)) :
    PInv ((self, dict0) :: chainSrcs chain) (propsWalk chain self dict0) := by
  unfold propsWalk
  apply propsDict_inv List.mem_cons_self dict0 (fun _ h => h)
  apply propsChain_inv
  · intro cv hcv
    exact List.mem_cons_of_mem _ (List.mem_map.2 ⟨cv, List.mem_reverse.1 hcv, rfl⟩)
  · exact ⟨by simp [KeysNodup], fun _ h => by cases h⟩

/-- invariant of the loop treating bare values -/
def BInv (self : Name) (csrcs : List (Name × List (Name × EntryV))) (b : PBuilt) : Prop :=
  KeysNodup b.dict ∧ PInv ((self, b.dict) :: csrcs) b.props

theorem propsBare_inv (self : Name) (csrcs : List (Name × List (Name × EntryV))) (dicts : List (List (Name × EntryV)))
    (b : PBuilt) (np : Name × PSlot) (hb : BInv self csrcs b) : BInv self csrcs (propsBare self dicts b np) := by
  unfold propsBare
  split
  · rename_i v c o _
    refine ⟨nodup_aput _ _ hb.1, nodup_aput _ _ hb.2.1, ?_⟩
    intro ks hks
    rcases mem_aput_nodup hb.2.1 hks with ⟨hk, hs⟩ | ⟨hne, hin⟩
    · refine ⟨(self, _), List.mem_cons_self, ?_, ?_⟩
      · rw [hs]
      · simp only
        rw [hk, hs]
        exact mem_aput_self _ _ _
    · obtain ⟨od, hod, ho, hm⟩ := hb.2.2 ks hin
      simp only [List.mem_cons] at hod
      rcases hod with rfl | hod
      · exact ⟨(self, _), List.mem_cons_self, ho, mem_aput_of_ne hm hne⟩
      · exact ⟨od, List.mem_cons_of_mem _ hod, ho, hm⟩
  · exact hb

theorem propsBare_foldl (self : Name) (csrcs : List (Name × List (Name × EntryV))) (dicts : List (List (Name × EntryV)))
    (l : List (Name × PSlot)) (b : PBuilt) (hb : BInv self csrcs b) :
    BInv self csrcs (l.foldl (propsBare self dicts) b) := by
  induction l generalizing b with
  | nil => exact hb
  | cons np l ih => exact ih _ (propsBare_inv self csrcs dicts b np hb)

theorem propsDefine_inv (chain : List ClassV) (self : Name) (dict0 : List (Name × EntryV)) (hn : KeysNodup dict0) :
    BInv self (chainSrcs chain) (propsDefine chain self dict0) := by
  unfold propsDefine
  exact propsBare_foldl self _ _ _ _ ⟨hn, propsWalk_inv chain self dict0⟩

/-! ### the accessibles never replace a Property entry -/

theorem aputAcc_keeps {l : List (Name × EntryV)} {k k0 : Name} {a : AccV} {p : PropV} (h : (k0, EntryV.prop p) ∈ l) :
    (k0, EntryV.prop p) ∈ aputAcc l k a := by
  unfold aputAcc
  split
  · exact h
  · rename_i hne
    exact mem_aput_of_not_first h (fun e => hne p e)

theorem nodup_aputAcc {l : List (Name × EntryV)} (k : Name) (a : AccV) (h : KeysNodup l) : KeysNodup (aputAcc l k a) := by
  unfold aputAcc
  split
  · exact h
  · exact nodup_aput _ _ h

/-- what `buildOne` does to the `__dict__`: nothing, or one `aputAcc` -/
theorem buildOne_dict (T : Tables) (self : Name) (w : Walk) (b : Built) (ns : Name × SlotV) :
    (buildOne T self w b ns).dict = b.dict ∨ ∃ a, (buildOne T self w b ns).dict = aputAcc b.dict ns.1 a := by
  unfold buildOne
  simp only
  repeat' split
  all_goals first | exact Or.inl rfl | exact Or.inr ⟨_, rfl⟩

theorem buildOne_foldl (T : Tables) (self : Name) (w : Walk) (l : List (Name × SlotV)) (b : Built) :
    (KeysNodup b.dict → KeysNodup (l.foldl (buildOne T self w) b).dict) ∧
    ∀ k p, (k, EntryV.prop p) ∈ b.dict → (k, EntryV.prop p) ∈ (l.foldl (buildOne T self w) b).dict := by
  induction l generalizing b with
  | nil => exact ⟨id, fun _ _ h => h⟩
  | cons ns l ih =>
    simp only [List.foldl_cons]
    obtain ⟨ih1, ih2⟩ := ih (buildOne T self w b ns)
    rcases buildOne_dict T self w b ns with e | ⟨a, e⟩
    · exact ⟨fun h => ih1 (e ▸ h), fun k p h => ih2 k p (e ▸ h)⟩
    · exact ⟨fun h => ih1 (e ▸ nodup_aputAcc _ _ h), fun k p h => ih2 k p (e ▸ aputAcc_keeps h)⟩

theorem keys_dictProps_sublist (self : Name) (dict : List (Name × EntryV)) :
    ((dictProps self dict).map (·.1)).Sublist (dict.map (·.1)) := by
  unfold dictProps
  induction dict with
  | nil => simp
  | cons ke l ih =>
    obtain ⟨k, e⟩ := ke
    cases e <;> simp only [List.filterMap_cons, List.map_cons] <;> first | exact ih.cons _ | exact ih.cons_cons _

/-- the module properties `__init_subclass__` computes for a class whose body has pairwise different names: every
slot names a Property entry of the final `__dict__` of the new class or of a class of the chain -/
theorem pureDefine_props (T : Tables) (chain : List ClassV) (d : ClassDecl) (hn : KeysNodup d.decls) :
    KeysNodup (pureDefine T chain d).dict ∧
    PInv ((d.name, (pureDefine T chain d).dict) :: chainSrcs chain) (pureDefine T chain d).props := by
  have hn0 : KeysNodup (d.decls.map (fun nd => (nd.1, entryOf T d.name nd.1 nd.2))) := by
    unfold KeysNodup at hn ⊢
    have e : (d.decls.map (fun nd => (nd.1, entryOf T d.name nd.1 nd.2))).map (·.1) = d.decls.map (·.1) := by
      rw [List.map_map]; exact List.map_congr_left (fun _ _ => rfl)
    rw [e]; exact hn
  unfold pureDefine
  simp only
  split
  · -- a class outside HasProperties: the Property objects of its `__dict__`
    refine ⟨hn0, ?_, ?_⟩
    · exact (keys_dictProps_sublist d.name _).nodup hn0
    · intro ks hks
      unfold dictProps at hks
      obtain ⟨ke, hke, hk⟩ := List.mem_filterMap.1 hks
      split at hk
      · rename_i p hp
        cases hk
        refine ⟨(d.name, _), List.mem_cons_self, rfl, ?_⟩
        show (ke.1, EntryV.prop p) ∈ _
        rw [← hp]; exact hke
      · cases hk
  · obtain ⟨hd, hp1, hp2⟩ := propsDefine_inv chain d.name _ hn0
    obtain ⟨hb1, hb2⟩ := buildOne_foldl T d.name
      (walkClass T true (chain.reverse.foldl (fun w cv => walkClass T false w cv.decl.name cv.dict) {}) d.name
        (propsDefine chain d.name (d.decls.map (fun nd => (nd.1, entryOf T d.name nd.1 nd.2)))).dict)
      (walkClass T true (chain.reverse.foldl (fun w cv => walkClass T false w cv.decl.name cv.dict) {}) d.name
        (propsDefine chain d.name (d.decls.map (fun nd => (nd.1, entryOf T d.name nd.1 nd.2)))).dict).accessibles
      { dict := (propsDefine chain d.name (d.decls.map (fun nd => (nd.1, entryOf T d.name nd.1 nd.2)))).dict }
    refine ⟨hb1 hd, hp1, ?_⟩
    intro ks hks
    obtain ⟨od, hod, ho, hm⟩ := hp2 ks hks
    simp only [List.mem_cons] at hod
    rcases hod with rfl | hod
    · exact ⟨(d.name, _), List.mem_cons_self, ho, hb2 _ _ hm⟩
    · exact ⟨od, List.mem_cons_of_mem _ hod, ho, hm⟩

/-! ### the heap layout shows the module properties computed at value level -/

/-- invariant of pass 0 of the layout (`done`: the part of the `__dict__` already treated) -/
def AllocInv (st : Heap × List (Name × Ref)) (done : List (Name × EntryV)) : Prop :=
  (∀ x ∈ st.2.map (·.1), x ∈ done.map (·.1)) ∧
  ∀ k p, (k, EntryV.prop p) ∈ done → ∃ r, aget? st.2 k = some r ∧ st.1[r]? = some (Obj.prop p)

theorem allocProp_inv (st : Heap × List (Name × Ref)) (done : List (Name × EntryV)) (ke : Name × EntryV)
    (hnew : ke.1 ∉ done.map (·.1)) (hi : AllocInv st done) : AllocInv (allocProp st ke) (done ++ [ke]) := by
  unfold allocProp
  split
  · rename_i p hp
    constructor
    · intro x hx
      simp only [List.map_append, List.map_cons, List.map_nil, List.mem_append, List.mem_singleton] at hx ⊢
      rcases hx with hx | hx
      · exact Or.inl (hi.1 x hx)
      · exact Or.inr hx
    · intro k q hq
      simp only [List.mem_append, List.mem_singleton] at hq
      rcases hq with hq | hq
      · obtain ⟨r, hr1, hr2⟩ := hi.2 k q hq
        refine ⟨r, aget?_append_left hr1, ?_⟩
        have hlt : r < st.1.length := (List.getElem?_eq_some_iff.1 hr2).1
        simp only
        rw [List.getElem?_append_left hlt]; exact hr2
      · have hk : k = ke.1 := by rw [← hq]
        have hpq : EntryV.prop q = EntryV.prop p := by rw [← hp, ← hq]
        cases hpq
        subst hk
        refine ⟨st.1.length, aget?_append_new _ (fun hin => hnew (hi.1 _ hin)), ?_⟩
        simp
  · rename_i hne
    constructor
    · intro x hx
      simp only [List.map_append, List.mem_append]
      exact Or.inl (hi.1 x hx)
    · intro k q hq
      simp only [List.mem_append, List.mem_singleton] at hq
      rcases hq with hq | hq
      · exact hi.2 k q hq
      · exact absurd (by rw [← hq]) (hne q)

theorem allocProp_foldl (l done : List (Name × EntryV)) (hn : KeysNodup (done ++ l)) (st : Heap × List (Name × Ref))
    (hi : AllocInv st done) : AllocInv (l.foldl allocProp st) (done ++ l) := by
  induction l generalizing st done with
  | nil => simpa using hi
  | cons ke l ih =>
    have hn' : KeysNodup ((done ++ [ke]) ++ l) := by simpa using hn
    have hnew : ke.1 ∉ done.map (·.1) := by
      unfold KeysNodup at hn
      rw [List.map_append, List.nodup_append] at hn
      intro hin
      exact hn.2.2 _ hin _ (by simp) rfl
    have := ih (done ++ [ke]) hn' (allocProp st ke) (allocProp_inv st done ke hnew hi)
    simpa using this

theorem layoutProp_lookup (w : World) (cv : ClassV) (hn : KeysNodup cv.dict) (k : Name) (p : PropV)
    (h : (k, EntryV.prop p) ∈ cv.dict) :
    ∃ r, aget? (layoutProp w cv).2 k = some r ∧ (layout w cv).heap.propAt r = some p := by
  have hinv := allocProp_foldl cv.dict [] (by simpa using hn) (w.heap, []) ⟨by simp, by simp⟩
  simp only [List.nil_append] at hinv
  obtain ⟨r, hr1, hr2⟩ := hinv.2 k p h
  refine ⟨r, hr1, ?_⟩
  have hlt : r < (layoutProp w cv).1.length := (List.getElem?_eq_some_iff.1 hr2).1
  have he : Extends (layoutProp w cv).1 (layout w cv).heap :=
    (extends_foldl _ (extends_allocDecl _) cv.dict ((layoutProp w cv).1, [])).trans
      (extends_foldl _ (extends_allocAcc (w.restrictTo cv.decl.mro.tail) _ _) cv.dict ((layoutDecl w cv).1, []))
  unfold Heap.propAt
  rw [he.get hlt]
  exact (by rw [show (layoutProp w cv).1[r]? = some (Obj.prop p) from hr2])

theorem propAt_lt {h : Heap} {r : Ref} {p : PropV} (hp : h.propAt r = some p) : r < h.length := by
  unfold Heap.propAt at hp
  cases hr : h[r]? with
  | none => simp [hr] at hp
  | some o => exact (List.getElem?_eq_some_iff.1 hr).1

theorem findClass_name {w : World} {c : Name} {cr : ClassRec} (h : w.findClass c = some cr) : cr.pure.decl.name = c := by
  unfold World.findClass at h
  have := List.find?_some h
  simpa using this

/-- what the records of the classes say about their module properties is true of the heap: every Property entry of
a class' `__dict__` has its object, and `propertyDict` shows exactly the properties computed at value level -/
def MInv (w : World) : Prop :=
  ∀ c cr, w.findClass c = some cr →
    KeysNodup cr.pure.dict ∧
    (∀ k p, (k, EntryV.prop p) ∈ cr.pure.dict → ∃ r, aget? cr.propRef k = some r ∧ w.heap.propAt r = some p) ∧
    cr.propDict.map (fun nr => (nr.1, w.heap.propAt nr.2)) = cr.pure.props.map (fun ks => (ks.1, some ks.2.val))

theorem filterMap_views {α β γ : Type} (l : List α) (f : α → Option (Name × β)) (key : α → Name) (g : β → γ)
    (val : α → γ) (h : ∀ x ∈ l, ∃ r, f x = some (key x, r) ∧ g r = val x) :
    (l.filterMap f).map (fun nr => (nr.1, g nr.2)) = l.map (fun x => (key x, val x)) := by
  induction l with
  | nil => rfl
  | cons x l ih =>
    obtain ⟨r, hr1, hr2⟩ := h x List.mem_cons_self
    simp only [List.filterMap_cons, hr1, List.map_cons, hr2]
    rw [ih (fun y hy => h y (List.mem_cons_of_mem _ hy))]

/-- the invariant is kept by everything that leaves the class records and the objects of the classes alone -/
theorem mInv_transfer {w w' : World} (hcls : ∀ c, w'.findClass c = w.findClass c)
    (hcells : ∀ c r, r ∈ reach w (.cls c) → w'.heap[r]? = w.heap[r]?) (h : MInv w) : MInv w' := by
  intro c cr hfind
  rw [hcls] at hfind
  obtain ⟨h1, h2, h3⟩ := h c cr hfind
  refine ⟨h1, ?_, ?_⟩
  · intro k p hkp
    obtain ⟨r, hr1, hr2⟩ := h2 k p hkp
    refine ⟨r, hr1, ?_⟩
    rw [propAt_congr (hcells c r (root_reach (propRef_root hfind hr1) (self_mem_reachAcc _ _)))]
    exact hr2
  · rw [← h3]
    apply List.map_congr_left
    intro nr hnr
    rw [propAt_congr (hcells c nr.2 (root_reach (propDict_root hfind hnr) (self_mem_reachAcc _ _)))]

theorem mem_chainOf {w : World} {d : ClassDecl} {cv : ClassV} (h : cv ∈ chainOf w d) :
    ∃ n cr, w.findClass n = some cr ∧ cr.pure = cv := by
  unfold chainOf at h
  obtain ⟨n, _, hn⟩ := List.mem_filterMap.1 h
  cases hc : w.findClass n with
  | none => simp [hc] at hn
  | some cr => exact ⟨n, cr, hc, by simpa [hc] using hn⟩

theorem mInv_define (T : Tables) (w : World) (d : ClassDecl) (hadm : w.findClass d.name = none)
    (hn : KeysNodup d.decls) (hb : Bounded w) (h : MInv w) : MInv (defineClass T w d) := by
  have hname : (pureDefine T (chainOf w d) d).decl.name = d.name := by rw [pureDefine_decl]
  obtain ⟨hdict, _, hfrom⟩ := pureDefine_props T (chainOf w d) d hn
  unfold defineClass
  generalize hcv : pureDefine T (chainOf w d) d = cv at hname hdict hfrom
  have hext := extends_layout w cv
  intro c cr hfind
  by_cases hc : c = d.name
  · subst hc
    have hnew := findClass_layout_new w cv (by rw [hname]; exact hadm)
    rw [hname] at hnew
    rw [hnew] at hfind
    cases hfind
    have hlook := layoutProp_lookup w cv hdict
    refine ⟨hdict, hlook, ?_⟩
    show List.map (fun nr => (nr.1, (layout w cv).heap.propAt nr.2))
      (cv.props.filterMap (propertyRef w cv.decl.name (layoutProp w cv).2)) = _
    apply filterMap_views cv.props _ (fun ks => ks.1) _ (fun ks => some ks.2.val)
    intro ks hks
    obtain ⟨od, hod, ho, hm⟩ := hfrom ks hks
    simp only [List.mem_cons] at hod
    rcases hod with rfl | hod
    · -- the Property object lies in the `__dict__` of the new class
      obtain ⟨r, hr1, hr2⟩ := hlook ks.1 ks.2.val hm
      refine ⟨r, ?_, hr2⟩
      unfold propertyRef
      simp only at ho
      rw [hname, ← ho]
      simp [hr1]
    · -- it lies in the `__dict__` of a class of the chain
      obtain ⟨cv', hcv', rfl⟩ := List.mem_map.1 hod
      obtain ⟨n, cr', hfn, rfl⟩ := mem_chainOf hcv'
      have hnn := findClass_name hfn
      simp only at ho hm
      obtain ⟨r, hr1, hr2⟩ := (h n cr' hfn).2.1 ks.1 ks.2.val hm
      have hne : n ≠ d.name := fun e => by rw [e, hadm] at hfn; cases hfn
      refine ⟨r, ?_, ?_⟩
      · unfold propertyRef
        rw [hname, ← ho, hnn]
        have : (n == d.name) = false := by simpa using hne
        simp [this, hfn, hr1]
      · rw [propAt_congr (hext.get (propAt_lt hr2))]; exact hr2
  · rw [findClass_layout_ne w cv c (by rw [hname]; exact hc)] at hfind
    obtain ⟨h1, h2, h3⟩ := h c cr hfind
    refine ⟨h1, ?_, ?_⟩
    · intro k p hkp
      obtain ⟨r, hr1, hr2⟩ := h2 k p hkp
      exact ⟨r, hr1, by rw [propAt_congr (hext.get (propAt_lt hr2))]; exact hr2⟩
    · rw [← h3]
      apply List.map_congr_left
      intro nr hnr
      rw [propAt_congr (hext.get (hb (.cls c) nr.2 (root_reach (propDict_root hfind hnr) (self_mem_reachAcc _ _))))]

theorem mInv_step (T : Tables) (w : World) (op : Op) (hadm : Admissible w op) (hwf : WellFormed op) (hb : Bounded w)
    (hs : Separated w) (h : MInv w) : MInv (step T w op) := by
  cases op with
  | define d => exact mInv_define T w d hadm hwf hb h
  | inst n c cfg =>
    exact mInv_transfer (w := w) (w' := step T w (.inst n c cfg)) (fun _ => rfl)
      (fun c' r hr => (extends_instantiate T w n c cfg).get (hb _ r hr)) h
  | setprop i p pa k v =>
    have hrec := (records_mutation T w (.setprop i p pa k v) (Or.inl ⟨i, p, pa, k, v, rfl⟩)).1
    exact mInv_transfer (w := w) (w' := step T w (.setprop i p pa k v)) (fun c' => by simp only [World.findClass, hrec])
      (fun c' r hr => class_cell_step T w _ hb hs c' r hr) h
  | addEnum i p m =>
    have hrec := (records_mutation T w (.addEnum i p m) (Or.inr ⟨i, p, m, rfl⟩)).1
    exact mInv_transfer (w := w) (w' := step T w (.addEnum i p m)) (fun c' => by simp only [World.findClass, hrec])
      (fun c' r hr => class_cell_step T w _ hb hs c' r hr) h

end Frappy.Klass
