import FrappyProofs.Lemmas.Lifecycle
/-
Helper lemmas for C15: the invariant of `SecNode.get_module` (one-time initialisation with re-entrancy through
attachments) and of the loops around it.
-/
namespace Frappy.Proofs.LifecycleInit
open Frappy.Lifecycle Frappy.Spec.C15 Frappy.Proofs.Lifecycle

def isInitEv : Ev → Bool
  | .early _ => true
  | .init _ => true
  | .get _ _ _ => true
  | _ => false

/-- `AttachedReady` in a form that follows the growth of the log -/
def ARfrom (seen : List Ev) : List Ev → Prop
  | [] => True
  | e :: rest => (∀ d, gotten e = some d → Ev.init d ∈ seen) ∧ ARfrom (seen ++ [e]) rest

theorem ARfrom_snoc (e : Ev) : ∀ (l seen : List Ev),
    ARfrom seen (l ++ [e]) ↔ ARfrom seen l ∧ (∀ d, gotten e = some d → Ev.init d ∈ seen ++ l) := by
  intro l
  induction l with
  | nil => intro seen; simp [ARfrom]
  | cons a l ih =>
    intro seen
    simp only [List.cons_append, ARfrom, ih (seen ++ [a]), List.append_assoc, List.singleton_append]
    exact and_assoc.symm

theorem ARfrom_append (l2 : List Ev) (h2 : ∀ e ∈ l2, gotten e = none) : ∀ (l1 seen : List Ev),
    ARfrom seen l1 → ARfrom seen (l1 ++ l2) := by
  induction l2 with
  | nil => intro l1 seen h; simpa using h
  | cons a l2 ih =>
    intro l1 seen h
    have : l1 ++ a :: l2 = (l1 ++ [a]) ++ l2 := by simp
    rw [this]
    apply ih (fun e he => h2 e (by simp [he]))
    rw [ARfrom_snoc]
    exact ⟨h, by intro d hd; rw [h2 a (by simp)] at hd; cases hd⟩

theorem ARfrom_attached : ∀ (l seen : List Ev), ARfrom seen l →
    ∀ i, ∀ d ∈ ((l[i]?).bind gotten).toList, Ev.init d ∈ seen ++ l.take i := by
  intro l
  induction l with
  | nil => intro seen _ i d hd; simp at hd
  | cons a l ih =>
    intro seen h i d hd
    cases i with
    | zero =>
      simp only [List.getElem?_cons_zero, Option.bind_some, Option.mem_toList] at hd
      simpa using h.1 d hd
    | succ i =>
      simp only [List.getElem?_cons_succ] at hd
      have := ih (seen ++ [a]) h.2 i d hd
      simpa using this

theorem attachedReady_of_ARfrom (l : List Ev) (h : ARfrom [] l) : AttachedReady l := by
  intro i _ d hd
  simpa using ARfrom_attached l [] h i d hd

theorem neverAfter_snoc (p q : Ev → Bool) (l : List Ev) (e : Ev) :
    NeverAfter p q (l ++ [e]) ↔ NeverAfter p q l ∧ ∀ a ∈ l, ¬ (p a = true ∧ q e = true) := by
  unfold NeverAfter
  rw [List.pairwise_append]
  simp

/-- the invariant of the initialisation phase -/
structure Inv (st : St) : Prop where
  nd : (st.stack ++ st.inited).Nodup
  shape : ∀ e ∈ st.log, isInitEv e = true
  earlyIn : ∀ x, x ∈ st.stack ∨ x ∈ st.inited → st.log.count (Ev.early x) = 1
  earlyOut : ∀ x, x ∉ st.stack → x ∉ st.inited → st.log.count (Ev.early x) = 0
  initFresh : ∀ x, x ∉ st.stack → x ∉ st.inited → st.log.count (Ev.init x) = 0
  initLe : ∀ x ∈ st.inited, st.log.count (Ev.init x) ≤ 1
  initOk : ∀ x ∈ st.inited, x ∉ st.failed → st.log.count (Ev.init x) = 1
  order : ∀ x, NeverAfter (· == Ev.init x) (· == Ev.early x) st.log
  ar : ARfrom [] st.log
  failedErr : ∀ x ∈ st.failed, st.errors ≠ []
  modsNd : st.modules.Nodup

theorem Inv.same {st st' : St} (h : Inv st) (h1 : st'.stack = st.stack) (h2 : st'.inited = st.inited)
    (h3 : st'.log = st.log) (h4 : st'.failed = st.failed) (h5 : st'.errors = [] → st.errors = [])
    (h6 : st'.modules.Nodup) : Inv st' where
  nd := by rw [h1, h2]; exact h.nd
  shape := by rw [h3]; exact h.shape
  earlyIn := by rw [h1, h2, h3]; exact h.earlyIn
  earlyOut := by rw [h1, h2, h3]; exact h.earlyOut
  initFresh := by rw [h1, h2, h3]; exact h.initFresh
  initLe := by rw [h2, h3]; exact h.initLe
  initOk := by rw [h2, h3, h4]; exact h.initOk
  order := by rw [h3]; exact h.order
  ar := by rw [h3]; exact h.ar
  failedErr := by
    intro x hx hn
    rw [h4] at hx
    exact h.failedErr x hx (h5 hn)
  modsNd := h6

/-- how a piece of the initialisation phase changes the state; `P`: the modules whose `init` count is untouched -/
structure Tr (P : Name → Prop) (st st' : St) : Prop where
  frame : ∀ x, P x → st'.log.count (Ev.init x) = st.log.count (Ev.init x)
  inited : ∀ x ∈ st.inited, x ∈ st'.inited
  errs : st'.errors = [] → st.errors = []
  oof : st.oof = true → st'.oof = true
  mods : ∀ x ∈ st.modules, x ∈ st'.modules

theorem Tr.refl (P : Name → Prop) (st : St) : Tr P st st :=
  ⟨fun _ _ => rfl, fun _ h => h, fun h => h, fun h => h, fun _ h => h⟩

theorem Tr.trans {P : Name → Prop} {a b c : St} (h1 : Tr P a b) (h2 : Tr P b c) : Tr P a c :=
  ⟨fun x hx => (h2.frame x hx).trans (h1.frame x hx), fun x hx => h2.inited x (h1.inited x hx),
   fun h => h1.errs (h2.errs h), fun h => h2.oof (h1.oof h), fun x hx => h2.mods x (h1.mods x hx)⟩

theorem Tr.weaken {P Q : Name → Prop} {a b : St} (h : Tr P a b) (hq : ∀ x, Q x → P x) : Tr Q a b :=
  ⟨fun x hx => h.frame x (hq x hx), h.inited, h.errs, h.oof, h.mods⟩

theorem Tr.same {P : Name → Prop} {st st' : St} (h3 : st'.log = st.log) (h2 : st'.inited = st.inited)
    (h5 : st'.errors = [] → st.errors = []) (h7 : st.oof = true → st'.oof = true)
    (h8 : ∀ x ∈ st.modules, x ∈ st'.modules) : Tr P st st' :=
  ⟨fun _ _ => by rw [h3], fun x hx => by rw [h2]; exact hx, h5, h7, h8⟩

/-! ### growth of the log -/

theorem mem_of_count_eq_one {l : List Ev} {e : Ev} (h : l.count e = 1) : e ∈ l :=
  List.count_pos_iff.mp (by omega)

theorem Inv.emit_get {st : St} (h : Inv st) (u : Name) (a : String) (d : Name) (hd : Ev.init d ∈ st.log) :
    Inv (emit st (Ev.get u a d)) where
  nd := h.nd
  shape := by
    intro e he
    simp only [emit, List.mem_append, List.mem_singleton] at he
    rcases he with he | rfl
    · exact h.shape e he
    · rfl
  earlyIn := by intro x hx; simpa [emit, List.count_append] using h.earlyIn x hx
  earlyOut := by intro x h1 h2; simpa [emit, List.count_append] using h.earlyOut x h1 h2
  initFresh := by intro x h1 h2; simpa [emit, List.count_append] using h.initFresh x h1 h2
  initLe := by intro x hx; simpa [emit, List.count_append] using h.initLe x hx
  initOk := by intro x hx hf; simpa [emit, List.count_append] using h.initOk x hx hf
  order := by
    intro x
    simp only [emit]
    rw [neverAfter_snoc]
    exact ⟨h.order x, by intro a _ hh; simp at hh⟩
  ar := by
    simp only [emit]
    rw [ARfrom_snoc]
    refine ⟨h.ar, ?_⟩
    intro d' hd'
    simp only [gotten, Option.some.injEq] at hd'
    subst hd'
    simpa using hd
  failedErr := h.failedErr
  modsNd := h.modsNd

theorem Inv.emit_init {st : St} (h : Inv st) (m : Name) (hm : m ∈ st.stack) : Inv (emit st (Ev.init m)) where
  nd := h.nd
  shape := by
    intro e he
    simp only [emit, List.mem_append, List.mem_singleton] at he
    rcases he with he | rfl
    · exact h.shape e he
    · rfl
  earlyIn := by intro x hx; simpa [emit, List.count_append] using h.earlyIn x hx
  earlyOut := by intro x h1 h2; simpa [emit, List.count_append] using h.earlyOut x h1 h2
  initFresh := by
    intro x h1 h2
    have hne : m ≠ x := fun e => h1 (e ▸ hm)
    simpa [emit, List.count_append, hne] using h.initFresh x h1 h2
  initLe := by
    intro x hx
    have hne : m ≠ x := by
      intro e; subst e
      exact (List.nodup_append.mp h.nd).2.2 m hm m hx rfl
    simpa [emit, List.count_append, hne] using h.initLe x hx
  initOk := by
    intro x hx hf
    have hne : m ≠ x := by
      intro e; subst e
      exact (List.nodup_append.mp h.nd).2.2 m hm m hx rfl
    simpa [emit, List.count_append, hne] using h.initOk x hx hf
  order := by
    intro x
    simp only [emit]
    rw [neverAfter_snoc]
    exact ⟨h.order x, by intro a _ hh; simp at hh⟩
  ar := by
    simp only [emit]
    rw [ARfrom_snoc]
    exact ⟨h.ar, by intro d hd; simp [gotten] at hd⟩
  failedErr := h.failedErr
  modsNd := h.modsNd

/-- `get_module` pushes a fresh module on the stack and its earlyInit starts -/
theorem Inv.push_early {st : St} (h : Inv st) (m : Name) (h1 : m ∉ st.stack) (h2 : m ∉ st.inited) :
    Inv (emit { st with stack := m :: st.stack } (Ev.early m)) where
  nd := by
    simp only [emit, List.cons_append, List.nodup_cons, List.mem_append]
    exact ⟨fun hh => hh.elim h1 h2, h.nd⟩
  shape := by
    intro e he
    simp only [emit, List.mem_append, List.mem_singleton] at he
    rcases he with he | rfl
    · exact h.shape e he
    · rfl
  earlyIn := by
    intro x hx
    simp only [emit, List.mem_cons] at hx
    by_cases hxm : x = m
    · subst hxm
      have := h.earlyOut x h1 h2
      simp [emit, List.count_append, this]
    · have hx' : x ∈ st.stack ∨ x ∈ st.inited := by
        rcases hx with (hx | hx) | hx
        · exact absurd hx hxm
        · exact Or.inl hx
        · exact Or.inr hx
      have hne : ¬ m = x := fun e => hxm e.symm
      simp [emit, List.count_append, h.earlyIn x hx', hne]
  earlyOut := by
    intro x hx1 hx2
    simp only [emit, List.mem_cons, not_or] at hx1
    have hne : ¬ m = x := fun e => hx1.1 e.symm
    simp [emit, List.count_append, h.earlyOut x hx1.2 hx2, hne]
  initFresh := by
    intro x hx1 hx2
    simp only [emit, List.mem_cons, not_or] at hx1
    simpa [emit, List.count_append] using h.initFresh x hx1.2 hx2
  initLe := by intro x hx; simpa [emit, List.count_append] using h.initLe x hx
  initOk := by intro x hx hf; simpa [emit, List.count_append] using h.initOk x hx hf
  order := by
    intro x
    simp only [emit]
    rw [neverAfter_snoc]
    refine ⟨h.order x, ?_⟩
    intro a ha hh
    simp only [beq_iff_eq, Ev.early.injEq] at hh
    obtain ⟨rfl, rfl⟩ := hh
    have := h.initFresh m h1 h2
    rw [List.count_eq_zero] at this
    exact this ha
  ar := by
    simp only [emit]
    rw [ARfrom_snoc]
    exact ⟨h.ar, by intro d hd; simp [gotten] at hd⟩
  failedErr := h.failedErr
  modsNd := h.modsNd

/-! ### state changes that do not touch the log, the stack or the set of initialised modules -/

structure Quiet (st st' : St) : Prop where
  stack : st'.stack = st.stack
  inited : st'.inited = st.inited
  log : st'.log = st.log
  failed : st'.failed = st.failed
  errs : st'.errors = [] → st.errors = []
  oof : st.oof = true → st'.oof = true
  mods : ∀ x ∈ st.modules, x ∈ st'.modules
  modsNd : st.modules.Nodup → st'.modules.Nodup

theorem Quiet.refl (st : St) : Quiet st st := ⟨rfl, rfl, rfl, rfl, id, id, fun _ h => h, id⟩

theorem Quiet.trans {a b c : St} (h1 : Quiet a b) (h2 : Quiet b c) : Quiet a c :=
  ⟨h2.stack.trans h1.stack, h2.inited.trans h1.inited, h2.log.trans h1.log, h2.failed.trans h1.failed,
   fun h => h1.errs (h2.errs h), fun h => h2.oof (h1.oof h), fun x hx => h2.mods x (h1.mods x hx),
   fun h => h2.modsNd (h1.modsNd h)⟩

theorem Quiet.inv {st st' : St} (q : Quiet st st') (h : Inv st) : Inv st' :=
  h.same q.stack q.inited q.log q.failed q.errs (q.modsNd h.modsNd)

theorem Quiet.tr {st st' : St} (q : Quiet st st') (P : Name → Prop) : Tr P st st' :=
  Tr.same q.log q.inited q.errs q.oof q.mods

theorem quiet_addErr (st : St) (e : Err) : Quiet st (addErr st e) :=
  ⟨rfl, rfl, rfl, rfl, by intro h; simp [addErr] at h, id, fun _ h => h, id⟩

theorem quiet_addEdge (st : St) (u d : Name) : Quiet st (addEdge st u d) := by
  unfold addEdge
  split
  · exact Quiet.refl st
  · exact ⟨rfl, rfl, rfl, rfl, id, id, fun _ h => h, id⟩

theorem quiet_addModule (st : St) (c : ModCfg) : Quiet st (addModule st c) := by
  refine ⟨rfl, rfl, rfl, rfl, id, id, ?_, ?_⟩
  · intro x hx
    simp only [addModule]
    split
    · exact hx
    · exact List.mem_append_left _ hx
  · intro hnd
    simp only [addModule]
    split
    · exact hnd
    · rename_i hc
      rw [List.nodup_append]
      refine ⟨hnd, by simp, ?_⟩
      intro a ha b hb hab
      simp only [List.mem_singleton] at hb
      subst hb; subst hab
      exact hc (by simpa using ha)

theorem quiet_hasIoCreate (st : St) (c : ModCfg) : Quiet st (hasIoCreate st c).1 := by
  unfold hasIoCreate
  split
  · split
    · exact Quiet.refl st
    · have q := quiet_addModule st (autoIo (c.name ++ "_io"))
      exact ⟨q.stack, q.inited, q.log, q.failed, q.errs, q.oof, q.mods, q.modsNd⟩
  · exact Quiet.refl st

theorem quiet_getModuleInstance (st : St) (name : Name) : Quiet st (getModuleInstance st name).1 := by
  unfold getModuleInstance
  split
  · exact Quiet.refl st
  · split
    · exact Quiet.refl st
    · split
      · exact quiet_addErr st _
      · exact (quiet_hasIoCreate st _).trans (quiet_addModule _ _)

/-! ### `get_module` -/

/-- what `get_module` guarantees (to itself, for the re-entrant calls through attachments) -/
def GSpec (rec : St → Name → St × Res) : Prop :=
  ∀ st name, Inv st →
    Inv (rec st name).1 ∧ (rec st name).1.stack = st.stack ∧ Tr (· ∈ st.stack) st (rec st name).1 ∧
    ∀ m, (rec st name).2 = Res.ok m → m ∈ (rec st name).1.inited

/-- a step of an initialisation body keeps the invariant, the stack and the `init` counts of the stack -/
def StepOK (f : Step) : Prop :=
  ∀ st, Inv st → Inv (f st).1 ∧ (f st).1.stack = st.stack ∧ Tr (· ∈ st.stack) st (f st).1

theorem resolve_ok {rec : St → Name → St × Res} (hrec : GSpec rec) (u : Name) (att : Att) (st : St) (hi : Inv st) :
    Inv (resolve rec u att st).1 ∧ (resolve rec u att st).1.stack = st.stack ∧
    Tr (· ∈ st.stack) st (resolve rec u att st).1 ∧
    ∀ d, (resolve rec u att st).2 = RRes.mod d → Ev.init d ∈ (resolve rec u att st).1.log := by
  unfold resolve
  cases ht : att.target with
  | none => exact ⟨hi, rfl, Tr.refl _ _, by intro d h; cases h⟩
  | some t =>
    obtain ⟨i1, s1, t1, r1⟩ := hrec st t hi
    cases hr : rec st t with
    | mk st1 res =>
      rw [hr] at i1 s1 t1 r1
      simp only [hr]
      cases res with
      | raised cls => exact ⟨i1, s1, t1, by intro d h; cases h⟩
      | none => exact ⟨i1, s1, t1, by intro d h; cases h⟩
      | ok d =>
        simp only
        split
        · split
          · exact ⟨i1, s1, t1, by intro d h; cases h⟩
          · rename_i hk hf
            have q := quiet_addEdge st1 u d
            refine ⟨q.inv i1, q.stack.trans s1, t1.trans (q.tr _), ?_⟩
            intro d' hd'
            simp only [RRes.mod.injEq] at hd'
            subst hd'
            rw [q.log]
            have hdin : d ∈ st1.inited := r1 d rfl
            have hnf : d ∉ st1.failed := by simpa using hf
            exact mem_of_count_eq_one (i1.initOk d hdin hnf)
        · exact ⟨i1, s1, t1, by intro d h; cases h⟩

theorem touch_ok {rec : St → Name → St × Res} (hrec : GSpec rec) (c : ModCfg) (a : String) : StepOK (touch rec c a) := by
  intro st hi
  unfold touch
  cases findAtt c a with
  | none => exact ⟨hi, rfl, Tr.refl _ _⟩
  | some att =>
    obtain ⟨i1, s1, t1, r1⟩ := resolve_ok hrec c.name att st hi
    cases hr : resolve rec c.name att st with
    | mk st1 res =>
      rw [hr] at i1 s1 t1 r1
      simp only [hr]
      cases res with
      | mod d =>
        refine ⟨i1.emit_get c.name a d (r1 d rfl), s1, t1.trans ?_⟩
        exact ⟨by intro x _; simp [emit, List.count_append], fun _ h => h, id, id, fun _ h => h⟩
      | nothing => exact ⟨i1, s1, t1⟩
      | raised cls => exact ⟨i1, s1, t1⟩

theorem resolveStep_ok {rec : St → Name → St × Res} (hrec : GSpec rec) (c : ModCfg) (att : Att) :
    StepOK (resolveStep rec c att) := by
  intro st hi
  unfold resolveStep
  obtain ⟨i1, s1, t1, _⟩ := resolve_ok hrec c.name att st hi
  cases hr : resolve rec c.name att st with
  | mk st1 res =>
    rw [hr] at i1 s1 t1
    cases res <;> exact ⟨i1, s1, t1⟩

theorem failIf_ok (b : Bool) (cls : String) : StepOK (failIf b cls) := by
  intro st hi
  exact ⟨hi, rfl, Tr.refl _ _⟩

theorem hasIoCheck_ok {rec : St → Name → St × Res} (hrec : GSpec rec) (c : ModCfg) : StepOK (hasIoCheck rec c) := by
  intro st hi
  unfold hasIoCheck
  split
  · cases findAtt c "io" with
    | none => exact ⟨hi, rfl, Tr.refl _ _⟩
    | some att =>
      obtain ⟨i1, s1, t1, _⟩ := resolve_ok hrec c.name att st hi
      cases hr : resolve rec c.name att st with
      | mk st1 res =>
        rw [hr] at i1 s1 t1
        simp only [hr]
        cases res <;> exact ⟨i1, s1, t1⟩
  · exact ⟨hi, rfl, Tr.refl _ _⟩

theorem quiet_groups (st : St) (g : List (Name × Name)) : Quiet st { st with groups := g } :=
  ⟨rfl, rfl, rfl, rfl, id, id, fun _ h => h, id⟩

theorem registerPoll_ok {rec : St → Name → St × Res} (hrec : GSpec rec) (c : ModCfg) :
    StepOK (registerPoll rec c) := by
  intro st hi
  unfold registerPoll
  split
  · split
    · cases findAtt c "io" with
      | none => exact ⟨hi, rfl, Tr.refl _ _⟩
      | some att =>
        obtain ⟨i1, s1, t1, _⟩ := resolve_ok hrec c.name att st hi
        cases hr : resolve rec c.name att st with
        | mk st1 res =>
          rw [hr] at i1 s1 t1
          simp only [hr]
          cases res with
          | mod d =>
            have q := quiet_groups st1 (st1.groups ++ [(d, c.name)])
            exact ⟨q.inv i1, q.stack.trans s1, t1.trans (q.tr _)⟩
          | nothing => exact ⟨i1, s1, t1⟩
          | raised cls => exact ⟨i1, s1, t1⟩
    · have q := quiet_groups st (st.groups ++ [(c.name, c.name)])
      exact ⟨q.inv hi, q.stack, q.tr _⟩
  · exact ⟨hi, rfl, Tr.refl _ _⟩

theorem seq_ok : ∀ (fs : List Step), (∀ f ∈ fs, StepOK f) → StepOK (seq fs) := by
  intro fs
  induction fs with
  | nil => intro _ st hi; exact ⟨hi, rfl, Tr.refl _ _⟩
  | cons f fs ih =>
    intro hall st hi
    obtain ⟨i1, s1, t1⟩ := hall f (by simp) st hi
    simp only [seq]
    cases hf : f st with
    | mk st1 e =>
      rw [hf] at i1 s1 t1
      cases e with
      | some e => exact ⟨i1, s1, t1⟩
      | none =>
        obtain ⟨i2, s2, t2⟩ := ih (fun g hg => hall g (by simp [hg])) st1 i1
        simp only
        refine ⟨i2, s2.trans s1, t1.trans ?_⟩
        exact t2.weaken (by intro x hx; rw [s1]; exact hx)

theorem seq_append (xs ys : List Step) (st : St) :
    seq (xs ++ ys) st = match seq xs st with
      | (st', some e) => (st', some e)
      | (st', none) => seq ys st' := by
  induction xs generalizing st with
  | nil => simp [seq]
  | cons f fs ih =>
    simp only [List.cons_append, seq]
    cases f st with
    | mk st1 e =>
      cases e with
      | some e => rfl
      | none => exact ih st1

/-! ### the body of `get_module` for one module -/

def stepsA (rec : St → Name → St × Res) (c : ModCfg) : List Step :=
  c.touchEarly.map (touch rec c) ++ [failIf c.failEarly "ValueError"]

def stepsB (rec : St → Name → St × Res) (c : ModCfg) : List Step :=
  [hasIoCheck rec c, registerPoll rec c] ++ c.touchInit.map (touch rec c) ++ [failIf c.failInit "ValueError"] ++
    c.atts.map (resolveStep rec c)

theorem initBody_eq (rec : St → Name → St × Res) (c : ModCfg) (st : St) :
    initBody rec c st = seq (stepsA rec c ++ emitStep (Ev.init c.name) :: stepsB rec c) (emit st (Ev.early c.name)) := by
  simp [initBody, stepsA, stepsB, seq, emitStep, List.append_assoc]

theorem stepsA_ok {rec : St → Name → St × Res} (hrec : GSpec rec) (c : ModCfg) : ∀ f ∈ stepsA rec c, StepOK f := by
  intro f hf
  simp only [stepsA, List.mem_append, List.mem_map, List.mem_singleton] at hf
  rcases hf with ⟨a, _, rfl⟩ | rfl
  · exact touch_ok hrec c a
  · exact failIf_ok _ _

theorem stepsB_ok {rec : St → Name → St × Res} (hrec : GSpec rec) (c : ModCfg) : ∀ f ∈ stepsB rec c, StepOK f := by
  intro f hf
  simp only [stepsB, List.mem_append, List.mem_map, List.mem_singleton, List.mem_cons, List.not_mem_nil,
    or_false] at hf
  rcases hf with (((rfl | rfl) | ⟨a, _, rfl⟩) | rfl) | ⟨a, _, rfl⟩
  · exact hasIoCheck_ok hrec c
  · exact registerPoll_ok hrec c
  · exact touch_ok hrec c a
  · exact failIf_ok _ _
  · exact resolveStep_ok hrec c a

theorem body_ok {rec : St → Name → St × Res} (hrec : GSpec rec) (c : ModCfg) (st1 : St) (hi : Inv st1)
    (hm : c.name ∈ st1.stack) (h0 : st1.log.count (Ev.init c.name) = 0) :
    Inv (seq (stepsA rec c ++ emitStep (Ev.init c.name) :: stepsB rec c) st1).1 ∧
    (seq (stepsA rec c ++ emitStep (Ev.init c.name) :: stepsB rec c) st1).1.stack = st1.stack ∧
    Tr (fun x => x ∈ st1.stack ∧ x ≠ c.name) st1 (seq (stepsA rec c ++ emitStep (Ev.init c.name) :: stepsB rec c) st1).1 ∧
    (seq (stepsA rec c ++ emitStep (Ev.init c.name) :: stepsB rec c) st1).1.log.count (Ev.init c.name) ≤ 1 ∧
    ((seq (stepsA rec c ++ emitStep (Ev.init c.name) :: stepsB rec c) st1).2 = none →
      (seq (stepsA rec c ++ emitStep (Ev.init c.name) :: stepsB rec c) st1).1.log.count (Ev.init c.name) = 1) := by
  rw [seq_append]
  obtain ⟨ia, sa, ta⟩ := seq_ok _ (stepsA_ok hrec c) st1 hi
  cases hA : seq (stepsA rec c) st1 with
  | mk stA e =>
    rw [hA] at ia sa ta
    cases e with
    | some e =>
      have hc : stA.log.count (Ev.init c.name) = 0 := (ta.frame c.name hm).trans h0
      exact ⟨ia, sa, ta.weaken (fun x hx => hx.1), by simp only; omega, by intro h; cases h⟩
    | none =>
      simp only [seq, emitStep]
      have hmA : c.name ∈ stA.stack := by rw [sa]; exact hm
      have hcA : stA.log.count (Ev.init c.name) = 0 := (ta.frame c.name hm).trans h0
      have iB := ia.emit_init c.name hmA
      obtain ⟨ib, sb, tb⟩ := seq_ok _ (stepsB_ok hrec c) _ iB
      have hcB : (emit stA (Ev.init c.name)).log.count (Ev.init c.name) = 1 := by
        simp [emit, List.count_append, hcA]
      have hfin := (tb.frame c.name hmA).trans hcB
      refine ⟨ib, sb.trans sa, ?_, Nat.le_of_eq hfin, fun _ => hfin⟩
      refine (ta.weaken (fun x hx => hx.1)).trans (Tr.trans (b := emit stA (Ev.init c.name)) ?_ ?_)
      · refine ⟨?_, fun _ h => h, id, id, fun _ h => h⟩
        intro x hx
        have hne : ¬ c.name = x := fun e => hx.2 e.symm
        simp [emit, List.count_append, hne]
      · exact tb.weaken (fun x hx => by
          show x ∈ (emit stA (Ev.init c.name)).stack
          simp only [emit]; rw [sa]; exact hx.1)

@[simp] theorem nf_log (st : St) (m : Name) (exc : Option String) : (noteFailure st m exc).log = st.log := by
  cases exc <;> rfl
@[simp] theorem nf_stack (st : St) (m : Name) (exc : Option String) : (noteFailure st m exc).stack = st.stack := by
  cases exc <;> rfl
@[simp] theorem nf_inited (st : St) (m : Name) (exc : Option String) : (noteFailure st m exc).inited = st.inited := by
  cases exc <;> rfl
@[simp] theorem nf_modules (st : St) (m : Name) (exc : Option String) : (noteFailure st m exc).modules = st.modules := by
  cases exc <;> rfl
@[simp] theorem nf_oof (st : St) (m : Name) (exc : Option String) : (noteFailure st m exc).oof = st.oof := by
  cases exc <;> rfl

theorem nf_errs (st : St) (m : Name) (exc : Option String) (h : (noteFailure st m exc).errors = []) :
    st.errors = [] ∧ exc = none := by
  cases exc with
  | none => exact ⟨h, rfl⟩
  | some e => simp [noteFailure] at h

theorem nf_failed (st : St) (m : Name) (exc : Option String) (x : Name) (h : x ∈ (noteFailure st m exc).failed) :
    x ∈ st.failed ∨ (x = m ∧ exc ≠ none) := by
  cases exc with
  | none => exact Or.inl h
  | some e =>
    simp only [noteFailure, List.mem_append, List.mem_singleton] at h
    rcases h with h | h
    · exact Or.inl h
    · exact Or.inr ⟨h, by simp⟩

theorem nf_failed_mono (st : St) (m : Name) (exc : Option String) (x : Name) (h : x ∈ st.failed) :
    x ∈ (noteFailure st m exc).failed := by
  cases exc with
  | none => exact h
  | some e => simp [noteFailure, h]

theorem nf_failed_self (st : St) (m : Name) (e : String) : m ∈ (noteFailure st m (some e)).failed := by
  simp [noteFailure]

theorem Inv.finish {st : St} (h : Inv st) (m : Name) (s0 : List Name) (hst : st.stack = m :: s0)
    (exc : Option String) (hle : st.log.count (Ev.init m) ≤ 1)
    (hok : exc = none → st.log.count (Ev.init m) = 1) : Inv (finishInit st m exc) := by
  have hnd := h.nd
  rw [hst] at hnd
  simp only [List.cons_append, List.nodup_cons, List.mem_append, not_or] at hnd
  have hmem : ∀ x, (x ∈ s0 ∨ x ∈ st.inited ++ [m]) ↔ (x ∈ st.stack ∨ x ∈ st.inited) := by
    intro x
    rw [hst]
    simp only [List.mem_append, List.mem_cons, List.not_mem_nil, or_false]
    constructor
    · rintro (h | h | h)
      · exact Or.inl (Or.inr h)
      · exact Or.inr h
      · exact Or.inl (Or.inl h)
    · rintro ((h | h) | h)
      · exact Or.inr (Or.inr h)
      · exact Or.inl h
      · exact Or.inr (Or.inl h)
  refine ⟨?_, ?_, ?_, ?_, ?_, ?_, ?_, ?_, ?_, ?_, ?_⟩
  · simp only [finishInit, nf_stack, nf_inited, hst, List.erase_cons_head]
    rw [← List.append_assoc, List.nodup_append]
    refine ⟨hnd.2, by simp, ?_⟩
    intro a ha b hb hab
    simp only [List.mem_singleton] at hb
    subst hb; subst hab
    rcases List.mem_append.mp ha with ha | ha
    · exact hnd.1.1 ha
    · exact hnd.1.2 ha
  · simpa [finishInit] using h.shape
  · intro x hx
    have : x ∈ st.stack ∨ x ∈ st.inited := (hmem x).mp (by simpa [finishInit, hst] using hx)
    simpa [finishInit] using h.earlyIn x this
  · intro x h1 h2
    have h12 : ¬ (x ∈ st.stack ∨ x ∈ st.inited) := by
      intro hh
      rcases (hmem x).mpr hh with hh | hh
      · exact h1 (by simpa [finishInit, hst] using hh)
      · exact h2 (by simpa [finishInit] using hh)
    simpa [finishInit] using h.earlyOut x (fun hh => h12 (Or.inl hh)) (fun hh => h12 (Or.inr hh))
  · intro x h1 h2
    have h12 : ¬ (x ∈ st.stack ∨ x ∈ st.inited) := by
      intro hh
      rcases (hmem x).mpr hh with hh | hh
      · exact h1 (by simpa [finishInit, hst] using hh)
      · exact h2 (by simpa [finishInit] using hh)
    simpa [finishInit] using h.initFresh x (fun hh => h12 (Or.inl hh)) (fun hh => h12 (Or.inr hh))
  · intro x hx
    simp only [finishInit, nf_inited, nf_log, List.mem_append, List.mem_singleton] at hx ⊢
    rcases hx with hx | rfl
    · exact h.initLe x hx
    · exact hle
  · intro x hx hf
    simp only [finishInit, nf_inited, nf_log, List.mem_append, List.mem_singleton] at hx hf ⊢
    rcases hx with hx | rfl
    · exact h.initOk x hx (fun hh => hf (nf_failed_mono st m exc x hh))
    · cases exc with
      | none => exact hok rfl
      | some e => exact absurd (nf_failed_self st x e) hf
  · simpa [finishInit] using h.order
  · simpa [finishInit] using h.ar
  · intro x hx hn
    simp only [finishInit] at hx hn
    obtain ⟨he, hexc⟩ := nf_errs st m exc hn
    rcases nf_failed st m exc x hx with hx | ⟨_, hne⟩
    · exact h.failedErr x hx he
    · exact hne hexc
  · simpa [finishInit] using h.modsNd

theorem getModule_spec : ∀ fuel, GSpec (getModule fuel) := by
  intro fuel
  induction fuel with
  | zero =>
    intro st name hi
    have q : Quiet st { st with oof := true } := ⟨rfl, rfl, rfl, rfl, id, fun _ => rfl, fun _ h => h, id⟩
    exact ⟨q.inv hi, q.stack, q.tr _, by intro m h; cases h⟩
  | succ fuel ih =>
    intro st name hi
    have q := quiet_getModuleInstance st name
    simp only [getModule]
    cases hI : getModuleInstance st name with
    | mk sI r =>
      rw [hI] at q
      have iI : Inv sI := q.inv hi
      cases r with
      | none => exact ⟨iI, q.stack, q.tr _, by intro m h; cases h⟩
      | raised cls => exact ⟨iI, q.stack, q.tr _, by intro m h; cases h⟩
      | ok m =>
        have q : Quiet st sI := q
        simp only
        split
        · rename_i hin
          exact ⟨iI, q.stack, q.tr _, by intro m' h; cases h; simpa using hin⟩
        · split
          · exact ⟨iI, q.stack, q.tr _, by intro m' h; cases h⟩
          · rename_i hin hstk
            have hin' : m ∉ sI.inited := by simpa using hin
            have hstk' : m ∉ sI.stack := by simpa using hstk
            rw [initBody_eq]
            have i1 := iI.push_early m hstk' hin'
            have h0 : (emit { sI with stack := m :: sI.stack } (Ev.early m)).log.count (Ev.init m) = 0 := by
              simpa [emit, List.count_append] using iI.initFresh m hstk' hin'
            obtain ⟨i2, s2, t2, hle, hok⟩ :=
              body_ok ih { cfgOf sI m with name := m } _ i1 (by simp [emit]) h0
            cases hB : seq (stepsA (getModule fuel) { cfgOf sI m with name := m } ++
                emitStep (Ev.init m) :: stepsB (getModule fuel) { cfgOf sI m with name := m })
                (emit { sI with stack := m :: sI.stack } (Ev.early m)) with
            | mk st2 exc =>
              simp only [hB] at i2 s2 t2 hle hok ⊢
              have s2' : st2.stack = m :: sI.stack := by simpa [emit] using s2
              refine ⟨i2.finish m sI.stack s2' exc hle hok, ?_, ?_, ?_⟩
              · simp [finishInit, s2', q.stack]
              · refine ⟨?_, ?_, ?_, ?_, ?_⟩
                · intro x hx
                  have hxI : x ∈ sI.stack := by rw [q.stack]; exact hx
                  have hne : x ≠ m := fun e => hstk' (e ▸ hxI)
                  have h1 := t2.frame x ⟨by simp [emit, hxI], hne⟩
                  simp only [finishInit, nf_log]
                  rw [h1, ← q.log]
                  simp [emit, List.count_append]
                · intro x hx
                  have : x ∈ st2.inited := t2.inited x (by simpa [emit, q.inited] using hx)
                  simp [finishInit, this]
                · intro h
                  simp only [finishInit] at h
                  exact q.errs (by simpa [emit] using t2.errs (nf_errs st2 m exc h).1)
                · intro h
                  have := t2.oof (by simpa [emit] using q.oof h)
                  simpa [finishInit] using this
                · intro x hx
                  have := t2.mods x (by simpa [emit] using q.mods x hx)
                  simpa [finishInit] using this
              · intro m' h
                cases h
                simp [finishInit]

/-! ### the loops around `get_module` -/

/-- top level: invariant, and nothing is being initialised -/
def Top (st : St) : Prop := Inv st ∧ st.stack = []

abbrev Mono (st st' : St) : Prop := Tr (fun _ => False) st st'

theorem top_getModule (fuel : Nat) (st : St) (name : Name) (h : Top st) :
    Top (getModule fuel st name).1 ∧ Mono st (getModule fuel st name).1 ∧
    ∀ m, (getModule fuel st name).2 = Res.ok m → m ∈ (getModule fuel st name).1.inited := by
  obtain ⟨i, s, t, r⟩ := getModule_spec fuel st name h.1
  exact ⟨⟨i, s.trans h.2⟩, t.weaken (fun _ hx => hx.elim), r⟩

theorem top_quiet {st st' : St} (q : Quiet st st') (h : Top st) : Top st' ∧ Mono st st' :=
  ⟨⟨q.inv h.1, q.stack.trans h.2⟩, q.tr _⟩

theorem top_createOne (fuel : Nat) (dyn : List ModCfg) (c : ModCfg) (st : St) (h : Top st) :
    Top (createOne fuel dyn c st).1 ∧ Mono st (createOne fuel dyn c st).1 := by
  unfold createOne
  split
  · exact ⟨h, Tr.refl _ _⟩
  · have q1 : Quiet st { st with known := upsertCfg st.known c } := ⟨rfl, rfl, rfl, rfl, id, id, fun _ h => h, id⟩
    have q2 := quiet_getModuleInstance { st with known := upsertCfg st.known c } c.name
    have q := q1.trans q2
    obtain ⟨t1, m1⟩ := top_quiet q h
    simp only
    cases hI : getModuleInstance { st with known := upsertCfg st.known c } c.name with
    | mk sI r =>
      rw [hI] at t1 m1
      cases r with
      | none => exact ⟨t1, m1⟩
      | raised cls => exact ⟨t1, m1⟩
      | ok m =>
        simp only
        split
        · obtain ⟨t2, m2, _⟩ := top_getModule fuel sI m t1
          exact ⟨t2, m1.trans m2⟩
        · exact ⟨t1, m1⟩

theorem top_createLoop (dyn : List ModCfg) (gfuel : Nat) : ∀ (n : Nat) (todos : List ModCfg) (st : St), Top st →
    Top (createLoop dyn gfuel n todos st) ∧ Mono st (createLoop dyn gfuel n todos st) := by
  intro n
  induction n with
  | zero =>
    intro todos st h
    cases todos with
    | nil => exact ⟨h, Tr.refl _ _⟩
    | cons c rest =>
      have q : Quiet st { st with oof := true } := ⟨rfl, rfl, rfl, rfl, id, fun _ => rfl, fun _ h => h, id⟩
      exact top_quiet q h
  | succ n ih =>
    intro todos st h
    cases todos with
    | nil => exact ⟨h, Tr.refl _ _⟩
    | cons c rest =>
      simp only [createLoop]
      obtain ⟨t1, m1⟩ := top_createOne gfuel dyn c st h
      cases hC : createOne gfuel dyn c st with
      | mk s1 more =>
        rw [hC] at t1 m1
        obtain ⟨t2, m2⟩ := ih (rest ++ more) s1 t1
        exact ⟨t2, m1.trans m2⟩

theorem top_initAll (fuel : Nat) : ∀ (ms : List Name) (st : St), Top st →
    Top (initAll fuel ms st) ∧ Mono st (initAll fuel ms st) ∧
    ((initAll fuel ms st).oof = false → ∀ m ∈ ms, m ∈ st.modules → m ∈ (initAll fuel ms st).inited) := by
  intro ms
  induction ms with
  | nil => intro st h; exact ⟨h, Tr.refl _ _, by intro _ m hm; cases hm⟩
  | cons a ms ih =>
    intro st h
    simp only [initAll]
    obtain ⟨t1, m1, r1⟩ := top_getModule fuel st a h
    obtain ⟨t2, m2, r2⟩ := ih (getModule fuel st a).1 t1
    refine ⟨t2, m1.trans m2, ?_⟩
    intro hoof m hm hmm
    rcases List.mem_cons.mp hm with rfl | hm
    · -- `m` is a module of the node: `get_module` returns it (unless the fuel bound was hit)
      have hres : (getModule fuel st m).2 = Res.ok m ∨ (getModule fuel st m).1.oof = true := by
        cases fuel with
        | zero => exact Or.inr rfl
        | succ f =>
          left
          have hc : st.modules.contains m = true := by simpa using hmm
          simp only [getModule, getModuleInstance, hc, if_true]
          split
          · rfl
          · split
            · rename_i hs
              rw [h.2] at hs
              simp at hs
            · rfl
      rcases hres with hres | hres
      · exact m2.inited m (r1 m hres)
      · have := m2.oof hres
        rw [this] at hoof
        cases hoof
    · exact r2 hoof m hm (m1.mods m hmm)

theorem inv_init (known : List ModCfg) : Top ({ known := known } : St) := by
  refine ⟨⟨by simp, by simp, by simp, by simp, by simp, by simp, by simp, ?_, trivial, by simp, by simp⟩, rfl⟩
  intro x
  exact List.Pairwise.nil

/-- the state of `_processCfg` before the decision to start -/
def core (cfg : Cfg) (fuel : Nat) : St :=
  let st : St := { known := cfg.mods }
  let st := createLoop cfg.dyn fuel fuel cfg.mods st
  let st := initAll fuel st.modules st
  initAll fuel st.exportL st

theorem startup_eq (cfg : Cfg) (fuel : Nat) :
    startup cfg fuel = if (core cfg fuel).errors.isEmpty then core cfg fuel else emit (core cfg fuel) Ev.exit := rfl

theorem top_core (cfg : Cfg) (fuel : Nat) : Top (core cfg fuel) := by
  unfold core
  obtain ⟨t1, _⟩ := top_createLoop cfg.dyn fuel fuel cfg.mods _ (inv_init cfg.mods)
  obtain ⟨t2, _, _⟩ := top_initAll fuel (createLoop cfg.dyn fuel fuel cfg.mods { known := cfg.mods }).modules _ t1
  exact (top_initAll fuel _ _ t2).1

end Frappy.Proofs.LifecycleInit
