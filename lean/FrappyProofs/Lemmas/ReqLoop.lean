import FrappyProofs.Lemmas.Framing
/- helper lemmas about the request loop -/
namespace Frappy.Wire
open Frappy.Spec.C07

variable {J σ : Type}

@[simp] theorem replies_append (a b : List (Out J)) : replies (a ++ b) = replies a ++ replies b := by
  simp [replies]

theorem replies_help (T : Tables) (L : Lib J) (req : Bytes) : replies (helpLines T L req) = [] := by
  simp [replies, helpLines]

theorem replies_async (req : Bytes) (l : List (Triple J)) :
    replies (l.map (fun m => (⟨.async, req, m⟩ : Out J))) = [] := by
  simp [replies]

/-- the one reply sent for a line -/
def lineReply (T : Tables) (L : Lib J) (d : Disp σ J) (st : σ) (line : Bytes) : Triple J :=
  match nextMessage T L line with
  | .bad raw => decodeErrorReply T L raw
  | .msg t =>
    if t.action = T.helpRequest then ⟨T.helpReply, none, none⟩
    else resultReply T L t (d st t).1.res

/-- whatever the dispatcher does, a line gets exactly one reply -/
theorem replies_handleLine (T : Tables) (L : Lib J) (d : Disp σ J) (st : σ) (line : Bytes) :
    replies (handleLine T L d st line).1 = [⟨.reply, line, lineReply T L d st line⟩] := by
  unfold handleLine lineReply
  cases nextMessage T L line with
  | bad raw => simp [replies]
  | msg t =>
    by_cases h : t.action = T.helpRequest
    · simp only [h, ↓reduceIte, replies_append, replies_help]
      simp [replies]
    · simp only [h, ↓reduceIte, replies_append, replies_async]
      simp [replies]

/-- dispatcher state after a list of lines -/
def stateAfter (T : Tables) (L : Lib J) (d : Disp σ J) : σ → List Bytes → σ
  | st, [] => st
  | st, l :: ls => stateAfter T L d (handleLine T L d st l).2 ls

theorem serveLines_snd (T : Tables) (L : Lib J) (d : Disp σ J) :
    ∀ (ls : List Bytes) (st : σ), (serveLines T L d st ls).2 = stateAfter T L d st ls
  | [], st => rfl
  | l :: ls, st => by simp [serveLines, stateAfter, serveLines_snd T L d ls]

theorem serveLines_append (T : Tables) (L : Lib J) (d : Disp σ J) :
    ∀ (l1 l2 : List Bytes) (st : σ),
      (serveLines T L d st (l1 ++ l2)).1 =
        (serveLines T L d st l1).1 ++ (serveLines T L d (stateAfter T L d st l1) l2).1
  | [], l2, st => by simp [serveLines, stateAfter]
  | l :: l1, l2, st => by
    simp [serveLines, stateAfter, serveLines_append T L d l1 l2, List.append_assoc]

theorem stateAfter_append (T : Tables) (L : Lib J) (d : Disp σ J) :
    ∀ (l1 l2 : List Bytes) (st : σ),
      stateAfter T L d st (l1 ++ l2) = stateAfter T L d (stateAfter T L d st l1) l2
  | [], _, _ => rfl
  | l :: l1, l2, st => by simp [stateAfter, stateAfter_append T L d l1 l2]

/-- the chunked loop is the line loop over all lines of all chunks -/
theorem serve_eq_serveLines (T : Tables) (L : Lib J) (d : Disp σ J) :
    ∀ (chunks : List Bytes) (buf : Bytes) (st : σ),
      (serve T L d buf st chunks).outs = (serveLines T L d st (feedAll buf chunks).lines).1
      ∧ (serve T L d buf st chunks).buf = (feedAll buf chunks).rest
      ∧ (serve T L d buf st chunks).st = stateAfter T L d st (feedAll buf chunks).lines
  | [], buf, st => by simp [serve, feedAll, serveLines, stateAfter]
  | c :: cs, buf, st => by
    obtain ⟨h1, h2, h3⟩ := serve_eq_serveLines T L d cs (feed buf c).rest (serveLines T L d st (feed buf c).lines).2
    simp only [serve, feedAll]
    rw [serveLines_snd] at h1 h2 h3
    simp only [serveLines_snd]
    refine ⟨?_, h2, ?_⟩
    · rw [h1, serveLines_append]
    · rw [h3, stateAfter_append]

/-- replies of the line loop: one per line, in order, each answering its line from the dispatcher
state reached after the lines before it -/
theorem replies_serveLines (T : Tables) (L : Lib J) (d : Disp σ J) :
    ∀ (ls : List Bytes) (st : σ),
      replies (serveLines T L d st ls).1 =
        (List.range ls.length).filterMap (fun k =>
          ls[k]?.map (fun l => ⟨.reply, l, lineReply T L d (stateAfter T L d st (ls.take k)) l⟩)) := by
  intro ls
  induction ls with
  | nil => intro st; simp [serveLines, replies]
  | cons l ls ih =>
    intro st
    simp only [serveLines, replies_append, replies_handleLine, ih]
    rw [List.length_cons, List.range_succ_eq_map]
    simp [List.filterMap_map, Function.comp_def, stateAfter]

end Frappy.Wire
