import FrappyProofs.Lemmas.CommCallbacks
/- helper lemmas for C16: the reconnect callbacks of a communicator WITH identification — they run when `checkHWIdent`
has passed (event `idend c true`) -/
open Frappy.Spec.C16
namespace Frappy.Comm

/-- `checkHWIdent` has passed on a reconnect: the callbacks registered at that moment are what the caller runs next -/
theorem step_idend_true (s s' : State) (t c x : Nat) (h : stepCaller s t c (.idend x true) = some s')
    (hm : s.lastError = true) (n : Nat) (r : List Nat) (hreg : s.cbsReg = n :: r) : (s'.callers c).pc = .cbs (n :: r) := by
  cases hpc : (s.callers c).pc <;> simp only [stepCaller, hpc] at h <;> try (simp at h)
  rename_i ok
  obtain ⟨hok, h⟩ := h
  subst hok
  simp only [if_true, Option.some.injEq] at h
  subst h
  simp [afterIdent, hm, hreg]

structure DInv (cbs : List Nat) (log : Log) (s : State) : Prop where
  k1 : (∃ h0, h0 < log.length ∧ isHclose (evAt log h0) = true) → s.lastError = true
  k2 : s.cbsReg = registeredAt cbs log log.length
  k5 : ∀ c v, evAt log v = some (.idend c true) → (∃ h0, h0 < v ∧ isHclose (evAt log h0) = true) →
        countOf log c v log.length < (registeredAt cbs log v).length →
        (s.callers c).pc = .cbs ((registeredAt cbs log v).drop (countOf log c v log.length))

theorem dinv_step {cbs : List Nat} {log : Log} {s s' : State} (e : TEv) (hi : DInv cbs log s)
    (h : step s e = some s') :
    DInv cbs (log ++ [e]) s' := by
  have hlen : (log ++ [e]).length = log.length + 1 := by simp
  -- shared-state facts
  have hshared : s'.cbsReg = cbStep e.ev s.cbsReg ∧ (s.lastError = true → s'.lastError = true) ∧
      (isHclose (some e.ev) = true → s'.lastError = true) := by
    cases hwho : e.ev.who with
    | none =>
      unfold step at h
      split at h
      · simp at h
      · simp only at h
        cases hev : e.ev <;> simp only [hev, Ev.who] at hwho h <;> try (simp at hwho)
        · split at h
          · split at h
            · simp at h
            · simp only [Option.some.injEq] at h; subst h; simp [cbStep, isHclose]
          · simp only [Option.some.injEq] at h; subst h; simp [cbStep, isHclose]
        · split at h <;> (simp only [Option.some.injEq] at h; subst h; simp [cbStep, isHclose])
        · simp only [Option.some.injEq] at h; subst h; simp [cbStep, isHclose]
    | some c0 =>
      rw [step_caller_form s e c0 hwho] at h
      split at h
      · simp at h
      · obtain ⟨h1, h2, h3⟩ := step_cbs _ s' e.t c0 e.ev h
        refine ⟨h1, h2, fun hh => h3 ?_⟩
        cases hev : e.ev <;> simp [hev, isHclose] at hh
        exact ⟨_, rfl⟩
  have hcallers : ∀ c, e.ev.who ≠ some c → s'.callers c = s.callers c := by
    intro c hc
    cases hwho : e.ev.who with
    | none => rw [(step_env_callers hwho h).1]
    | some c0 =>
      rw [step_caller_form s e c0 hwho] at h
      split at h
      · simp at h
      · have hne : c ≠ c0 := by intro heq; rw [heq, hwho] at hc; exact hc rfl
        exact step_others _ s' e.t c0 e.ev h c hne
  have hstepc : ∀ c, e.ev.who = some c → stepCaller { s with clock := e.t } e.t c e.ev = some s' := by
    intro c hc
    rw [step_caller_form s e c hc] at h
    split at h
    · simp at h
    · exact h
  refine ⟨?_, ?_, ?_⟩
  · -- k1
    rintro ⟨h0, h0l, hh⟩
    rw [hlen] at h0l
    rcases Nat.lt_or_ge h0 log.length with hlt | hge
    · rw [evAt_append_lt log e h0 hlt] at hh
      exact hshared.2.1 (hi.k1 ⟨h0, hlt, hh⟩)
    · have : h0 = log.length := by omega
      subst this; rw [evAt_append_eq] at hh; exact hshared.2.2 hh
  · -- k2
    rw [hlen, registeredAt_succ, registeredAt_append_le cbs log e log.length (Nat.le_refl _), evAt_append_eq,
      hshared.1, cbStep_filter, hi.k2]
  · -- k5
    intro c v hevv hh hcount
    have hvl := evAt_lt_of_some hevv
    rw [hlen] at hvl
    rcases Nat.lt_or_ge v log.length with hlt | hge
    · -- an earlier identification
      rw [evAt_append_lt log e v hlt] at hevv
      have hh' : ∃ h0, h0 < v ∧ isHclose (evAt log h0) = true := by
        obtain ⟨h0, h0v, hx⟩ := hh
        exact ⟨h0, h0v, by rwa [evAt_append_lt log e h0 (by omega)] at hx⟩
      rw [registeredAt_append_le cbs log e v (by omega)] at hcount ⊢
      rw [hlen, countOf_succ, countOf_append_le log e c v log.length (Nat.le_refl _), whoAt_append_eq] at hcount ⊢
      by_cases hwc : e.ev.who = some c
      · simp only [hlt, hwc, and_self, if_true] at hcount ⊢
        have hold := hi.k5 c v hevv hh' (by omega)
        have hdrop : (registeredAt cbs log v).drop (countOf log c v log.length) =
            (registeredAt cbs log v)[countOf log c v log.length]'(by omega) ::
              (registeredAt cbs log v).drop (countOf log c v log.length + 1) := by
          rw [List.drop_eq_getElem_cons]
        rw [hdrop] at hold
        obtain ⟨x, keep, _, hnext⟩ := step_in_cbs _ s' e.t c _ _ e.ev (hstepc c hwc) hold
        apply hnext
        intro hnil
        have := congrArg List.length hnil
        simp at this; omega
      · have : ¬ (v < log.length ∧ e.ev.who = some c) := fun hx => hwc hx.2
        simp only [this, if_false, Nat.add_zero] at hcount ⊢
        rw [hcallers c hwc]
        exact hi.k5 c v hevv hh' hcount
    · -- the identification ends with the new event
      have : v = log.length := by omega
      subst this
      rw [evAt_append_eq] at hevv
      simp only [Option.some.injEq] at hevv
      have hle : s.lastError = true := by
        obtain ⟨h0, h0v, hx⟩ := hh
        exact hi.k1 ⟨h0, h0v, by rwa [evAt_append_lt log e h0 h0v] at hx⟩
      rw [registeredAt_append_le cbs log e log.length (Nat.le_refl _)] at hcount ⊢
      rw [hlen, countOf_empty _ _ _ _ (Nat.le_refl _)] at hcount ⊢
      rw [List.drop_zero, ← hi.k2] at *
      have hst := hstepc c (by rw [hevv]; rfl)
      rw [hevv] at hst
      cases hreg : s.cbsReg with
      | nil => rw [hreg] at hcount; simp at hcount
      | cons n r => exact step_idend_true _ s' e.t c c hst hle n r hreg

theorem dinv_init (cfg : Cfg) (cbs : List Nat) : DInv cbs [] { cfg := cfg, cbsReg := cbs } := by
  refine ⟨?_, ?_, ?_⟩
  · rintro ⟨h0, h, _⟩; simp at h
  · simp only [registeredAt, allBelow, List.length_nil, List.range_zero, List.all_nil]; exact (filter_true' cbs).symm
  · intro c v h; simp [evAt] at h

theorem dinv_exec_gen {cbs : List Nat} : ∀ (evs pre : List TEv) (s0 s : State), DInv cbs pre s0 →
    exec s0 evs = some s → DInv cbs (pre ++ evs) s
  | [], pre, s0, s, hv, h => by simp [exec] at h; subst h; simpa using hv
  | e :: es, pre, s0, s, hv, h => by
    simp only [exec] at h
    cases hst : step s0 e with
    | none => simp [hst] at h
    | some s1 =>
      simp only [hst] at h
      have := dinv_exec_gen es (pre ++ [e]) s1 s (dinv_step e hv hst) h
      simpa using this

theorem dinv_exec (cfg : Cfg) (cbs : List Nat) (evs : List TEv) (s : State)
    (h : exec { cfg := cfg, cbsReg := cbs } evs = some s) : DInv cbs evs s := by
  simpa using dinv_exec_gen evs [] _ s (dinv_init cfg cbs) h

end Frappy.Comm
