import FrappyModel.Spec.C07
/- helper lemmas about framing: `getMsg`, `drain`, `feed`, `feedAll` against `IsFraming` -/
namespace Frappy.Wire
open Frappy.Spec.C07

theorem getMsg_none {buf : Bytes} : getMsg buf = none ↔ EOL ∉ buf := by
  induction buf with
  | nil => simp [getMsg]
  | cons b rest ih =>
    unfold getMsg
    by_cases hb : b = EOL
    · simp [hb]
    · simp only [hb, ↓reduceIte]
      cases h : getMsg rest with
      | none => simp [ih.1 h, Ne.symm hb]
      | some p =>
        have : ¬ (EOL ∉ rest) := fun hn => by rw [ih.2 hn] at h; cases h
        simp at this
        simp [this]

theorem getMsg_some {buf m r : Bytes} (h : getMsg buf = some (m, r)) :
    buf = m ++ EOL :: r ∧ EOL ∉ m := by
  induction buf generalizing m with
  | nil => simp [getMsg] at h
  | cons b rest ih =>
    unfold getMsg at h
    by_cases hb : b = EOL
    · simp only [hb, ↓reduceIte, Option.some.injEq, Prod.mk.injEq] at h
      obtain ⟨rfl, rfl⟩ := h
      simp [hb]
    · simp only [hb, ↓reduceIte] at h
      cases hr : getMsg rest with
      | none => simp [hr] at h
      | some p =>
        obtain ⟨m', r'⟩ := p
        simp only [hr, Option.some.injEq, Prod.mk.injEq] at h
        obtain ⟨rfl, rfl⟩ := h
        obtain ⟨h1, h2⟩ := ih hr
        refine ⟨by rw [h1]; simp, ?_⟩
        simp [h2, Ne.symm hb]

/-- draining with enough fuel frames the buffer -/
theorem drain_isFraming : ∀ (n : Nat) (buf : Bytes), buf.length < n →
    IsFraming buf (drain n buf).lines (drain n buf).rest := by
  intro n
  induction n with
  | zero => intro buf h; omega
  | succ n ih =>
    intro buf hlen
    unfold drain
    cases h : getMsg buf with
    | none =>
      simp only
      exact ⟨by simp, by simp, getMsg_none.1 h⟩
    | some p =>
      obtain ⟨m, r⟩ := p
      obtain ⟨heq, hm⟩ := getMsg_some h
      have hr : r.length < n := by
        have : buf.length = m.length + 1 + r.length := by rw [heq]; simp; omega
        omega
      obtain ⟨h1, h2, h3⟩ := ih r hr
      simp only
      refine ⟨?_, ?_, h3⟩
      · conv => lhs; rw [heq, h1]
        simp
      · intro l hl
        rcases List.mem_cons.1 hl with rfl | hl
        · exact hm
        · exact h2 l hl

theorem feed_isFraming (buf chunk : Bytes) :
    IsFraming (buf ++ chunk) (feed buf chunk).lines (feed buf chunk).rest :=
  drain_isFraming _ _ (Nat.lt_succ_self _)

/-- a stream has only one framing -/
theorem isFraming_unique {s : Bytes} {l1 l2 : List Bytes} {t1 t2 : Bytes}
    (h1 : IsFraming s l1 t1) (h2 : IsFraming s l2 t2) : l1 = l2 ∧ t1 = t2 := by
  induction l1 generalizing s l2 with
  | nil =>
    obtain ⟨e1, _, n1⟩ := h1
    obtain ⟨e2, m2, _⟩ := h2
    simp at e1
    cases l2 with
    | nil => simp at e2; exact ⟨rfl, e1.symm.trans e2⟩
    | cons x xs =>
      exfalso
      rw [e1] at e2
      apply n1
      rw [e2]
      simp
  | cons a as ih =>
    obtain ⟨e1, m1, n1⟩ := h1
    cases l2 with
    | nil =>
      obtain ⟨e2, _, n2⟩ := h2
      exfalso
      simp at e2
      rw [e2] at e1
      apply n2
      rw [e1]
      simp
    | cons x xs =>
      obtain ⟨e2, m2, n2⟩ := h2
      simp only [List.map_cons, List.flatten_cons, List.append_assoc, List.cons_append, List.nil_append] at e1 e2
      have ha : EOL ∉ a := m1 a (List.mem_cons_self ..)
      have hx : EOL ∉ x := m2 x (List.mem_cons_self ..)
      rw [e1] at e2
      -- split at the first EOL
      have key : ∀ (a x : Bytes) (p q : Bytes), EOL ∉ a → EOL ∉ x → a ++ EOL :: p = x ++ EOL :: q → a = x ∧ p = q := by
        intro a
        induction a with
        | nil =>
          intro x p q _ hx h
          cases x with
          | nil => simpa using h
          | cons y ys =>
            simp at h
            exact absurd (by simp [h.1]) hx
        | cons c cs ihc =>
          intro x p q ha hx h
          cases x with
          | nil =>
            simp at h
            exact absurd (by simp [h.1]) ha
          | cons y ys =>
            simp only [List.cons_append, List.cons.injEq] at h
            obtain ⟨rfl, h⟩ := h
            have := ihc ys p q (fun hh => ha (List.mem_cons_of_mem _ hh)) (fun hh => hx (List.mem_cons_of_mem _ hh)) h
            exact ⟨by rw [this.1], this.2⟩
      obtain ⟨hax, hrest⟩ := key a x _ _ ha hx e2
      have f1 : IsFraming ((as.map (· ++ [EOL])).flatten ++ t1) as t1 :=
        ⟨rfl, fun l hl => m1 l (List.mem_cons_of_mem _ hl), n1⟩
      have f2 : IsFraming ((as.map (· ++ [EOL])).flatten ++ t1) xs t2 :=
        ⟨hrest, fun l hl => m2 l (List.mem_cons_of_mem _ hl), n2⟩
      obtain ⟨hl, ht⟩ := ih f1 f2
      exact ⟨by rw [hax, hl], ht⟩

/-- framing composes: lines of a first part with rest `r`, then lines of `r ++ more` -/
theorem isFraming_append {s more r t : Bytes} {l1 l2 : List Bytes}
    (h1 : IsFraming s l1 r) (h2 : IsFraming (r ++ more) l2 t) :
    IsFraming (s ++ more) (l1 ++ l2) t := by
  obtain ⟨e1, m1, _⟩ := h1
  obtain ⟨e2, m2, n2⟩ := h2
  refine ⟨?_, ?_, n2⟩
  · rw [e1, List.append_assoc, e2]; simp
  · intro l hl
    rcases List.mem_append.1 hl with h | h
    · exact m1 l h
    · exact m2 l h

theorem feedAll_isFraming : ∀ (chunks : List Bytes) (buf : Bytes), EOL ∉ buf →
    IsFraming (buf ++ chunks.flatten) (feedAll buf chunks).lines (feedAll buf chunks).rest
  | [], buf, hb => by
    exact ⟨by simp [feedAll], by simp [feedAll], by simpa [feedAll] using hb⟩
  | c :: cs, buf, _ => by
    have h1 := feed_isFraming buf c
    have h2 := feedAll_isFraming cs (feed buf c).rest h1.2.2
    have := isFraming_append h1 h2
    simpa [feedAll, List.append_assoc] using this

theorem splitLines_isFraming : ∀ s : Bytes, IsFraming s (splitLines s).lines (splitLines s).rest := by
  intro s
  induction s with
  | nil => exact ⟨by simp [splitLines], by simp [splitLines], by simp [splitLines]⟩
  | cons b rest ih =>
    obtain ⟨e, m, n⟩ := ih
    unfold splitLines
    by_cases hb : b = EOL
    · simp only [hb, ↓reduceIte]
      refine ⟨?_, ?_, n⟩
      · conv => lhs; rw [e]
        simp
      · intro l hl
        rcases List.mem_cons.1 hl with rfl | hl
        · simp
        · exact m l hl
    · simp only [hb, ↓reduceIte]
      cases hl : (splitLines rest).lines with
      | nil =>
        rw [hl] at e m
        simp only at e ⊢
        refine ⟨by conv => lhs; rw [e]
                   simp, by simp, ?_⟩
        simp at e
        intro hh
        rcases List.mem_cons.1 hh with h | h
        · exact hb h.symm
        · exact n h
      | cons l ls =>
        rw [hl] at e m
        simp only
        refine ⟨by conv => lhs; rw [e]
                   simp, ?_, n⟩
        intro x hx
        rcases List.mem_cons.1 hx with rfl | hx
        · intro hh
          rcases List.mem_cons.1 hh with h | h
          · exact hb h.symm
          · exact m l (List.mem_cons_self ..) h
        · exact m x (List.mem_cons_of_mem _ hx)

end Frappy.Wire
