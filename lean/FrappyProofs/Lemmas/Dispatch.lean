import FrappyModel.Spec.C04
/-
Helper lemmas for C04 / C06: look-ups in well-formed nodes, the check chain, cache updates.
-/
namespace Frappy.Lemmas.Dispatch
open Frappy.Node Frappy.Spec.C04

variable {J V : Type}

/-! ### look-ups -/

theorem findModule_eq (n : Node J V) (m : String) : findModule n m = (modulesNamed n m).head? := by
  unfold findModule modulesNamed
  exact List.head?_filter.symm

/-- generic form of "the first accessible with wire name `a`, if it is a parameter" -/
def firstParam (g : Acc J V → Option String) (a : String) (l : List (Acc J V)) : Option (Param J V) :=
  match l.find? (fun x => g x == some a) with
  | some (.param p) => some p
  | _ => none

def allParams (g : Acc J V → Option String) (a : String) (l : List (Acc J V)) : List (Param J V) :=
  l.filterMap (fun acc =>
    match acc with
    | .param p => if g acc = some a then some p else none
    | .command _ => none)

theorem allParams_nil_of_not_mem (g : Acc J V → Option String) (a : String) (l : List (Acc J V))
    (h : a ∉ l.filterMap g) : allParams g a l = [] := by
  induction l with
  | nil => rfl
  | cons x xs ih =>
    have hx : g x ≠ some a := by
      intro hg; apply h; simp [hg]
    have hxs : a ∉ xs.filterMap g := by
      intro hm; apply h
      rw [List.filterMap_cons]; split
      · exact hm
      · exact List.mem_cons_of_mem _ hm
    have := ih hxs
    unfold allParams at this ⊢
    rw [List.filterMap_cons]
    cases x with
    | param p => simp [hx, this]
    | command c => simp [this]

theorem firstParam_eq (g : Acc J V → Option String) (a : String) (l : List (Acc J V))
    (h : (l.filterMap g).Nodup) : firstParam g a l = (allParams g a l).head? := by
  induction l with
  | nil => rfl
  | cons x xs ih =>
    by_cases hg : g x = some a
    · have hnot : a ∉ xs.filterMap g := by
        rw [List.filterMap_cons, hg] at h
        exact (List.nodup_cons.1 h).1
      cases x with
      | param p =>
        simp [firstParam, allParams, hg]
      | command c =>
        have := allParams_nil_of_not_mem g a xs hnot
        unfold allParams at this
        simp [firstParam, allParams, hg, this]
    · have h' : (xs.filterMap g).Nodup := by
        rw [List.filterMap_cons] at h; split at h
        · exact h
        · exact (List.nodup_cons.1 h).2
      have := ih h'
      unfold firstParam allParams at this ⊢
      have hb : (g x == some a) = false := by simpa using hg
      rw [List.find?_cons, hb]
      simp only [List.filterMap_cons]
      cases x with
      | param p => simp [hg, this]
      | command c => simp [this]

theorem findParam_eq (pre : Predef) (mod : Module J V) (a : String) (h : mod.wiresNodup pre) :
    findParam pre mod a = (paramsAt pre mod a).head? := by
  have := firstParam_eq (wireName pre mod) a mod.accs h
  unfold firstParam allParams at this
  unfold findParam findWire paramsAt
  exact this


/-- the same for commands -/
def firstCommand (g : Acc J V → Option String) (a : String) (l : List (Acc J V)) : Option (Command J V) :=
  match l.find? (fun x => g x == some a) with
  | some (.command c) => some c
  | _ => none

def allCommands (g : Acc J V → Option String) (a : String) (l : List (Acc J V)) : List (Command J V) :=
  l.filterMap (fun acc =>
    match acc with
    | .command c => if g acc = some a then some c else none
    | .param _ => none)

theorem allCommands_nil_of_not_mem (g : Acc J V → Option String) (a : String) (l : List (Acc J V))
    (h : a ∉ l.filterMap g) : allCommands g a l = [] := by
  induction l with
  | nil => rfl
  | cons x xs ih =>
    have hx : g x ≠ some a := by
      intro hg; apply h; simp [hg]
    have hxs : a ∉ xs.filterMap g := by
      intro hm; apply h
      rw [List.filterMap_cons]; split
      · exact hm
      · exact List.mem_cons_of_mem _ hm
    have := ih hxs
    unfold allCommands at this ⊢
    rw [List.filterMap_cons]
    cases x with
    | command p => simp [hx, this]
    | param c => simp [this]

theorem firstCommand_eq (g : Acc J V → Option String) (a : String) (l : List (Acc J V))
    (h : (l.filterMap g).Nodup) : firstCommand g a l = (allCommands g a l).head? := by
  induction l with
  | nil => rfl
  | cons x xs ih =>
    by_cases hg : g x = some a
    · have hnot : a ∉ xs.filterMap g := by
        rw [List.filterMap_cons, hg] at h
        exact (List.nodup_cons.1 h).1
      cases x with
      | command p =>
        simp [firstCommand, allCommands, hg]
      | param c =>
        have := allCommands_nil_of_not_mem g a xs hnot
        unfold allCommands at this
        simp [firstCommand, allCommands, hg, this]
    · have h' : (xs.filterMap g).Nodup := by
        rw [List.filterMap_cons] at h; split at h
        · exact h
        · exact (List.nodup_cons.1 h).2
      have := ih h'
      unfold firstCommand allCommands at this ⊢
      have hb : (g x == some a) = false := by simpa using hg
      rw [List.find?_cons, hb]
      simp only [List.filterMap_cons]
      cases x with
      | command p => simp [hg, this]
      | param c => simp [this]

theorem findCommand_eq (pre : Predef) (mod : Module J V) (a : String) (h : mod.wiresNodup pre) :
    findCommand pre mod a = (commandsAt pre mod a).head? := by
  have := firstCommand_eq (wireName pre mod) a mod.accs h
  unfold firstCommand allCommands at this
  unfold findCommand findWire commandsAt
  exact this

theorem mem_of_modulesNamed {n : Node J V} {m : String} {mod : Module J V} {rest : List (Module J V)}
    (h : modulesNamed n m = mod :: rest) : mod ∈ n ∧ mod.name = m := by
  have : mod ∈ modulesNamed n m := by rw [h]; exact List.mem_cons_self
  unfold modulesNamed at this
  rw [List.mem_filter] at this
  exact ⟨this.1, by simpa using this.2⟩

theorem lookupParam_eq (pre : Predef) (n : Node J V) (hwf : Node.WF pre n) (m a : String) :
    lookupParam pre n m a =
      match modulesNamed n m with
      | [] => .error (mkErr .noSuchModule)
      | mod :: _ =>
        match paramsAt pre mod a with
        | [] => .error (mkErr .noSuchParameter)
        | p :: _ => .ok (mod, p) := by
  unfold lookupParam
  rw [findModule_eq]
  cases hm : modulesNamed n m with
  | nil => rfl
  | cons mod rest =>
    simp only [List.head?_cons]
    rw [findParam_eq pre mod a (hwf.wires mod (mem_of_modulesNamed hm).1)]
    cases paramsAt pre mod a <;> rfl

theorem lookupCommand_eq (pre : Predef) (n : Node J V) (hwf : Node.WF pre n) (m a : String) :
    lookupCommand pre n m a =
      match modulesNamed n m with
      | [] => .error (mkErr .noSuchModule)
      | mod :: _ =>
        match commandsAt pre mod a with
        | [] => .error (mkErr .noSuchCommand)
        | c :: _ => .ok (mod, c) := by
  unfold lookupCommand
  rw [findModule_eq]
  cases hm : modulesNamed n m with
  | nil => rfl
  | cons mod rest =>
    simp only [List.head?_cons]
    rw [findCommand_eq pre mod a (hwf.wires mod (mem_of_modulesNamed hm).1)]
    cases commandsAt pre mod a <;> rfl

/-! ### the chain of checks -/

theorem outsidePair_false_iff (env : Env V) (lim : Option V) (v : V) :
    outsidePair env lim v = false ↔ InsidePair env lim v := by
  unfold outsidePair InsidePair
  cases lim with
  | none => simp
  | some l => simp

theorem checkLimits_of_ok (env : Env V) (mod : Module J V) (attr : String) (v : V)
    (h : LimitsOK env mod attr v) : checkLimits env mod attr v = .pass := by
  unfold LimitsOK at h; unfold checkLimits
  have h0 := (outsidePair_false_iff env _ v).2 h.1
  simp [h0, h.2.1, h.2.2.1, h.2.2.2]

theorem checkLimits_of_not_ok (env : Env V) (mod : Module J V) (attr : String) (v : V)
    (h : ¬ LimitsOK env mod attr v) : checkLimits env mod attr v = .raise (mkErr .rangeError) := by
  unfold LimitsOK at h; unfold checkLimits
  split
  · rfl
  · rename_i h0
    simp only
    split
    · rfl
    · split
      · rfl
      · split
        · rfl
        · rename_i h1 h2 h3
          exact absurd ⟨(outsidePair_false_iff env _ v).1 (by simpa using h0), by simpa using h1, by simpa using h2,
            by simpa using h3⟩ h

theorem runChecks_cls (env : Env V) (mod : Module J V) (attr : String) (v : V) (cs : List Check) :
    (runChecks (checkOne env mod attr v) cs).map (·.cls) = chainVerdict env mod attr v cs := by
  induction cs with
  | nil => rfl
  | cons c cs ih =>
    cases c with
    | limits =>
      unfold runChecks chainVerdict
      by_cases h : LimitsOK env mod attr v
      · simp only [checkOne, checkLimits_of_ok env mod attr v h, h, if_true]; exact ih
      · simp only [checkOne, checkLimits_of_not_ok env mod attr v h, h, if_false]; rfl
    | hook i =>
      unfold runChecks chainVerdict
      simp only [checkOne]
      cases env.chk mod.name attr i v with
      | pass => exact ih
      | stop => rfl
      | raise e => rfl

theorem runChecks_none_iff (env : Env V) (mod : Module J V) (attr : String) (v : V) (cs : List Check) :
    runChecks (checkOne env mod attr v) cs = none ↔ ChecksOK env mod attr v cs := by
  induction cs with
  | nil => simp [runChecks, ChecksOK]
  | cons c cs ih =>
    cases c with
    | limits =>
      unfold runChecks ChecksOK
      by_cases h : LimitsOK env mod attr v
      · simp only [checkOne, checkLimits_of_ok env mod attr v h, TakesOver, Passes, h, true_and, false_or]; exact ih
      · simp [checkOne, checkLimits_of_not_ok env mod attr v h, TakesOver, Passes, h]
    | hook i =>
      unfold runChecks ChecksOK
      simp only [checkOne, TakesOver, Passes]
      cases env.chk mod.name attr i v with
      | pass => simp [ih]
      | stop => simp
      | raise e => simp


/-! ### the write wrapper and the command call -/

theorem finishWrite_calls (pre : Predef) (env : Env V) (n : Node J V) (mod : Module J V) (p : Param J V) (v w : V) :
    (finishWrite pre env n mod p v w).calls =
      if p.hasWrite then [DriverCall.write mod.name p.attr w] else [] := by
  unfold finishWrite
  split
  · simp only
    split
    · rfl
    · rfl
    · rfl
    · split <;> rfl
  · rfl

theorem finishDo_calls (env : Env V) (n : Node J V) (mod : Module J V) (c : Command J V) (arg : Option V) :
    (finishDo env n mod c arg).calls = [DriverCall.cmd mod.name c.attr arg] ∧
    (finishDo env n mod c arg).node = n ∧ (finishDo env n mod c arg).emits = [] := by
  unfold finishDo
  simp only
  split
  · exact ⟨rfl, rfl, rfl⟩
  · split
    · exact ⟨rfl, rfl, rfl⟩
    · split <;> exact ⟨rfl, rfl, rfl⟩

/-- the model follows the specification's decision list (change) -/
theorem handleChange_verdict (pre : Predef) (env : Env V) (n : Node J V) (hwf : Node.WF pre n) (spec : Spec) (j : J) :
    match changeVerdict pre env n spec j with
    | .refuse cls => handleChange pre env n spec j = ⟨.error cls, [], [], n⟩
    | .allow m attr hw v w => ∃ mod p, mod ∈ n ∧ mod.name = m ∧ p.attr = attr ∧ p.hasWrite = hw ∧
        (∃ m' a', target "target" spec = some (m', a') ∧ lookupParam pre n m' a' = .ok (mod, p)) ∧
        admitChange env mod p j = .ok (v, w) ∧
        handleChange pre env n spec j = finishWrite pre env n mod p v w
    | .allowDo _ _ _ => False := by
  unfold changeVerdict handleChange
  cases ht : target "target" spec with
  | none => rfl
  | some ma =>
    obtain ⟨m, a⟩ := ma
    simp only
    rw [lookupParam_eq pre n hwf m a]
    cases hm : modulesNamed n m with
    | nil => rfl
    | cons mod rest =>
      simp only
      cases hp : paramsAt pre mod a with
      | nil => rfl
      | cons p prest =>
        simp only
        unfold admitChange
        have hmem := mem_of_modulesNamed hm
        by_cases hc : p.constant.isSome = true
        · simp [hc, refuse, mkErr]
        · by_cases hr : p.readonly = true
          · simp [hr, refuse, mkErr]
          · simp only [hc, hr, Bool.or_self, Bool.false_eq_true, if_false]
            cases hacc : p.dt.accept j (some p.entry.value) with
            | error e => rfl
            | ok v =>
              simp only
              by_cases hinv : (p.isLimitsPair && pairInverted env v) = true
              · simp [hinv, refuse, mkErr]
              · simp only [hinv, Bool.false_eq_true, if_false]
                cases hrev : p.dt.revalidate v with
                | error e => rfl
                | ok w =>
                simp only
                have hcls := runChecks_cls env mod p.attr v p.checks
                cases hrun : runChecks (checkOne env mod p.attr v) p.checks with
                | some e =>
                  rw [hrun] at hcls; simp only [Option.map_some] at hcls
                  rw [← hcls]; rfl
                | none =>
                  rw [hrun] at hcls; simp only [Option.map_none] at hcls
                  rw [← hcls]
                  refine ⟨mod, p, hmem.1, rfl, rfl, rfl, ?_, ?_, rfl⟩
                  · exact ⟨m, a, rfl, by rw [lookupParam_eq pre n hwf m a, hm]; simp only [hp]⟩
                  · simp only [hc, hr, Bool.false_eq_true, if_false, hacc, hinv, hrev, hrun]

/-- the model follows the specification's decision list (do) -/
theorem handleDo_verdict (pre : Predef) (env : Env V) (n : Node J V) (hwf : Node.WF pre n) (spec : Spec)
    (data : Option J) :
    match doVerdict pre n spec data with
    | .refuse cls => handleDo pre env n spec data = ⟨.error cls, [], [], n⟩
    | .allowDo m attr arg => ∃ mod c, mod ∈ n ∧ mod.name = m ∧ c.attr = attr ∧
        (∃ m' a', targetDo spec = some (m', a') ∧ lookupCommand pre n m' a' = .ok (mod, c)) ∧
        admitDo c data = .ok arg ∧
        handleDo pre env n spec data = finishDo env n mod c arg
    | .allow _ _ _ _ _ => False := by
  unfold doVerdict handleDo
  cases ht : targetDo spec with
  | none => rfl
  | some ma =>
    obtain ⟨m, a⟩ := ma
    simp only
    rw [lookupCommand_eq pre n hwf m a]
    cases hm : modulesNamed n m with
    | nil => rfl
    | cons mod rest =>
      simp only
      cases hp : commandsAt pre mod a with
      | nil => rfl
      | cons c crest =>
        simp only
        have hmem := mem_of_modulesNamed hm
        have hlook : ∃ m' a', some (m, a) = some (m', a') ∧ lookupCommand pre n m' a' = .ok (mod, c) :=
          ⟨m, a, rfl, by rw [lookupCommand_eq pre n hwf m a, hm]; simp only [hp]⟩
        unfold admitDo
        cases harg : c.arg with
        | none =>
          cases data with
          | none => exact ⟨mod, c, hmem.1, rfl, rfl, hlook, by simp [harg], rfl⟩
          | some j => rfl
        | some ops =>
          cases data with
          | none => rfl
          | some j =>
            simp only
            cases hacc : ops.accept j with
            | error e => rfl
            | ok v => exact ⟨mod, c, hmem.1, rfl, rfl, hlook, by simp [harg, hacc], rfl⟩


/-! ### uniqueness: the declarative "there is an exported accessible of that name" against the look-ups -/

theorem find?_of_nodup_map {α β : Type} [DecidableEq β] (f : α → β) (l : List α) (h : (l.map f).Nodup) (x : α) (hx : x ∈ l) :
    l.find? (fun y => f y == f x) = some x := by
  induction l with
  | nil => cases hx
  | cons y ys ih =>
    rw [List.map_cons, List.nodup_cons] at h
    rw [List.find?_cons]
    rcases List.mem_cons.1 hx with rfl | hmem
    · simp
    · have : f y ≠ f x := by
        intro heq; apply h.1; rw [heq]; exact List.mem_map_of_mem hmem
      have hb : (f y == f x) = false := by simpa using this
      rw [hb]; exact ih h.2 hmem

theorem find?_of_nodup_filterMap {α : Type} (g : α → Option String) (l : List α) (h : (l.filterMap g).Nodup)
    (x : α) (hx : x ∈ l) (a : String) (hg : g x = some a) :
    l.find? (fun y => g y == some a) = some x := by
  induction l with
  | nil => cases hx
  | cons y ys ih =>
    rw [List.find?_cons]
    rcases List.mem_cons.1 hx with rfl | hmem
    · simp [hg]
    · by_cases hy : g y = some a
      · exfalso
        rw [List.filterMap_cons, hy, List.nodup_cons] at h
        exact h.1 (List.mem_filterMap.2 ⟨x, hmem, hg⟩)
      · have hb : (g y == some a) = false := by simpa using hy
        rw [hb]
        apply ih _ hmem
        rw [List.filterMap_cons] at h; split at h
        · exact h
        · exact (List.nodup_cons.1 h).2

theorem findModule_of_mem (pre : Predef) (n : Node J V) (hwf : Node.WF pre n) (mod : Module J V) (h : mod ∈ n) :
    findModule n mod.name = some mod :=
  find?_of_nodup_map (fun m : Module J V => m.name) n hwf.names mod h

theorem lookupParam_of_exported (pre : Predef) (n : Node J V) (hwf : Node.WF pre n) (m a : String)
    (mod : Module J V) (p : Param J V) (h : ExportedParam pre n m a mod p) :
    lookupParam pre n m a = .ok (mod, p) := by
  obtain ⟨hmem, hname, hexp, hacc, hwire⟩ := h
  unfold lookupParam
  rw [← hname, findModule_of_mem pre n hwf mod hmem]
  simp only
  have hw : wireName pre mod (.param p) = some a := by simp [wireName, hexp, hwire]
  have := find?_of_nodup_filterMap (wireName pre mod) mod.accs (hwf.wires mod hmem) (.param p) hacc a hw
  unfold findParam findWire
  rw [this]

theorem exported_of_lookupParam (pre : Predef) (n : Node J V) (m a : String)
    (mod : Module J V) (p : Param J V) (h : lookupParam pre n m a = .ok (mod, p)) :
    ExportedParam pre n m a mod p := by
  unfold lookupParam at h
  split at h
  · cases h
  · rename_i mod' hfm
    split at h
    · cases h
    · rename_i p' hfp
      injection h with h; injection h with h1 h2
      suffices res : ExportedParam pre n m a mod' p' by rw [h1, h2] at res; exact res
      unfold findModule at hfm
      have hmem := List.mem_of_find?_eq_some hfm
      have hname := List.find?_some hfm
      unfold findParam at hfp
      split at hfp
      · rename_i p'' hfw
        injection hfp with hfp; rw [hfp] at hfw
        unfold findWire at hfw
        have hamem := List.mem_of_find?_eq_some hfw
        have hw := List.find?_some hfw
        have hw' : wireName pre mod' (.param p') = some a := by simpa using hw
        unfold wireName at hw'
        split at hw'
        · rename_i hexp; exact ⟨hmem, by simpa using hname, hexp, hamem, hw'⟩
        · cases hw'
      · cases hfp

theorem lookupCommand_of_exported (pre : Predef) (n : Node J V) (hwf : Node.WF pre n) (m a : String)
    (mod : Module J V) (c : Command J V) (h : ExportedCommand pre n m a mod c) :
    lookupCommand pre n m a = .ok (mod, c) := by
  obtain ⟨hmem, hname, hexp, hacc, hwire⟩ := h
  unfold lookupCommand
  rw [← hname, findModule_of_mem pre n hwf mod hmem]
  simp only
  have hw : wireName pre mod (.command c) = some a := by simp [wireName, hexp, hwire]
  have := find?_of_nodup_filterMap (wireName pre mod) mod.accs (hwf.wires mod hmem) (.command c) hacc a hw
  unfold findCommand findWire
  rw [this]

theorem exported_of_lookupCommand (pre : Predef) (n : Node J V) (m a : String)
    (mod : Module J V) (c : Command J V) (h : lookupCommand pre n m a = .ok (mod, c)) :
    ExportedCommand pre n m a mod c := by
  unfold lookupCommand at h
  split at h
  · cases h
  · rename_i mod' hfm
    split at h
    · cases h
    · rename_i c' hfp
      injection h with h; injection h with h1 h2
      suffices res : ExportedCommand pre n m a mod' c' by rw [h1, h2] at res; exact res
      unfold findModule at hfm
      have hmem := List.mem_of_find?_eq_some hfm
      have hname := List.find?_some hfm
      unfold findCommand at hfp
      split at hfp
      · rename_i c'' hfw
        injection hfp with hfp; rw [hfp] at hfw
        unfold findWire at hfw
        have hamem := List.mem_of_find?_eq_some hfw
        have hw := List.find?_some hfw
        have hw' : wireName pre mod' (.command c') = some a := by simpa using hw
        unfold wireName at hw'
        split at hw'
        · rename_i hexp; exact ⟨hmem, by simpa using hname, hexp, hamem, hw'⟩
        · cases hw'
      · cases hfp


/-! ### cache updates keep the node well-formed -/

@[simp] theorem setEntry_attr (attr : String) (e : Entry V) (a : Acc J V) : (Acc.setEntry attr e a).attr = a.attr := by
  cases a with
  | param p => simp only [Acc.setEntry]; split <;> rfl
  | command c => rfl

@[simp] theorem setEntry_exp (attr : String) (e : Entry V) (a : Acc J V) : (Acc.setEntry attr e a).exp = a.exp := by
  cases a with
  | param p => simp only [Acc.setEntry]; split <;> rfl
  | command c => rfl

@[simp] theorem setEntry_kind (attr : String) (e : Entry V) (a : Acc J V) : (Acc.setEntry attr e a).kind = a.kind := by
  cases a with
  | param p => simp only [Acc.setEntry]; split <;> rfl
  | command c => rfl

@[simp] theorem setEntry_limitHead (attr : String) (e : Entry V) (a : Acc J V) :
    (Acc.setEntry attr e a).limitHead = a.limitHead := by
  cases a with
  | param p => simp only [Acc.setEntry]; split <;> rfl
  | command c => rfl

@[simp] theorem exportName_setEntry (pre : Predef) (attr : String) (e : Entry V) (a : Acc J V) :
    exportName pre (Acc.setEntry attr e a) = exportName pre a := by
  unfold exportName; simp

@[simp] theorem wireName_setEntry (pre : Predef) (m : Module J V) (attr : String) (e : Entry V) (a : Acc J V) :
    wireName pre (m.setEntry attr e) (Acc.setEntry attr e a) = wireName pre m a := by
  unfold wireName; simp [Module.setEntry]

/-- the module transformation used by `setEntry` -/
def updMod (mod attr : String) (e : Entry V) (m : Module J V) : Module J V :=
  if m.name == mod then m.setEntry attr e else m

theorem setEntry_eq_map (n : Node J V) (mod attr : String) (e : Entry V) :
    setEntry n mod attr e = n.map (updMod mod attr e) := rfl

@[simp] theorem updMod_name (mod attr : String) (e : Entry V) (m : Module J V) : (updMod mod attr e m).name = m.name := by
  unfold updMod; split <;> rfl

@[simp] theorem updMod_exported (mod attr : String) (e : Entry V) (m : Module J V) :
    (updMod mod attr e m).exported = m.exported := by
  unfold updMod; split <;> rfl

theorem updMod_attrs (mod attr : String) (e : Entry V) (m : Module J V) :
    (updMod mod attr e m).accs.map Acc.attr = m.accs.map Acc.attr := by
  unfold updMod; split
  · simp [Module.setEntry, List.map_map]
  · rfl

theorem updMod_wires (pre : Predef) (mod attr : String) (e : Entry V) (m : Module J V) :
    (updMod mod attr e m).accs.filterMap (wireName pre (updMod mod attr e m)) = m.accs.filterMap (wireName pre m) := by
  unfold updMod; split
  · show (m.accs.map (Acc.setEntry attr e)).filterMap (wireName pre (m.setEntry attr e)) = _
    rw [List.filterMap_map]
    congr 1; funext a; simp
  · rfl

theorem updMod_acc (mod attr : String) (e : Entry V) (m : Module J V) (a' : Acc J V)
    (h : a' ∈ (updMod mod attr e m).accs) : ∃ a ∈ m.accs, a' = a ∨ a' = Acc.setEntry attr e a := by
  unfold updMod at h; split at h
  · simp only [Module.setEntry, List.mem_map] at h
    obtain ⟨a, ha, rfl⟩ := h
    exact ⟨a, ha, Or.inr rfl⟩
  · exact ⟨a', h, Or.inl rfl⟩

theorem wf_setEntry (pre : Predef) (n : Node J V) (hwf : Node.WF pre n) (mod attr : String) (e : Entry V) :
    Node.WF pre (setEntry n mod attr e) := by
  rw [setEntry_eq_map]
  refine ⟨?_, ?_, ?_, ?_, ?_⟩
  · unfold namesNodup; rw [List.map_map]
    have : ((fun x : Module J V => x.name) ∘ updMod mod attr e) = (fun x : Module J V => x.name) := by
      funext m; simp
    rw [this]; exact hwf.names
  · intro m' hm'
    obtain ⟨m, hm, rfl⟩ := List.mem_map.1 hm'
    unfold Module.attrsNodup; rw [updMod_attrs]; exact hwf.attrs m hm
  · intro m' hm'
    obtain ⟨m, hm, rfl⟩ := List.mem_map.1 hm'
    unfold Module.wiresNodup; rw [updMod_wires]; exact hwf.wires m hm
  · intro m' hm'
    obtain ⟨m, hm, rfl⟩ := List.mem_map.1 hm'
    intro a' ha' k hk
    obtain ⟨a, ha, h | h⟩ := updMod_acc mod attr e m a' ha'
    · subst h; exact hwf.kinds m hm a' ha k hk
    · subst h; simp only [setEntry_attr, setEntry_kind] at hk ⊢; exact hwf.kinds m hm a ha k hk
  · intro m' hm'
    obtain ⟨m, hm, rfl⟩ := List.mem_map.1 hm'
    intro a' ha' p' hp' hc
    obtain ⟨a, ha, h | h⟩ := updMod_acc mod attr e m a' ha'
    · subst h; exact hwf.constRO m hm a' ha p' hp' hc
    · cases a with
      | command c => rw [h] at hp'; cases hp'
      | param p =>
        rw [h] at hp'
        simp only [Acc.setEntry] at hp'
        have hro := hwf.constRO m hm (.param p) ha p rfl
        by_cases hb : (p.attr == attr) = true
        · rw [if_pos hb] at hp'
          injection hp' with hp'; subst hp'
          exact hro hc
        · rw [if_neg hb] at hp'
          injection hp' with hp'; subst hp'
          exact hro hc

/-- a request either leaves the node alone or stores one cache entry -/
def NodeStep (n n' : Node J V) : Prop := n' = n ∨ ∃ mod attr e, n' = setEntry n mod attr e

theorem store_node (pre : Predef) (n : Node J V) (mod : Module J V) (p : Param J V) (v : V)
    (calls : List (DriverCall V)) (mk : J → Reply J) : NodeStep n (store pre n mod p v calls mk).node :=
  Or.inr ⟨_, _, _, rfl⟩

theorem finishWrite_node (pre : Predef) (env : Env V) (n : Node J V) (mod : Module J V) (p : Param J V) (v w : V) :
    NodeStep n (finishWrite pre env n mod p v w).node := by
  unfold finishWrite
  split
  · simp only
    split
    · exact Or.inl rfl
    · exact Or.inl rfl
    · exact store_node ..
    · split
      · exact Or.inl rfl
      · exact store_node ..
  · exact store_node ..

theorem handleChange_node (pre : Predef) (env : Env V) (n : Node J V) (spec : Spec) (j : J) :
    NodeStep n (handleChange pre env n spec j).node := by
  unfold handleChange
  split
  · exact Or.inl rfl
  · split
    · exact Or.inl rfl
    · split
      · exact Or.inl rfl
      · exact finishWrite_node ..

theorem handleDo_node (pre : Predef) (env : Env V) (n : Node J V) (spec : Spec) (data : Option J) :
    (handleDo pre env n spec data).node = n := by
  unfold handleDo
  split
  · rfl
  · split
    · rfl
    · split
      · rfl
      · exact (finishDo_calls ..).2.1

theorem readFailed_node (pre : Predef) (n : Node J V) (mod : Module J V) (p : Param J V) (e : Node.Err)
    (calls : List (DriverCall V)) : NodeStep n (readFailed pre n mod p e calls).node := by
  unfold readFailed; split
  · exact Or.inl rfl
  · exact Or.inr ⟨_, _, _, rfl⟩

theorem readParam_node (pre : Predef) (env : Env V) (n : Node J V) (mod : Module J V) (p : Param J V) :
    NodeStep n (readParam pre env n mod p).node := by
  unfold readParam
  split
  · exact Or.inl rfl
  · split
    · simp only
      split
      · exact Or.inl rfl
      · exact readFailed_node ..
      · split
        · exact readFailed_node ..
        · exact store_node ..
    · exact Or.inl rfl

theorem handleRead_node (pre : Predef) (env : Env V) (n : Node J V) (spec : Spec) (hd : Bool) :
    NodeStep n (handleRead pre env n spec hd).node := by
  unfold handleRead
  split
  · exact Or.inl rfl
  · split
    · exact Or.inl rfl
    · split
      · exact Or.inl rfl
      · exact readParam_node ..

theorem handleAssign_node (pre : Predef) (n : Node J V) (m attr : String) (raw : Option V) :
    NodeStep n (handleAssign pre n m attr raw).node := by
  unfold handleAssign
  split
  · exact Or.inl rfl
  · split
    · split
      · exact readFailed_node ..
      · exact store_node ..
    · exact Or.inl rfl

theorem step_node (pre : Predef) (env : Env V) (n : Node J V) (r : Request J V) : NodeStep n (step pre env n r).node := by
  cases r with
  | change spec j => exact handleChange_node ..
  | do_ spec data => exact Or.inl (handleDo_node ..)
  | read spec hd => exact handleRead_node ..
  | assign m attr raw => exact handleAssign_node ..

theorem wf_step (pre : Predef) (env : Env V) (n : Node J V) (hwf : Node.WF pre n) (r : Request J V) :
    Node.WF pre (step pre env n r).node := by
  rcases step_node pre env n r with h | ⟨mod, attr, e, h⟩
  · rw [h]; exact hwf
  · rw [h]; exact wf_setEntry pre n hwf mod attr e

end Frappy.Lemmas.Dispatch
