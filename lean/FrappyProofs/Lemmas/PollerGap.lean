import FrappyProofs.Lemmas.Poller
import FrappyProofs.Lemmas.PollerSlow
/-
C13 — lemmas that carry the main-poll bound from the list of starts (`run_gaps`) to the specification's own clause
`Spec.C13.MainGapBoundS`: the clock never runs backwards, every start lies after the start-up round, the first start
comes within one sweep, and the run ends no later than one interval plus one sweep after the last start.
-/
namespace Frappy.Poller
open Spec.C13 (startsOf GapsLe pairs)

theorem slowPhase_clock_mono (env : Env) (hq : Quiet env) (D E : Nat) (hb : Bounded env D E) (σ : PollState) (now : Nat) :
    σ.clock ≤ (slowPhase env σ now).σ.clock := by
  unfold slowPhase
  split
  · exact (callEntry_quiet env hq D E hb σ _ _ 0).2.1
  · simp only
    split
    · exact Nat.le_refl _
    · split
      · exact (callEntry_quiet env hq D E hb
          ({ σ with mods := σ.mods.map (markSlow now), toPoll := none } : PollState) _ _ 0).2.1
      · exact Nat.le_refl _

/-- the clock never runs backwards over a turn -/
theorem turn_clock_mono (c : Consts) (env : Env) (hq : Quiet env) (D E : Nat) (hb : Bounded env D E) (σ : PollState) :
    σ.clock ≤ (turn c env σ).σ.clock := by
  have hrc := (readClock_clock env D E hb σ).1
  unfold turn
  simp only
  split
  · have := (doWait_ghost env (readClock env σ)
      (wakeAt c (readClock env σ).clock (readClock env σ).mods - (readClock env σ).clock)).2.2
    dsimp only; omega
  · have h1 := (sweep_step env hq D E hb 0 0 (List.range (readClock env σ).mods.length) (readClock env σ)
      (readClock env σ).clock []).1.clk
    have h2 := slowPhase_clock_mono env hq D E hb
      (sweep env (List.range (readClock env σ).mods.length) (readClock env σ) (readClock env σ).clock []).σ
      (sweep env (List.range (readClock env σ).mods.length) (readClock env σ) (readClock env σ).clock []).now
    dsimp only; omega

/-- the latest moment of the first start after the clock was `L`, for a module whose `last_main` was `lm` then:
its due time (or `L`, if it was due already), the turn that may just have begun, and the way to module `i` -/
def firstBound (n D E I L lm : Nat) : Nat := Nat.max (lm + I) L + (n - 1) * (D + E) + D + 2 * E

/-- what the run-level induction knows about module `i` and the list of its starts since the clock was `L`
(`lm`: its `last_main` at that moment) -/
structure RunInv (n i D E I L lm : Nat) (σ : PollState) (m : Mod) (starts : List Nat) : Prop where
  gaps : GapsLe starts (gapBound n D E I)
  link : ∀ a, starts.getLast? = some a → m.lastStart = a ∧ ClockInv n i D E I σ m
  lo : ∀ t ∈ starts, L < t
  head : ∀ a, starts.head? = some a → a ≤ firstBound n D E I L lm
  fresh : starts = [] → m.lastMain = lm ∧ σ.clock ≤ Nat.max (lm + I) L + restAfter n i D E
  clk : L ≤ σ.clock

theorem run_full (c : Consts) (env : Env) (hq : Quiet env) (D E : Nat) (hb : Bounded env D E) (n i I L lm : Nat)
    (hi : i < n) (k : Nat) : ∀ (σ : PollState) (m : Mod) (evs : List Event), GapInv n i D E I σ m →
    RunInv n i D E I L lm σ m (startsOf evs i) →
    ∃ m', GapInv n i D E I (run c env k σ evs).σ m' ∧
      RunInv n i D E I L lm (run c env k σ evs).σ m' (startsOf (run c env k σ evs).evs i) := by
  induction k with
  | zero => intro σ m evs hinv hr; exact ⟨m, hinv, hr⟩
  | succ k ih =>
    intro σ m evs hinv hr
    simp only [run]
    obtain ⟨m', hm', hlen, hen, hiv, hcase⟩ := turn_module c env hq D E hb σ i m hinv.get
    have hmono := turn_clock_mono c env hq D E hb σ
    have hrc := readClock_clock env D E hb σ
    have hmaxI : I ≤ Nat.max I D := Nat.le_max_left _ _
    have hmaxD : D ≤ Nat.max I D := Nat.le_max_right _ _
    rw [hinv.len] at hcase
    rcases hcase with ⟨hst, hlm, hls, hcl⟩ | ⟨t, hst, _, hls, hlm, hlo, hhi, hcl, _⟩
    · -- no main poll of `i` in this turn
      have hinv' : GapInv n i D E I (turn c env σ).σ m' :=
        ⟨by rw [hlen, hinv.len], hm', by rw [hen, hinv.en], by rw [hiv, hinv.iv], by rw [hlm, hls]; exact hinv.le⟩
      apply ih _ m' _ hinv'
      rw [startsOf_append, hst, List.append_nil]
      refine ⟨hr.gaps, ?_, hr.lo, hr.head, ?_, Nat.le_trans hr.clk hmono⟩
      · intro a ha
        obtain ⟨h1, _⟩ := hr.link a ha
        refine ⟨by rw [hls]; exact h1, ?_⟩
        have := (hcl hinv.en).1
        have h3 := hinv.le
        have h4 := hinv.iv
        unfold ClockInv
        rw [hls]
        omega
      · intro he
        -- nothing polled yet: the turn ended no later than `restAfter` after the module's due time
        obtain ⟨h1, h2⟩ := hr.fresh he
        have := (hcl hinv.en).1
        have h4 := hinv.iv
        have hmx : lm + I ≤ Nat.max (lm + I) L := Nat.le_max_left _ _
        refine ⟨by rw [hlm]; exact h1, ?_⟩
        rw [h1, h4] at this
        omega
    · -- `doPoll i` at time `t`
      have hinv' : GapInv n i D E I (turn c env σ).σ m' :=
        ⟨by rw [hlen, hinv.len], hm', by rw [hen, hinv.en], by rw [hiv, hinv.iv], by rw [hls]; exact hlm⟩
      apply ih _ m' _ hinv'
      rw [startsOf_append, hst]
      refine ⟨?_, ?_, ?_, ?_, ?_, Nat.le_trans hr.clk hmono⟩
      · apply gapsLe_append_single _ _ _ hr.gaps
        intro a ha
        obtain ⟨h1, h2⟩ := hr.link a ha
        unfold ClockInv restAfter at h2
        unfold gapBound
        have h5 : i * (D + E) + (n - 1 - i) * (D + E) = (n - 1) * (D + E) := by
          rw [← Nat.add_mul]; congr 1; omega
        omega
      · intro a ha
        simp only [List.getLast?_append, List.getLast?_singleton, Option.some_or, Option.some.injEq] at ha
        subst ha
        refine ⟨hls, ?_⟩
        unfold ClockInv
        rw [hls]
        omega
      · intro x hx
        simp only [List.mem_append, List.mem_singleton] at hx
        rcases hx with hx | hx
        · exact hr.lo x hx
        · subst hx; have := hr.clk; omega
      · intro a ha
        cases hs : startsOf evs i with
        | nil =>
          rw [hs] at ha
          simp only [List.nil_append, List.head?_cons, Option.some.injEq] at ha
          subst ha
          have := (hr.fresh hs).2
          unfold restAfter at this
          unfold firstBound
          have h5 : i * (D + E) + (n - 1 - i) * (D + E) = (n - 1) * (D + E) := by
            rw [← Nat.add_mul]; congr 1; omega
          omega
        | cons x xs =>
          rw [hs] at ha
          simp only [List.cons_append, List.head?_cons, Option.some.injEq] at ha
          subst ha
          exact hr.head x (by rw [hs]; rfl)
      · intro he
        simp at he

/-- whatever another thread does to the poll bookkeeping, a module keeps its `PollInfo` and `last_main` stays at or
before the latest start (it is only ever reset to 0) -/
theorem applyExtMods_keeps (e : Ext) (mods : List Mod) (i : Nat) (m : Mod) (hm : mods[i]? = some m) :
    ∃ m', (applyExtMods mods e)[i]? = some m' ∧ m'.enabled = m.enabled ∧
      (m.lastMain ≤ m.lastStart → m'.lastMain ≤ m'.lastStart) := by
  cases e with
  | updateInterval j v =>
    by_cases hj : j = i
    · subst hj
      refine ⟨extUpdateInterval v m, by simp [applyExtMods, updAt_getElem?, hm], ?_, ?_⟩
      · unfold extUpdateInterval; split <;> rfl
      · unfold extUpdateInterval; split <;> exact id
    · exact ⟨m, by simp [applyExtMods, updAt_getElem?, hm, Ne.symm hj], rfl, id⟩
  | setFastPoll j flag v =>
    by_cases hj : j = i
    · subst hj
      exact ⟨extSetFastPoll flag v m, by simp [applyExtMods, updAt_getElem?, hm], rfl, id⟩
    · exact ⟨m, by simp [applyExtMods, updAt_getElem?, hm, Ne.symm hj], rfl, id⟩
  | trigger j imm =>
    by_cases hj : j = i
    · subst hj
      refine ⟨extTrigger imm m, by simp [applyExtMods, updAt_getElem?, hm], ?_, ?_⟩
      · unfold extTrigger; split <;> rfl
      · unfold extTrigger; split
        · intro _; exact Nat.zero_le _
        · exact id
    · exact ⟨m, by simp [applyExtMods, updAt_getElem?, hm, Ne.symm hj], rfl, id⟩
  | triggerAll =>
    refine ⟨extTriggerAll m, by simp [applyExtMods, hm], ?_, ?_⟩
    · unfold extTriggerAll; split <;> rfl
    · unfold extTriggerAll; split
      · intro _; exact Nat.zero_le _
      · exact id

theorem applyExts_keeps (es : List Ext) : ∀ (σ : PollState) (i : Nat) (m : Mod), σ.mods[i]? = some m →
    ∃ m', (applyExts es σ).mods[i]? = some m' ∧ m'.enabled = m.enabled ∧
      (m.lastMain ≤ m.lastStart → m'.lastMain ≤ m'.lastStart) := by
  induction es with
  | nil => intro σ i m hm; exact ⟨m, hm, rfl, id⟩
  | cons e es ih =>
    intro σ i m hm
    obtain ⟨m1, h1, e1, l1⟩ := applyExtMods_keeps e σ.mods i m hm
    obtain ⟨m', h', e', l'⟩ := ih (applyExt σ e) i m1 h1
    exact ⟨m', h', by rw [e', e1], fun h => l' (l1 h)⟩

end Frappy.Poller
