import FrappyModel.Base.NumCompat
/-
The exact carrier `Rat` satisfies the additional carrier laws `CompatLaws` (Base/NumCompat.lean) and the
laws `LawfulFloatOps` (Base/Num.lean): the laws are consistent (non-vacuity).
-/
namespace Frappy
open FloatOps DType

namespace RatLaws

theorem big_pos : (0 : Rat) ≤ RatCarrier.big := by decide

theorem ofInt_zero : (ofInt (0 : Int) : Option Rat) = some 0 := by
  show (if (-RatCarrier.big ≤ ((0 : Int) : Rat) ∧ ((0 : Int) : Rat) ≤ RatCarrier.big) then some ((0 : Int) : Rat) else none) = some 0
  rw [if_pos (by decide)]; rfl

theorem ofInt_one : (ofInt (1 : Int) : Option Rat) = some 1 := by
  show (if (-RatCarrier.big ≤ ((1 : Int) : Rat) ∧ ((1 : Int) : Rat) ≤ RatCarrier.big) then some ((1 : Int) : Rat) else none) = some 1
  rw [if_pos (by decide)]; rfl

theorem positive_iff (s : Rat) : positive s = true ↔ 0 < s := by
  unfold positive; rw [ofInt_zero]; show decide ((0 : Rat) < s) = true ↔ _; simp

theorem nonneg_iff (s : Rat) : nonneg s = true ↔ 0 ≤ s := by
  unfold nonneg; rw [ofInt_zero]; show decide ((0 : Rat) ≤ s) = true ↔ _; simp

theorem resLeOne_iff (s : Rat) : resLeOne s = true ↔ s ≤ 1 := by
  unfold resLeOne; rw [ofInt_one]; show decide (s ≤ (1 : Rat)) = true ↔ _; simp

theorem le_iff (x y : Rat) : le x y = true ↔ x ≤ y := by
  show decide (x ≤ y) = true ↔ _; simp

theorem lt_iff (x y : Rat) : lt x y = true ↔ x < y := by
  show decide (x < y) = true ↔ _; simp

theorem isFinite_iff (x : Rat) : isFinite x = true ↔ (-RatCarrier.big ≤ x ∧ x ≤ RatCarrier.big) := by
  show (!false && decide ((if 0 ≤ x then x else -x) ≤ RatCarrier.big)) = true ↔ _
  have := big_pos
  split <;> simp <;> grind

theorem tolerance_eq (rr ar x : Rat) :
    tolerance rr ar x = if (if 0 ≤ x * rr then x * rr else -(x * rr)) < ar then ar else (if 0 ≤ x * rr then x * rr else -(x * rr)) := by
  show (if decide ((if 0 ≤ x * rr then x * rr else -(x * rr)) < ar) = true then ar else _) = _
  simp only [decide_eq_true_eq]; rfl

theorem tol_step (rr ar x y : Rat) (h0 : 0 ≤ rr) (h1 : rr ≤ 1) (hxy : x ≤ y) :
    tolerance rr ar x ≤ tolerance rr ar y + (y - x) ∧ tolerance rr ar y ≤ tolerance rr ar x + (y - x) := by
  rw [tolerance_eq, tolerance_eq]
  have hd : 0 ≤ y - x := by grind
  have h1' : 0 ≤ 1 - rr := by grind
  have e1 : 0 ≤ (y - x) * rr := Rat.mul_nonneg hd h0
  have e2 : 0 ≤ (y - x) * (1 - rr) := Rat.mul_nonneg hd h1'
  constructor <;> grind

theorem tol_nonneg' (rr ar x : Rat) (har : 0 ≤ ar) : 0 ≤ tolerance rr ar x := by
  rw [tolerance_eq]; grind

theorem sub_eq (x y : Rat) : (sub x y : Rat) = x - y := rfl
theorem add_eq (x y : Rat) : (add x y : Rat) = x + y := rfl
theorem neg_eq (x : Rat) : (neg x : Rat) = -x := rfl
theorem maxFinite_eq : (maxFinite : Rat) = RatCarrier.big := rfl
theorem isNaN_eq (x : Rat) : isNaN x = false := rfl
theorem addZero_eq (x : Rat) : addZero x = x := rfl

theorem ofInt_eq (i : Int) : (ofInt i : Option Rat) =
    if (-RatCarrier.big ≤ (i : Rat) ∧ (i : Rat) ≤ RatCarrier.big) then some (i : Rat) else none := rfl

end RatLaws

open RatLaws in
instance instCompatLawsRat : CompatLaws Rat where
  feq_canon := by
    intro x y h _ _
    have h' : decide (x = y) = true := h
    simpa using h'
  addZero_isNaN := fun _ => rfl
  addZero_le_left := fun _ _ => rfl
  addZero_le_right := fun _ _ => rfl
  addZero_idem := fun _ => rfl
  finite_between := by
    intro a x b ha hb hax hxb
    rw [isFinite_iff] at *; rw [le_iff] at hax hxb
    grind
  finite_bounds := by
    intro x hx
    rw [isFinite_iff] at hx
    rw [le_iff, le_iff, neg_eq, maxFinite_eq]; exact hx
  bounds_finite := by
    intro x h1 h2
    rw [le_iff, neg_eq, maxFinite_eq] at h1
    rw [le_iff, maxFinite_eq] at h2
    rw [isFinite_iff]; exact ⟨h1, h2⟩
  ofInt_between := by
    intro lo i hi a b ha hb h1 h2
    rw [ofInt_eq] at ha hb
    split at ha <;> try contradiction
    split at hb <;> try contradiction
    rename_i hlo hhi
    have e1 : (lo : Rat) ≤ (i : Rat) := Rat.intCast_le_intCast.mpr h1
    have e2 : (i : Rat) ≤ (hi : Rat) := Rat.intCast_le_intCast.mpr h2
    refine ⟨(i : Rat), ?_⟩
    rw [ofInt_eq, if_pos]
    grind
  ofInt_intLimit := by
    intro i h1 h2
    have hb : RatCarrier.big = ((179769313486231570000 : Int) : Rat) := by decide
    have e1 : ((-DType.intLimit : Int) : Rat) ≤ (i : Rat) := Rat.intCast_le_intCast.mpr h1
    have e2 : (i : Rat) ≤ ((DType.intLimit : Int) : Rat) := Rat.intCast_le_intCast.mpr h2
    have b1 : ((-179769313486231570000 : Int) : Rat) ≤ ((-DType.intLimit : Int) : Rat) :=
      Rat.intCast_le_intCast.mpr (by decide)
    have b2 : ((DType.intLimit : Int) : Rat) ≤ ((179769313486231570000 : Int) : Rat) :=
      Rat.intCast_le_intCast.mpr (by decide)
    have b3 : ((-179769313486231570000 : Int) : Rat) = -((179769313486231570000 : Int) : Rat) := by
      simp [Rat.intCast_neg]
    refine ⟨(i : Rat), ?_⟩
    rw [ofInt_eq, if_pos]
    rw [hb]
    grind
  div_notNaN := fun _ _ _ _ _ => rfl
  tol_nonneg := by
    intro rr ar x _ _ _ har _
    rw [nonneg_iff] at har
    exact ⟨rfl, (nonneg_iff _).mpr (tol_nonneg' rr ar x har)⟩
  sub_nonneg_le := by
    intro m p _ _ hp
    rw [nonneg_iff] at hp
    rw [le_iff, sub_eq]; grind
  le_add_nonneg := by
    intro m p _ _ hp
    rw [nonneg_iff] at hp
    rw [le_iff, add_eq]; grind
  band_lo_mono := by
    intro m rr ar x y _ _ h0 h1 _ _ _ _ hxy h
    rw [nonneg_iff] at h0
    rw [resLeOne_iff] at h1
    rw [le_iff] at hxy
    rw [le_iff, sub_eq] at h ⊢
    have := tol_step rr ar x y h0 h1 hxy
    grind
  band_hi_mono := by
    intro m rr ar x y _ _ h0 h1 _ _ _ _ hxy h
    rw [nonneg_iff] at h0
    rw [resLeOne_iff] at h1
    rw [le_iff] at hxy
    rw [le_iff, add_eq] at h ⊢
    have := tol_step rr ar x y h0 h1 hxy
    grind
  sub_pos_lt := by
    intro m s _ _ hs
    rw [positive_iff] at hs
    rw [lt_iff, sub_eq]; grind
  lt_add_pos := by
    intro m s _ _ hs
    rw [positive_iff] at hs
    rw [lt_iff, add_eq]; grind

namespace RatLaws

def bigI : Int := 179769313486231570000

theorem big_eq : RatCarrier.big = (bigI : Rat) := by decide

theorem round_eq (x : Rat) : (round x : Option Int) =
    if (-RatCarrier.big ≤ x ∧ x ≤ RatCarrier.big) then some (RatCarrier.round x) else none := rfl

theorem trunc_eq (x : Rat) : (trunc x : Option Int) =
    if (-RatCarrier.big ≤ x ∧ x ≤ RatCarrier.big) then some (RatCarrier.trunc x) else none := rfl

theorem round_bounds (x : Rat) (h : -RatCarrier.big ≤ x ∧ x ≤ RatCarrier.big) :
    -RatCarrier.big ≤ ((RatCarrier.round x : Int) : Rat) ∧ ((RatCarrier.round x : Int) : Rat) ≤ RatCarrier.big := by
  rw [big_eq] at h ⊢
  unfold RatCarrier.round
  have h1 : (-bigI) ≤ (x + 1/2).floor := by
    rw [Rat.le_floor_iff, Rat.intCast_neg]; grind
  have h2 : (x + 1/2).floor < bigI + 1 := by
    rw [Rat.floor_lt_iff, Rat.intCast_add]
    have : ((1 : Int) : Rat) = 1 := rfl
    grind
  have h2' : (x + 1/2).floor ≤ bigI := by omega
  rw [← Rat.intCast_neg]
  exact ⟨Rat.intCast_le_intCast.mpr h1, Rat.intCast_le_intCast.mpr h2'⟩

end RatLaws

open RatLaws in
instance instLawfulFloatOpsRat : LawfulFloatOps Rat where
  same_iff := by
    intro x y
    show decide (x = y) = true ↔ _
    simp
  le_notNaN := fun _ _ _ => ⟨rfl, rfl⟩
  lt_notNaN := fun _ _ _ => ⟨rfl, rfl⟩
  le_refl := by
    intro x _; rw [le_iff]; exact Rat.le_refl
  le_total := by
    intro x y _ _; rw [le_iff, le_iff]; exact Rat.le_total
  le_trans := by
    intro x y z h1 h2; rw [le_iff] at *; exact Rat.le_trans h1 h2
  lt_iff := by
    intro x y _ _
    show decide (x < y) = true ↔ decide (y ≤ x) = false
    simp [Rat.not_le]
  feq_refl := by
    intro x _
    show decide (x = x) = true
    simp
  maxFinite_notNaN := rfl
  neg_maxFinite_notNaN := rfl
  neg_max_le_max := by
    rw [le_iff, neg_eq, maxFinite_eq]; decide
  ofInt_small := by
    intro i h1 h2
    have : i = -1 ∨ i = 0 ∨ i = 1 := by omega
    rcases this with rfl | rfl | rfl
    · exact ⟨_, if_pos (by decide)⟩
    · exact ⟨_, if_pos (by decide)⟩
    · exact ⟨_, if_pos (by decide)⟩
  ofInt_finite := by
    intro i y h
    rw [ofInt_eq] at h
    split at h <;> try contradiction
    rename_i hi
    cases h
    rw [isFinite_iff]; exact hi
  ofInt_mono := by
    intro i j x y hij hx hy
    rw [ofInt_eq] at hx hy
    split at hx <;> try contradiction
    split at hy <;> try contradiction
    cases hx; cases hy
    rw [le_iff]; exact Rat.intCast_le_intCast.mpr hij
  round_ofInt := by
    intro x k h
    rw [round_eq] at h
    split at h <;> try contradiction
    rename_i hx
    cases h
    exact ⟨_, by rw [ofInt_eq, if_pos (round_bounds x hx)]⟩
  round_mono := by
    intro x y i j hxy hx hy
    rw [le_iff] at hxy
    rw [round_eq] at hx hy
    split at hx <;> try contradiction
    split at hy <;> try contradiction
    cases hx; cases hy
    unfold RatCarrier.round
    apply Rat.floor_monotone
    grind
  trunc_of_integral := by
    intro x y k hx hy hf
    have hf' : decide (y = x) = true := hf
    have hyx : y = x := by simpa using hf'
    rw [ofInt_eq] at hy
    split at hy <;> try contradiction
    rename_i hk
    cases hy
    subst hyx
    rw [trunc_eq, if_pos hk]
    unfold RatCarrier.trunc
    split
    · rw [Rat.floor_intCast]
    · rw [← Rat.intCast_neg, Rat.floor_intCast]; simp
  round_isSome := by
    intro x
    rw [round_eq]
    by_cases h : (-RatCarrier.big ≤ x ∧ x ≤ RatCarrier.big)
    · rw [if_pos h, (isFinite_iff x).mpr h]; rfl
    · rw [if_neg h]
      have : isFinite x ≠ true := fun hf => h ((isFinite_iff x).mp hf)
      simp at this
      rw [this]; rfl
  trunc_isSome := by
    intro x
    rw [round_eq, trunc_eq]
    split <;> rfl
  div_mono := by
    intro x y s hxy _ hs _ _
    obtain ⟨z, hz, hzs⟩ := hs
    rw [ofInt_zero] at hz; cases hz
    rw [lt_iff] at hzs
    rw [le_iff] at hxy ⊢
    show x / s ≤ y / s
    rw [Rat.div_def, Rat.div_def]
    have : 0 < s⁻¹ := Rat.inv_pos.mpr hzs
    exact Rat.mul_le_mul_of_nonneg_right hxy (Rat.le_of_lt this)
  mul_mono := by
    intro x y s hxy _ hs _ _
    obtain ⟨z, hz, hzs⟩ := hs
    rw [ofInt_zero] at hz; cases hz
    rw [lt_iff] at hzs
    rw [le_iff] at hxy ⊢
    exact Rat.mul_le_mul_of_nonneg_right hxy (Rat.le_of_lt hzs)
  mul_comm := fun x y => Rat.mul_comm x y

end Frappy
