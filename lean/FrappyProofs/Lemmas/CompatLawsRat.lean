import FrappyModel.Base.NumCompat
import FrappyProofs.Lemmas.RatLawful
/-
The exact carrier `Rat` satisfies the additional carrier laws `CompatLaws` (Base/NumCompat.lean): the
laws are consistent with `LawfulFloatOps Rat` (`RatLawful.lean`) — non-vacuity of the C03 theorems.
-/
namespace Frappy
open FloatOps DType

namespace RatLaws

theorem big_pos : (0 : Rat) ≤ RatCarrier.big := by decide

theorem ofInt_eq (i : Int) : (ofInt i : Option Rat) = some (i : Rat) := rfl

theorem positive_iff (s : Rat) : positive s = true ↔ 0 < s := by
  unfold positive; rw [ofInt_eq]; show decide (((0 : Int) : Rat) < s) = true ↔ _; simp

theorem nonneg_iff (s : Rat) : nonneg s = true ↔ 0 ≤ s := by
  unfold nonneg isNonneg; rw [ofInt_eq]; show decide (((0 : Int) : Rat) ≤ s) = true ↔ _; simp

theorem resLeOne_iff (s : Rat) : resLeOne s = true ↔ s ≤ 1 := by
  unfold resLeOne; rw [ofInt_eq]; show decide (s ≤ ((1 : Int) : Rat)) = true ↔ _; simp

theorem le_iff (x y : Rat) : le x y = true ↔ x ≤ y := by
  show decide (x ≤ y) = true ↔ _; simp

theorem lt_iff (x y : Rat) : lt x y = true ↔ x < y := by
  show decide (x < y) = true ↔ _; simp

theorem isFinite_iff (x : Rat) : isFinite x = true ↔ (-RatCarrier.big ≤ x ∧ x ≤ RatCarrier.big) := by
  show (!false && decide ((if 0 ≤ x then x else -x) ≤ RatCarrier.big)) = true ↔ _
  have := big_pos
  split <;> simp <;> grind

theorem tolerance_eq (rr ar x : Rat) :
    tolerance rr ar x = if (if 0 ≤ x * rr then x * rr else -(x * rr)) < ar then ar else (if 0 ≤ x * rr then x * rr else -(x * rr)) := by
  show (if decide ((if 0 ≤ x * rr then x * rr else -(x * rr)) < ar) = true then ar else _) = _
  simp only [decide_eq_true_eq]; rfl

theorem tol_step (rr ar x y : Rat) (h0 : 0 ≤ rr) (h1 : rr ≤ 1) (hxy : x ≤ y) :
    tolerance rr ar x ≤ tolerance rr ar y + (y - x) ∧ tolerance rr ar y ≤ tolerance rr ar x + (y - x) := by
  rw [tolerance_eq, tolerance_eq]
  have hd : 0 ≤ y - x := by grind
  have h1' : 0 ≤ 1 - rr := by grind
  have e1 : 0 ≤ (y - x) * rr := Rat.mul_nonneg hd h0
  have e2 : 0 ≤ (y - x) * (1 - rr) := Rat.mul_nonneg hd h1'
  constructor <;> grind

theorem tol_nonneg' (rr ar x : Rat) (har : 0 ≤ ar) : 0 ≤ tolerance rr ar x := by
  rw [tolerance_eq]; grind

theorem sub_eq (x y : Rat) : (sub x y : Rat) = x - y := rfl
theorem add_eq (x y : Rat) : (add x y : Rat) = x + y := rfl
theorem mul_eq (x y : Rat) : (mul x y : Rat) = x * y := rfl
theorem div_eq (x y : Rat) : (div x y : Rat) = x / y := rfl
theorem neg_eq (x : Rat) : (neg x : Rat) = -x := rfl
theorem maxFinite_eq : (maxFinite : Rat) = RatCarrier.big := rfl
theorem round_eq (x : Rat) : (round x : Option Int) = some (RatCarrier.round x) := rfl

/-- `round(x/s)·s` is within half a scale of `x` -/
theorem round_mul_bounds (x s : Rat) (hs : 0 < s) :
    ((RatCarrier.round (x / s) : Int) : Rat) * s ≤ x + s / 2 ∧ x - s / 2 < ((RatCarrier.round (x / s) : Int) : Rat) * s := by
  unfold RatCarrier.round
  have h1 : (((x / s + 1 / 2).floor : Int) : Rat) ≤ x / s + 1 / 2 := Rat.floor_le _
  have h2 : x / s + 1 / 2 < (((x / s + 1 / 2).floor : Int) : Rat) + 1 := by
    have := Rat.lt_floor_add_one (x / s + 1 / 2)
    rw [Rat.intCast_add] at this
    exact this
  have hne : s ≠ 0 := by grind
  have hx : x / s * s = x := Rat.div_mul_cancel hne
  have hs' : 0 ≤ s := by grind
  constructor
  · have := Rat.mul_le_mul_of_nonneg_right h1 hs'
    grind
  · have := Rat.mul_lt_mul_of_pos_right h2 hs
    grind

end RatLaws

open RatLaws in
instance instCompatLawsRat : CompatLaws Rat where
  feq_canon := by
    intro x y h _ _
    have h' : decide (x = y) = true := h
    simpa using h'
  lt_notNaN := fun _ _ _ => ⟨rfl, rfl⟩
  addZero_isNaN := fun _ => rfl
  addZero_le_left := fun _ _ => rfl
  addZero_le_right := fun _ _ => rfl
  finite_between := by
    intro a x b ha hb hax hxb
    rw [isFinite_iff] at *; rw [le_iff] at hax hxb
    grind
  finite_bounds := by
    intro x hx
    rw [isFinite_iff] at hx
    rw [le_iff, le_iff, neg_eq, maxFinite_eq]; exact hx
  bounds_finite := by
    intro x h1 h2
    rw [le_iff, neg_eq, maxFinite_eq] at h1
    rw [le_iff, maxFinite_eq] at h2
    rw [isFinite_iff]; exact ⟨h1, h2⟩
  ofInt_between := fun _ i _ _ _ _ _ _ _ => ⟨(i : Rat), rfl⟩
  ofInt_finite := by
    intro i y h1 h2 hy
    rw [ofInt_eq] at hy
    injection hy with hy
    subst hy
    have hb : RatCarrier.big = ((179769313486231570000 : Int) : Rat) := by decide
    have e1 : ((-DType.intLimit : Int) : Rat) ≤ (i : Rat) := Rat.intCast_le_intCast.mpr h1
    have e2 : (i : Rat) ≤ ((DType.intLimit : Int) : Rat) := Rat.intCast_le_intCast.mpr h2
    have b1 : ((-179769313486231570000 : Int) : Rat) ≤ ((-DType.intLimit : Int) : Rat) :=
      Rat.intCast_le_intCast.mpr (by decide)
    have b2 : ((DType.intLimit : Int) : Rat) ≤ ((179769313486231570000 : Int) : Rat) :=
      Rat.intCast_le_intCast.mpr (by decide)
    have b3 : ((-179769313486231570000 : Int) : Rat) = -((179769313486231570000 : Int) : Rat) := by
      simp [Rat.intCast_neg]
    rw [isFinite_iff, hb]
    grind
  round_between := fun _ x _ _ _ _ _ _ _ => ⟨RatCarrier.round x, rfl⟩
  tol_nonneg := by
    intro rr ar x _ _ _ har _
    rw [nonneg_iff] at har
    exact ⟨rfl, (nonneg_iff _).mpr (tol_nonneg' rr ar x har)⟩
  band_lo_mono := by
    intro m rr ar x y _ _ h0 h1 _ _ _ _ hxy h
    rw [nonneg_iff] at h0
    rw [resLeOne_iff] at h1
    rw [le_iff] at hxy
    rw [le_iff, sub_eq] at h ⊢
    have := tol_step rr ar x y h0 h1 hxy
    grind
  band_hi_mono := by
    intro m rr ar x y _ _ h0 h1 _ _ _ _ hxy h
    rw [nonneg_iff] at h0
    rw [resLeOne_iff] at h1
    rw [le_iff] at hxy
    rw [le_iff, add_eq] at h ⊢
    have := tol_step rr ar x y h0 h1 hxy
    grind
  grid_ge_lt := by
    intro m s x y k _ _ hs hk hy h
    rw [positive_iff] at hs
    rw [div_eq, round_eq] at hk
    injection hk with hk
    rw [ofInt_eq] at hy
    injection hy with hy
    subst hy; subst hk
    rw [le_iff, mul_eq] at h
    rw [lt_iff, sub_eq]
    have := (round_mul_bounds x s hs).1
    grind
  grid_le_lt := by
    intro m s x y k _ _ hs hk hy h
    rw [positive_iff] at hs
    rw [div_eq, round_eq] at hk
    injection hk with hk
    rw [ofInt_eq] at hy
    injection hy with hy
    subst hy; subst hk
    rw [le_iff, mul_eq] at h
    rw [lt_iff, add_eq]
    have := (round_mul_bounds x s hs).2
    grind

end Frappy
