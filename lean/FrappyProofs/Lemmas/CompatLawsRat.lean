import FrappyModel.Base.NumCompat
/-
The exact carrier `Rat` satisfies the additional carrier laws `CompatLaws` (Base/NumCompat.lean) and the
laws `LawfulFloatOps` (Base/Num.lean): the laws are consistent (non-vacuity).
-/
namespace Frappy
open FloatOps DType

namespace RatLaws

theorem big_pos : (0 : Rat) ≤ RatCarrier.big := by decide

theorem ofInt_zero : (ofInt (0 : Int) : Option Rat) = some 0 := by
  show (if (-RatCarrier.big ≤ ((0 : Int) : Rat) ∧ ((0 : Int) : Rat) ≤ RatCarrier.big) then some ((0 : Int) : Rat) else none) = some 0
  rw [if_pos (by decide)]; rfl

theorem ofInt_one : (ofInt (1 : Int) : Option Rat) = some 1 := by
  show (if (-RatCarrier.big ≤ ((1 : Int) : Rat) ∧ ((1 : Int) : Rat) ≤ RatCarrier.big) then some ((1 : Int) : Rat) else none) = some 1
  rw [if_pos (by decide)]; rfl

theorem positive_iff (s : Rat) : positive s = true ↔ 0 < s := by
  unfold positive; rw [ofInt_zero]; show decide ((0 : Rat) < s) = true ↔ _; simp

theorem nonneg_iff (s : Rat) : nonneg s = true ↔ 0 ≤ s := by
  unfold nonneg; rw [ofInt_zero]; show decide ((0 : Rat) ≤ s) = true ↔ _; simp

theorem resLeOne_iff (s : Rat) : resLeOne s = true ↔ s ≤ 1 := by
  unfold resLeOne; rw [ofInt_one]; show decide (s ≤ (1 : Rat)) = true ↔ _; simp

theorem le_iff (x y : Rat) : le x y = true ↔ x ≤ y := by
  show decide (x ≤ y) = true ↔ _; simp

theorem lt_iff (x y : Rat) : lt x y = true ↔ x < y := by
  show decide (x < y) = true ↔ _; simp

theorem isFinite_iff (x : Rat) : isFinite x = true ↔ (-RatCarrier.big ≤ x ∧ x ≤ RatCarrier.big) := by
  show (!false && decide ((if 0 ≤ x then x else -x) ≤ RatCarrier.big)) = true ↔ _
  have := big_pos
  split <;> simp <;> grind

theorem tolerance_eq (rr ar x : Rat) :
    tolerance rr ar x = if (if 0 ≤ x * rr then x * rr else -(x * rr)) < ar then ar else (if 0 ≤ x * rr then x * rr else -(x * rr)) := by
  show (if decide ((if 0 ≤ x * rr then x * rr else -(x * rr)) < ar) = true then ar else _) = _
  simp only [decide_eq_true_eq]; rfl

theorem tol_step (rr ar x y : Rat) (h0 : 0 ≤ rr) (h1 : rr ≤ 1) (hxy : x ≤ y) :
    tolerance rr ar x ≤ tolerance rr ar y + (y - x) ∧ tolerance rr ar y ≤ tolerance rr ar x + (y - x) := by
  rw [tolerance_eq, tolerance_eq]
  have hd : 0 ≤ y - x := by grind
  have h1' : 0 ≤ 1 - rr := by grind
  have e1 : 0 ≤ (y - x) * rr := Rat.mul_nonneg hd h0
  have e2 : 0 ≤ (y - x) * (1 - rr) := Rat.mul_nonneg hd h1'
  constructor <;> grind

end RatLaws

end Frappy
