import FrappyModel.Spec.C13
/-
Helper lemmas about the poll-loop model (`FrappyModel/Timed/Poller.lean`).
-/
namespace Frappy.Poller

/-! ## the loop never looks at outcomes -/

/-- the same environment with other outcomes of the poll functions -/
def Env.setOut (env : Env) (o : Nat → Outcome) : Env := { env with out := o }

@[simp] theorem noteRead_mods (σ : PollState) (m : Nat) (f : Fn) : (noteRead σ m f).mods = σ.mods := rfl
@[simp] theorem noteRead_clock (σ : PollState) (m : Nat) (f : Fn) : (noteRead σ m f).clock = σ.clock := rfl
@[simp] theorem noteRead_nCall (σ : PollState) (m : Nat) (f : Fn) : (noteRead σ m f).nCall = σ.nCall := rfl
@[simp] theorem noteRead_toPoll (σ : PollState) (m : Nat) (f : Fn) : (noteRead σ m f).toPoll = σ.toPoll := rfl
@[simp] theorem noteRead_stamp (σ : PollState) (m : Nat) (f : Fn) : (noteRead σ m f).stamp = σ.stamp := rfl

@[simp] theorem readClock_setOut (env : Env) (o) (σ) : readClock (env.setOut o) σ = readClock env σ := rfl
@[simp] theorem runCall_setOut (env : Env) (o) (σ) : runCall (env.setOut o) σ = runCall env σ := rfl
@[simp] theorem call_setOut_σ (env : Env) (o) (σ m f) : (call (env.setOut o) σ m f).σ = (call env σ m f).σ := rfl
@[simp] theorem call_setOut_ev (env : Env) (o) (σ m f) : (call (env.setOut o) σ m f).ev = (call env σ m f).ev := rfl
@[simp] theorem waitEvent_setOut (env : Env) (o) (σ t) : waitEvent (env.setOut o) σ t = waitEvent env σ t := rfl
@[simp] theorem doWait_setOut (env : Env) (o) (σ t) : doWait (env.setOut o) σ t = doWait env σ t := rfl

theorem pollMain_setOut (env : Env) (o) (σ now i) : pollMain (env.setOut o) σ now i = pollMain env σ now i := by
  unfold pollMain
  split
  · rfl
  · split <;> simp

theorem sweep_setOut (env : Env) (o) (is : List Nat) : ∀ σ now evs,
    sweep (env.setOut o) is σ now evs = sweep env is σ now evs := by
  induction is with
  | nil => intro σ now evs; rfl
  | cons i is ih =>
    intro σ now evs
    simp only [sweep, pollMain_setOut, readClock_setOut, ih]

theorem callEntry_setOut (env : Env) (o) (σ e rest) : callEntry (env.setOut o) σ e rest = callEntry env σ e rest := by
  simp [callEntry]

theorem slowPhase_setOut (env : Env) (o) (σ now) : slowPhase (env.setOut o) σ now = slowPhase env σ now := by
  unfold slowPhase
  simp only [callEntry_setOut]

theorem turn_setOut (c : Consts) (env : Env) (o) (σ) : turn c (env.setOut o) σ = turn c env σ := by
  unfold turn
  simp only [readClock_setOut, doWait_setOut, sweep_setOut, slowPhase_setOut]

@[simp] theorem writeOne_setOut_σ (env : Env) (o) (σ i p) : (writeOne (env.setOut o) σ i p).σ = (writeOne env σ i p).σ := rfl
@[simp] theorem writeOne_setOut_ev (env : Env) (o) (σ i p) : (writeOne (env.setOut o) σ i p).ev = (writeOne env σ i p).ev := rfl

theorem writeParams_setOut (env : Env) (o) (i : Nat) (ps : List Nat) : ∀ σ evs,
    writeParams (env.setOut o) i ps σ evs = writeParams env i ps σ evs := by
  induction ps with
  | nil => intro σ evs; rfl
  | cons p ps ih => intro σ evs; simp only [writeParams, writeOne_setOut_σ, writeOne_setOut_ev, ih]

theorem writeInit_setOut (env : Env) (o) (σ : PollState) (i : Nat) (evs : List Event) :
    writeInit (env.setOut o) σ i evs = writeInit env σ i evs := writeParams_setOut env o i _ σ evs

theorem lateAll_setOut (env : Env) (o) (is : List Nat) : ∀ σ evs,
    lateAll (env.setOut o) is σ evs = lateAll env is σ evs := by
  induction is with
  | nil => intro σ evs; rfl
  | cons i is ih => intro σ evs; simp only [lateAll, writeInit_setOut, ih]

/-! ## `writeDict`: what `writeInitParams` calls, and what it leaves -/

@[simp] theorem noteRead_pending (σ : PollState) (m : Nat) (f : Fn) : (noteRead σ m f).pending = σ.pending := rfl

theorem applyTouches_pending (ts : List Touch) : ∀ σ, (applyTouches ts σ).pending = σ.pending := by
  induction ts with
  | nil => intro σ; rfl
  | cons t ts ih => intro σ; simp only [applyTouches, List.foldl_cons] at ih ⊢; rw [ih]; rfl

theorem applyExts_pending (es : List Ext) : ∀ σ, (applyExts es σ).pending = σ.pending := by
  induction es with
  | nil => intro σ; rfl
  | cons e es ih => intro σ; simp only [applyExts, List.foldl_cons] at ih ⊢; rw [ih]; rfl

@[simp] theorem runCall_pending (env : Env) (σ) : (runCall env σ).pending = σ.pending := by
  unfold runCall; simp only [applyExts_pending, applyTouches_pending]

@[simp] theorem call_pending (env : Env) (σ m f) : (call env σ m f).σ.pending = σ.pending := by
  simp only [call, runCall_pending, noteRead_pending]

/-- the key of an event: which function of which module -/
abbrev evKey (e : Event) : Nat × Fn := (e.m, e.f)

theorem writeOne_pending (env : Env) (σ : PollState) (i p : Nat) :
    (writeOne env σ i p).σ.pending = takeOut (popPending σ.pending i p) i (env.takes σ.nCall) := by
  simp only [writeOne, call_pending]

theorem writeOne_key (env : Env) (σ : PollState) (i p : Nat) : evKey (writeOne env σ i p).ev = (i, Fn.write p) := rfl

/-- one write: the entry is gone, nothing is added; the other modules' start values are untouched -/
theorem writeOne_pending_mem (env : Env) (σ : PollState) (i p : Nat) :
    (∀ q ∈ (writeOne env σ i p).σ.pending i, q ∈ σ.pending i ∧ q ≠ p) ∧
    ∀ j, j ≠ i → (writeOne env σ i p).σ.pending j = σ.pending j := by
  rw [writeOne_pending]
  refine ⟨?_, ?_⟩
  · intro q hq
    simp only [takeOut, popPending, if_true, List.mem_filter] at hq
    exact ⟨hq.1.1, by simpa using hq.1.2⟩
  · intro j hj; simp [takeOut, popPending, hj]

/-- when the write function takes nothing else out of `writeDict`, exactly the written entry is gone -/
theorem writeOne_pending_exact (env : Env) (σ : PollState) (i p : Nat) (ht : env.takes σ.nCall = []) (q : Nat) :
    q ∈ (writeOne env σ i p).σ.pending i ↔ q ∈ σ.pending i ∧ q ≠ p := by
  rw [writeOne_pending, ht]
  simp [takeOut, popPending]

theorem writeParams_pending (env : Env) (i : Nat) (ps : List Nat) : ∀ σ evs,
    (∀ q ∈ (writeParams env i ps σ evs).σ.pending i, q ∈ σ.pending i ∧ q ∉ ps) ∧
    ∀ j, j ≠ i → (writeParams env i ps σ evs).σ.pending j = σ.pending j := by
  induction ps with
  | nil => intro σ evs; exact ⟨fun q hq => ⟨hq, List.not_mem_nil⟩, fun _ _ => rfl⟩
  | cons p ps ih =>
    intro σ evs
    simp only [writeParams]
    split
    · obtain ⟨a, b⟩ := ih (writeOne env σ i p).σ (evs ++ [(writeOne env σ i p).ev])
      obtain ⟨c, d⟩ := writeOne_pending_mem env σ i p
      refine ⟨fun q hq => ?_, fun j hj => by rw [b j hj, d j hj]⟩
      obtain ⟨h1, h2⟩ := a q hq
      obtain ⟨h3, h4⟩ := c q h1
      exact ⟨h3, by simp [h4, h2]⟩
    · rename_i hp
      obtain ⟨a, b⟩ := ih σ evs
      refine ⟨fun q hq => ?_, b⟩
      obtain ⟨h1, h2⟩ := a q hq
      exact ⟨h1, by intro hm; rcases List.mem_cons.1 hm with h | h; exact hp (h ▸ h1); exact h2 h⟩

/-- after `writeInitParams` nothing is left to write for that module; the other modules' start values are untouched -/
theorem writeInit_pending (env : Env) (σ : PollState) (i : Nat) (evs : List Event) :
    (writeInit env σ i evs).σ.pending i = [] ∧ ∀ j, j ≠ i → (writeInit env σ i evs).σ.pending j = σ.pending j := by
  obtain ⟨a, b⟩ := writeParams_pending env i (σ.pending i) σ evs
  refine ⟨List.eq_nil_iff_forall_not_mem.2 (fun q hq => ?_), b⟩
  obtain ⟨h1, h2⟩ := a q hq
  exact h2 h1

/-- what `writeInitParams` calls, for every environment: write functions of names of the snapshot, in its order, each
name at most once per occurrence -/
theorem writeParams_calls (env : Env) (i : Nat) (ps : List Nat) : ∀ σ evs,
    ∃ l, (writeParams env i ps σ evs).evs.map evKey = evs.map evKey ++ l ∧
      List.Sublist l (ps.map (fun p => (i, Fn.write p))) := by
  induction ps with
  | nil => intro σ evs; exact ⟨[], by simp [writeParams], List.Sublist.refl _⟩
  | cons p ps ih =>
    intro σ evs
    simp only [writeParams]
    split
    · obtain ⟨l, h1, h2⟩ := ih (writeOne env σ i p).σ (evs ++ [(writeOne env σ i p).ev])
      refine ⟨(i, Fn.write p) :: l, ?_, by simpa using h2.cons_cons (i, Fn.write p)⟩
      rw [h1]; simp [writeOne_key]
    · obtain ⟨l, h1, h2⟩ := ih σ evs
      exact ⟨l, h1, by simpa using h2.cons (i, Fn.write p)⟩

theorem writeInit_calls (env : Env) (σ : PollState) (i : Nat) (evs : List Event) :
    ∃ l, (writeInit env σ i evs).evs.map evKey = evs.map evKey ++ l ∧
      List.Sublist l ((σ.pending i).map (fun p => (i, Fn.write p))) :=
  writeParams_calls env i _ σ evs

/-- no write function takes further entries out of `writeDict` (no common write handlers) -/
def NoTakes (env : Env) : Prop := ∀ k, env.takes k = []

/-- … then every name of the snapshot that is in `writeDict` is written, in order -/
theorem writeParams_calls_exact (env : Env) (hn : NoTakes env) (i : Nat) (ps : List Nat) (hnd : ps.Nodup) : ∀ σ evs,
    (∀ p ∈ ps, p ∈ σ.pending i) →
    (writeParams env i ps σ evs).evs.map evKey = evs.map evKey ++ ps.map (fun p => (i, Fn.write p)) := by
  induction ps with
  | nil => intro σ evs _; simp [writeParams]
  | cons p ps ih =>
    intro σ evs hall
    obtain ⟨hp, hnd'⟩ := List.nodup_cons.1 hnd
    simp only [writeParams, if_pos (hall p List.mem_cons_self)]
    rw [ih hnd' _ _ (fun q hq => (writeOne_pending_exact env σ i p (hn _) q).2
      ⟨hall q (List.mem_cons_of_mem _ hq), fun h => hp (h ▸ hq)⟩)]
    simp [writeOne_key]

theorem writeInit_calls_exact (env : Env) (hn : NoTakes env) (σ : PollState) (i : Nat) (hnd : (σ.pending i).Nodup)
    (evs : List Event) :
    (writeInit env σ i evs).evs.map evKey = evs.map evKey ++ (σ.pending i).map (fun p => (i, Fn.write p)) :=
  writeParams_calls_exact env hn i _ hnd σ evs (fun _ h => h)

/-- events of `writeInitParams` seen one by one -/
theorem writeParams_events (env : Env) (i : Nat) (ps : List Nat) : ∀ σ evs,
    ∀ e ∈ (writeParams env i ps σ evs).evs,
      e ∈ evs ∨ (e.m = i ∧ ∃ p, e.f = Fn.write p ∧ p ∈ ps ∧ p ∈ σ.pending i) := by
  induction ps with
  | nil => intro σ evs e he; exact Or.inl he
  | cons p ps ih =>
    intro σ evs e he
    simp only [writeParams] at he
    split at he
    · rename_i hp
      rcases ih _ _ e he with h | ⟨hm, q, hf, hq, hq'⟩
      · rcases List.mem_append.1 h with h | h
        · exact Or.inl h
        · simp only [List.mem_singleton] at h; subst h
          exact Or.inr ⟨rfl, p, rfl, List.mem_cons_self, hp⟩
      · exact Or.inr ⟨hm, q, hf, List.mem_cons_of_mem _ hq, ((writeOne_pending_mem env σ i p).1 q hq').1⟩
    · rcases ih _ _ e he with h | ⟨hm, q, hf, hq, hq'⟩
      · exact Or.inl h
      · exact Or.inr ⟨hm, q, hf, List.mem_cons_of_mem _ hq, hq'⟩

theorem writeInit_events (env : Env) (σ : PollState) (i : Nat) (evs : List Event) :
    ∀ e ∈ (writeInit env σ i evs).evs, e ∈ evs ∨ (e.m = i ∧ ∃ p, e.f = Fn.write p ∧ p ∈ σ.pending i) := by
  intro e he
  rcases writeParams_events env i _ σ evs e he with h | ⟨hm, p, hf, _, hp⟩
  · exact Or.inl h
  · exact Or.inr ⟨hm, p, hf, hp⟩

/-- `writeInitParams` only ever takes entries out of `writeDict` -/
theorem writeInit_pending_sub (env : Env) (σ : PollState) (i : Nat) (evs : List Event) (j q : Nat)
    (h : q ∈ (writeInit env σ i evs).σ.pending j) : q ∈ σ.pending j := by
  by_cases hj : j = i
  · subst hj; rw [(writeInit_pending env σ j evs).1] at h; cases h
  · rw [(writeInit_pending env σ i evs).2 j hj] at h; exact h

/-- the late writes: only write functions of start values that were still to be written, of modules of the list; and
afterwards nothing is left to write for any module of the list -/
theorem lateAll_events (env : Env) (is : List Nat) : ∀ σ evs,
    (∀ e ∈ (lateAll env is σ evs).evs, e ∈ evs ∨ (e.m ∈ is ∧ ∃ p, e.f = Fn.write p ∧ p ∈ σ.pending e.m)) ∧
    (∀ j q, q ∈ (lateAll env is σ evs).σ.pending j → q ∈ σ.pending j) ∧
    ∀ j ∈ is, (lateAll env is σ evs).σ.pending j = [] := by
  induction is with
  | nil => intro σ evs; exact ⟨fun e he => Or.inl he, fun _ _ h => h, fun j hj => by cases hj⟩
  | cons i is ih =>
    intro σ evs
    simp only [lateAll]
    obtain ⟨a, b, c⟩ := ih (writeInit env σ i evs).σ (writeInit env σ i evs).evs
    refine ⟨fun e he => ?_, fun j q h => writeInit_pending_sub env σ i evs j q (b j q h), fun j hj => ?_⟩
    · rcases a e he with h | ⟨hm, p, hf, hp⟩
      · rcases writeInit_events env σ i evs e h with h | ⟨hm, p, hf, hp⟩
        · exact Or.inl h
        · exact Or.inr ⟨by rw [hm]; exact List.mem_cons_self, p, hf, by rw [hm]; exact hp⟩
      · exact Or.inr ⟨List.mem_cons_of_mem _ hm, p, hf, writeInit_pending_sub env σ i evs _ p hp⟩
    · rcases List.mem_cons.1 hj with h | h
      · subst h
        exact List.eq_nil_iff_forall_not_mem.2 (fun q hq => by
          have := b j q hq; rw [(writeInit_pending env σ j evs).1] at this; cases this)
      · exact c j h

theorem run_setOut (c : Consts) (env : Env) (o) (n : Nat) : ∀ σ evs, run c (env.setOut o) n σ evs = run c env n σ evs := by
  induction n with
  | zero => intro σ evs; rfl
  | succ n ih => intro σ evs; simp only [run, turn_setOut, ih]

end Frappy.Poller

namespace Frappy.Poller

/-! ## `updAt` -/

@[simp] theorem updAt_length (f : Mod → Mod) : ∀ (i : Nat) (l : List Mod), (updAt f i l).length = l.length
  | i, [] => by cases i <;> rfl
  | 0, _ :: _ => rfl
  | i + 1, _ :: ms => by simp [updAt, updAt_length f i ms]

theorem updAt_getElem? (f : Mod → Mod) : ∀ (i j : Nat) (l : List Mod),
    (updAt f i l)[j]? = if j = i then l[j]?.map f else l[j]?
  | _, _, [] => by simp [updAt]
  | 0, 0, _ :: _ => by simp [updAt]
  | 0, j + 1, _ :: _ => by simp [updAt]
  | i + 1, 0, _ :: _ => by simp [updAt]
  | i + 1, j + 1, _ :: ms => by simp [updAt, updAt_getElem? f i j ms]

theorem updAt_map {β : Type} (g : Mod → β) (f : Mod → Mod) (h : ∀ m, g (f m) = g m) :
    ∀ (i : Nat) (l : List Mod), (updAt f i l).map g = l.map g
  | i, [] => by cases i <;> rfl
  | 0, m :: ms => by simp [updAt, h]
  | i + 1, m :: ms => by simp [updAt, updAt_map g f h i ms]

/-! ## what never changes: which modules are polled, and which of their parameters -/

/-- the static part of a module -/
def static (m : Mod) : Bool × List Nat × Nat := (m.enabled, m.polled, m.slow)

def statics (σ : PollState) : List (Bool × List Nat × Nat) := σ.mods.map static

theorem applyExtMods_statics (mods : List Mod) (e : Ext) : (applyExtMods mods e).map static = mods.map static := by
  cases e with
  | updateInterval m i =>
    exact updAt_map static _ (by intro m; unfold extUpdateInterval; split <;> rfl) _ _
  | setFastPoll m fl fi => exact updAt_map static _ (by intro m; rfl) _ _
  | trigger m imm => exact updAt_map static _ (by intro m; unfold extTrigger; split <;> rfl) _ _
  | triggerAll =>
    simp only [applyExtMods, List.map_map]
    congr 1; funext m; simp only [Function.comp, extTriggerAll]; split <;> rfl

@[simp] theorem applyExt_statics (σ : PollState) (e : Ext) : statics (applyExt σ e) = statics σ :=
  applyExtMods_statics σ.mods e

@[simp] theorem applyExts_statics (es : List Ext) : ∀ σ, statics (applyExts es σ) = statics σ := by
  induction es with
  | nil => intro σ; rfl
  | cons e es ih => intro σ; simp only [applyExts, List.foldl_cons] at ih ⊢; rw [ih]; exact applyExt_statics σ e

@[simp] theorem applyTouches_mods (ts : List Touch) : ∀ σ, (applyTouches ts σ).mods = σ.mods := by
  induction ts with
  | nil => intro σ; rfl
  | cons t ts ih => intro σ; simp only [applyTouches, List.foldl_cons] at ih ⊢; rw [ih]; rfl

@[simp] theorem readClock_mods (env : Env) (σ) : (readClock env σ).mods = σ.mods := rfl
@[simp] theorem readClock_toPoll (env : Env) (σ) : (readClock env σ).toPoll = σ.toPoll := rfl
@[simp] theorem readClock_statics (env : Env) (σ) : statics (readClock env σ) = statics σ := rfl
@[simp] theorem noteRead_statics (σ : PollState) (m : Nat) (f : Fn) : statics (noteRead σ m f) = statics σ := rfl

@[simp] theorem runCall_statics (env : Env) (σ) : statics (runCall env σ) = statics σ := by
  unfold runCall
  simp only [applyExts_statics]
  unfold statics
  rw [applyTouches_mods]

@[simp] theorem applyTouches_toPoll (ts : List Touch) : ∀ σ, (applyTouches ts σ).toPoll = σ.toPoll := by
  induction ts with
  | nil => intro σ; rfl
  | cons t ts ih => intro σ; simp only [applyTouches, List.foldl_cons] at ih ⊢; rw [ih]; rfl

@[simp] theorem applyExts_toPoll (es : List Ext) : ∀ σ, (applyExts es σ).toPoll = σ.toPoll := by
  induction es with
  | nil => intro σ; rfl
  | cons e es ih => intro σ; simp only [applyExts, List.foldl_cons] at ih ⊢; rw [ih]; rfl

@[simp] theorem runCall_toPoll (env : Env) (σ) : (runCall env σ).toPoll = σ.toPoll := by
  unfold runCall; simp

theorem waitBatches_statics (timeout t0 : Nat) (bs : List (Nat × List Ext)) : ∀ σ,
    statics (waitBatches timeout t0 bs σ) = statics σ := by
  induction bs with
  | nil => intro σ; rfl
  | cons b bs ih =>
    intro σ
    obtain ⟨d, exts⟩ := b
    simp only [waitBatches]
    split
    · split
      · exact applyExts_statics exts σ
      · rw [ih]; exact applyExts_statics exts σ
    · rfl

theorem waitBatches_toPoll (timeout t0 : Nat) (bs : List (Nat × List Ext)) : ∀ σ,
    (waitBatches timeout t0 bs σ).toPoll = σ.toPoll := by
  induction bs with
  | nil => intro σ; rfl
  | cons b bs ih =>
    intro σ
    obtain ⟨d, exts⟩ := b
    simp only [waitBatches]
    split
    · split
      · exact applyExts_toPoll exts σ
      · rw [ih]; exact applyExts_toPoll exts σ
    · rfl

@[simp] theorem waitEvent_statics (env : Env) (σ t) : statics (waitEvent env σ t) = statics σ := by
  unfold waitEvent
  simp only
  split
  · rfl
  · exact waitBatches_statics _ _ _ σ

@[simp] theorem waitEvent_toPoll (env : Env) (σ t) : (waitEvent env σ t).toPoll = σ.toPoll := by
  unfold waitEvent
  simp only
  split
  · rfl
  · exact waitBatches_toPoll _ _ _ σ

@[simp] theorem doWait_statics (env : Env) (σ t) : statics (doWait env σ t) = statics σ := by
  show statics (applyExts (env.gap σ.nWait) (waitEvent env σ t)) = statics σ
  rw [applyExts_statics, waitEvent_statics]

@[simp] theorem doWait_toPoll (env : Env) (σ t) : (doWait env σ t).toPoll = σ.toPoll := by
  show (applyExts (env.gap σ.nWait) (waitEvent env σ t)).toPoll = σ.toPoll
  rw [applyExts_toPoll, waitEvent_toPoll]

end Frappy.Poller

namespace Frappy.Poller

/-! ## every call the loop makes is one it may make -/

abbrev Statics := List (Bool × List Nat × Nat)

/-- `(module, parameter)` names a polled parameter of a polled module -/
def ValidEntry (st : Statics) (e : Entry) : Prop :=
  ∃ s, st[e.1]? = some s ∧ s.1 = true ∧ e.2 ∈ s.2.1

def ValidEvent (st : Statics) (ev : Event) : Prop :=
  match ev.f with
  | .read p => ValidEntry st (ev.m, p)
  | .doPoll => ∃ s, st[ev.m]? = some s ∧ s.1 = true
  | .init => ev.m < st.length
  | .write _ => ev.m < st.length

/-- the invariant: the static part is `st`, and whatever is left in `to_poll` is valid -/
def EntriesOk (st : Statics) (σ : PollState) : Prop :=
  statics σ = st ∧ ∀ l, σ.toPoll = some l → ∀ e ∈ l, ValidEntry st e

theorem markMain_static (now clock : Nat) (m : Mod) : static (markMain now clock m) = static m := rfl

theorem markSlow_static (now : Nat) (m : Mod) : static (markSlow now m) = static m := by
  unfold markSlow; split <;> rfl

theorem pollMain_statics (env : Env) (σ now i) : statics (pollMain env σ now i).σ = statics σ := by
  unfold pollMain
  split
  · rfl
  · split
    · simp only [call, runCall_statics, noteRead_statics]
      exact updAt_map static _ (markMain_static now σ.clock) _ _
    · rfl

theorem pollMain_toPoll (env : Env) (σ now i) : (pollMain env σ now i).σ.toPoll = σ.toPoll := by
  unfold pollMain
  split
  · rfl
  · split
    · simp only [call, runCall_toPoll, noteRead_toPoll]
    · rfl

theorem pollMain_events (env : Env) (σ now i) : ∀ ev ∈ (pollMain env σ now i).evs,
    ev.f = .doPoll ∧ ev.m = i ∧ ev.t = σ.clock ∧ ∃ m, σ.mods[i]? = some m ∧ mainDue now m = true := by
  unfold pollMain
  split
  · intro ev h; cases h
  · rename_i m hm
    split
    · rename_i hdue
      intro ev h
      simp only [call, List.mem_singleton] at h
      subst h
      exact ⟨rfl, rfl, rfl, m, hm, hdue⟩
    · intro ev h; cases h

theorem statics_getElem? (σ : PollState) (i : Nat) (m : Mod) (h : σ.mods[i]? = some m) :
    (statics σ)[i]? = some (static m) := by
  simp [statics, h]

theorem pollMain_valid (env : Env) (σ now i) : ∀ ev ∈ (pollMain env σ now i).evs, ValidEvent (statics σ) ev := by
  intro ev h
  obtain ⟨hf, hm, _, m, hmi, hdue⟩ := pollMain_events env σ now i ev h
  unfold ValidEvent
  rw [hf]
  refine ⟨static m, ?_, ?_⟩
  · rw [hm]; exact statics_getElem? σ i m hmi
  · simp only [mainDue, Bool.and_eq_true] at hdue
    exact hdue.1

theorem sweep_ok (env : Env) (st : Statics) (is : List Nat) : ∀ σ now evs,
    statics σ = st → (∀ ev ∈ evs, ValidEvent st ev) →
    statics (sweep env is σ now evs).σ = st ∧ (sweep env is σ now evs).σ.toPoll = σ.toPoll ∧
    ∀ ev ∈ (sweep env is σ now evs).evs, ValidEvent st ev := by
  induction is with
  | nil => intro σ now evs hs he; exact ⟨hs, rfl, he⟩
  | cons i is ih =>
    intro σ now evs hs he
    simp only [sweep]
    have h1 : statics (readClock env (pollMain env σ now i).σ) = st := by
      rw [readClock_statics, pollMain_statics, hs]
    have h2 : ∀ ev ∈ evs ++ (pollMain env σ now i).evs, ValidEvent st ev := by
      intro ev h
      rcases List.mem_append.1 h with h | h
      · exact he ev h
      · rw [← hs]; exact pollMain_valid env σ now i ev h
    obtain ⟨a, b, c⟩ := ih _ (readClock env (pollMain env σ now i).σ).clock _ h1 h2
    refine ⟨a, ?_, c⟩
    rw [b, readClock_toPoll, pollMain_toPoll]

theorem collectEntries_valid (now : Nat) : ∀ (mods : List Mod) (k : Nat), ∀ e ∈ collectEntries now k mods,
    ∃ m, k ≤ e.1 ∧ mods[e.1 - k]? = some m ∧ m.enabled = true ∧ e.2 ∈ m.polled := by
  intro mods
  induction mods with
  | nil => intro k e h; cases h
  | cons m ms ih =>
    intro k e h
    simp only [collectEntries, List.mem_append] at h
    rcases h with h | h
    · split at h
      · rename_i hd
        simp only [List.mem_map] at h
        obtain ⟨p, hp, rfl⟩ := h
        refine ⟨m, Nat.le_refl _, by simp, ?_, hp⟩
        simp only [slowDue, Bool.and_eq_true] at hd
        exact hd.1
      · cases h
    · obtain ⟨m', hk, hm', he, hp⟩ := ih (k + 1) e h
      refine ⟨m', by omega, ?_, he, hp⟩
      have : e.1 - k = (e.1 - (k + 1)) + 1 := by omega
      rw [this]; simpa using hm'

theorem allEntries_valid : ∀ (mods : List Mod) (k : Nat), ∀ e ∈ allEntries k mods,
    ∃ m, k ≤ e.1 ∧ mods[e.1 - k]? = some m ∧ m.enabled = true ∧ e.2 ∈ m.polled := by
  intro mods
  induction mods with
  | nil => intro k e h; cases h
  | cons m ms ih =>
    intro k e h
    simp only [allEntries, List.mem_append] at h
    rcases h with h | h
    · split at h
      · rename_i hd
        simp only [List.mem_map] at h
        obtain ⟨p, hp, rfl⟩ := h
        exact ⟨m, Nat.le_refl _, by simp, hd, hp⟩
      · cases h
    · obtain ⟨m', hk, hm', he, hp⟩ := ih (k + 1) e h
      refine ⟨m', by omega, ?_, he, hp⟩
      have : e.1 - k = (e.1 - (k + 1)) + 1 := by omega
      rw [this]; simpa using hm'

theorem validEntry_of_mods (σ : PollState) (e : Entry) (m : Mod) (h : σ.mods[e.1]? = some m)
    (he : m.enabled = true) (hp : e.2 ∈ m.polled) : ValidEntry (statics σ) e :=
  ⟨static m, statics_getElem? σ e.1 m h, he, hp⟩

theorem scan_some (σ : PollState) (now : Nat) : ∀ (l : List Entry) (e : Entry) (rest : List Entry),
    scan σ now l = some (e, rest) → e ∈ l ∧ ∀ x ∈ rest, x ∈ l := by
  intro l
  induction l with
  | nil => intro e rest h; cases h
  | cons a as ih =>
    intro e rest h
    simp only [scan] at h
    split at h
    · cases h
      exact ⟨List.mem_cons_self, fun x hx => List.mem_cons_of_mem _ hx⟩
    · obtain ⟨h1, h2⟩ := ih e rest h
      exact ⟨List.mem_cons_of_mem _ h1, fun x hx => List.mem_cons_of_mem _ (h2 x hx)⟩

theorem callEntry_ok (env : Env) (st : Statics) (σ : PollState) (e : Entry) (rest : List Entry)
    (hs : statics σ = st) (he : ValidEntry st e) (hr : ∀ x ∈ rest, ValidEntry st x) :
    EntriesOk st (callEntry env σ e rest).σ ∧ ∀ ev ∈ (callEntry env σ e rest).evs, ValidEvent st ev := by
  refine ⟨⟨?_, ?_⟩, ?_⟩
  · show statics (runCall env (noteRead σ _ _)) = st
    rw [runCall_statics, noteRead_statics, hs]
  · intro l hl x hx
    simp only [callEntry] at hl
    cases hl
    exact hr x hx
  · intro ev hev
    simp only [callEntry, call, List.mem_singleton] at hev
    subst hev
    exact he

theorem slowPhase_ok (env : Env) (st : Statics) (σ : PollState) (now : Nat) (h : EntriesOk st σ) :
    EntriesOk st (slowPhase env σ now).σ ∧ ∀ ev ∈ (slowPhase env σ now).evs, ValidEvent st ev := by
  obtain ⟨hs, ht⟩ := h
  unfold slowPhase
  split
  · rename_i e rest hscan
    obtain ⟨h1, h2⟩ := scan_some σ now _ e rest hscan
    have hall : ∀ x ∈ σ.toPoll.getD [], ValidEntry st x := by
      intro x hx
      cases hp : σ.toPoll with
      | none => rw [hp] at hx; cases hx
      | some l => rw [hp] at hx; exact ht l hp x hx
    exact callEntry_ok env st σ e rest hs (hall e h1) (fun x hx => hall x (h2 x hx))
  · have hs1 : statics { σ with mods := σ.mods.map (markSlow now), toPoll := none } = st := by
      rw [← hs]
      simp only [statics, List.map_map]
      congr 1; funext m; exact markSlow_static now m
    have hcol : ∀ x ∈ collectEntries now 0 σ.mods, ValidEntry st x := by
      intro x hx
      obtain ⟨m, _, hm, he, hp⟩ := collectEntries_valid now σ.mods 0 x hx
      rw [← hs]
      exact validEntry_of_mods σ x m (by simpa using hm) he hp
    have hnone : EntriesOk st { σ with mods := σ.mods.map (markSlow now), toPoll := none } :=
      ⟨hs1, fun l hl => by cases hl⟩
    simp only
    split
    · exact ⟨hnone, fun ev h => by cases h⟩
    · split
      · rename_i e rest hscan
        obtain ⟨h1, h2⟩ := scan_some _ now _ e rest hscan
        exact callEntry_ok env st _ e rest hs1 (hcol e h1) (fun x hx => hcol x (h2 x hx))
      · exact ⟨hnone, fun ev h => by cases h⟩

theorem turn_ok (c : Consts) (env : Env) (st : Statics) (σ : PollState) (h : EntriesOk st σ) :
    EntriesOk st (turn c env σ).σ ∧ ∀ ev ∈ (turn c env σ).evs, ValidEvent st ev := by
  obtain ⟨hs, ht⟩ := h
  unfold turn
  simp only
  split
  · refine ⟨⟨?_, ?_⟩, fun ev h => by cases h⟩
    · rw [doWait_statics, readClock_statics, hs]
    · intro l hl; rw [doWait_toPoll, readClock_toPoll] at hl; exact ht l hl
  · obtain ⟨a, b, cc⟩ := sweep_ok env st (List.range (readClock env σ).mods.length) (readClock env σ)
      (readClock env σ).clock [] (by rw [readClock_statics, hs]) (fun ev h => by cases h)
    have hok : EntriesOk st (sweep env (List.range (readClock env σ).mods.length) (readClock env σ)
        (readClock env σ).clock []).σ := ⟨a, fun l hl => by rw [b, readClock_toPoll] at hl; exact ht l hl⟩
    obtain ⟨d, e⟩ := slowPhase_ok env st _ (sweep env (List.range (readClock env σ).mods.length) (readClock env σ)
        (readClock env σ).clock []).now hok
    refine ⟨d, ?_⟩
    intro ev hev
    rcases List.mem_append.1 hev with h | h
    · exact cc ev h
    · exact e ev h

theorem run_ok (c : Consts) (env : Env) (st : Statics) (n : Nat) : ∀ σ evs, EntriesOk st σ →
    (∀ ev ∈ evs, ValidEvent st ev) →
    EntriesOk st (run c env n σ evs).σ ∧ ∀ ev ∈ (run c env n σ evs).evs, ValidEvent st ev := by
  induction n with
  | zero => intro σ evs h he; exact ⟨h, he⟩
  | succ n ih =>
    intro σ evs h he
    simp only [run]
    obtain ⟨a, b⟩ := turn_ok c env st σ h
    apply ih _ _ a
    intro ev hev
    rcases List.mem_append.1 hev with h | h
    · exact he ev h
    · exact b ev h

end Frappy.Poller

namespace Frappy.Poller

/-! ## the start-up round -/

theorem writeOne_statics (env : Env) (σ : PollState) (i p : Nat) : statics (writeOne env σ i p).σ = statics σ := by
  show statics (call env { σ with pending := popPending σ.pending i p } i (.write p)).σ = statics σ
  simp only [call, runCall_statics, noteRead_statics]; rfl

theorem writeOne_toPoll (env : Env) (σ : PollState) (i p : Nat) : (writeOne env σ i p).σ.toPoll = σ.toPoll := by
  show (call env { σ with pending := popPending σ.pending i p } i (.write p)).σ.toPoll = σ.toPoll
  simp only [call, runCall_toPoll, noteRead_toPoll]

theorem writeParams_ok (env : Env) (st : Statics) (i : Nat) (hi : i < st.length) (ps : List Nat) : ∀ σ evs,
    statics σ = st → (∀ ev ∈ evs, ValidEvent st ev) →
    statics (writeParams env i ps σ evs).σ = st ∧ (writeParams env i ps σ evs).σ.toPoll = σ.toPoll ∧
    ∀ ev ∈ (writeParams env i ps σ evs).evs, ValidEvent st ev := by
  induction ps with
  | nil => intro σ evs hs he; exact ⟨hs, rfl, he⟩
  | cons p ps ih =>
    intro σ evs hs he
    simp only [writeParams]
    split
    · have hev : ∀ ev ∈ evs ++ [(writeOne env σ i p).ev], ValidEvent st ev := by
        intro ev h
        rcases List.mem_append.1 h with h | h
        · exact he ev h
        · simp only [List.mem_singleton] at h; subst h
          exact hi
      obtain ⟨a, b, c⟩ := ih _ _ ((writeOne_statics env σ i p).trans hs) hev
      exact ⟨a, by rw [b, writeOne_toPoll], c⟩
    · exact ih _ _ hs he

theorem writeInit_ok (env : Env) (st : Statics) (i : Nat) (hi : i < st.length) (σ : PollState) (evs : List Event)
    (hs : statics σ = st) (he : ∀ ev ∈ evs, ValidEvent st ev) :
    statics (writeInit env σ i evs).σ = st ∧ (writeInit env σ i evs).σ.toPoll = σ.toPoll ∧
    ∀ ev ∈ (writeInit env σ i evs).evs, ValidEvent st ev :=
  writeParams_ok env st i hi _ σ evs hs he

theorem initAll_ok (env : Env) (st : Statics) (is : List Nat) (his : ∀ i ∈ is, i < st.length) : ∀ σ evs,
    statics σ = st → (∀ ev ∈ evs, ValidEvent st ev) →
    statics (initAll env is σ evs).σ = st ∧ (initAll env is σ evs).σ.toPoll = σ.toPoll ∧
    ∀ ev ∈ (initAll env is σ evs).evs, ValidEvent st ev := by
  induction is with
  | nil => intro σ evs hs he; exact ⟨hs, rfl, he⟩
  | cons i is ih =>
    intro σ evs hs he
    obtain ⟨ws, wt, we⟩ := writeInit_ok env st i (his i List.mem_cons_self) σ evs hs he
    have hev : ∀ ev ∈ (writeInit env σ i evs).evs ++ [(call env (writeInit env σ i evs).σ i .init).ev],
        ValidEvent st ev := by
      intro ev h
      rcases List.mem_append.1 h with h | h
      · exact we ev h
      · simp only [List.mem_singleton] at h; subst h
        exact his i List.mem_cons_self
    have hs' : statics (call env (writeInit env σ i evs).σ i .init).σ = st := by
      simp only [call, runCall_statics, noteRead_statics, ws]
    have ht' : (call env (writeInit env σ i evs).σ i .init).σ.toPoll = σ.toPoll := by
      simp only [call, runCall_toPoll, noteRead_toPoll, wt]
    simp only [initAll]
    split
    · exact ⟨hs', ht', hev⟩
    · obtain ⟨a, b, c⟩ := ih (fun j hj => his j (List.mem_cons_of_mem _ hj)) _ _ hs' hev
      exact ⟨a, by rw [b, ht'], c⟩

theorem readAll_ok (env : Env) (st : Statics) (es : List Entry) (hes : ∀ e ∈ es, ValidEntry st e) : ∀ σ evs,
    statics σ = st → (∀ ev ∈ evs, ValidEvent st ev) →
    statics (readAll env es σ evs).σ = st ∧ (readAll env es σ evs).σ.toPoll = σ.toPoll ∧
    ∀ ev ∈ (readAll env es σ evs).evs, ValidEvent st ev := by
  induction es with
  | nil => intro σ evs hs he; exact ⟨hs, rfl, he⟩
  | cons e es ih =>
    intro σ evs hs he
    have hev : ∀ ev ∈ evs ++ [(call env σ e.1 (.read e.2)).ev], ValidEvent st ev := by
      intro ev h
      rcases List.mem_append.1 h with h | h
      · exact he ev h
      · simp only [List.mem_singleton] at h; subst h
        exact hes e List.mem_cons_self
    have hs' : statics (call env σ e.1 (.read e.2)).σ = st := by simp only [call, runCall_statics, noteRead_statics, hs]
    simp only [readAll]
    split
    · exact ⟨hs', by simp [call], hev⟩
    · obtain ⟨a, b, c⟩ := ih (fun j hj => hes j (List.mem_cons_of_mem _ hj)) _ _ hs' hev
      exact ⟨a, by rw [b]; simp [call], c⟩

theorem allEntries_validEntry (σ : PollState) : ∀ e ∈ allEntries 0 σ.mods, ValidEntry (statics σ) e := by
  intro e he
  obtain ⟨m, _, hm, hen, hp⟩ := allEntries_valid σ.mods 0 e he
  exact validEntry_of_mods σ e m (by simpa using hm) hen hp

theorem lateAll_ok (env : Env) (st : Statics) (is : List Nat) (his : ∀ i ∈ is, i < st.length) : ∀ σ evs,
    statics σ = st → (∀ ev ∈ evs, ValidEvent st ev) →
    statics (lateAll env is σ evs).σ = st ∧ (lateAll env is σ evs).σ.toPoll = σ.toPoll ∧
    ∀ ev ∈ (lateAll env is σ evs).evs, ValidEvent st ev := by
  induction is with
  | nil => intro σ evs hs he; exact ⟨hs, rfl, he⟩
  | cons i is ih =>
    intro σ evs hs he
    obtain ⟨ws, wt, we⟩ := writeInit_ok env st i (his i List.mem_cons_self) σ evs hs he
    simp only [lateAll]
    obtain ⟨a, b, c⟩ := ih (fun j hj => his j (List.mem_cons_of_mem _ hj)) _ _ ws we
    exact ⟨a, by rw [b, wt], c⟩

theorem startupRound_ok (c : Consts) (env : Env) (st : Statics) (σ : PollState) (h : EntriesOk st σ) :
    EntriesOk st (startupRound c env σ).σ ∧ ∀ ev ∈ (startupRound c env σ).evs, ValidEvent st ev := by
  obtain ⟨hs, ht⟩ := h
  have hlen : σ.mods.length = st.length := by rw [← hs]; simp [statics]
  obtain ⟨a1, b1, c1⟩ := initAll_ok env st (List.range σ.mods.length)
    (fun i hi => by rw [← hlen]; exact List.mem_range.1 hi) σ [] hs (fun ev h => by cases h)
  unfold startupRound
  simp only
  split
  · refine ⟨⟨by rw [waitEvent_statics, a1], ?_⟩, c1⟩
    intro l hl; rw [waitEvent_toPoll, b1] at hl; exact ht l hl
  · obtain ⟨a2, b2, c2⟩ := readAll_ok env st (allEntries 0 (initAll env (List.range σ.mods.length) σ []).σ.mods)
      (by rw [← a1]; exact allEntries_validEntry _) _ _ a1 c1
    split
    · refine ⟨⟨by rw [waitEvent_statics, a2], ?_⟩, c2⟩
      intro l hl; rw [waitEvent_toPoll, b2, b1] at hl; exact ht l hl
    · refine ⟨⟨a2, ?_⟩, c2⟩
      intro l hl; rw [b2, b1] at hl; exact ht l hl

theorem prologue_ok (c : Consts) (env : Env) (st : Statics) (σ : PollState) (h : EntriesOk st σ) :
    EntriesOk st (prologue c env σ).σ ∧ ∀ ev ∈ (prologue c env σ).evs, ValidEvent st ev := by
  obtain ⟨⟨hs, ht⟩, he⟩ := startupRound_ok c env st σ h
  have hlen : (startupRound c env σ).σ.mods.length = st.length := by rw [← hs]; simp [statics]
  obtain ⟨a, b, d⟩ := lateAll_ok env st (List.range (startupRound c env σ).σ.mods.length)
    (fun i hi => by rw [← hlen]; exact List.mem_range.1 hi) _ _ hs he
  unfold prologue
  exact ⟨⟨a, fun l hl => ht l (by rw [← b]; exact hl)⟩, d⟩

theorem thread_ok (c : Consts) (env : Env) (n : Nat) (σ : PollState) (h : σ.toPoll = none) :
    ∀ ev ∈ (thread c env n σ).evs, ValidEvent (statics σ) ev := by
  have h0 : EntriesOk (statics σ) σ := ⟨rfl, fun l hl => by rw [h] at hl; cases hl⟩
  obtain ⟨a, b⟩ := prologue_ok c env (statics σ) σ h0
  exact (run_ok c env (statics σ) n _ _ a b).2

end Frappy.Poller

namespace Frappy.Poller

/-! ## quiet and bounded environments -/

/-- an action of another thread that only sets the trigger event -/
def benign : Ext → Bool
  | .trigger _ false => true
  | _ => false

/-- no other thread changes the poll bookkeeping (pure triggers are allowed, at any time) -/
structure Quiet (env : Env) : Prop where
  ext : ∀ k, ∀ e ∈ env.ext k, benign e = true
  wake : ∀ k, ∀ b ∈ env.wake k, ∀ e ∈ b.2, benign e = true
  gap : ∀ k, ∀ e ∈ env.gap k, benign e = true

/-- every poll function lasts at most `D`, every look at the clock finds it at most `E` later -/
structure Bounded (env : Env) (D E : Nat) : Prop where
  dur : ∀ k, env.dur k ≤ D
  adv : ∀ k, env.adv k + 1 ≤ E

theorem updAt_id : ∀ (i : Nat) (l : List Mod), updAt (fun m => m) i l = l
  | i, [] => by cases i <;> rfl
  | 0, _ :: _ => rfl
  | i + 1, m :: ms => by simp [updAt, updAt_id i ms]

theorem applyExt_benign_mods (σ : PollState) (e : Ext) (h : benign e = true) : (applyExt σ e).mods = σ.mods := by
  cases e with
  | trigger m imm =>
    cases imm with
    | false =>
      show updAt (extTrigger false) m σ.mods = σ.mods
      have : extTrigger false = fun m => m := by funext m; simp [extTrigger]
      rw [this]; exact updAt_id _ _
    | true => simp [benign] at h
  | _ => simp [benign] at h

@[simp] theorem applyExt_clock (σ : PollState) (e : Ext) : (applyExt σ e).clock = σ.clock := rfl
@[simp] theorem applyExt_nCall (σ : PollState) (e : Ext) : (applyExt σ e).nCall = σ.nCall := rfl
@[simp] theorem applyExt_nRead (σ : PollState) (e : Ext) : (applyExt σ e).nRead = σ.nRead := rfl

theorem applyExts_clock (es : List Ext) : ∀ σ, (applyExts es σ).clock = σ.clock := by
  induction es with
  | nil => intro σ; rfl
  | cons e es ih => intro σ; simp only [applyExts, List.foldl_cons] at ih ⊢; rw [ih]; rfl

theorem applyExts_quiet_mods (es : List Ext) (h : ∀ e ∈ es, benign e = true) : ∀ σ, (applyExts es σ).mods = σ.mods := by
  induction es with
  | nil => intro σ; rfl
  | cons e es ih =>
    intro σ
    simp only [applyExts, List.foldl_cons] at ih ⊢
    rw [ih (fun x hx => h x (List.mem_cons_of_mem _ hx))]
    exact applyExt_benign_mods σ e (h e List.mem_cons_self)

theorem applyTouches_clock (ts : List Touch) : ∀ σ, (applyTouches ts σ).clock = σ.clock := by
  induction ts with
  | nil => intro σ; rfl
  | cons t ts ih => intro σ; simp only [applyTouches, List.foldl_cons] at ih ⊢; rw [ih]; rfl

theorem runCall_clock (env : Env) (σ : PollState) : (runCall env σ).clock = σ.clock + env.dur σ.nCall := by
  unfold runCall
  simp only
  rw [applyExts_clock, applyTouches_clock]

theorem runCall_mods (env : Env) (hq : Quiet env) (σ : PollState) : (runCall env σ).mods = σ.mods := by
  unfold runCall
  simp only
  rw [applyExts_quiet_mods _ (hq.ext _), applyTouches_mods]

/-- what `pollMain` does, in a quiet environment -/
theorem pollMain_quiet (env : Env) (hq : Quiet env) (σ : PollState) (now i : Nat) (m : Mod)
    (hm : σ.mods[i]? = some m) :
    (mainDue now m = true →
      (pollMain env σ now i).σ.mods = updAt (markMain now σ.clock) i σ.mods ∧
      (pollMain env σ now i).σ.clock = σ.clock + env.dur σ.nCall ∧
      (pollMain env σ now i).evs = [⟨σ.clock, i, .doPoll, env.dur σ.nCall⟩]) ∧
    (mainDue now m = false →
      (pollMain env σ now i).σ = σ ∧ (pollMain env σ now i).evs = []) := by
  unfold pollMain
  rw [hm]
  simp only
  constructor
  · intro hd
    rw [if_pos hd]
    refine ⟨?_, ?_, rfl⟩
    · show (runCall env _).mods = _
      rw [runCall_mods env hq]; rfl
    · show (runCall env _).clock = _
      rw [runCall_clock]; rfl
  · intro hd
    rw [if_neg (by simp [hd])]
    exact ⟨rfl, rfl⟩

theorem pollMain_none (env : Env) (σ : PollState) (now i : Nat) (hm : σ.mods[i]? = none) :
    (pollMain env σ now i).σ = σ ∧ (pollMain env σ now i).evs = [] := by
  unfold pollMain; rw [hm]; exact ⟨rfl, rfl⟩

/-- a step of the sweep for module `j` leaves every other module alone -/
theorem pollMain_other (env : Env) (hq : Quiet env) (σ : PollState) (now i j : Nat) (h : j ≠ i) :
    (pollMain env σ now j).σ.mods[i]? = σ.mods[i]? := by
  cases hm : σ.mods[j]? with
  | none => rw [(pollMain_none env σ now j hm).1]
  | some m =>
    obtain ⟨h1, h2⟩ := pollMain_quiet env hq σ now j m hm
    cases hd : mainDue now m with
    | true => rw [(h1 hd).1, updAt_getElem?, if_neg (Ne.symm h)]
    | false => rw [(h2 hd).1]

theorem pollMain_length (env : Env) (hq : Quiet env) (σ : PollState) (now j : Nat) :
    (pollMain env σ now j).σ.mods.length = σ.mods.length := by
  cases hm : σ.mods[j]? with
  | none => rw [(pollMain_none env σ now j hm).1]
  | some m =>
    obtain ⟨h1, h2⟩ := pollMain_quiet env hq σ now j m hm
    cases hd : mainDue now m with
    | true => rw [(h1 hd).1, updAt_length]
    | false => rw [(h2 hd).1]

theorem pollMain_clock (env : Env) (hq : Quiet env) (D E : Nat) (hb : Bounded env D E) (σ : PollState) (now j : Nat) :
    σ.clock ≤ (pollMain env σ now j).σ.clock ∧ (pollMain env σ now j).σ.clock ≤ σ.clock + D := by
  cases hm : σ.mods[j]? with
  | none => rw [(pollMain_none env σ now j hm).1]; omega
  | some m =>
    obtain ⟨h1, h2⟩ := pollMain_quiet env hq σ now j m hm
    cases hd : mainDue now m with
    | true => rw [(h1 hd).2.1]; have := hb.dur σ.nCall; omega
    | false => rw [(h2 hd).1]; omega

theorem pollMain_starts_other (env : Env) (σ : PollState) (now i j : Nat) (h : j ≠ i) :
    Spec.C13.startsOf (pollMain env σ now j).evs i = [] := by
  unfold Spec.C13.startsOf
  rw [List.map_eq_nil_iff, List.filter_eq_nil_iff]
  intro ev hev
  obtain ⟨_, hm, _⟩ := pollMain_events env σ now j ev hev
  simp only [decide_eq_true_eq, not_and]
  intro h'; exact absurd (hm ▸ h') h

theorem readClock_clock (env : Env) (D E : Nat) (hb : Bounded env D E) (σ : PollState) :
    σ.clock < (readClock env σ).clock ∧ (readClock env σ).clock ≤ σ.clock + E := by
  have := hb.adv σ.nRead
  simp only [readClock]; omega

theorem startsOf_append (a b : List Event) (i : Nat) :
    Spec.C13.startsOf (a ++ b) i = Spec.C13.startsOf a i ++ Spec.C13.startsOf b i := by
  simp [Spec.C13.startsOf]

/-- the sweep over modules other than `i` -/
theorem sweep_other (env : Env) (hq : Quiet env) (D E : Nat) (hb : Bounded env D E) (i : Nat) (is : List Nat)
    (hi : i ∉ is) : ∀ σ now evs,
    (sweep env is σ now evs).σ.mods[i]? = σ.mods[i]? ∧
    (sweep env is σ now evs).σ.mods.length = σ.mods.length ∧
    σ.clock ≤ (sweep env is σ now evs).σ.clock ∧
    (sweep env is σ now evs).σ.clock ≤ σ.clock + is.length * (D + E) ∧
    (now = σ.clock → (sweep env is σ now evs).now = (sweep env is σ now evs).σ.clock) ∧
    Spec.C13.startsOf (sweep env is σ now evs).evs i = Spec.C13.startsOf evs i := by
  induction is with
  | nil => intro σ now evs; simp [sweep]
  | cons j is ih =>
    intro σ now evs
    have hj : j ≠ i := fun h => hi (h ▸ List.mem_cons_self)
    have hi' : i ∉ is := fun h => hi (List.mem_cons_of_mem _ h)
    simp only [sweep]
    obtain ⟨a, b, c, d, e, f⟩ := ih hi' (readClock env (pollMain env σ now j).σ)
      (readClock env (pollMain env σ now j).σ).clock (evs ++ (pollMain env σ now j).evs)
    have hc := pollMain_clock env hq D E hb σ now j
    have hr := readClock_clock env D E hb (pollMain env σ now j).σ
    refine ⟨?_, ?_, ?_, ?_, ?_, ?_⟩
    · rw [a, readClock_mods, pollMain_other env hq σ now i j hj]
    · rw [b, readClock_mods, pollMain_length env hq]
    · omega
    · simp only [List.length_cons]
      have : (is.length + 1) * (D + E) = is.length * (D + E) + (D + E) := by rw [Nat.add_mul]; omega
      omega
    · intro _; exact e rfl
    · rw [f, startsOf_append, pollMain_starts_other env σ now i j hj, List.append_nil]

theorem sweep_append (env : Env) (a b : List Nat) : ∀ σ now evs,
    sweep env (a ++ b) σ now evs =
      sweep env b (sweep env a σ now evs).σ (sweep env a σ now evs).now (sweep env a σ now evs).evs := by
  induction a with
  | nil => intro σ now evs; rfl
  | cons j a ih => intro σ now evs; simp only [List.cons_append, sweep]; rw [ih]

/-- `List.range n` split at `i` -/
theorem range_split : ∀ (n i : Nat), i < n → ∃ pre post, List.range n = pre ++ i :: post ∧
    pre.length = i ∧ post.length = n - 1 - i ∧ i ∉ pre ∧ i ∉ post := by
  intro n
  induction n with
  | zero => intro i h; omega
  | succ n ih =>
    intro i h
    by_cases hin : i = n
    · subst hin
      refine ⟨List.range i, [], by rw [List.range_succ], by simp, by simp, by simp, by simp⟩
    · obtain ⟨pre, post, h1, h2, h3, h4, h5⟩ := ih i (by omega)
      refine ⟨pre, post ++ [n], ?_, h2, ?_, h4, ?_⟩
      · rw [List.range_succ, h1]; simp
      · simp; omega
      · simp only [List.mem_append, List.mem_singleton, not_or]; exact ⟨h5, hin⟩

end Frappy.Poller

namespace Frappy.Poller

/-! ## waits never outlast the earliest due time -/

theorem wakeAt_le (c : Consts) (now : Nat) : ∀ (mods : List Mod) (i : Nat) (m : Mod), mods[i]? = some m →
    m.enabled = true → wakeAt c now mods ≤ m.lastMain + m.interval ∧ wakeAt c now mods ≤ m.lastSlow + m.slow := by
  intro mods
  induction mods with
  | nil => intro i m h; simp at h
  | cons a as ih =>
    intro i m h he
    cases i with
    | zero =>
      simp only [List.getElem?_cons_zero, Option.some.injEq] at h
      subst h
      simp only [wakeAt, he, if_true]
      constructor
      · exact Nat.le_trans (Nat.min_le_left _ _) (Nat.min_le_left _ _)
      · exact Nat.le_trans (Nat.min_le_left _ _) (Nat.min_le_right _ _)
    | succ i =>
      simp only [List.getElem?_cons_succ] at h
      obtain ⟨h1, h2⟩ := ih i m h he
      simp only [wakeAt]
      split
      · exact ⟨Nat.le_trans (Nat.min_le_right _ _) h1, Nat.le_trans (Nat.min_le_right _ _) h2⟩
      · exact ⟨h1, h2⟩

theorem waitBatches_quiet (timeout t0 : Nat) (bs : List (Nat × List Ext))
    (hq : ∀ b ∈ bs, ∀ e ∈ b.2, benign e = true) : ∀ σ,
    (waitBatches timeout t0 bs σ).mods = σ.mods ∧ (waitBatches timeout t0 bs σ).clock ≤ t0 + timeout := by
  induction bs with
  | nil => intro σ; exact ⟨rfl, Nat.le_refl _⟩
  | cons b bs ih =>
    intro σ
    obtain ⟨d, exts⟩ := b
    have hb : ∀ e ∈ exts, benign e = true := hq (d, exts) List.mem_cons_self
    have hrest : ∀ b ∈ bs, ∀ e ∈ b.2, benign e = true := fun b hb' => hq b (List.mem_cons_of_mem _ hb')
    simp only [waitBatches]
    split
    · rename_i hd
      split
      · exact ⟨applyExts_quiet_mods exts hb σ, by simp only; omega⟩
      · obtain ⟨a, b⟩ := ih hrest (applyExts exts σ)
        exact ⟨by rw [a]; exact applyExts_quiet_mods exts hb σ, b⟩
    · exact ⟨rfl, Nat.le_refl _⟩

theorem waitEvent_quiet' (env : Env) (hq : Quiet env) (σ : PollState) (timeout : Nat) :
    (waitEvent env σ timeout).mods = σ.mods ∧ (waitEvent env σ timeout).clock ≤ σ.clock + timeout := by
  unfold waitEvent
  simp only
  split
  · exact ⟨rfl, Nat.le_add_right _ _⟩
  · exact waitBatches_quiet timeout σ.clock _ (hq.wake _) σ

/-- `doWait` seen through its parts: the actions of the window between `wait` and `clear` are applied to what the
wait left, and they change neither the clock nor the counters -/
theorem doWait_mods (env : Env) (σ : PollState) (timeout : Nat) :
    (doWait env σ timeout).mods = (applyExts (env.gap σ.nWait) (waitEvent env σ timeout)).mods := rfl

theorem doWait_clock (env : Env) (σ : PollState) (timeout : Nat) :
    (doWait env σ timeout).clock = (waitEvent env σ timeout).clock := by
  show (applyExts (env.gap σ.nWait) (waitEvent env σ timeout)).clock = _
  rw [applyExts_clock]

theorem doWait_quiet (env : Env) (hq : Quiet env) (σ : PollState) (timeout : Nat) :
    (doWait env σ timeout).mods = σ.mods ∧ (doWait env σ timeout).clock ≤ σ.clock + timeout := by
  obtain ⟨a, b⟩ := waitEvent_quiet' env hq σ timeout
  rw [doWait_mods, doWait_clock, applyExts_quiet_mods _ (hq.gap _)]
  exact ⟨a, b⟩

/-! ## the slow phase leaves the main-poll bookkeeping alone -/

/-- `m'` differs from `m` at most in `lastSlow` -/
def SameMain (m m' : Mod) : Prop :=
  m'.enabled = m.enabled ∧ m'.interval = m.interval ∧ m'.lastMain = m.lastMain ∧ m'.lastStart = m.lastStart

theorem SameMain.refl (m : Mod) : SameMain m m := ⟨rfl, rfl, rfl, rfl⟩

theorem markSlow_sameMain (now : Nat) (m : Mod) : SameMain m (markSlow now m) := by
  unfold markSlow; split <;> exact ⟨rfl, rfl, rfl, rfl⟩

theorem callEntry_quiet (env : Env) (hq : Quiet env) (D E : Nat) (hb : Bounded env D E) (σ : PollState) (e : Entry)
    (rest : List Entry) (i : Nat) :
    (callEntry env σ e rest).σ.mods = σ.mods ∧
    σ.clock ≤ (callEntry env σ e rest).σ.clock ∧ (callEntry env σ e rest).σ.clock ≤ σ.clock + D ∧
    Spec.C13.startsOf (callEntry env σ e rest).evs i = [] := by
  refine ⟨?_, ?_, ?_, ?_⟩
  · show (runCall env (noteRead σ _ _)).mods = _; exact runCall_mods env hq _
  · show _ ≤ (runCall env (noteRead σ _ _)).clock; rw [runCall_clock, noteRead_clock]; omega
  · show (runCall env (noteRead σ _ _)).clock ≤ _; rw [runCall_clock, noteRead_clock, noteRead_nCall]; have := hb.dur σ.nCall; omega
  · simp [callEntry, call, Spec.C13.startsOf]

theorem slowPhase_quiet (env : Env) (hq : Quiet env) (D E : Nat) (hb : Bounded env D E) (σ : PollState) (now i : Nat)
    (m : Mod) (hm : σ.mods[i]? = some m) :
    (∃ m', (slowPhase env σ now).σ.mods[i]? = some m' ∧ SameMain m m') ∧
    (slowPhase env σ now).σ.mods.length = σ.mods.length ∧
    σ.clock ≤ (slowPhase env σ now).σ.clock ∧ (slowPhase env σ now).σ.clock ≤ σ.clock + D ∧
    Spec.C13.startsOf (slowPhase env σ now).evs i = [] := by
  have hmark : ({ σ with mods := σ.mods.map (markSlow now), toPoll := none } : PollState).mods[i]? = some (markSlow now m) := by
    simp [hm]
  unfold slowPhase
  split
  · obtain ⟨a, b, c, d⟩ := callEntry_quiet env hq D E hb σ ‹_› ‹_› i
    exact ⟨⟨m, by rw [a]; exact hm, SameMain.refl m⟩, by rw [a], b, c, d⟩
  · simp only
    split
    · exact ⟨⟨_, hmark, markSlow_sameMain now m⟩, by simp, Nat.le_refl _, Nat.le_add_right _ _, rfl⟩
    · split
      · obtain ⟨a, b, c, d⟩ := callEntry_quiet env hq D E hb
          { σ with mods := σ.mods.map (markSlow now), toPoll := none } ‹_› ‹_› i
        exact ⟨⟨_, by rw [a]; exact hmark, markSlow_sameMain now m⟩, by rw [a]; simp, b, c, d⟩
      · exact ⟨⟨_, hmark, markSlow_sameMain now m⟩, by simp, Nat.le_refl _, Nat.le_add_right _ _, rfl⟩

end Frappy.Poller

namespace Frappy.Poller
open Spec.C13 (startsOf)

/-! ## one turn, seen from one module -/

theorem newLastMain_le (now interval : Nat) : newLastMain now interval ≤ now := by
  unfold newLastMain
  split
  · exact Nat.le_refl _
  · exact Nat.div_mul_le_self now interval

theorem startsOf_single (t i d : Nat) : startsOf [⟨t, i, .doPoll, d⟩] i = [t] := by
  simp [startsOf]

/-- the main sweep, seen from module `i`: it is tested exactly once, at a time `c1`, and polled iff due then -/
theorem sweep_module (env : Env) (hq : Quiet env) (D E : Nat) (hb : Bounded env D E) (i : Nat) (pre post : List Nat)
    (hpre : i ∉ pre) (hpost : i ∉ post) (σ0 : PollState) (m : Mod) (hm : σ0.mods[i]? = some m) :
    (sweep env (pre ++ i :: post) σ0 σ0.clock []).σ.mods.length = σ0.mods.length ∧
    (sweep env (pre ++ i :: post) σ0 σ0.clock []).now = (sweep env (pre ++ i :: post) σ0 σ0.clock []).σ.clock ∧
    σ0.clock ≤ (sweep env (pre ++ i :: post) σ0 σ0.clock []).σ.clock ∧
    ∃ c1, σ0.clock ≤ c1 ∧ c1 ≤ σ0.clock + pre.length * (D + E) ∧
      ((mainDue c1 m = false ∧
        (sweep env (pre ++ i :: post) σ0 σ0.clock []).σ.mods[i]? = some m ∧
        startsOf (sweep env (pre ++ i :: post) σ0 σ0.clock []).evs i = [] ∧
        (sweep env (pre ++ i :: post) σ0 σ0.clock []).σ.clock ≤ c1 + E + post.length * (D + E))
      ∨ (mainDue c1 m = true ∧
        (sweep env (pre ++ i :: post) σ0 σ0.clock []).σ.mods[i]? = some (markMain c1 c1 m) ∧
        startsOf (sweep env (pre ++ i :: post) σ0 σ0.clock []).evs i = [c1] ∧
        (sweep env (pre ++ i :: post) σ0 σ0.clock []).σ.clock ≤ c1 + D + E + post.length * (D + E))) := by
  rw [sweep_append]
  obtain ⟨a1, b1, c1lo, c1hi, n1, s1⟩ := sweep_other env hq D E hb i pre hpre σ0 σ0.clock []
  have n1' := n1 rfl
  generalize sweep env pre σ0 σ0.clock [] = r1 at *
  simp only [sweep]
  rw [n1']
  have hm1 : r1.σ.mods[i]? = some m := by rw [a1]; exact hm
  obtain ⟨hdue, hnot⟩ := pollMain_quiet env hq r1.σ r1.σ.clock i m hm1
  have hs1 : startsOf r1.evs i = [] := by rw [s1]; rfl
  cases hd : mainDue r1.σ.clock m with
  | false =>
    obtain ⟨e1, e2⟩ := hnot hd
    rw [e1, e2]
    have hr := readClock_clock env D E hb r1.σ
    obtain ⟨a3, b3, c3lo, c3hi, n3, s3⟩ := sweep_other env hq D E hb i post hpost
      (readClock env r1.σ) (readClock env r1.σ).clock (r1.evs ++ [])
    have n3' := n3 rfl
    refine ⟨by rw [b3, readClock_mods, b1], n3', by omega, r1.σ.clock, c1lo, c1hi, Or.inl ⟨hd, ?_, ?_, by omega⟩⟩
    · rw [a3, readClock_mods]; exact hm1
    · rw [s3, List.append_nil]; exact hs1
  | true =>
    obtain ⟨e1, e2, e3⟩ := hdue hd
    rw [e3]
    have hr := readClock_clock env D E hb (pollMain env r1.σ r1.σ.clock i).σ
    obtain ⟨a3, b3, c3lo, c3hi, n3, s3⟩ := sweep_other env hq D E hb i post hpost
      (readClock env (pollMain env r1.σ r1.σ.clock i).σ) (readClock env (pollMain env r1.σ r1.σ.clock i).σ).clock
      (r1.evs ++ [⟨r1.σ.clock, i, .doPoll, env.dur r1.σ.nCall⟩])
    have n3' := n3 rfl
    have hcl : (pollMain env r1.σ r1.σ.clock i).σ.clock ≤ r1.σ.clock + D := by
      rw [e2]; have := hb.dur r1.σ.nCall; omega
    have hcl2 : r1.σ.clock ≤ (pollMain env r1.σ r1.σ.clock i).σ.clock := by rw [e2]; omega
    refine ⟨?_, n3', by omega, r1.σ.clock, c1lo, c1hi, Or.inr ⟨hd, ?_, ?_, by omega⟩⟩
    · rw [b3, readClock_mods, e1, updAt_length, b1]
    · rw [a3, readClock_mods, e1, updAt_getElem?, if_pos rfl, hm1]; rfl
    · rw [s3, startsOf_append, hs1, startsOf_single]; rfl

/-- work of a turn after the due test of module `i` (its own call not included): the clock read after it, the
later modules, one slow poll -/
def restAfter (n i D E : Nat) : Nat := E + (n - 1 - i) * (D + E) + D

/-- one turn, seen from module `i` (quiet, bounded environment): either `doPoll i` is not called and the turn ends
no later than `restAfter` after its due time, or it is called exactly once, at a moment `t` when it was due. -/
theorem turn_module (c : Consts) (env : Env) (hq : Quiet env) (D E : Nat) (hb : Bounded env D E) (σ : PollState)
    (i : Nat) (m : Mod) (hm : σ.mods[i]? = some m) :
    ∃ m', (turn c env σ).σ.mods[i]? = some m' ∧ (turn c env σ).σ.mods.length = σ.mods.length ∧
      m'.enabled = m.enabled ∧ m'.interval = m.interval ∧
      ((startsOf (turn c env σ).evs i = [] ∧ m'.lastMain = m.lastMain ∧ m'.lastStart = m.lastStart ∧
          (m.enabled = true →
            (turn c env σ).σ.clock ≤ m.lastMain + m.interval + restAfter σ.mods.length i D E ∧
            (readClock env σ).clock ≤ m.lastMain + m.interval))
       ∨ (∃ t, startsOf (turn c env σ).evs i = [t] ∧ m.enabled = true ∧ m'.lastStart = t ∧ m'.lastMain ≤ t ∧
            σ.clock < t ∧ t ≤ σ.clock + E + i * (D + E) ∧
            (turn c env σ).σ.clock ≤ t + D + restAfter σ.mods.length i D E ∧
            m.lastMain + m.interval < t)) := by
  have hrc := readClock_clock env D E hb σ
  have hilt : i < σ.mods.length := by
    rcases List.getElem?_eq_some_iff.1 hm with ⟨h, _⟩; exact h
  unfold turn
  simp only
  split
  · -- the thread waits
    rename_i hw
    obtain ⟨a, b⟩ := doWait_quiet env hq (readClock env σ)
      (wakeAt c (readClock env σ).clock (readClock env σ).mods - (readClock env σ).clock)
    refine ⟨m, by rw [a]; exact hm, by rw [a]; rfl, rfl, rfl, Or.inl ⟨rfl, rfl, rfl, ?_⟩⟩
    intro he
    have := (wakeAt_le c (readClock env σ).clock (readClock env σ).mods i m hm he).1
    constructor
    · dsimp only; omega
    · omega
  · -- the thread sweeps
    obtain ⟨pre, post, hsplit, hlpre, hlpost, hpre, hpost⟩ := range_split σ.mods.length i hilt
    have hsplit' : List.range (readClock env σ).mods.length = pre ++ i :: post := hsplit
    rw [hsplit']
    obtain ⟨b, n1, clo, c1, c1lo, c1hi, hcase⟩ :=
      sweep_module env hq D E hb i pre post hpre hpost (readClock env σ) m hm
    generalize sweep env (pre ++ i :: post) (readClock env σ) (readClock env σ).clock [] = r at *
    rw [hlpre] at c1hi
    rw [hlpost] at hcase
    rcases hcase with ⟨hd, hmi, hst, hcl⟩ | ⟨hd, hmi, hst, hcl⟩
    · obtain ⟨⟨m', hm', hsm⟩, hlen, _, hchi, hss⟩ := slowPhase_quiet env hq D E hb r.σ r.now i m hmi
      refine ⟨m', hm', by rw [hlen, b]; rfl, hsm.1, hsm.2.1, Or.inl ⟨?_, hsm.2.2.1, hsm.2.2.2, ?_⟩⟩
      · rw [startsOf_append, hst, hss]; rfl
      · intro he
        simp only [mainDue, he, Bool.true_and, decide_eq_false_iff_not, Nat.not_lt] at hd
        unfold restAfter
        constructor
        · dsimp only; omega
        · omega
    · obtain ⟨⟨m', hm', hsm⟩, hlen, _, hchi, hss⟩ :=
        slowPhase_quiet env hq D E hb r.σ r.now i (markMain c1 c1 m) hmi
      simp only [mainDue, Bool.and_eq_true, decide_eq_true_eq] at hd
      refine ⟨m', hm', by rw [hlen, b]; rfl, hsm.1, hsm.2.1, Or.inr ⟨c1, ?_, hd.1, hsm.2.2.2, ?_, by omega, by omega, ?_, hd.2⟩⟩
      · rw [startsOf_append, hst, hss]; rfl
      · rw [hsm.2.2.1]; exact newLastMain_le c1 m.interval
      · unfold restAfter; dsimp only; omega

end Frappy.Poller

namespace Frappy.Poller
open Spec.C13 (startsOf GapsLe pairs)

/-! ## from turns to runs: the distance between consecutive main polls -/

/-- everything one turn can contain: every module's `doPoll` and the clock read after it, one slow poll, the
clock read at the top -/
def sweepBound (n D E : Nat) : Nat := n * (D + E) + D + E

/-- the sharper bound that the invariant yields -/
def gapBound (n D E I : Nat) : Nat := Nat.max I D + (n - 1) * (D + E) + D + 2 * E

theorem gapBound_le (n D E I : Nat) (hn : 0 < n) : gapBound n D E I ≤ I + sweepBound n D E := by
  unfold gapBound sweepBound
  have h1 : Nat.max I D ≤ I + D := Nat.max_le.2 ⟨Nat.le_add_right _ _, Nat.le_add_left _ _⟩
  have h2 : n * (D + E) = (n - 1) * (D + E) + (D + E) := by
    have : n = (n - 1) + 1 := by omega
    conv => lhs; rw [this, Nat.add_mul, Nat.one_mul]
  omega

theorem gapsLe_mono (l : List Nat) (a b : Nat) (h : a ≤ b) (hl : GapsLe l a) : GapsLe l b := by
  intro ab hab; have := hl ab hab; omega

theorem gapsLe_append_single : ∀ (l : List Nat) (B t : Nat), GapsLe l B →
    (∀ a, l.getLast? = some a → t ≤ a + B) → GapsLe (l ++ [t]) B
  | [], _, _, _, _ => by intro ab hab; simp [pairs] at hab
  | [a], B, t, _, h2 => by
    intro ab hab
    simp only [List.cons_append, List.nil_append, pairs, List.mem_singleton] at hab
    subst hab
    exact h2 a rfl
  | a :: b :: rest, B, t, h1, h2 => by
    intro ab hab
    simp only [List.cons_append, pairs, List.mem_cons] at hab
    rcases hab with hab | hab
    · subst hab
      exact h1 (a, b) (by simp [pairs])
    · have ih := gapsLe_append_single (b :: rest) B t
        (fun x hx => h1 x (by simp only [pairs, List.mem_cons]; exact Or.inr hx))
        (fun x hx => h2 x (by simpa [List.getLast?_cons_cons] using hx))
      exact ih ab (by simpa using hab)

/-- the per-module invariant between turns -/
structure GapInv (n i D E I : Nat) (σ : PollState) (m : Mod) : Prop where
  len : σ.mods.length = n
  get : σ.mods[i]? = some m
  en : m.enabled = true
  iv : m.interval = I
  le : m.lastMain ≤ m.lastStart

/-- the clock is not far beyond the last start -/
def ClockInv (n i D E I : Nat) (σ : PollState) (m : Mod) : Prop :=
  σ.clock ≤ m.lastStart + Nat.max I D + restAfter n i D E

theorem run_gaps (c : Consts) (env : Env) (hq : Quiet env) (D E : Nat) (hb : Bounded env D E) (n i I : Nat)
    (hi : i < n) (k : Nat) : ∀ (σ : PollState) (m : Mod) (evs : List Event), GapInv n i D E I σ m →
    GapsLe (startsOf evs i) (gapBound n D E I) →
    (∀ a, (startsOf evs i).getLast? = some a → m.lastStart = a ∧ ClockInv n i D E I σ m) →
    GapsLe (startsOf (run c env k σ evs).evs i) (gapBound n D E I) := by
  induction k with
  | zero => intro σ m evs _ hg _; exact hg
  | succ k ih =>
    intro σ m evs hinv hg hlink
    simp only [run]
    obtain ⟨m', hm', hlen, hen, hiv, hcase⟩ := turn_module c env hq D E hb σ i m hinv.get
    have hmaxI : I ≤ Nat.max I D := Nat.le_max_left _ _
    have hmaxD : D ≤ Nat.max I D := Nat.le_max_right _ _
    rw [hinv.len] at hcase
    rcases hcase with ⟨hst, hlm, hls, hcl⟩ | ⟨t, hst, _, hls, hlm, hlo, hhi, hcl, _⟩
    · -- no main poll of `i` in this turn
      have hinv' : GapInv n i D E I (turn c env σ).σ m' :=
        ⟨by rw [hlen, hinv.len], hm', by rw [hen, hinv.en], by rw [hiv, hinv.iv], by rw [hlm, hls]; exact hinv.le⟩
      apply ih _ m' _ hinv'
      · rw [startsOf_append, hst, List.append_nil]; exact hg
      · rw [startsOf_append, hst, List.append_nil]
        intro a ha
        obtain ⟨h1, _⟩ := hlink a ha
        refine ⟨by rw [hls]; exact h1, ?_⟩
        have := (hcl hinv.en).1
        have h3 := hinv.le
        have h4 := hinv.iv
        unfold ClockInv
        rw [hls]
        omega
    · -- `doPoll i` at time `t`
      have hinv' : GapInv n i D E I (turn c env σ).σ m' :=
        ⟨by rw [hlen, hinv.len], hm', by rw [hen, hinv.en], by rw [hiv, hinv.iv], by rw [hls]; exact hlm⟩
      apply ih _ m' _ hinv'
      · rw [startsOf_append, hst]
        apply gapsLe_append_single _ _ _ hg
        intro a ha
        obtain ⟨h1, h2⟩ := hlink a ha
        unfold ClockInv restAfter at h2
        unfold gapBound
        have h5 : i * (D + E) + (n - 1 - i) * (D + E) = (n - 1) * (D + E) := by
          rw [← Nat.add_mul]; congr 1; omega
        omega
      · rw [startsOf_append, hst]
        intro a ha
        simp only [List.getLast?_append, List.getLast?_singleton, Option.some_or, Option.some.injEq] at ha
        subst ha
        refine ⟨hls, ?_⟩
        unfold ClockInv
        rw [hls]
        omega

end Frappy.Poller

namespace Frappy.Poller
open Spec.C13 (startsOf GapsLe pairs)

/-! ## the start-up round makes no main polls and leaves the bookkeeping alone -/

theorem startsOf_snoc_other (evs : List Event) (ev : Event) (i : Nat) (h : ev.f ≠ .doPoll) :
    startsOf (evs ++ [ev]) i = startsOf evs i := by
  rw [startsOf_append]
  have : startsOf [ev] i = [] := by
    simp [startsOf, h]
  rw [this, List.append_nil]

theorem writeOne_mods (env : Env) (hq : Quiet env) (σ : PollState) (i p : Nat) : (writeOne env σ i p).σ.mods = σ.mods :=
  runCall_mods env hq (noteRead { σ with pending := popPending σ.pending i p } i (.write p))

theorem writeParams_quiet (env : Env) (hq : Quiet env) (i j : Nat) (ps : List Nat) : ∀ σ evs,
    (writeParams env j ps σ evs).σ.mods = σ.mods ∧ startsOf (writeParams env j ps σ evs).evs i = startsOf evs i := by
  induction ps with
  | nil => intro σ evs; exact ⟨rfl, rfl⟩
  | cons p ps ih =>
    intro σ evs
    simp only [writeParams]
    split
    · have hst : startsOf (evs ++ [(writeOne env σ j p).ev]) i = startsOf evs i :=
        startsOf_snoc_other evs _ i (by simp [writeOne, call])
      obtain ⟨a, b⟩ := ih (writeOne env σ j p).σ (evs ++ [(writeOne env σ j p).ev])
      exact ⟨by rw [a, writeOne_mods env hq], by rw [b, hst]⟩
    · exact ih σ evs

theorem writeInit_quiet (env : Env) (hq : Quiet env) (i j : Nat) (σ : PollState) (evs : List Event) :
    (writeInit env σ j evs).σ.mods = σ.mods ∧ startsOf (writeInit env σ j evs).evs i = startsOf evs i :=
  writeParams_quiet env hq i j _ σ evs

theorem initAll_quiet (env : Env) (hq : Quiet env) (i : Nat) (is : List Nat) : ∀ σ evs,
    (initAll env is σ evs).σ.mods = σ.mods ∧ startsOf (initAll env is σ evs).evs i = startsOf evs i := by
  induction is with
  | nil => intro σ evs; exact ⟨rfl, rfl⟩
  | cons j is ih =>
    intro σ evs
    obtain ⟨hm1, hs1⟩ := writeInit_quiet env hq i j σ evs
    have hmods : (call env (writeInit env σ j evs).σ j .init).σ.mods = σ.mods :=
      (runCall_mods env hq (noteRead (writeInit env σ j evs).σ j .init)).trans hm1
    have hst : startsOf ((writeInit env σ j evs).evs ++ [(call env (writeInit env σ j evs).σ j .init).ev]) i =
        startsOf evs i := by
      rw [startsOf_snoc_other _ _ i (by simp [call]), hs1]
    simp only [initAll]
    split
    · exact ⟨hmods, hst⟩
    · obtain ⟨a, b⟩ := ih (call env (writeInit env σ j evs).σ j .init).σ
        ((writeInit env σ j evs).evs ++ [(call env (writeInit env σ j evs).σ j .init).ev])
      exact ⟨by rw [a, hmods], by rw [b, hst]⟩

theorem readAll_quiet (env : Env) (hq : Quiet env) (i : Nat) (es : List Entry) : ∀ σ evs,
    (readAll env es σ evs).σ.mods = σ.mods ∧ startsOf (readAll env es σ evs).evs i = startsOf evs i := by
  induction es with
  | nil => intro σ evs; exact ⟨rfl, rfl⟩
  | cons e es ih =>
    intro σ evs
    have hmods : (call env σ e.1 (.read e.2)).σ.mods = σ.mods := runCall_mods env hq (noteRead σ e.1 (.read e.2))
    have hst : startsOf (evs ++ [(call env σ e.1 (.read e.2)).ev]) i = startsOf evs i :=
      startsOf_snoc_other evs _ i (by simp [call])
    simp only [readAll]
    split
    · exact ⟨hmods, hst⟩
    · obtain ⟨a, b⟩ := ih (call env σ e.1 (.read e.2)).σ (evs ++ [(call env σ e.1 (.read e.2)).ev])
      exact ⟨by rw [a, hmods], by rw [b, hst]⟩

theorem waitEvent_quiet (env : Env) (hq : Quiet env) (σ : PollState) (timeout : Nat) :
    (waitEvent env σ timeout).mods = σ.mods := (waitEvent_quiet' env hq σ timeout).1

theorem lateAll_quiet (env : Env) (hq : Quiet env) (i : Nat) (is : List Nat) : ∀ σ evs,
    (lateAll env is σ evs).σ.mods = σ.mods ∧ startsOf (lateAll env is σ evs).evs i = startsOf evs i := by
  induction is with
  | nil => intro σ evs; exact ⟨rfl, rfl⟩
  | cons j is ih =>
    intro σ evs
    obtain ⟨hmods, hst⟩ := writeInit_quiet env hq i j σ evs
    simp only [lateAll]
    obtain ⟨a, b⟩ := ih (writeInit env σ j evs).σ (writeInit env σ j evs).evs
    exact ⟨by rw [a, hmods], by rw [b, hst]⟩

theorem startupRound_quiet (c : Consts) (env : Env) (hq : Quiet env) (i : Nat) (σ : PollState) :
    (startupRound c env σ).σ.mods = σ.mods ∧ startsOf (startupRound c env σ).evs i = [] := by
  obtain ⟨a1, b1⟩ := initAll_quiet env hq i (List.range σ.mods.length) σ []
  unfold startupRound
  simp only
  split
  · exact ⟨by rw [waitEvent_quiet env hq, a1], b1⟩
  · obtain ⟨a2, b2⟩ := readAll_quiet env hq i (allEntries 0 (initAll env (List.range σ.mods.length) σ []).σ.mods)
      (initAll env (List.range σ.mods.length) σ []).σ (initAll env (List.range σ.mods.length) σ []).evs
    split
    · exact ⟨by rw [waitEvent_quiet env hq, a2, a1], by rw [b2, b1]; rfl⟩
    · exact ⟨by rw [a2, a1], by rw [b2, b1]; rfl⟩

/-- the whole prologue — start-up round and the configured values once more — makes no main poll and leaves the
bookkeeping alone -/
theorem prologue_quiet (c : Consts) (env : Env) (hq : Quiet env) (i : Nat) (σ : PollState) :
    (prologue c env σ).σ.mods = σ.mods ∧ startsOf (prologue c env σ).evs i = [] := by
  obtain ⟨a1, b1⟩ := startupRound_quiet c env hq i σ
  obtain ⟨a2, b2⟩ := lateAll_quiet env hq i (List.range (startupRound c env σ).σ.mods.length)
    (startupRound c env σ).σ (startupRound c env σ).evs
  unfold prologue
  exact ⟨by rw [a2, a1], by rw [b2, b1]⟩

end Frappy.Poller

namespace Frappy.Poller

/-! ## waits in general environments; interval changes -/

theorem waitBatches_clock_le (timeout t0 : Nat) (bs : List (Nat × List Ext)) : ∀ σ,
    (waitBatches timeout t0 bs σ).clock ≤ t0 + timeout := by
  induction bs with
  | nil => intro σ; exact Nat.le_refl _
  | cons b bs ih =>
    intro σ
    obtain ⟨d, exts⟩ := b
    simp only [waitBatches]
    split
    · split
      · simp only; omega
      · exact ih _
    · exact Nat.le_refl _

theorem waitEvent_clock_le (env : Env) (σ : PollState) (timeout : Nat) :
    (waitEvent env σ timeout).clock ≤ σ.clock + timeout := by
  unfold waitEvent
  simp only
  split
  · exact Nat.le_add_right _ _
  · exact waitBatches_clock_le timeout σ.clock _ σ

theorem doWait_clock_le (env : Env) (σ : PollState) (timeout : Nat) :
    (doWait env σ timeout).clock ≤ σ.clock + timeout := by
  rw [doWait_clock]; exact waitEvent_clock_le env σ timeout

/-- what a list of actions does to the poll bookkeeping depends on the bookkeeping only -/
theorem applyExts_mods_congr (es : List Ext) : ∀ (σ τ : PollState), σ.mods = τ.mods →
    (applyExts es σ).mods = (applyExts es τ).mods := by
  induction es with
  | nil => intro σ τ h; exact h
  | cons e es ih =>
    intro σ τ h
    simp only [applyExts, List.foldl_cons] at ih ⊢
    apply ih
    show applyExtMods σ.mods e = applyExtMods τ.mods e
    rw [h]

/-- with the event already set the wait returns at once, nothing but the window between `wait` and `clear` acts -/
theorem doWait_trig (env : Env) (σ : PollState) (timeout : Nat) (h : σ.trig = true) :
    (doWait env σ timeout).clock = σ.clock ∧
    (doWait env σ timeout).mods = (applyExts (env.gap σ.nWait) σ).mods := by
  have hw : waitEvent env σ timeout = { σ with nWait := σ.nWait + 1 } := by
    unfold waitEvent; simp [h]
  refine ⟨by rw [doWait_clock, hw], ?_⟩
  rw [doWait_mods, hw]
  exact applyExts_mods_congr _ _ _ rfl

theorem applyExts_single (σ : PollState) (e : Ext) : applyExts [e] σ = applyExt σ e := rfl

/-- a wait in progress ends at the moment another thread does something that sets the event -/
theorem waitEvent_interrupted (env : Env) (σ : PollState) (timeout d : Nat) (e : Ext) (rest : List (Nat × List Ext))
    (ht : σ.trig = false) (hw : env.wake σ.nWait = (d, [e]) :: rest) (hd : d ≤ timeout)
    (he : extTriggers σ.mods e = true) :
    (waitEvent env σ timeout).clock = σ.clock + d ∧ (waitEvent env σ timeout).mods = applyExtMods σ.mods e := by
  unfold waitEvent
  simp only [ht, hw, waitBatches, hd, if_true, applyExts_single, applyExt, he, Bool.false_or]
  exact ⟨rfl, rfl⟩

end Frappy.Poller

namespace Frappy.Poller

theorem scan_length (σ : PollState) (now : Nat) : ∀ (l : List Entry) (e : Entry) (rest : List Entry),
    scan σ now l = some (e, rest) → rest.length < l.length := by
  intro l
  induction l with
  | nil => intro e rest h; cases h
  | cons a as ih =>
    intro e rest h
    simp only [scan] at h
    split at h
    · cases h; simp
    · have := ih e rest h; simp only [List.length_cons]; omega

end Frappy.Poller

namespace Frappy.Poller

/-! ## data for the non-vacuity examples -/

def exConsts : Consts := ⟨1000, 5⟩

/-- every poll function lasts 3 ticks and ends with an arbitrary exception; the clock moves one tick per read;
`stamp := c` stamps the parameter read by the call with the time the call began -/
def exEnv : Env :=
  { adv := fun _ => 0, dur := fun _ => 3, out := fun _ => .exc, touch := fun _ => [], ext := fun _ => [],
    wake := fun _ => [], gap := fun _ => [], takes := fun _ => [] }

def exMod (interval slow : Nat) (polled : List Nat) : Mod :=
  { enabled := true, slow := slow, polled := polled, pollinterval := interval, interval := interval, fast := false,
    lastMain := 0, lastSlow := 0, lastStart := 0 }

/-- two polled modules (intervals 10 and 25 ticks) and one that is only written at start-up, at clock 1000; start
values to write: parameter 3 of the first module (not a polled one), parameters 0 and 4 of the third -/
def exState : PollState :=
  { clock := 1000, nRead := 0, nCall := 0, nWait := 0, trig := false,
    mods := [exMod 10 40 [0, 1], exMod 25 60 [2], { exMod 7 50 [] with enabled := false }],
    toPoll := none, stamp := fun _ _ => 0, refreshed := fun _ _ => 0,
    pending := fun i => if i = 0 then [3] else if i = 2 then [0, 4] else [] }

theorem exEnv_quiet : Quiet exEnv where
  ext := by intro k e h; cases h
  wake := by intro k b h; cases h
  gap := by intro k e h; cases h

theorem exEnv_bounded : Bounded exEnv 3 1 := ⟨fun _ => Nat.le_refl _, fun _ => Nat.le_refl _⟩

end Frappy.Poller
