import FrappyModel.Spec.C13
/-
Helper lemmas about the poll-loop model (`FrappyModel/Timed/Poller.lean`).
-/
namespace Frappy.Poller

/-! ## the loop never looks at outcomes -/

/-- the same environment with other outcomes of the poll functions -/
def Env.setOut (env : Env) (o : Nat → Outcome) : Env := { env with out := o }

@[simp] theorem readClock_setOut (env : Env) (o) (σ) : readClock (env.setOut o) σ = readClock env σ := rfl
@[simp] theorem runCall_setOut (env : Env) (o) (σ) : runCall (env.setOut o) σ = runCall env σ := rfl
@[simp] theorem call_setOut_σ (env : Env) (o) (σ m f) : (call (env.setOut o) σ m f).σ = (call env σ m f).σ := rfl
@[simp] theorem call_setOut_ev (env : Env) (o) (σ m f) : (call (env.setOut o) σ m f).ev = (call env σ m f).ev := rfl
@[simp] theorem waitEvent_setOut (env : Env) (o) (σ t) : waitEvent (env.setOut o) σ t = waitEvent env σ t := rfl
@[simp] theorem doWait_setOut (env : Env) (o) (σ t) : doWait (env.setOut o) σ t = doWait env σ t := rfl

theorem pollMain_setOut (env : Env) (o) (σ now i) : pollMain (env.setOut o) σ now i = pollMain env σ now i := by
  unfold pollMain
  split
  · rfl
  · split <;> simp

theorem sweep_setOut (env : Env) (o) (is : List Nat) : ∀ σ now evs,
    sweep (env.setOut o) is σ now evs = sweep env is σ now evs := by
  induction is with
  | nil => intro σ now evs; rfl
  | cons i is ih =>
    intro σ now evs
    simp only [sweep, pollMain_setOut, readClock_setOut, ih]

theorem callEntry_setOut (env : Env) (o) (σ e rest) : callEntry (env.setOut o) σ e rest = callEntry env σ e rest := by
  simp [callEntry]

theorem slowPhase_setOut (env : Env) (o) (σ now) : slowPhase (env.setOut o) σ now = slowPhase env σ now := by
  unfold slowPhase
  simp only [callEntry_setOut]

theorem turn_setOut (c : Consts) (env : Env) (o) (σ) : turn c (env.setOut o) σ = turn c env σ := by
  unfold turn
  simp only [readClock_setOut, doWait_setOut, sweep_setOut, slowPhase_setOut]

theorem run_setOut (c : Consts) (env : Env) (o) (n : Nat) : ∀ σ evs, run c (env.setOut o) n σ evs = run c env n σ evs := by
  induction n with
  | zero => intro σ evs; rfl
  | succ n ih => intro σ evs; simp only [run, turn_setOut, ih]

end Frappy.Poller
