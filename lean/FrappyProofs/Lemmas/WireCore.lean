import FrappyProofs.Lemmas.WireRoundtrip
/-
C02: the wire round trip of one node, by mutual structural induction over datatype trees.
-/
set_option linter.unusedSectionVars false
set_option linter.unusedVariables false
namespace Frappy.Lemmas.C02
open FloatOps DType Frappy.Datatypes Frappy.Spec.C01 Frappy.Spec.C02
open PVal (pyEq pyEqList pyEqDict dictGet dictSet seqItems?)

variable {F : Type} [FloatOps F] [WireLaws F]

/-- what the round trip of one value establishes -/
def RT (dt : DType F) (v : PVal F) : Prop :=
  ∃ j v', exportValue dt v = .ok j ∧ KindOK dt j ∧ StrictJ j ∧ j ≠ .null ∧ importValue dt j = .ok v' ∧ pyEq v' v = true

def RTMember (ms : List (String × DType F)) (k : String) (v : PVal F) : Prop :=
  ∃ j v', exportMember ms k v = some (.ok j) ∧ KindMember ms k j ∧ StrictJ j ∧ j ≠ .null ∧
    importMember ms k j = some (.ok v') ∧ pyEq v' v = true

theorem memberIn_key {G : F → F → Prop} : ∀ (ms : List (String × DType F)) (k : String) (v : PVal F),
    MemberInG G ms k v → k ∈ ms.map (·.1) ∧ v ≠ .none
  | [], _, _, h => by simp [MemberInG] at h
  | (k', t) :: rest, k, v, h => by
    simp only [MemberInG] at h
    split at h
    · rename_i e
      subst e
      exact ⟨by simp, fun e => inSetG_none t (e ▸ h)⟩
    · have := memberIn_key rest k v h
      exact ⟨by simp [this.1], this.2⟩

mutual
theorem wire_core : ∀ (dt : DType F) (v : PVal F), dt.WF → Valid dt v → B64Law → RT dt v
  | .double min max ar rr, v, hwf, hv, _ => by
    cases v <;> simp only [Valid, InSetG] at hv <;> try exact hv.elim
    case float x =>
      obtain ⟨h1, h2, h3, h4⟩ := double_rt hwf hv
      exact ⟨.num x, _, h1, by simp [KindOK], by simpa [StrictJ] using h2, by simp, h3, h4⟩
  | .int min max, v, hwf, hv, _ => by
    cases v <;> simp only [Valid, InSetG] at hv <;> try exact hv.elim
    case int i =>
      obtain ⟨h3, h4⟩ := int_rt (F := F) hwf hv
      exact ⟨.int i, _, rfl, by simp [KindOK], by simp [StrictJ], by simp, h3, h4⟩
  | .scaled scale min max ar rr, v, hwf, hv, _ => by
    cases v <;> simp only [Valid, InSetG] at hv <;> try exact hv.elim
    case float x =>
      obtain ⟨k, h1, h3, h4⟩ := scaled_rt (ar := ar) (rr := rr) hv
      exact ⟨.int k, _, h1, by simp [KindOK], by simp [StrictJ], by simp, h3, h4⟩
  | .bool, v, hwf, hv, _ => by
    cases v <;> simp only [Valid, InSetG] at hv <;> try exact hv.elim
    case bool b =>
      refine ⟨.bool b, .bool b, ?_, by simp [KindOK], by simp [StrictJ], by simp, ?_, ?_⟩
      · simp [exportValue, boolExport, boolCall, Except.map]
      · simp [importValue, call, conv, PVal.ofJVal, boolCall, Except.map]
      · cases b <;> simp [pyEq, PVal.numeric?, PVal.numEq]
  | .enum ms, v, hwf, hv, _ => by
    cases v <;> simp only [Valid, InSetG] at hv <;> try exact hv.elim
    case enum n k =>
      obtain ⟨h1, h3, h4⟩ := enum_rt (F := F) hwf hv
      exact ⟨.int k, _, h1, by simp [KindOK], by simp [StrictJ], by simp, h3, h4⟩
  | .string minc maxc utf8, v, hwf, hv, _ => by
    cases v <;> simp only [Valid, InSetG] at hv <;> try exact hv.elim
    case str s =>
      have h := string_rt (F := F) hv
      refine ⟨.str s, .str s, rfl, by simp [KindOK], by simp [StrictJ], by simp, ?_, by simp [pyEq]⟩
      simp [importValue, call, conv, PVal.ofJVal, h, Except.map]
  | .blob minb maxb, v, hwf, hv, hb => by
    cases v <;> simp only [Valid, InSetG] at hv <;> try exact hv.elim
    case bytes b =>
      have hd := hb b
      refine ⟨.str (Base64.encode b), .bytes b, rfl, by simp [KindOK, hd], by simp [StrictJ], by simp, ?_, by simp [pyEq]⟩
      simp [importValue, blobImport, hd, Except.map]
  | .array elem lo hi, v, hwf, hv, hb => by
    cases v <;> simp only [Valid, InSetG] at hv <;> try exact hv.elim
    case tuple vs =>
      simp only [DType.WF] at hwf
      obtain ⟨hall, hlo, hhi⟩ := hv
      obtain ⟨js, vs', hfs, hps, hss, hl, hgs, hes⟩ :=
        mapExport_rt (f := exportValue elem) (g := importValue elem) (P := KindOK elem) vs (fun x hx => by
          obtain ⟨j, v', a, b, c, _, d, e⟩ := wire_core elem x hwf.1 (hall x hx) hb
          exact ⟨j, v', a, b, c, d, e⟩)
      have h1 : ¬ vs.length < lo := by omega
      have h2 : ¬ vs.length > hi := by omega
      refine ⟨.arr js, .tuple vs', ?_, ?_, ?_, by simp, ?_, ?_⟩
      · simp [exportValue, seqItems?, h1, h2, hfs, Except.map]
      · simpa [KindOK] using hps
      · simpa [StrictJ] using hss
      · have h1' : ¬ js.length < lo := by omega
        have h2' : ¬ js.length > hi := by omega
        simp [importValue, h1', h2', hgs, Except.map]
      · simp [pyEq, hes]
  | .tuple elems, v, hwf, hv, hb => by
    cases v <;> simp only [Valid, InSetG] at hv <;> try exact hv.elim
    case tuple vs =>
      simp only [DType.WF] at hwf
      obtain ⟨js, vs', hfs, hps, hss, hl, hl2, hgs, hes⟩ := wire_core_zip elems vs hwf.2 hv hb
      refine ⟨.arr js, .tuple vs', ?_, ?_, ?_, by simp, ?_, ?_⟩
      · simp [exportValue, seqItems?, hl2, hfs, Except.map]
      · simpa [KindOK] using hps
      · simpa [StrictJ] using hss
      · have : js.length = elems.length := by omega
        simp [importValue, this, hgs, Except.map]
      · simp [pyEq, hes]
  | .struct ms opt cl, v, hwf, hv, hb => by
    cases v <;> simp only [Valid, InSetG] at hv <;> try exact hv.elim
    case dict fields =>
      simp only [DType.WF] at hwf
      obtain ⟨hmem, hnd, hmand⟩ := hv
      obtain ⟨jfs, fs', hfs, hps, hss, hnn, hkeys, hgs, hrel⟩ :=
        mapFieldsExport_rt (f := exportMember ms) (g := importMember ms) (P := KindMember ms) fields [] []
          (fun kv hkv => wire_core_member ms kv.1 kv.2 hwf.2.2.2 (hmem kv hkv) hb) hnd (by simp) (by simp [RelFields])
      have hc1 : structCheck (ms.map (·.1)) opt true fields = true :=
        structCheck_ok _ _ _ (fun kv hkv => (memberIn_key ms kv.1 kv.2 (hmem kv hkv)).1)
          (fun kv hkv => (memberIn_key ms kv.1 kv.2 (hmem kv hkv)).2) hmand
      have hk2 : (PVal.ofJVal.ofJFields jfs).map (·.1) = fields.map (·.1) := by rw [ofJFields_keys, hkeys]
      have hc2 : structCheck (ms.map (·.1)) opt true (PVal.ofJVal.ofJFields jfs) = true := by
        refine structCheck_ok _ _ _ (fun kv hkv => ?_) (ofJFields_noNone jfs hnn) (by rw [hk2]; exact hmand)
        have : kv.1 ∈ fields.map (·.1) := by rw [← hk2]; exact List.mem_map.mpr ⟨kv, hkv, rfl⟩
        obtain ⟨kv', hkv', he⟩ := List.mem_map.mp this
        rw [← he]
        exact (memberIn_key ms kv'.1 kv'.2 (hmem kv' hkv')).1
      refine ⟨.obj jfs, .dict fs', ?_, ?_, ?_, by simp, ?_, ?_⟩
      · simp [exportValue, hc1, hfs, Except.map]
      · simpa [KindOK] using hps
      · simpa [StrictJ] using hss
      · simp [importValue, hc2, hgs, Except.map]
      · exact pyEq_dict_of_rel fs' fields (by simpa using hrel) hnd
theorem wire_core_zip : ∀ (ts : List (DType F)) (vs : List (PVal F)), WFList ts → ZipInG SnapFix ts vs → B64Law →
    ∃ js vs', exportTuple ts vs = .ok js ∧ KindZip ts js ∧ StrictList js ∧ js.length = vs.length ∧
      vs.length = ts.length ∧ importTuple ts js = .ok vs' ∧ pyEqList vs' vs = true
  | [], [], _, _, _ => ⟨[], [], rfl, by simp [KindZip], by simp [StrictList], rfl, rfl, rfl, by simp [pyEqList]⟩
  | t :: ts, v :: vs, hwf, hz, hb => by
    simp only [WFList] at hwf
    simp only [ZipInG] at hz
    obtain ⟨j, v', hf, hp, hs, _, hg, he⟩ := wire_core t v hwf.1 hz.1 hb
    obtain ⟨js, vs', hfs, hps, hss, hl, hl2, hgs, hes⟩ := wire_core_zip ts vs hwf.2 hz.2 hb
    refine ⟨j :: js, v' :: vs', ?_, ?_, ?_, ?_, ?_, ?_, ?_⟩
    · simp [exportTuple, hf, hfs]
    · simp [KindZip, hp, hps]
    · simp [StrictList, hs, hss]
    · simp [hl]
    · simp [hl2]
    · simp [importTuple, hg, hgs]
    · simp [pyEqList, he, hes]
  | [], _ :: _, _, hz, _ => by simp [ZipInG] at hz
  | _ :: _, [], _, hz, _ => by simp [ZipInG] at hz
theorem wire_core_member : ∀ (ms : List (String × DType F)) (k : String) (v : PVal F), WFFields ms →
    MemberInG SnapFix ms k v → B64Law →
    ∃ j v', exportMember ms k v = some (.ok j) ∧ KindMember ms k j ∧ StrictJ j ∧ j ≠ .null ∧
      importMember ms k j = some (.ok v') ∧ pyEq v' v = true
  | [], _, _, _, h, _ => by simp [MemberInG] at h
  | (k', t) :: rest, k, v, hwf, h, hb => by
    simp only [WFFields] at hwf
    simp only [MemberInG] at h
    by_cases e : k' = k
    · simp only [e, if_true] at h
      obtain ⟨j, v', hf, hp, hs, hn, hg, he⟩ := wire_core t v hwf.1 h hb
      exact ⟨j, v', by simp [exportMember, e, hf], by simp [KindMember, e, hp], hs, hn, by simp [importMember, e, hg], he⟩
    · simp only [e, if_false] at h
      obtain ⟨j, v', hf, hp, hs, hn, hg, he⟩ := wire_core_member rest k v hwf.2 h hb
      exact ⟨j, v', by simp [exportMember, e, hf], by simp [KindMember, e, hp], hs, hn, by simp [importMember, e, hg], he⟩
end

end Frappy.Lemmas.C02
