import FrappyProofs.Lemmas.WireRoundtrip
/-
C02: the wire round trip of one node, by mutual structural induction over datatype trees.
-/
set_option linter.unusedSectionVars false
set_option linter.unusedVariables false
namespace Frappy.Lemmas.C02
open FloatOps DType Frappy.Datatypes Frappy.Spec.C01 Frappy.Spec.C02
open PVal (pyEq pyEqList pyEqDict dictGet dictSet seqItems?)

variable {F : Type} [FloatOps F] [WireLaws F]

/-- what the round trip of one value establishes -/
def RT (dt : DType F) (v : PVal F) : Prop :=
  ∃ j v', exportValue dt v = .ok j ∧ KindOK dt j ∧ StrictJ j ∧ j ≠ .null ∧ importValue dt j = .ok v' ∧ pyEq v' v = true ∧
    (Canon v → v' = v)

def RTMember (ms : List (String × DType F)) (k : String) (v : PVal F) : Prop :=
  ∃ j v', exportMember ms k v = some (.ok j) ∧ KindMember ms k j ∧ StrictJ j ∧ j ≠ .null ∧
    importMember ms k j = some (.ok v') ∧ Back v' v

theorem memberIn_key {G : F → F → Prop} : ∀ (ms : List (String × DType F)) (k : String) (v : PVal F),
    MemberInG G ms k v → k ∈ ms.map (·.1) ∧ v ≠ .none
  | [], _, _, h => by simp [MemberInG] at h
  | (k', t) :: rest, k, v, h => by
    simp only [MemberInG] at h
    split at h
    · rename_i e
      subst e
      exact ⟨by simp, fun e => inSetG_none t (e ▸ h)⟩
    · have := memberIn_key rest k v h
      exact ⟨by simp [this.1], this.2⟩

theorem sendable_none (dt : DType F) : ¬ Sendable dt .none := by
  cases dt <;> simp [Sendable, InSetG]

theorem sendableMember_key : ∀ (ms : List (String × DType F)) (k : String) (v : PVal F),
    SendableMember ms k v → k ∈ ms.map (·.1) ∧ v ≠ .none
  | [], _, _, h => by simp [SendableMember] at h
  | (k', t) :: rest, k, v, h => by
    simp only [SendableMember] at h
    split at h
    · rename_i e
      subst e
      exact ⟨by simp, fun e => sendable_none t (e ▸ h)⟩
    · have := sendableMember_key rest k v h
      exact ⟨by simp [this.1], this.2⟩

/-! every valid value of a well-formed type is sendable -/
mutual
theorem valid_sendable : ∀ (dt : DType F) (v : PVal F), dt.WF → Valid dt v → Sendable dt v
  | .double min max ar rr, v, hwf, hv => by
    cases v <;> simp only [Valid, InSetG] at hv <;> try exact hv.elim
    case float x => simpa [Sendable] using double_finite hwf hv
  | .scaled scale min max ar rr, v, hwf, hv => by
    cases v <;> simp only [Valid, InSetG] at hv <;> try exact hv.elim
    case float x => simpa [Sendable] using And.intro hv.1 (between_notNaN hv.2)
  | .int min max, v, _, hv => by simp only [Sendable]; exact hv
  | .bool, v, _, hv => by simp only [Sendable]; exact hv
  | .enum ms, v, _, hv => by simp only [Sendable]; exact hv
  | .string a b c, v, _, hv => by simp only [Sendable]; exact hv
  | .blob a b, v, _, hv => by simp only [Sendable]; exact hv
  | .array elem lo hi, v, hwf, hv => by
    cases v <;> simp only [Valid, InSetG] at hv <;> try exact hv.elim
    case tuple vs =>
      simp only [DType.WF] at hwf
      simp only [Sendable]
      exact ⟨fun x hx => valid_sendable elem x hwf.1 (hv.1 x hx), hv.2.1, hv.2.2⟩
  | .tuple elems, v, hwf, hv => by
    cases v <;> simp only [Valid, InSetG] at hv <;> try exact hv.elim
    case tuple vs =>
      simp only [DType.WF] at hwf
      simp only [Sendable]
      exact valid_sendable_zip elems vs hwf.2 hv
  | .struct ms opt cl, v, hwf, hv => by
    cases v <;> simp only [Valid, InSetG] at hv <;> try exact hv.elim
    case dict fields =>
      simp only [DType.WF] at hwf
      simp only [Sendable]
      exact ⟨fun kv hkv => valid_sendable_member ms kv.1 kv.2 hwf.2.2.2 (hv.1 kv hkv), hv.2.1, hv.2.2⟩
theorem valid_sendable_zip : ∀ (ts : List (DType F)) (vs : List (PVal F)), WFList ts → ZipInG SnapFix ts vs → SendableZip ts vs
  | [], [], _, _ => by simp [SendableZip]
  | t :: ts, v :: vs, hwf, hz => by
    simp only [WFList] at hwf
    simp only [ZipInG] at hz
    simp only [SendableZip]
    exact ⟨valid_sendable t v hwf.1 hz.1, valid_sendable_zip ts vs hwf.2 hz.2⟩
  | [], _ :: _, _, hz => by simp [ZipInG] at hz
  | _ :: _, [], _, hz => by simp [ZipInG] at hz
theorem valid_sendable_member : ∀ (ms : List (String × DType F)) (k : String) (v : PVal F), WFFields ms →
    MemberInG SnapFix ms k v → SendableMember ms k v
  | [], _, _, _, h => by simp [MemberInG] at h
  | (k', t) :: rest, k, v, hwf, h => by
    simp only [WFFields] at hwf
    simp only [MemberInG] at h
    simp only [SendableMember]
    by_cases e : k' = k
    · simp only [e, if_true] at h ⊢
      exact valid_sendable t v hwf.1 h
    · simp only [e, if_false] at h ⊢
      exact valid_sendable_member rest k v hwf.2 h
end

mutual
theorem send_core : ∀ (dt : DType F) (v : PVal F), dt.WF → Sendable dt v → B64Law → RT dt v
  | .double min max ar rr, v, hwf, hv, _ => by
    cases v <;> simp only [Sendable] at hv <;> try exact hv.elim
    case float x =>
      obtain ⟨h1, h2, h3, h4⟩ := double_rt (min := min) (max := max) (ar := ar) (rr := rr) hv
      refine ⟨.num x, _, h1, by simp [KindOK], by simpa [StrictJ] using h2, by simp, h3, h4, fun hc => ?_⟩
      simp only [Canon] at hc
      rw [(WireLaws.same_iff _ _).mp hc]
  | .int min max, v, hwf, hv, _ => by
    cases v <;> simp only [Sendable, InSetG] at hv <;> try exact hv.elim
    case int i =>
      obtain ⟨h3, h4⟩ := int_rt (F := F) hwf hv
      exact ⟨.int i, _, rfl, by simp [KindOK], by simp [StrictJ], by simp, h3, h4, fun _ => rfl⟩
  | .scaled scale min max ar rr, v, hwf, hv, _ => by
    cases v <;> simp only [Sendable] at hv <;> try exact hv.elim
    case float x =>
      obtain ⟨k, h1, h3, h4⟩ := scaled_rt (min := min) (max := max) (ar := ar) (rr := rr) hv
      exact ⟨.int k, _, h1, by simp [KindOK], by simp [StrictJ], by simp, h3, h4, fun _ => rfl⟩
  | .bool, v, hwf, hv, _ => by
    cases v <;> simp only [Sendable, InSetG] at hv <;> try exact hv.elim
    case bool b =>
      refine ⟨.bool b, .bool b, ?_, by simp [KindOK], by simp [StrictJ], by simp, ?_, ?_, fun _ => rfl⟩
      · simp [exportValue, boolExport, boolCall, Except.map]
      · simp [importValue, call, conv, PVal.ofJVal, boolCall, Except.map]
      · cases b <;> simp [pyEq, PVal.numeric?, PVal.numEq]
  | .enum ms, v, hwf, hv, _ => by
    cases v <;> simp only [Sendable, InSetG] at hv <;> try exact hv.elim
    case enum n k =>
      obtain ⟨h1, h3, h4⟩ := enum_rt (F := F) hwf hv
      exact ⟨.int k, _, h1, by simp [KindOK], by simp [StrictJ], by simp, h3, h4, fun _ => rfl⟩
  | .string minc maxc utf8, v, hwf, hv, _ => by
    cases v <;> simp only [Sendable, InSetG] at hv <;> try exact hv.elim
    case str s =>
      have h := string_rt (F := F) hv
      refine ⟨.str s, .str s, rfl, by simp [KindOK], by simp [StrictJ], by simp, ?_, by simp [pyEq], fun _ => rfl⟩
      simp [importValue, call, conv, PVal.ofJVal, h, Except.map]
  | .blob minb maxb, v, hwf, hv, hb => by
    cases v <;> simp only [Sendable, InSetG] at hv <;> try exact hv.elim
    case bytes b =>
      have hd := hb b
      refine ⟨.str (Base64.encode b), .bytes b, rfl, by simp [KindOK, hd], by simp [StrictJ], by simp, ?_, by simp [pyEq],
        fun _ => rfl⟩
      simp [importValue, blobImport, hd, Except.map]
  | .array elem lo hi, v, hwf, hv, hb => by
    cases v <;> simp only [Sendable] at hv <;> try exact hv.elim
    case tuple vs =>
      simp only [DType.WF] at hwf
      obtain ⟨hall, hlo, hhi⟩ := hv
      obtain ⟨js, vs', hfs, hps, hss, hl, hgs, hes, hxs⟩ :=
        mapExport_rt (f := exportValue elem) (g := importValue elem) (P := KindOK elem) vs (fun x hx => by
          obtain ⟨j, v', a, b, c, _, d, e, q⟩ := send_core elem x hwf.1 (hall x hx) hb
          exact ⟨j, v', a, b, c, d, e, q⟩)
      have h1 : ¬ vs.length < lo := by omega
      have h2 : ¬ vs.length > hi := by omega
      refine ⟨.arr js, .tuple vs', ?_, ?_, ?_, by simp, ?_, ?_, ?_⟩
      · simp [exportValue, seqItems?, h1, h2, hfs, Except.map]
      · simpa [KindOK] using hps
      · simpa [StrictJ] using hss
      · have h1' : ¬ js.length < lo := by omega
        have h2' : ¬ js.length > hi := by omega
        simp [importValue, h1', h2', hgs, Except.map]
      · simp [pyEq, hes]
      · intro hc
        simp only [Canon] at hc
        rw [hxs hc]
  | .tuple elems, v, hwf, hv, hb => by
    cases v <;> simp only [Sendable] at hv <;> try exact hv.elim
    case tuple vs =>
      simp only [DType.WF] at hwf
      obtain ⟨js, vs', hfs, hps, hss, hl, hl2, hgs, hes, hxs⟩ := send_core_zip elems vs hwf.2 hv hb
      refine ⟨.arr js, .tuple vs', ?_, ?_, ?_, by simp, ?_, ?_, ?_⟩
      · simp [exportValue, seqItems?, hl2, hfs, Except.map]
      · simpa [KindOK] using hps
      · simpa [StrictJ] using hss
      · have : js.length = elems.length := by omega
        simp [importValue, this, hgs, Except.map]
      · simp [pyEq, hes]
      · intro hc
        simp only [Canon] at hc
        rw [hxs hc]
  | .struct ms opt cl, v, hwf, hv, hb => by
    cases v <;> simp only [Sendable] at hv <;> try exact hv.elim
    case dict fields =>
      simp only [DType.WF] at hwf
      obtain ⟨hmem, hnd, hmand⟩ := hv
      obtain ⟨jfs, fs', hfs, hps, hss, hnn, hkeys, hgs, hrel⟩ :=
        mapFieldsExport_rt (f := exportMember ms) (g := importMember ms) (P := KindMember ms) (R := Back) fields [] []
          (fun kv hkv => send_core_member ms kv.1 kv.2 hwf.2.2.2 (hmem kv hkv) hb) hnd (by simp) (by simp [RelFields])
      have hc1 : structCheck (ms.map (·.1)) opt true fields = true :=
        structCheck_ok _ _ _ (fun kv hkv => (sendableMember_key ms kv.1 kv.2 (hmem kv hkv)).1)
          (fun kv hkv => (sendableMember_key ms kv.1 kv.2 (hmem kv hkv)).2) hmand
      have hk2 : (PVal.ofJVal.ofJFields jfs).map (·.1) = fields.map (·.1) := by rw [ofJFields_keys, hkeys]
      have hc2 : structCheck (ms.map (·.1)) opt true (PVal.ofJVal.ofJFields jfs) = true := by
        refine structCheck_ok _ _ _ (fun kv hkv => ?_) (ofJFields_noNone jfs hnn) (by rw [hk2]; exact hmand)
        have : kv.1 ∈ fields.map (·.1) := by rw [← hk2]; exact List.mem_map.mpr ⟨kv, hkv, rfl⟩
        obtain ⟨kv', hkv', he⟩ := List.mem_map.mp this
        rw [← he]
        exact (sendableMember_key ms kv'.1 kv'.2 (hmem kv' hkv')).1
      simp only [List.nil_append] at hrel
      refine ⟨.obj jfs, .dict fs', ?_, ?_, ?_, by simp, ?_, ?_, ?_⟩
      · simp [exportValue, hc1, hfs, Except.map]
      · simpa [KindOK] using hps
      · simpa [StrictJ] using hss
      · simp [importValue, hc2, hgs, Except.map]
      · exact pyEq_dict_of_rel fs' fields (relFields_mono (fun a b h => h.1) fs' fields hrel) hnd
      · intro hc
        simp only [Canon] at hc
        rw [relFields_exact fs' fields hrel hc]
theorem send_core_zip : ∀ (ts : List (DType F)) (vs : List (PVal F)), WFList ts → SendableZip ts vs → B64Law →
    ∃ js vs', exportTuple ts vs = .ok js ∧ KindZip ts js ∧ StrictList js ∧ js.length = vs.length ∧
      vs.length = ts.length ∧ importTuple ts js = .ok vs' ∧ pyEqList vs' vs = true ∧ (CanonList vs → vs' = vs)
  | [], [], _, _, _ => ⟨[], [], rfl, by simp [KindZip], by simp [StrictList], rfl, rfl, rfl, by simp [pyEqList], fun _ => rfl⟩
  | t :: ts, v :: vs, hwf, hz, hb => by
    simp only [WFList] at hwf
    simp only [SendableZip] at hz
    obtain ⟨j, v', hf, hp, hs, _, hg, he, hx⟩ := send_core t v hwf.1 hz.1 hb
    obtain ⟨js, vs', hfs, hps, hss, hl, hl2, hgs, hes, hxs⟩ := send_core_zip ts vs hwf.2 hz.2 hb
    refine ⟨j :: js, v' :: vs', ?_, ?_, ?_, ?_, ?_, ?_, ?_, ?_⟩
    · simp [exportTuple, hf, hfs]
    · simp [KindZip, hp, hps]
    · simp [StrictList, hs, hss]
    · simp [hl]
    · simp [hl2]
    · simp [importTuple, hg, hgs]
    · simp [pyEqList, he, hes]
    · intro hc
      simp only [CanonList] at hc
      rw [hx hc.1, hxs hc.2]
  | [], _ :: _, _, hz, _ => by simp [SendableZip] at hz
  | _ :: _, [], _, hz, _ => by simp [SendableZip] at hz
theorem send_core_member : ∀ (ms : List (String × DType F)) (k : String) (v : PVal F), WFFields ms →
    SendableMember ms k v → B64Law →
    ∃ j v', exportMember ms k v = some (.ok j) ∧ KindMember ms k j ∧ StrictJ j ∧ j ≠ .null ∧
      importMember ms k j = some (.ok v') ∧ Back v' v
  | [], _, _, _, h, _ => by simp [SendableMember] at h
  | (k', t) :: rest, k, v, hwf, h, hb => by
    simp only [WFFields] at hwf
    simp only [SendableMember] at h
    by_cases e : k' = k
    · simp only [e, if_true] at h
      obtain ⟨j, v', hf, hp, hs, hn, hg, he, hx⟩ := send_core t v hwf.1 h hb
      exact ⟨j, v', by simp [exportMember, e, hf], by simp [KindMember, e, hp], hs, hn, by simp [importMember, e, hg], he, hx⟩
    · simp only [e, if_false] at h
      obtain ⟨j, v', hf, hp, hs, hn, hg, he⟩ := send_core_member rest k v hwf.2 h hb
      exact ⟨j, v', by simp [exportMember, e, hf], by simp [KindMember, e, hp], hs, hn, by simp [importMember, e, hg], he⟩
end

/-- the wire round trip of a valid value -/
theorem wire_core (dt : DType F) (v : PVal F) (hwf : dt.WF) (hv : Valid dt v) (hb : B64Law) : RT dt v :=
  send_core dt v hwf (valid_sendable dt v hwf hv) hb

end Frappy.Lemmas.C02
