import FrappyProofs.Lemmas.CommBook
import FrappyProofs.Lemmas.CommExchange
/- helper lemmas for C16: a multi-command transaction keeps the connection to itself — between its sends, and until the
pause after its last command is over -/
open Frappy.Spec.C16
namespace Frappy.Comm

/-! ## an error of a call is not forgotten before the call returns -/

theorem failTo_failed (k : Caller) : (failTo k).failed = true := rfl
theorem nextReq_failed (k : Caller) : (nextReq k).failed = k.failed := by unfold nextReq; split <;> rfl
theorem toFlush_failed {s : State} {k : Caller} (h : k.failed = true) : (toFlush s k).failed = true := by
  unfold toFlush; split <;> simp [failTo, h]
theorem toIdFlush_failed (s : State) (k : Caller) : (toIdFlush s k).failed = k.failed := by unfold toIdFlush; split <;> rfl
theorem toIdEndFail_failed (k : Caller) : (toIdEndFail k).failed = k.failed := rfl
theorem rcFail_failed {k : Caller} (h : k.failed = true) : (rcFail k).failed = true := by
  unfold rcFail; split <;> simp [failTo, h]
theorem afterConnected_failed {s : State} {k : Caller} (h : k.failed = true) : (afterConnected s k).failed = true := by
  unfold afterConnected; split <;> split <;> (try split) <;> simp [failTo, h]
theorem afterIdent_failed {s : State} {k : Caller} (h : k.failed = true) : (afterIdent s k).failed = true := by
  unfold afterIdent; split <;> (try split) <;> first | exact afterConnected_failed h | simp [h]
theorem startIdent_failed {s : State} {k : Caller} (h : k.failed = true) : (startIdent s k).failed = true := by
  unfold startIdent; split <;> first | exact afterIdent_failed h | simp [h]
theorem idNext_failed (cfg : Cfg) (k : Caller) : (idNext cfg k).failed = k.failed := by
  unfold idNext; split <;> (try split) <;> (try split) <;> rfl

set_option maxHeartbeats 16000000 in
/-- `failed` is set once and stays set until the call returns (every arm, identification included) -/
theorem step_failed_sticky (s s' : State) (t c : Nat) (e : Ev) (h : stepCaller s t c e = some s')
    (hf : (s.callers c).failed = true) (hp : (s.callers c).pc ≠ .idle) :
    (s'.callers c).pc = .idle ∨ (s'.callers c).failed = true := by
  step_arms
  all_goals (try (simp only [setC_same]))
  all_goals (first
    | (exfalso; exact hp hpc)
    | (left; rfl)
    | (right; exact hf)
    | (right; rfl)
    | (right; simp [hf]; done)
    | (right; rw [nextReq_failed]; simp [hf]; done)
    | (right; rw [toIdFlush_failed]; simp [hf]; done)
    | (right; rw [idNext_failed]; simp [hf]; done)
    | (right; apply toFlush_failed; simp [hf]; done)
    | (right; apply rcFail_failed; simp [hf]; done)
    | (right; apply afterConnected_failed; simp [hf]; done)
    | (right; apply afterIdent_failed; simp [hf]; done)
    | (right; apply startIdent_failed; simp [hf]; done)
    | (right; split <;> first
        | (simp [hf]; done)
        | (apply toFlush_failed; simp [hf]; done)
        | (apply afterConnected_failed; simp [hf]; done)
        | (rw [toIdFlush_failed]; simp [hf]; done)
        | (rw [nextReq_failed]; simp [hf]; done))
    | skip)

/-- over any stretch of an accepted run without a return of `c`: a failed call of `c` stays failed (and stays a call) -/
theorem exec_failed_sticky (c : Nat) : ∀ (evs : List TEv) (s s' : State), exec s evs = some s' →
    (s.callers c).failed = true → (s.callers c).pc ≠ .idle → (∀ e ∈ evs, isRetOf c (some e.ev) = false) →
    (s'.callers c).failed = true ∧ (s'.callers c).pc ≠ .idle
  | [], s, s', h, hf, hp, _ => by simp [exec] at h; subst h; exact ⟨hf, hp⟩
  | e :: es, s, s', h, hf, hp, hr => by
    simp only [exec] at h
    cases hst : step s e with
    | none => simp [hst] at h
    | some s1 =>
      simp only [hst] at h
      have hre := hr e (by simp)
      have h1 : (s1.callers c).failed = true ∧ (s1.callers c).pc ≠ .idle := by
        cases hwho : e.ev.who with
        | none => rw [(step_env_callers hwho hst).1]; exact ⟨hf, hp⟩
        | some c0 =>
          rw [step_caller_form s e c0 hwho] at hst
          split at hst
          · simp at hst
          · by_cases hcc : c = c0
            · subst hcc
              have hnr : ∀ x r, e.ev ≠ .ret x r := by
                intro x r hev
                rw [hev] at hwho hre
                simp only [Ev.who, Option.some.injEq] at hwho
                subst hwho
                simp [isRetOf] at hre
              have hni := (step_nonidle _ s1 e.t c e.ev hst hp hnr).1
              rcases step_failed_sticky _ s1 e.t c e.ev hst hf hp with h0 | h0
              · exact absurd h0 hni
              · exact ⟨h0, hni⟩
            · rw [step_others _ s1 e.t c0 e.ev hst c hcc]; exact ⟨hf, hp⟩
      exact exec_failed_sticky c es s1 s' h h1.1 h1.2 (fun e he => hr e (by simp [he]))

/-! ## between the sends of one call nobody else touches the connection -/

theorem trafficAt_lt_length {log : Log} {i c : Nat} (h : trafficAt log i = some c) : i < log.length := by
  false_or_by_contra
  rename_i hn
  simp [trafficAt, evAt_none log i (by omega)] at h

theorem trafficAt_append_lt (log : Log) (e : TEv) (i : Nat) (h : i < log.length) : trafficAt (log ++ [e]) i = trafficAt log i := by
  simp [trafficAt, evAt_append_lt log e i h]

theorem trafficAt_take (log : Log) (k i : Nat) (h : i < k) : trafficAt (log.take k) i = trafficAt log i := by
  simp [trafficAt, evAt_take log k i h]

/-- while a call of `c` that has sent still holds the lock, every touch of the connection after that send is `c`'s -/
structure PInv (log : Log) (s : State) : Prop where
  ct : ∀ c i j c', sendAt log i = some c → NoRetAfter log c i → 0 < (s.callers c).held → i < j →
        trafficAt log j = some c' → c' = c

theorem pinv_init (cfg : Cfg) (cbs : List Nat) : PInv [] { cfg := cfg, cbsReg := cbs } :=
  ⟨fun c i j c' h => by simp [sendAt, evAt] at h⟩

theorem pinv_step {log : Log} {s s' : State} (e : TEv) (hi : Inv log s) (hp : PInv log s) (h : step s e = some s') :
    PInv (log ++ [e]) s' := by
  constructor
  intro c i j c' h1 h2 h3 h4 h5
  have hjle := trafficAt_lt_length h5
  simp only [List.length_append, List.length_singleton] at hjle
  have hnr := noRetAfter_restrict h2
  have hilt : i < log.length := by omega
  rw [sendAt_append_lt log e i hilt] at h1
  cases hwho : e.ev.who with
  | none =>
    have hcal := (step_env_callers hwho h).1
    rw [hcal] at h3
    rcases Nat.lt_or_ge j log.length with hlt | hge
    · rw [trafficAt_append_lt log e j hlt] at h5
      exact hp.ct c i j c' h1 hnr h3 h4 h5
    · have : j = log.length := by omega
      subst this
      rw [trafficAt_eq, evAt_append_eq] at h5
      simp only [Option.bind_some] at h5
      have := trafficEv_who h5
      rw [hwho] at this; simp at this
  | some c0 =>
    rw [step_caller_form s e c0 hwho] at h
    split at h
    · simp at h
    · have hi1 := inv_clock e.t hi
      have hoth : ∀ x, x ≠ c0 → s'.callers x = ({ s with clock := e.t } : State).callers x :=
        step_others _ s' e.t c0 e.ev h
      rcases Nat.lt_or_ge j log.length with hlt | hge
      · rw [trafficAt_append_lt log e j hlt] at h5
        rcases Nat.eq_zero_or_pos (s.callers c).held with h0 | hpos
        · -- the lock was taken by this very event: impossible after a send of an unfinished call
          have hd := hi1.b c i h1 hnr h0
          by_cases hcc : c = c0
          · subst hcc
            rcases step_from_done _ s' e.t c e.ev h hd with ⟨x, r, hr⟩ | ⟨_, _, hh⟩
            · have := h2 log.length (by omega) (by simp)
              rw [evAt_append_eq, hr] at this
              rw [hr] at hwho
              simp only [Ev.who, Option.some.injEq] at hwho
              simp [isRetOf, hwho] at this
            · simp only at hh; omega
          · rw [hoth c hcc] at h3; simp only at h3; omega
        · exact hp.ct c i j c' h1 hnr hpos h4 h5
      · have : j = log.length := by omega
        subst this
        rw [trafficAt_eq, evAt_append_eq] at h5
        simp only [Option.bind_some] at h5
        have hw := trafficEv_who h5
        rw [hwho] at hw
        simp only [Option.some.injEq] at hw
        subst hw
        have hheld0 := step_traffic_held _ s' e.t c0 e.ev h (hi1.hk c0) (by rw [h5]; rfl)
        by_cases hcc : c = c0
        · exact hcc.symm
        · have hheld : 0 < (s.callers c).held := by rw [hoth c hcc] at h3; exact h3
          have o1 := hi1.li1 c hheld
          have o2 := hi1.li1 c0 hheld0
          rw [o1] at o2; simp at o2; exact absurd o2 hcc

theorem pinv_exec_gen : ∀ (evs pre : List TEv) (s0 s : State), Inv pre s0 → PInv pre s0 → exec s0 evs = some s →
    PInv (pre ++ evs) s
  | [], pre, s0, s, _, hp, h => by simp [exec] at h; subst h; simpa using hp
  | e :: es, pre, s0, s, hi, hp, h => by
    simp only [exec] at h
    cases hst : step s0 e with
    | none => simp [hst] at h
    | some s1 =>
      simp only [hst] at h
      have := pinv_exec_gen es (pre ++ [e]) s1 s (inv_step e hi hst) (pinv_step e hi hp hst) h
      simpa using this

theorem pinv_exec (cfg : Cfg) (cbs : List Nat) (evs : List TEv) (s : State)
    (h : exec { cfg := cfg, cbsReg := cbs } evs = some s) : PInv evs s := by
  simpa using pinv_exec_gen evs [] _ s (inv_init cfg cbs) (pinv_init cfg cbs) h

/-- the events of an accepted run between positions q and b, as a run of their own -/
theorem exec_segment (s0 : State) (evs : List TEv) (q b : Nat) (hqb : q ≤ b) (sq sb : State)
    (hq : exec s0 (evs.take q) = some sq) (hb : exec s0 (evs.take b) = some sb) :
    exec sq ((evs.take b).drop q) = some sb := by
  have hsplit : evs.take b = evs.take q ++ (evs.take b).drop q := by
    have := List.take_append_drop q (evs.take b)
    rw [List.take_take, Nat.min_eq_left hqb] at this
    exact this.symm
  rw [hsplit, exec_append, hq] at hb
  simpa using hb

theorem mem_segment {evs : List TEv} {q b : Nat} {e : TEv} (h : e ∈ (evs.take b).drop q) :
    ∃ m, q ≤ m ∧ m < b ∧ evs[m]? = some e := by
  obtain ⟨n, hn⟩ := List.mem_iff_getElem?.1 h
  rw [List.getElem?_drop, List.getElem?_take] at hn
  split at hn
  · next hlt => exact ⟨q + n, by omega, hlt, hn⟩
  · simp at hn

/-! ## searching a range: first and last position with a property -/

theorem find_first (p : Nat → Bool) : ∀ (k i : Nat), i < k → p i = true → (∀ m, m < i → p m = false) →
    (List.range k).find? p = some i
  | 0, i, h, _, _ => by omega
  | k + 1, i, h, hp, hno => by
    rw [List.range_succ, List.find?_append]
    rcases Nat.lt_or_ge i k with hlt | hge
    · rw [find_first p k i hlt hp hno]; rfl
    · have : i = k := by omega
      subst this
      have hnone : (List.range i).find? p = none := by
        rw [List.find?_eq_none]; intro x hx; simp only [List.mem_range] at hx; simp [hno x hx]
      rw [hnone]; simp [hp]

theorem find_none (p : Nat → Bool) (k : Nat) (h : ∀ m, m < k → p m = false) : (List.range k).find? p = none := by
  rw [List.find?_eq_none]; intro x hx; simp only [List.mem_range] at hx; simp [h x hx]

theorem find_rev_none (p : Nat → Bool) (k : Nat) (h : ∀ m, m < k → p m = false) : (List.range k).reverse.find? p = none := by
  rw [List.find?_eq_none]; intro x hx; simp only [List.mem_reverse, List.mem_range] at hx; simp [h x hx]

theorem exists_first (p : Nat → Bool) : ∀ k, (∃ i, i < k ∧ p i = true) →
    ∃ i, i < k ∧ p i = true ∧ ∀ m, m < i → p m = false
  | 0, ⟨i, h, _⟩ => by omega
  | k + 1, ⟨i, hi, hp⟩ => by
    by_cases hex : ∃ j, j < k ∧ p j = true
    · obtain ⟨j, hj, hpj, hno⟩ := exists_first p k hex
      exact ⟨j, by omega, hpj, hno⟩
    · have : i = k := by
        false_or_by_contra; rename_i hn; exact hex ⟨i, by omega, hp⟩
      subst this
      refine ⟨i, hi, hp, fun m hm => ?_⟩
      cases hpm : p m with
      | false => rfl
      | true => exact absurd ⟨m, hm, hpm⟩ hex

theorem exists_last (p : Nat → Bool) : ∀ k, (∃ i, i < k ∧ p i = true) →
    ∃ i, i < k ∧ p i = true ∧ ∀ m, i < m → m < k → p m = false
  | 0, ⟨i, h, _⟩ => by omega
  | k + 1, hex => by
    cases hpk : p k with
    | true => exact ⟨k, by omega, hpk, fun m h1 h2 => by omega⟩
    | false =>
      obtain ⟨i, hi, hp⟩ := hex
      have hik : i < k := by
        rcases Nat.lt_or_ge i k with h | h
        · exact h
        · have : i = k := by omega
          subst this; rw [hp] at hpk; simp at hpk
      obtain ⟨j, hj, hpj, hno⟩ := exists_last p k ⟨i, hik, hp⟩
      refine ⟨j, by omega, hpj, fun m h1 h2 => ?_⟩
      rcases Nat.lt_or_ge m k with h | h
      · exact hno m h1 h
      · have : m = k := by omega
        subst this; exact hpk

/-- `spanEnd`: the first return of `c` after a (the length of the log if there is none) -/
theorem spanEnd_spec (log : Log) (c a : Nat) :
    (∀ m, a < m → m < spanEnd log c a → isRetOf c (evAt log m) = false) ∧ spanEnd log c a ≤ log.length ∧
    (spanEnd log c a < log.length → a < spanEnd log c a ∧ isRetOf c (evAt log (spanEnd log c a)) = true) := by
  let p : Nat → Bool := fun m => decide (a < m) && isRetOf c (evAt log m)
  have hdef : spanEnd log c a = ((List.range log.length).find? p).getD log.length := rfl
  by_cases hex : ∃ i, i < log.length ∧ p i = true
  · obtain ⟨i, hi, hp, hno⟩ := exists_first p log.length hex
    have hf : spanEnd log c a = i := by rw [hdef, find_first p log.length i hi hp hno]; rfl
    rw [hf]
    simp only [p, Bool.and_eq_true, decide_eq_true_eq] at hp
    refine ⟨fun m h1 h2 => ?_, by omega, fun _ => hp⟩
    have := hno m h2
    simp only [p, Bool.and_eq_false_iff, decide_eq_false_iff_not] at this
    rcases this with h | h
    · omega
    · exact h
  · have hnone : spanEnd log c a = log.length := by
      rw [hdef, find_none p log.length (fun m hm => by
        cases hpm : p m with
        | false => rfl
        | true => exact absurd ⟨m, hm, hpm⟩ hex)]; rfl
    rw [hnone]
    refine ⟨fun m h1 h2 => ?_, Nat.le_refl _, fun h => absurd h (Nat.lt_irrefl _)⟩
    cases hr : isRetOf c (evAt log m) with
    | false => rfl
    | true => exact absurd ⟨m, h2, by simp [p, h1, hr]⟩ hex

/-- the first and the last send of `c` in (a, b): none at all, or both exist -/
theorem sends_spec (log : Log) (c a b : Nat) :
    (firstSendIn log c a b = none ∧ lastSendIn log c a b = none) ∨
    ∃ p0 pl, firstSendIn log c a b = some p0 ∧ lastSendIn log c a b = some pl ∧ a < p0 ∧ p0 ≤ pl ∧ pl < b ∧
      sendAt log p0 = some c ∧ sendAt log pl = some c ∧ (∀ m, pl < m → m < b → sendAt log m ≠ some c) := by
  let p : Nat → Bool := fun m => decide (a < m) && (sendAt log m == some c)
  have hd1 : firstSendIn log c a b = (List.range b).find? p := rfl
  have hd2 : lastSendIn log c a b = (List.range b).reverse.find? p := rfl
  by_cases hex : ∃ i, i < b ∧ p i = true
  · right
    obtain ⟨p0, h0, hp0, hno0⟩ := exists_first p b hex
    obtain ⟨pl, hl, hpl, hnol⟩ := exists_last p b hex
    refine ⟨p0, pl, by rw [hd1, find_first p b p0 h0 hp0 hno0], by rw [hd2, find_last p b pl hl hpl hnol], ?_⟩
    have hle : p0 ≤ pl := by
      false_or_by_contra; rename_i hn
      have := hno0 pl (by omega)
      rw [hpl] at this; simp at this
    simp only [p, Bool.and_eq_true, decide_eq_true_eq, beq_iff_eq] at hp0 hpl
    refine ⟨hp0.1, hle, hl, hp0.2, hpl.2, fun m h1 h2 hs => ?_⟩
    have := hnol m h1 h2
    simp only [p, Bool.and_eq_false_iff, decide_eq_false_iff_not, beq_eq_false_iff_ne, ne_eq] at this
    rcases this with h | h
    · omega
    · exact h hs
  · left
    have hnone : ∀ m, m < b → p m = false := fun m hm => by
      cases hpm : p m with
      | false => rfl
      | true => exact absurd ⟨m, hm, hpm⟩ hex
    exact ⟨by rw [hd1, find_none p b hnone], by rw [hd2, find_rev_none p b hnone]⟩

theorem isOkRet_some {o : Option Ev} (h : isOkRet o = true) : ∃ x rs, o = some (.ret x (.ok rs)) := by
  cases o with
  | none => simp [isOkRet] at h
  | some e =>
    cases e <;> simp only [isOkRet] at h <;> try (simp at h)
    rename_i x r
    cases r <;> simp only at h <;> try (simp at h)
    exact ⟨_, _, rfl⟩

/-! ## the sends of a call, by number -/

theorem mem_sendsIn {log : Log} {c a b x : Nat} : x ∈ sendsIn log c a b ↔ x < b ∧ a < x ∧ sendAt log x = some c := by
  simp [sendsIn, List.mem_filter, List.mem_range]

/-- the m-th send of `c` in (a, b): where it is, and that exactly m sends of the call precede it -/
theorem sendsIn_nth (log : Log) (c a : Nat) : ∀ (b m p : Nat), (sendsIn log c a b)[m]? = some p →
    a < p ∧ p < b ∧ sendAt log p = some c ∧ sendsIn log c a p = (sendsIn log c a b).take m
  | 0, m, p, h => by simp [sendsIn] at h
  | b + 1, m, p, h => by
    have hs := sendsIn_succ log c a b
    rw [hs] at h
    rw [hs]
    rcases Nat.lt_or_ge m (sendsIn log c a b).length with hlt | hge
    · rw [List.getElem?_append_left hlt] at h
      obtain ⟨h1, h2, h3, h4⟩ := sendsIn_nth log c a b m p h
      refine ⟨h1, by omega, h3, ?_⟩
      rw [h4, List.take_append_of_le_length (by omega)]
    · rw [List.getElem?_append_right hge] at h
      split at h
      · next hc =>
        have hm : m = (sendsIn log c a b).length := by
          false_or_by_contra; rename_i hn
          have : m - (sendsIn log c a b).length = (m - (sendsIn log c a b).length - 1) + 1 := by omega
          rw [this] at h
          simp at h
        subst hm
        simp only [Nat.sub_self, List.getElem?_cons_zero, Option.some.injEq] at h
        subst h
        refine ⟨hc.1, by omega, hc.2, ?_⟩
        simp
      · simp at h

theorem getD_of_getElem? {l : List Nat} {m p : Nat} (h : l[m]? = some p) : l.getD m 0 = p := by
  simp [List.getD, h]

/-- two consecutive sends of a call: no send of `c` lies between them -/
theorem sendsIn_consecutive (log : Log) (c a b m p q : Nat) (hp : (sendsIn log c a b)[m]? = some p)
    (hq : (sendsIn log c a b)[m + 1]? = some q) :
    p < q ∧ ∀ x, p < x → x < q → sendAt log x ≠ some c := by
  obtain ⟨hap, _, _, h4⟩ := sendsIn_nth log c a b m p hp
  obtain ⟨_, _, _, k4⟩ := sendsIn_nth log c a b (m + 1) q hq
  have hmem : ∀ x, x ∈ sendsIn log c a q ↔ x ∈ sendsIn log c a p ∨ x = p := by
    intro x
    rw [k4, h4, List.take_add_one, hp]
    simp
  have hpq : p < q := by
    have := (hmem p).2 (Or.inr rfl)
    exact (mem_sendsIn.1 this).1
  refine ⟨hpq, fun x h1 h2 hs => ?_⟩
  have hx : x ∈ sendsIn log c a q := mem_sendsIn.2 ⟨h2, by omega, hs⟩
  rcases (hmem x).1 hx with h | h
  · have := (mem_sendsIn.1 h).1; omega
  · omega

end Frappy.Comm
