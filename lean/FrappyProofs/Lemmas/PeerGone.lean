import FrappyProofs.Lemmas.ReqLoop
/- helper lemmas: the request loop when `sendall` fails (the peer went away) -/
namespace Frappy.Wire
open Frappy.Spec.C07

variable {J σ : Type}

theorem sendAll_running {α : Type} (n : Nat) (frames : List α) :
    sendAll ⟨n, true⟩ frames = (frames.take n, ⟨n - frames.length, decide (frames.length ≤ n)⟩) := by
  unfold sendAll
  by_cases h : frames.length ≤ n
  · simp [h, List.take_of_length_le h]
  · have : n - frames.length = 0 := by omega
    simp [h, this]

theorem serveLinesF_stopped (T : Tables) (L : Lib J) (d : Disp σ J) (n : Nat) (st : σ) (ls : List Bytes) :
    serveLinesF T L d ⟨n, false⟩ st ls = ⟨[], st, ⟨n, false⟩, 0, none⟩ := by
  cases ls <;> simp [serveLinesF]

theorem serveF_stopped (T : Tables) (L : Lib J) (d : Disp σ J) (n : Nat) (buf : Bytes) (st : σ) (cs : List Bytes) :
    serveF T L d ⟨n, false⟩ buf st cs = ⟨[], st, ⟨n, false⟩, 0, none⟩ := by
  cases cs <;> simp [serveF]

/-- number of frames sent while the lines are processed with a socket that never fails -/
def frameCount (T : Tables) (L : Lib J) (d : Disp σ J) (st : σ) (ls : List Bytes) : Nat :=
  (serveLines T L d st ls).1.length

/-- the line loop with a socket on which `n` more `sendall` calls succeed: the peer gets the first `n`
frames of the run with a socket that never fails; the lines processed are a prefix of the lines, the
dispatcher ends in the state after exactly these; all lines are processed iff the frames suffice -/
theorem serveLinesF_spec (T : Tables) (L : Lib J) (d : Disp σ J) :
    ∀ (ls : List Bytes) (n : Nat) (st : σ),
      let r := serveLinesF T L d ⟨n, true⟩ st ls
      r.outs = (serveLines T L d st ls).1.take n
      ∧ r.done ≤ ls.length
      ∧ r.st = stateAfter T L d st (ls.take r.done)
      ∧ (frameCount T L d st ls ≤ n → r.done = ls.length ∧ r.sock = ⟨n - frameCount T L d st ls, true⟩)
      ∧ (n < frameCount T L d st ls → r.sock = ⟨0, false⟩)
      ∧ r.torn = (serveLines T L d st ls).1[n]?
  | [], n, st => by simp [serveLinesF, serveLines, stateAfter, frameCount]
  | l :: ls, n, st => by
    simp only [serveLinesF, Bool.not_true, Bool.false_eq_true, ↓reduceIte, sendAll_running, serveLines, frameCount,
      List.length_append]
    by_cases h : (handleLine T L d st l).1.length ≤ n
    · -- all frames of this line are delivered: go on with the rest
      obtain ⟨h1, h2, h3, h4, h5, h6⟩ := serveLinesF_spec T L d ls (n - (handleLine T L d st l).1.length) (handleLine T L d st l).2
      simp only [h, decide_true]
      simp only [frameCount] at h4 h5
      refine ⟨?_, by simp only [List.length_cons]; omega, ?_, ?_, ?_, ?_⟩
      · rw [List.take_append, h1, List.take_of_length_le h]
      · simp only [List.take_succ_cons, stateAfter]; exact h3
      · intro hle
        obtain ⟨e1, e2⟩ := h4 (by omega)
        refine ⟨by simp [e1], ?_⟩
        rw [e2]; congr 1; omega
      · intro hlt
        exact h5 (by omega)
      · rw [h6, List.getElem?_append_right h]
        simp [tornOf, List.getElem?_eq_none h]
    · -- the socket fails while this line is processed: the line is finished, nothing more is done
      have hz : n - (handleLine T L d st l).1.length = 0 := by omega
      simp only [h, decide_false, serveLinesF_stopped, hz]
      refine ⟨?_, by simp, ?_, ?_, ?_, ?_⟩
      · rw [List.take_append]; simp [hz]
      · simp [stateAfter]
      · intro hle; omega
      · intro _; trivial
      · rw [List.getElem?_append_left (by omega)]
        simp [tornOf]

theorem serveLinesF_append (T : Tables) (L : Lib J) (d : Disp σ J) :
    ∀ (l1 l2 : List Bytes) (s : SockSt) (st : σ),
      serveLinesF T L d s st (l1 ++ l2) =
        let r1 := serveLinesF T L d s st l1
        let r2 := serveLinesF T L d r1.sock r1.st l2
        ⟨r1.outs ++ r2.outs, r2.st, r2.sock, r1.done + r2.done, r1.torn.or r2.torn⟩
  | [], l2, s, st => by simp [serveLinesF]
  | l :: l1, l2, s, st => by
    obtain ⟨n, run⟩ := s
    cases run with
    | false => simp [serveLinesF, serveLinesF_stopped]
    | true =>
      simp only [List.cons_append, serveLinesF, Bool.not_true, Bool.false_eq_true, ↓reduceIte,
        serveLinesF_append T L d l1 l2]
      simp [List.append_assoc, Nat.add_assoc, Nat.add_comm, Option.or_assoc]

/-- the chunked loop with a failing socket is the line loop over all lines of all chunks -/
theorem serveF_eq_serveLinesF (T : Tables) (L : Lib J) (d : Disp σ J) :
    ∀ (chunks : List Bytes) (s : SockSt) (buf : Bytes) (st : σ),
      serveF T L d s buf st chunks = serveLinesF T L d s st (feedAll buf chunks).lines
  | [], s, buf, st => by simp [serveF, feedAll, serveLinesF]
  | c :: cs, s, buf, st => by
    obtain ⟨n, run⟩ := s
    cases run with
    | false => simp [serveF, serveLinesF_stopped]
    | true =>
      simp only [serveF, Bool.not_true, Bool.false_eq_true, ↓reduceIte, feedAll, serveLinesF_append,
        serveF_eq_serveLinesF T L d cs]

end Frappy.Wire
