import FrappyProofs.Lemmas.CommStep
import FrappyModel.Timed.CommGlue
/- helper lemmas for C16: cutting a command into lines (glue model `Timed/CommGlue.lean`) -/
namespace Frappy.Comm

/-- nothing is lost: the pieces, each with the separator appended, put together are the buffer with the separator appended -/
theorem splitAll_flatten (e : Bytes) : ∀ (fuel : Nat) (buf : Bytes),
    ((splitAll e fuel buf).map (· ++ e)).flatten = buf ++ e
  | 0, buf => by simp [splitAll]
  | fuel + 1, buf => by
    unfold splitAll
    split
    · next l r hs =>
      have h1 := splitFirst_eq e buf l r hs
      have h2 := splitAll_flatten e fuel r
      simp only [List.map_cons, List.flatten_cons, h2]
      rw [h1]; simp
    · simp

/-! ### a terminator of one byte -/

theorem splitFirst1_none (b : Nat) : ∀ (a : Bytes), splitFirst [b] a = none → b ∉ a
  | [], _ => by simp
  | x :: xs, h => by
    unfold splitFirst at h
    split at h
    · simp at h
    · next hp =>
      split at h
      · simp at h
      · next hn =>
        have := splitFirst1_none b xs hn
        have hx : b ≠ x := by
          intro hbx; apply hp; subst hbx; simp
        simp [this, hx]

theorem splitFirst1_some (b : Nat) : ∀ (a l r : Bytes), splitFirst [b] a = some (l, r) → b ∉ l
  | [], l, r, h => by simp [splitFirst] at h
  | x :: xs, l, r, h => by
    unfold splitFirst at h
    split at h
    · simp only [Option.some.injEq, Prod.mk.injEq] at h
      obtain ⟨rfl, _⟩ := h
      simp
    · next hp =>
      split at h
      · next l' r' hs =>
        simp only [Option.some.injEq, Prod.mk.injEq] at h
        obtain ⟨rfl, rfl⟩ := h
        have := splitFirst1_some b xs l' r' hs
        have hx : b ≠ x := by
          intro hbx; apply hp; subst hbx; simp
        simp [this, hx]
      · simp at h

theorem splitFirst1_line (b : Nat) : ∀ (l : Bytes), b ∉ l → splitFirst [b] (l ++ [b]) = some (l, [])
  | [], _ => by simp [splitFirst]
  | x :: xs, h => by
    have hx : b ≠ x := by intro hbx; apply h; simp [hbx]
    have hxs : b ∉ xs := by intro hm; apply h; simp [hm]
    have := splitFirst1_line b xs hxs
    simp only [List.cons_append]
    unfold splitFirst
    have hp : ([b] : List Nat).isPrefixOf (x :: (xs ++ [b])) = false := by simp [List.isPrefixOf, hx]
    simp [hp, this]

/-- the pieces of a cut at a one-byte separator do not contain it -/
theorem splitAll1_free (b : Nat) : ∀ (fuel : Nat) (buf : Bytes), buf.length ≤ fuel → ∀ p ∈ splitAll [b] fuel buf, b ∉ p
  | 0, buf, hl, p, hp => by
    have : buf = [] := List.eq_nil_of_length_eq_zero (by omega)
    simp only [splitAll, List.mem_singleton] at hp
    subst hp; simp [this]
  | fuel + 1, buf, hl, p, hp => by
    unfold splitAll at hp
    split at hp
    · next l r hs =>
      have h1 := splitFirst_eq [b] buf l r hs
      have hr : r.length ≤ fuel := by
        have : buf.length = l.length + 1 + r.length := by rw [h1]; simp; omega
        omega
      simp only [List.mem_cons] at hp
      rcases hp with rfl | hp
      · exact splitFirst1_some b buf p r hs
      · exact splitAll1_free b fuel r hr p hp
    · next hn =>
      simp only [List.mem_singleton] at hp
      subst hp
      exact splitFirst1_none b p hn

end Frappy.Comm
