import FrappyModel.Spec.C02
/-
C02: the datatype a client rebuilds from the description imports (and exports) exactly like the node's:
`import_value` / `export_value` look at neither the limits of a scaled type nor the `client` flag.
-/
set_option linter.unusedSectionVars false
set_option linter.unusedVariables false
namespace Frappy.Lemmas.C02
open FloatOps DType Frappy.Datatypes

variable {F : Type} [FloatOps F]

theorem clientScaled_shape {scale min max ar rr : F} {c : DType F} (h : clientScaled scale min max ar rr = some c) :
    ∃ a b, c = .scaled scale a b ar rr := by
  unfold clientScaled at h
  split at h
  · split at h
    · cases h; exact ⟨_, _, rfl⟩
    · cases h
  · cases h

mutual
theorem clientOfFields_keys : ∀ (ms cs : List (String × DType F)), clientOfFields ms = some cs → cs.map (·.1) = ms.map (·.1)
  | [], cs, h => by simp only [clientOfFields] at h; cases h; rfl
  | (k, t) :: ms, cs, h => by
    simp only [clientOfFields] at h
    split at h
    · rename_i c cs' hc hcs
      cases h
      simp [clientOfFields_keys ms cs' hcs]
    · cases h
end

mutual
theorem import_clientOf : ∀ (dt c : DType F) (j : JVal F), clientOf dt = some c → importValue c j = importValue dt j
  | .double .., c, j, h => by simp only [clientOf] at h; cases h; rfl
  | .int .., c, j, h => by simp only [clientOf] at h; cases h; rfl
  | .bool, c, j, h => by simp only [clientOf] at h; cases h; rfl
  | .enum _, c, j, h => by simp only [clientOf] at h; cases h; rfl
  | .string .., c, j, h => by simp only [clientOf] at h; cases h; rfl
  | .blob .., c, j, h => by simp only [clientOf] at h; cases h; rfl
  | .scaled scale min max ar rr, c, j, h => by
    simp only [clientOf] at h
    obtain ⟨a, b, rfl⟩ := clientScaled_shape h
    simp [importValue]
  | .array elem lo hi, c, j, h => by
    simp only [clientOf] at h
    split at h
    · rename_i e he
      cases h
      have : importValue e = importValue elem := funext (fun x => import_clientOf elem e x he)
      simp only [importValue, this]
    · cases h
  | .tuple elems, c, j, h => by
    simp only [clientOf] at h
    split at h
    · rename_i es hes
      cases h
      have hl : es.length = elems.length := clientOfList_length elems es hes
      simp only [importValue, hl]
      cases j <;> try rfl
      rename_i items
      simp only [import_clientOf_list elems es items hes]
    · cases h
  | .struct ms opt cl, c, j, h => by
    simp only [clientOf] at h
    split at h
    · rename_i cs hcs
      cases h
      have hk := clientOfFields_keys ms cs hcs
      have : importMember cs = importMember ms := funext (fun k => funext (fun x => import_clientOf_member ms cs k x hcs))
      simp only [importValue, hk, this]
    · cases h
theorem clientOfList_length : ∀ (ts cs : List (DType F)), clientOfList ts = some cs → cs.length = ts.length
  | [], cs, h => by simp only [clientOfList] at h; cases h; rfl
  | t :: ts, cs, h => by
    simp only [clientOfList] at h
    split at h
    · rename_i c cs' hc hcs
      cases h
      simp [clientOfList_length ts cs' hcs]
    · cases h
theorem import_clientOf_list : ∀ (ts cs : List (DType F)) (js : List (JVal F)), clientOfList ts = some cs →
    importTuple cs js = importTuple ts js
  | [], cs, js, h => by simp only [clientOfList] at h; cases h; rfl
  | t :: ts, cs, js, h => by
    simp only [clientOfList] at h
    split at h
    · rename_i c cs' hc hcs
      cases h
      cases js with
      | nil => simp [importTuple]
      | cons j js => simp only [importTuple, import_clientOf t c j hc, import_clientOf_list ts cs' js hcs]
    · cases h
theorem import_clientOf_member : ∀ (ms cs : List (String × DType F)) (k : String) (j : JVal F), clientOfFields ms = some cs →
    importMember cs k j = importMember ms k j
  | [], cs, k, j, h => by simp only [clientOfFields] at h; cases h; rfl
  | (k', t) :: ms, cs, k, j, h => by
    simp only [clientOfFields] at h
    split at h
    · rename_i c cs' hc hcs
      cases h
      simp only [importMember, import_clientOf t c j hc, import_clientOf_member ms cs' k j hcs]
    · cases h
end

end Frappy.Lemmas.C02

namespace Frappy.Lemmas.C02
open FloatOps DType Frappy.Datatypes

variable {F : Type} [FloatOps F]

mutual
theorem export_clientOf : ∀ (dt c : DType F) (v : PVal F), clientOf dt = some c → exportValue c v = exportValue dt v
  | .double .., c, v, h => by simp only [clientOf] at h; cases h; rfl
  | .int .., c, v, h => by simp only [clientOf] at h; cases h; rfl
  | .bool, c, v, h => by simp only [clientOf] at h; cases h; rfl
  | .enum _, c, v, h => by simp only [clientOf] at h; cases h; rfl
  | .string .., c, v, h => by simp only [clientOf] at h; cases h; rfl
  | .blob .., c, v, h => by simp only [clientOf] at h; cases h; rfl
  | .scaled scale min max ar rr, c, v, h => by
    simp only [clientOf] at h
    obtain ⟨a, b, rfl⟩ := clientScaled_shape h
    simp [exportValue]
  | .array elem lo hi, c, v, h => by
    simp only [clientOf] at h
    split at h
    · rename_i e he
      cases h
      have : exportValue e = exportValue elem := funext (fun x => export_clientOf elem e x he)
      simp only [exportValue, this]
    · cases h
  | .tuple elems, c, v, h => by
    simp only [clientOf] at h
    split at h
    · rename_i es hes
      cases h
      have hl : es.length = elems.length := clientOfList_length elems es hes
      have : exportTuple es = exportTuple elems := funext (fun x => export_clientOf_list elems es x hes)
      simp only [exportValue, hl, this]
    · cases h
  | .struct ms opt cl, c, v, h => by
    simp only [clientOf] at h
    split at h
    · rename_i cs hcs
      cases h
      have hk := clientOfFields_keys ms cs hcs
      have : exportMember cs = exportMember ms := funext (fun k => funext (fun x => export_clientOf_member ms cs k x hcs))
      simp only [exportValue, hk, this]
    · cases h
theorem export_clientOf_list : ∀ (ts cs : List (DType F)) (vs : List (PVal F)), clientOfList ts = some cs →
    exportTuple cs vs = exportTuple ts vs
  | [], cs, vs, h => by simp only [clientOfList] at h; cases h; rfl
  | t :: ts, cs, vs, h => by
    simp only [clientOfList] at h
    split at h
    · rename_i c cs' hc hcs
      cases h
      cases vs with
      | nil => simp [exportTuple]
      | cons v vs => simp only [exportTuple, export_clientOf t c v hc, export_clientOf_list ts cs' vs hcs]
    · cases h
theorem export_clientOf_member : ∀ (ms cs : List (String × DType F)) (k : String) (v : PVal F), clientOfFields ms = some cs →
    exportMember cs k v = exportMember ms k v
  | [], cs, k, v, h => by simp only [clientOfFields] at h; cases h; rfl
  | (k', t) :: ms, cs, k, v, h => by
    simp only [clientOfFields] at h
    split at h
    · rename_i c cs' hc hcs
      cases h
      simp only [exportMember, export_clientOf t c v hc, export_clientOf_member ms cs' k v hcs]
    · cases h
end

end Frappy.Lemmas.C02
