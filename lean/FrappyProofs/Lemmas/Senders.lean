import FrappyModel.Wire.Senders
/- invariant of the concurrent senders -/
namespace Frappy.Wire

/-- `P` holds for every frame still queued, being sent, or sent; only the lock holder is inside
`sendall`, and only while no send has failed; the output is the completed frames followed by the written
part of the holder's frame, or -- after a send has failed -- by the written part of the torn frame, which
lacks at least one byte of a frame satisfying `P` -/
def SendInv (P : Bytes → Prop) (s : SockState) : Prop :=
  (∀ i, ∀ f ∈ s.queue i, P f) ∧ (∀ f ∈ s.done, P f) ∧
  match s.lock with
  | none => (∀ j, s.cur j = none) ∧ s.out = s.done.flatten ++ s.tail ∧ (s.running = true → s.tail = [])
      ∧ (s.running = false → ∃ r, r ≠ [] ∧ P (s.tail ++ r))
  | some i => (∀ j, j ≠ i → s.cur j = none) ∧ s.running = true ∧ s.tail = [] ∧
      ∃ w r, s.cur i = some (w, r) ∧ P (w ++ r) ∧ s.out = s.done.flatten ++ w

theorem upd_same {α : Type} (f : Nat → α) (i : Nat) (a : α) : upd f i a i = a := by simp [upd]
theorem upd_other {α : Type} (f : Nat → α) {i j : Nat} (a : α) (h : j ≠ i) : upd f i a j = f j := by simp [upd, h]

theorem sendInv_init (P : Bytes → Prop) (queue : Nat → List Bytes) (h : ∀ i, ∀ f ∈ queue i, P f) :
    SendInv P (sockInit queue) := by
  refine ⟨h, by simp [sockInit], ?_⟩
  simp [sockInit]

theorem sendInv_step (P : Bytes → Prop) {s t : SockState} (hinv : SendInv P s) (hstep : SendStep s t) :
    SendInv P t := by
  obtain ⟨hq, hd, hl⟩ := hinv
  -- whoever is inside `sendall` holds the lock
  have holder : ∀ i w r, s.cur i = some (w, r) → ∃ w' r', s.lock = some i ∧ (∀ j, j ≠ i → s.cur j = none) ∧ s.running = true
      ∧ s.tail = [] ∧ s.cur i = some (w', r') ∧ P (w' ++ r') ∧ s.out = s.done.flatten ++ w' := by
    intro i w r hcur
    cases hlock : s.lock with
    | none =>
      rw [hlock] at hl
      rw [hl.1 i] at hcur; cases hcur
    | some h =>
      rw [hlock] at hl
      obtain ⟨hothers, hrun, htail, w', r', hc, hp, hout⟩ := hl
      have hih : i = h := by
        false_or_by_contra
        rename_i hne
        rw [hothers i hne] at hcur; cases hcur
      subst hih
      exact ⟨w', r', rfl, hothers, hrun, htail, hc, hp, hout⟩
  cases hstep with
  | acquire i f q hlock hrun hqueue =>
    rw [hlock] at hl
    obtain ⟨hcur, hout, htail, _⟩ := hl
    refine ⟨?_, hd, ?_⟩
    · intro j g hg
      simp only at hg
      by_cases hj : j = i
      · subst hj
        rw [upd_same] at hg
        exact hq j g (by rw [hqueue]; exact List.mem_cons_of_mem _ hg)
      · rw [upd_other _ _ hj] at hg; exact hq j g hg
    · simp only
      refine ⟨fun j hj => by rw [upd_other _ _ hj]; exact hcur j, hrun, htail hrun, [], f, upd_same _ _ _, ?_,
        by simpa [htail hrun] using hout⟩
      exact hq i f (by rw [hqueue]; exact List.mem_cons_self ..)
  | write i w r k hcur =>
    obtain ⟨w', r', hlock, hothers, hrun, htail, hc, hp, hout⟩ := holder i w r hcur
    rw [hc] at hcur
    cases hcur
    refine ⟨hq, hd, ?_⟩
    simp only [hlock]
    refine ⟨fun j hj => by rw [upd_other _ _ hj]; exact hothers j hj, hrun, htail, _, _, upd_same _ _ _, ?_, ?_⟩
    · rw [List.append_assoc, List.take_append_drop]; exact hp
    · rw [hout, List.append_assoc]
  | release i w hcur =>
    obtain ⟨w', r', hlock, hothers, hrun, htail, hc, hp, hout⟩ := holder i w [] hcur
    rw [hc] at hcur
    cases hcur
    refine ⟨hq, ?_, ?_⟩
    · intro f hf
      rcases List.mem_append.1 hf with hf | hf
      · exact hd f hf
      · simp only [List.mem_singleton] at hf
        subst hf
        simpa using hp
    · simp only
      refine ⟨fun j => ?_, by simp [hout, htail], fun _ => htail, fun h => by rw [hrun] at h; cases h⟩
      by_cases hj : j = i
      · subst hj; exact upd_same _ _ _
      · rw [upd_other _ _ hj]; exact hothers j hj
  | fail i w r hcur hr =>
    obtain ⟨w', r', hlock, hothers, hrun, htail, hc, hp, hout⟩ := holder i w r hcur
    rw [hc] at hcur
    cases hcur
    refine ⟨hq, hd, ?_⟩
    simp only
    refine ⟨fun j => ?_, hout, by simp, fun _ => ⟨r, hr, hp⟩⟩
    by_cases hj : j = i
    · subst hj; exact upd_same _ _ _
    · rw [upd_other _ _ hj]; exact hothers j hj
  | skip i f q hlock hrun hqueue =>
    rw [hlock] at hl
    refine ⟨?_, hd, ?_⟩
    · intro j g hg
      simp only at hg
      by_cases hj : j = i
      · subst hj
        rw [upd_same] at hg
        exact hq j g (by rw [hqueue]; exact List.mem_cons_of_mem _ hg)
      · rw [upd_other _ _ hj] at hg; exact hq j g hg
    · simp only [hlock]
      exact hl

theorem sendInv_reach (P : Bytes → Prop) (queue : Nat → List Bytes) (h : ∀ i, ∀ f ∈ queue i, P f)
    {s : SockState} (hr : SendReach (sockInit queue) s) : SendInv P s := by
  induction hr with
  | start => exact sendInv_init P queue h
  | step s t _ hstep ih => exact sendInv_step P ih hstep

/-- per sender, nothing is duplicated or reordered, and nothing is lost unless a send has failed: what it has sent,
what it is sending, what was not delivered after a send had failed and what it will send are, in this order, the
frames it set out to send; and `doneBy` is `done` with sender numbers -/
def OrderInv (queue0 : Nat → List Bytes) (s : SockState) : Prop :=
  s.done = s.doneBy.map Prod.snd ∧ (∀ i, sentBy s i ++ inFlight s i ++ s.lost i ++ s.queue i = queue0 i)
  ∧ (s.running = true → ∀ i, s.lost i = [])

theorem orderInv_init (queue : Nat → List Bytes) : OrderInv queue (sockInit queue) := by
  refine ⟨rfl, fun i => ?_, fun _ _ => rfl⟩
  simp [sockInit, sentBy, inFlight]

theorem orderInv_step (queue0 : Nat → List Bytes) {s t : SockState} (hinv : OrderInv queue0 s) (hstep : SendStep s t)
    (hcur : ∀ i, s.lock = none → s.cur i = none) (hrun : ∀ i w r, s.cur i = some (w, r) → s.running = true) :
    OrderInv queue0 t := by
  obtain ⟨hd, ho, hlost⟩ := hinv
  cases hstep with
  | acquire i f q hlock hr hqueue =>
    refine ⟨hd, fun j => ?_, hlost⟩
    have := ho j
    by_cases hj : j = i
    · subst hj
      have hc := hcur j hlock
      simp only [sentBy, inFlight, hc, hqueue, upd_same, hlost hr j] at this ⊢
      simpa using this
    · simp only [sentBy, inFlight, upd_other _ _ hj] at this ⊢
      exact this
  | write i w r k hc =>
    refine ⟨hd, fun j => ?_, hlost⟩
    have := ho j
    by_cases hj : j = i
    · subst hj
      simp only [sentBy, inFlight, hc, upd_same] at this ⊢
      rw [List.append_assoc w, List.take_append_drop]
      exact this
    · simp only [sentBy, inFlight, upd_other _ _ hj] at this ⊢
      exact this
  | release i w hc =>
    refine ⟨by simp [hd], fun j => ?_, hlost⟩
    have := ho j
    by_cases hj : j = i
    · subst hj
      simp only [sentBy, inFlight, hc, upd_same, List.append_nil] at this ⊢
      simpa [List.filter_append] using this
    · have hne : (i == j) = false := by simpa using fun h => hj h.symm
      simp only [sentBy, inFlight, upd_other _ _ hj] at this ⊢
      simpa [List.filter_append, hne] using this
  | fail i w r hc hr =>
    refine ⟨hd, fun j => ?_, fun h => by cases h⟩
    have := ho j
    by_cases hj : j = i
    · subst hj
      simp only [sentBy, inFlight, hc, upd_same, hlost (hrun j w r hc) j] at this ⊢
      simpa using this
    · simp only [sentBy, inFlight, upd_other _ _ hj] at this ⊢
      exact this
  | skip i f q hlock hr hqueue =>
    refine ⟨hd, fun j => ?_, fun h => by rw [hr] at h; cases h⟩
    have := ho j
    by_cases hj : j = i
    · subst hj
      simp only [sentBy, inFlight, hqueue, upd_same] at this ⊢
      simpa using this
    · simp only [sentBy, inFlight, upd_other _ _ hj] at this ⊢
      exact this

theorem orderInv_reach (P : Bytes → Prop) (queue : Nat → List Bytes) (h : ∀ i, ∀ f ∈ queue i, P f)
    {s : SockState} (hr : SendReach (sockInit queue) s) : OrderInv queue s := by
  induction hr with
  | start => exact orderInv_init queue
  | step s t hs hstep ih =>
    have hinv := (sendInv_reach P queue h hs).2.2
    refine orderInv_step queue ih hstep (fun i hl => ?_) (fun i w r hc => ?_)
    · rw [hl] at hinv
      exact hinv.1 i
    · cases hl : s.lock with
      | none =>
        rw [hl] at hinv
        rw [hinv.1 i] at hc; cases hc
      | some j =>
        rw [hl] at hinv
        exact hinv.2.1

/-- a proper part of `body ++ [a]` (at least one element is missing at the end) does not contain `a` if `body` does not -/
theorem not_mem_of_proper_prefix {a : Nat} {t r body : Bytes} (h : t ++ r = body ++ [a]) (hr : r ≠ []) (hb : a ∉ body) :
    a ∉ t := by
  rcases List.append_eq_append_iff.1 h with ⟨a', hb', _⟩ | ⟨c', ht, hc⟩
  · intro hm
    exact hb (hb' ▸ List.mem_append_left _ hm)
  · cases c' with
    | nil => simp at ht; subst ht; exact hb
    | cons x xs =>
      simp only [List.cons_append, List.cons.injEq] at hc
      have := hc.2
      simp at this
      exact absurd this.2 hr

end Frappy.Wire
