import FrappyProofs.Lemmas.DatatypesDenotesC
/-
C01: `import_value` produces the Python value the JSON value stands for (`WireDenotes`).
-/
set_option linter.unusedSectionVars false
set_option linter.unusedVariables false
namespace Frappy.Lemmas.C01
open FloatOps DType Frappy.Datatypes Frappy.Spec.C01
open PVal (toFloat? seqItems? prevItems prevFields dictGet dictSet ofJVal)

variable {F : Type} [FloatOps F] [LawfulFloatOps F]

/-! ### the member of a JSON object under a key -/

def jgivenStep (k : String) (acc : Option (JVal F)) (kv : String × JVal F) : Option (JVal F) :=
  if kv.1 = k then some kv.2 else acc

theorem foldl_jgivenStep (k : String) : ∀ (fields : List (String × JVal F)) (init : Option (JVal F)),
    fields.foldl (jgivenStep k) init =
      match fields.foldl (jgivenStep k) none with
      | some v => some v
      | none => init := by
  intro fields
  induction fields with
  | nil => intro init; simp
  | cons hd tl ih =>
    intro init
    simp only [List.foldl_cons]
    rw [ih (jgivenStep k init hd), ih (jgivenStep k none hd)]
    cases h : tl.foldl (jgivenStep k) none with
    | some v => simp
    | none =>
      simp only
      unfold jgivenStep
      split <;> simp

theorem jgiven_cons (hd : String × JVal F) (tl : List (String × JVal F)) (k : String) :
    jgiven (hd :: tl) k =
      match jgiven tl k with
      | some v => some v
      | none => if hd.1 = k then some hd.2 else none := by
  show (hd :: tl).foldl (jgivenStep k) none = _
  rw [List.foldl_cons, foldl_jgivenStep]
  rfl

/-! ### loops -/

theorem mapImport_wireAll {f : JVal F → Res F} {P : JVal F → PVal F → Prop}
    (hf : ∀ j r, f j = .ok r → P j r) :
    ∀ (js : List (JVal F)) (rs : List (PVal F)), mapImport f js = .ok rs → WireAll P js rs := by
  intro js
  induction js with
  | nil => intro rs h; simp [mapImport] at h; subst h; simp [WireAll]
  | cons j js ih =>
    intro rs h
    simp only [mapImport] at h
    split at h
    · cases h
    · rename_i r hr
      split at h
      · cases h
      · rename_i rs' hrs
        injection h with h
        subst h
        simp only [WireAll]
        exact ⟨hf j r hr, ih rs' hrs⟩

theorem foldImport_spec {f : String → JVal F → Option (Res F)} {M : String → JVal F → PVal F → Prop}
    (hf : ∀ k j r, f k j = some (.ok r) → M k j r) :
    ∀ (fields : List (String × JVal F)) (acc res : List (String × PVal F)), foldImport f fields acc = .ok res →
      ((acc.map (·.1)).Nodup → (res.map (·.1)).Nodup) ∧
      (∀ k, (k ∈ acc.map (·.1) ∨ k ∈ fields.map (·.1)) → k ∈ res.map (·.1)) ∧
      ((res.map (·.1)).Nodup → ∀ kv ∈ res, match jgiven fields kv.1 with
        | some j => M kv.1 j kv.2
        | none => dictGet acc kv.1 = some kv.2) := by
  intro fields
  induction fields with
  | nil =>
    intro acc res h
    simp only [foldImport] at h
    injection h with h
    subst h
    refine ⟨fun h => h, ?_, ?_⟩
    · intro k hk; rcases hk with hk | hk
      · exact hk
      · simp at hk
    · intro hn kv hkv
      simp only [jgiven, List.foldl_nil]
      exact dictGet_of_mem hn hkv
  | cons hd tl ih =>
    intro acc res h
    obtain ⟨k0, j0⟩ := hd
    simp only [foldImport] at h
    split at h
    · cases h
    · cases h
    · rename_i r hr
      obtain ⟨a, b, c⟩ := ih _ res h
      refine ⟨fun hn => a (nodup_dictSet hn), ?_, ?_⟩
      · intro k hk
        apply b
        rcases hk with hk | hk
        · exact Or.inl (mem_keys_dictSet.2 (Or.inr hk))
        · simp only [List.map_cons, List.mem_cons] at hk
          rcases hk with hk | hk
          · exact Or.inl (mem_keys_dictSet.2 (Or.inl hk))
          · exact Or.inr hk
      · intro hn kv hkv
        have := c hn kv hkv
        rw [jgiven_cons]
        cases hg : jgiven tl kv.1 with
        | some j => rw [hg] at this; exact this
        | none =>
          rw [hg] at this
          simp only at this ⊢
          by_cases hk : k0 = kv.1
          · simp only [hk, ↓reduceIte]
            rw [← hk, dictGet_dictSet_same] at this
            injection this with this
            rw [← this, ← hk]
            exact hf _ _ _ hr
          · simp only [hk, ↓reduceIte]
            rw [dictGet_dictSet_ne _ _ hk] at this
            exact this

/-! ### leaves -/

theorem ofJVal_str {j : JVal F} {s : String} (h : ofJVal j = .str s) : j = .str s := by
  cases j <;> simp [ofJVal] at h
  rw [h]

mutual
theorem importValue_denotes : ∀ (dt : DType F) (j : JVal F) (v : PVal F),
    importValue dt j = .ok v → WireDenotes dt j v
  | .double min max ar rr, j, v, h => by
    simp only [importValue, call, conv] at h
    obtain ⟨x, hx, hr⟩ := map_ok h
    obtain ⟨x0, hx0, hn0, hxe⟩ := doubleCall_ok hx
    rw [hr]; simp only [WireDenotes]; rw [hx0]; simp only
    exact ⟨hn0, by rw [hxe]; exact same_refl _⟩
  | .int min max, j, v, h => by
    simp only [importValue, call, conv] at h
    obtain ⟨x, hx, hr⟩ := map_ok h
    rw [hr]; simp only [WireDenotes]; exact intCall_denotes hx
  | .bool, j, v, h => by
    simp only [importValue, call, conv] at h
    obtain ⟨x, hx, hr⟩ := map_ok h
    rw [hr]; simp only [WireDenotes]; exact boolCall_denotes hx
  | .enum ms, j, v, h => by
    simp only [importValue, call, conv] at h
    obtain ⟨n, k, hr, _, _⟩ := enumCall_ok h
    subst hr
    simp only [WireDenotes]; exact enumCall_denotes h
  | .string minc maxc utf8, j, v, h => by
    simp only [importValue, call, conv] at h
    obtain ⟨x, hx, hr⟩ := map_ok h
    have := ofJVal_str (stringCall_sound hx).2
    rw [hr, this]; simp only [WireDenotes]
  | .scaled scale _ _ _ _, j, v, h => by
    simp only [importValue] at h
    obtain ⟨x, hx, hr⟩ := map_ok h
    unfold scaledImport at hx
    split at hx
    · cases hx
    · rename_i k hk
      split at hx
      · cases hx
      · rename_i g hg
        injection hx with hx
        rw [hr]; simp only [WireDenotes]
        rw [intCall_denotes hk]; simp only
        rw [hg]; simp only
        rw [← hx]; exact same_refl _
  | .blob _ _, j, v, h => by
    simp only [importValue] at h
    obtain ⟨x, hx, hr⟩ := map_ok h
    cases j <;> simp only [blobImport] at hx
    all_goals first
      | cases hx
      | skip
    case str s =>
      split at hx
      · rename_i b hb
        injection hx with hx
        rw [hr, ← hx]; simp only [WireDenotes]; exact hb
      · cases hx
  | .array elem lo hi, j, v, h => by
    simp only [importValue] at h
    split at h
    · rename_i items
      split at h
      · cases h
      · split at h
        · cases h
        · obtain ⟨rs, hrs, hr⟩ := map_ok h
          rw [hr]; simp only [WireDenotes]
          exact mapImport_wireAll (P := fun a b => WireDenotes elem a b)
            (fun j r h => importValue_denotes elem j r h) items rs hrs
    · cases h
  | .tuple elems, j, v, h => by
    simp only [importValue] at h
    split at h
    · rename_i items
      split at h
      · cases h
      · rename_i hlen
        obtain ⟨rs, hrs, hr⟩ := map_ok h
        rw [hr]; simp only [WireDenotes]
        exact importTuple_denotes elems items rs (by simpa using hlen) hrs
    · cases h
  | .struct ms opt cl, j, v, h => by
    simp only [importValue] at h
    split at h
    · rename_i fields
      split at h
      · obtain ⟨acc, hacc, hr⟩ := map_ok h
        obtain ⟨a, b, c⟩ := foldImport_spec (M := fun k a b => WireMember ms k a b)
          (fun k j r hkv => importMember_denotes ms k j r hkv) fields [] acc hacc
        have hn := a (by simp)
        rw [hr]; simp only [WireDenotes]
        unfold WireStruct
        refine ⟨?_, ?_⟩
        · intro kv hkv
          have := c hn kv hkv
          cases hg : jgiven fields kv.1 with
          | some j => rw [hg] at this; exact this
          | none => rw [hg] at this; simp [dictGet] at this
        · intro kv hkv
          exact b kv.1 (Or.inr (List.mem_map_of_mem hkv))
      · cases h
    · cases h
theorem importTuple_denotes : ∀ (ts : List (DType F)) (js : List (JVal F)) (rs : List (PVal F)),
    js.length = ts.length → importTuple ts js = .ok rs → WireZip ts js rs
  | [], js, rs, hlen, h => by
    simp only [importTuple] at h
    injection h with h
    subst h
    have : js = [] := by simpa using hlen
    subst this
    simp only [WireZip]
  | t :: ts, [], rs, hlen, h => by simp at hlen
  | t :: ts, j :: js, rs, hlen, h => by
    simp only [importTuple] at h
    split at h
    · cases h
    · rename_i r hr
      split at h
      · cases h
      · rename_i rs' hrs
        injection h with h
        subst h
        simp only [WireZip]
        exact ⟨importValue_denotes t j r hr, importTuple_denotes ts js rs' (by simpa using hlen) hrs⟩
theorem importMember_denotes : ∀ (ms : List (String × DType F)) (k : String) (j : JVal F) (r : PVal F),
    importMember ms k j = some (.ok r) → WireMember ms k j r
  | [], k, j, r, h => by simp [importMember] at h
  | (k0, t) :: rest, k, j, r, h => by
    simp only [importMember] at h
    simp only [WireMember]
    split at h
    · rename_i hk
      rw [if_pos hk]
      injection h with h
      exact importValue_denotes t j r h
    · rename_i hk
      rw [if_neg hk]
      exact importMember_denotes rest k j r h
end

end Frappy.Lemmas.C01
