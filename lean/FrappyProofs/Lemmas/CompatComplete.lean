import FrappyProofs.Lemmas.Compat
/-
C03: completeness of `compatible` on the nested pairings of the statement.
-/
set_option linter.unusedSectionVars false
set_option linter.unusedVariables false
namespace Frappy.Lemmas.C03
open FloatOps DType Frappy.Datatypes Frappy.Spec.C01 Frappy.Spec.C03 Frappy.Lemmas.C01
open PVal (toFloat? seqItems? prevItems prevFields dictGet dictSet)

variable {F : Type} [FloatOps F] [LawfulFloatOps F] [CompatLaws F]

theorem limitsValid_of {b : DType F} {lo hi : PVal F} (h1 : ∃ r, validate b lo none = .ok r)
    (h2 : ∃ r, validate b hi none = .ok r) : limitsValid b lo hi = .ok () := by
  obtain ⟨r1, h1⟩ := h1
  obtain ⟨r2, h2⟩ := h2
  unfold limitsValid check
  rw [h1, h2]

/-- a number within the limits of a double is accepted -/
theorem doubleValidate_within {bmin bmax ar rr : F} (hb : (DType.double bmin bmax ar rr).WF) {v : PVal F} {x : F}
    (hv : toFloat? v = some x) (fx : isFinite x = true) (h1 : le bmin x = true) (h2 : le x bmax = true) :
    ∃ r, doubleValidate bmin bmax ar rr v = .ok r := by
  simp only [DType.WF] at hb
  obtain ⟨fmin, fmax, _, _, _, _, _, far, nar, frr, nrr⟩ := hb
  obtain ⟨tn, tp⟩ := CompatLaws.tol_nonneg rr ar x frr nrr far nar fx
  have tp' : isNonneg (tolerance rr ar x) = true := tp
  exact doubleValidate_of_band hv fx
    (LawfulFloatOps.sub_le bmin x _ fmin h1 tp')
    (LawfulFloatOps.le_add x bmax _ fmax h2 tp')

/-- a number within the (grid-aligned) limits of a scaled type is accepted -/
theorem scaledValidate_within {scale bmin bmax ar rr : F} (hb : (DType.scaled scale bmin bmax ar rr).WF)
    (hal : snap scale bmin = some bmin ∧ snap scale bmax = some bmax) {v : PVal F} {x : F}
    (hv : toFloat? v = some x) (h1 : le bmin x = true) (h2 : le x bmax = true) :
    ∃ r, scaledValidate scale bmin bmax v = .ok r := by
  have hb' := hb
  simp only [DType.WF] at hb
  obtain ⟨fs, ps, fmin, fmax, _, cmin, cmax, _⟩ := hb
  have ca := scaledCall_aligned fmin cmin hal.1
  have cb := scaledCall_aligned fmax cmax hal.2
  obtain ⟨c, hc, l1, l2⟩ := scaledCall_between fs ps (vlo := .float bmin) (vhi := .float bmax) (by simp [toFloat?, cmin])
    (by simp [toFloat?, cmax]) hv ca cb h1 h2
  refine ⟨c, ?_⟩
  unfold scaledValidate
  rw [hc, ca, cb]
  simp only [l1, l2, Bool.and_self, if_true]

/-- a number within the limits of a float-valued type is accepted -/
theorem floatKind_within {b : DType F} (hb : b.WF) (hal : GridAligned b) {v : PVal F} {x : F}
    (hv : toFloat? v = some x) (fx : isFinite x = true) :
    (match b with
     | .double bmin bmax _ _ => le bmin x = true ∧ le x bmax = true
     | .scaled _ bmin bmax _ _ => le bmin x = true ∧ le x bmax = true
     | _ => False) → ∃ r, validate b v none = .ok r := by
  intro h
  cases b with
  | double bmin bmax ar rr =>
    obtain ⟨r, hr⟩ := doubleValidate_within hb hv fx h.1 h.2
    exact ⟨.float r, by simp only [validate, conv, hr]; rfl⟩
  | scaled s bmin bmax ar rr =>
    simp only [GridAligned] at hal
    obtain ⟨r, hr⟩ := scaledValidate_within hb hal hv h.1 h.2
    exact ⟨.float r, by simp only [validate, conv, hr]; rfl⟩
  | _ => exact h.elim

theorem rangeInFrom_all {vals : List Int} : ∀ (n : Nat) (lo : Int), rangeInFrom vals lo n = true →
    ∀ i, lo ≤ i → i < lo + n → i ∈ vals := by
  intro n
  induction n with
  | zero => intro lo _ i h1 h2; omega
  | succ n ih =>
    intro lo h i h1 h2
    simp only [rangeInFrom, Bool.and_eq_true, List.contains_eq_mem, decide_eq_true_eq] at h
    by_cases e : i = lo
    · subst e; exact h.1
    · exact ih (lo + 1) h.2 i (by omega) (by omega)

theorem enumByValue_of_mem {ms : List (String × Int)} {i : Int} (h : i ∈ ms.map (·.2)) :
    ∃ m, enumByValue ms i = some m := by
  unfold enumByValue
  obtain ⟨m, hm, he⟩ := List.mem_map.1 h
  have : (ms.find? (fun m => m.2 == i)).isSome = true := by
    rw [List.find?_isSome]
    exact ⟨m, hm, by simp [he]⟩
  exact Option.isSome_iff_exists.1 this

theorem float_self_toFloat {x : F} (hc : addZero x = x) : toFloat? (PVal.float x) = some x := by
  simp [toFloat?, hc]

mutual
theorem compat_complete : ∀ (a b : DType F), a.WF → b.WF → GridAligned a → GridAligned b → Nested a b →
    compatible a b = .ok ()
  | .double amin amax _ _, b, ha, hb, _, hal, hn => by
    simp only [DType.WF] at ha
    obtain ⟨f1, f2, l12, _, _, c1, c2, _⟩ := ha
    cases b with
    | double bmin bmax ar rr =>
      simp only [Nested] at hn
      simp only [compatible]
      exact limitsValid_of
        (floatKind_within hb hal (float_self_toFloat c1) f1 ⟨hn.1, LawfulFloatOps.le_trans _ _ _ l12 hn.2⟩)
        (floatKind_within hb hal (float_self_toFloat c2) f2 ⟨LawfulFloatOps.le_trans _ _ _ hn.1 l12, hn.2⟩)
    | _ => simp [Nested] at hn
  | .scaled s amin amax _ _, b, ha, hb, _, hal, hn => by
    simp only [DType.WF] at ha
    obtain ⟨_, _, f1, f2, l12, c1, c2, _⟩ := ha
    cases b with
    | double bmin bmax ar rr =>
      simp only [Nested] at hn
      simp only [compatible]
      exact limitsValid_of
        (floatKind_within hb hal (float_self_toFloat c1) f1 ⟨hn.1, LawfulFloatOps.le_trans _ _ _ l12 hn.2⟩)
        (floatKind_within hb hal (float_self_toFloat c2) f2 ⟨LawfulFloatOps.le_trans _ _ _ hn.1 l12, hn.2⟩)
    | scaled s' bmin bmax ar rr =>
      simp only [Nested] at hn
      simp only [compatible]
      exact limitsValid_of
        (floatKind_within hb hal (float_self_toFloat c1) f1 ⟨hn.2.1, LawfulFloatOps.le_trans _ _ _ l12 hn.2.2⟩)
        (floatKind_within hb hal (float_self_toFloat c2) f2 ⟨LawfulFloatOps.le_trans _ _ _ hn.2.1 l12, hn.2.2⟩)
    | _ => simp [Nested] at hn
  | .int amin amax, b, ha, hb, _, hal, hn => by
    simp only [DType.WF] at ha
    obtain ⟨l12, w1, w2⟩ := ha
    have within : ∀ bmin bmax : F, IntWithin amin amax bmin bmax →
        ∃ x y : F, ofInt amin = some x ∧ ofInt amax = some y ∧ le bmin x = true ∧ le y bmax = true ∧ le x y = true := by
      intro bmin bmax h
      unfold IntWithin at h
      split at h
      · rename_i x y hx hy
        exact ⟨x, y, hx, hy, h.1, h.2, LawfulFloatOps.ofInt_mono _ _ _ _ l12 hx hy⟩
      · exact h.elim
    cases b with
    | int bmin bmax =>
      simp only [Nested] at hn
      simp only [compatible]
      obtain ⟨x, hx⟩ := LawfulFloatOps.ofInt_isSome (F := F) amin (by simpa [DType.intLimit] using w1) (by simp [DType.intLimit] at w2; omega)
      obtain ⟨y, hy⟩ := LawfulFloatOps.ofInt_isSome (F := F) amax (by simp [DType.intLimit] at w1; omega) (by simpa [DType.intLimit] using w2)
      apply limitsValid_of
      · refine ⟨.int amin, ?_⟩
        simp only [validate, conv, intValidate_int, hx]
        have : bmin ≤ amin ∧ amin ≤ bmax := ⟨hn.1, by omega⟩
        simp only [this, and_self, if_true]; rfl
      · refine ⟨.int amax, ?_⟩
        simp only [validate, conv, intValidate_int, hy]
        have : bmin ≤ amax ∧ amax ≤ bmax := ⟨by omega, hn.2⟩
        simp only [this, and_self, if_true]; rfl
    | double bmin bmax ar rr =>
      simp only [Nested] at hn
      simp only [compatible]
      obtain ⟨x, y, hx, hy, h1, h2, hxy⟩ := within bmin bmax hn
      exact limitsValid_of
        (floatKind_within hb hal (v := .int amin) (by simpa [toFloat?] using hx) (CompatLaws.ofInt_finite _ _ w1 (by omega) hx)
          ⟨h1, LawfulFloatOps.le_trans _ _ _ hxy h2⟩)
        (floatKind_within hb hal (v := .int amax) (by simpa [toFloat?] using hy) (CompatLaws.ofInt_finite _ _ (by omega) w2 hy)
          ⟨LawfulFloatOps.le_trans _ _ _ h1 hxy, h2⟩)
    | scaled s bmin bmax ar rr =>
      simp only [Nested] at hn
      simp only [compatible]
      obtain ⟨x, y, hx, hy, h1, h2, hxy⟩ := within bmin bmax hn
      exact limitsValid_of
        (floatKind_within hb hal (v := .int amin) (by simpa [toFloat?] using hx) (CompatLaws.ofInt_finite _ _ w1 (by omega) hx)
          ⟨h1, LawfulFloatOps.le_trans _ _ _ hxy h2⟩)
        (floatKind_within hb hal (v := .int amax) (by simpa [toFloat?] using hy) (CompatLaws.ofInt_finite _ _ (by omega) w2 hy)
          ⟨LawfulFloatOps.le_trans _ _ _ h1 hxy, h2⟩)
    | enum ms =>
      simp only [Nested] at hn
      simp only [compatible]
      apply allFrom_of_all
      intro i h1 h2
      have hi := rangeInFrom_all _ _ hn i h1 (by omega)
      obtain ⟨m, hm⟩ := enumByValue_of_mem hi
      simp only [call, conv, enumCall, hm, check]
    | bool =>
      simp only [Nested] at hn
      simp only [compatible]
      apply allFrom_of_all
      intro i h1 h2
      have : i = 0 ∨ i = 1 := by omega
      rcases this with e | e <;> subst e <;> simp [call, conv, boolCall, check, Except.map]
    | _ => simp [Nested] at hn
  | .bool, b, _, _, _, _, hn => by
    cases b with
    | bool =>
      simp only [compatible]
      exact limitsValid_of ⟨.bool false, by simp [validate, conv, boolCall, Except.map]⟩
        ⟨.bool true, by simp [validate, conv, boolCall, Except.map]⟩
    | _ => simp [Nested] at hn
  | .enum ms, b, _, _, _, _, hn => by
    cases b with
    | enum ms' =>
      simp only [Nested] at hn
      simp only [compatible]
      apply allMembers_of_all
      intro m hm
      have : m.2 ∈ ms'.map (·.2) := List.mem_map.2 ⟨m, hn m hm, rfl⟩
      obtain ⟨m', hm'⟩ := enumByValue_of_mem this
      simp only [call, conv, enumCall, hm', check]
    | _ => simp [Nested] at hn
  | .string a1 a2 u, b, _, _, _, _, hn => by
    cases b with
    | string b1 b2 w =>
      simp only [Nested] at hn
      simp only [compatible]
      have g1 : ¬ a1 < b1 := by omega
      have g2 : ¬ a2 > b2 := by omega
      have g3 : (u && !w) = false := by
        cases u
        · rfl
        · simp [hn.2.2 rfl]
      simp [g1, g2, g3]
    | _ => simp [Nested] at hn
  | .blob a1 a2, b, _, _, _, _, hn => by
    cases b with
    | blob b1 b2 =>
      simp only [Nested] at hn
      simp only [compatible]
      have g1 : ¬ a1 < b1 := by omega
      have g2 : ¬ a2 > b2 := by omega
      simp [g1, g2]
    | _ => simp [Nested] at hn
  | .array e a1 a2, b, ha, hb, hal, hbl, hn => by
    cases b with
    | array e' b1 b2 =>
      simp only [Nested] at hn
      simp only [compatible]
      simp only [DType.WF] at ha hb
      simp only [GridAligned] at hal hbl
      have g1 : ¬ a1 < b1 := by omega
      have g2 : ¬ a2 > b2 := by omega
      simp only [g1, g2, decide_false, Bool.or_self, Bool.false_eq_true, if_false]
      exact compat_complete e e' ha.1 hb.1 hal hbl hn.2.2
    | _ => simp [Nested] at hn
  | .tuple es, b, ha, hb, hal, hbl, hn => by
    cases b with
    | tuple es' =>
      simp only [Nested] at hn
      simp only [compatible]
      simp only [DType.WF] at ha hb
      simp only [GridAligned] at hal hbl
      obtain ⟨hl, hc⟩ := compatList_complete es es' ha.2 hb.2 hal hbl hn
      simp only [hl, ne_eq, not_true_eq_false, if_false, hc]
    | _ => simp [Nested] at hn
  | .struct ms opt c, b, ha, hb, hal, hbl, hn => by
    cases b with
    | struct ms' opt' c' =>
      simp only [Nested] at hn
      simp only [compatible]
      simp only [DType.WF] at ha hb
      simp only [GridAligned] at hal hbl
      rw [compatFields_complete ms ms' ha.2.2.2 hb.2.2.2 hal hbl hn.1]
      have : mandatoryCovered (ms.map (·.1)) opt (ms'.map (·.1)) opt' = true := by
        unfold mandatoryCovered
        simp only [List.all_eq_true, Bool.or_eq_true, List.contains_eq_mem, decide_eq_true_eq, Bool.and_eq_true,
          Bool.not_eq_true', Bool.and_eq_false_iff, decide_eq_false_iff_not]
        intro k hk
        by_cases ho : k ∈ opt'
        · exact Or.inl ho
        · exact Or.inr ⟨(hn.2 k hk ho).1, Or.inr (hn.2 k hk ho).2⟩
      simp only [this, if_true]
    | _ => simp [Nested] at hn
theorem compatList_complete : ∀ (es es' : List (DType F)), DType.WFList es → DType.WFList es' →
    GridAlignedList es → GridAlignedList es' → NestedList es es' →
    es.length = es'.length ∧ compatList es es' = .ok ()
  | [], [], _, _, _, _, _ => ⟨rfl, rfl⟩
  | [], _ :: _, _, _, _, _, hn => by simp [NestedList] at hn
  | _ :: _, [], _, _, _, _, hn => by simp [NestedList] at hn
  | t :: ts, t' :: ts', ha, hb, hal, hbl, hn => by
    simp only [NestedList] at hn
    simp only [DType.WFList] at ha hb
    simp only [GridAlignedList] at hal hbl
    obtain ⟨hl, hc⟩ := compatList_complete ts ts' ha.2 hb.2 hal.2 hbl.2 hn.2
    refine ⟨by simp [hl], ?_⟩
    simp only [compatList, compat_complete t t' ha.1 hb.1 hal.1 hbl.1 hn.1, hc]
theorem compatFields_complete : ∀ (ms ms' : List (String × DType F)), DType.WFFields ms → DType.WFFields ms' →
    GridAlignedFields ms → GridAlignedFields ms' → NestedFields ms ms' → compatFields ms ms' = .ok ()
  | [], _, _, _, _, _, _ => rfl
  | (k, t) :: rest, ms', ha, hb, hal, hbl, hn => by
    simp only [NestedFields] at hn
    simp only [DType.WFFields] at ha
    simp only [GridAlignedFields] at hal
    simp only [compatFields]
    cases hm : DType.member? ms' k with
    | none => rw [hm] at hn; exact hn.1.elim
    | some t' =>
      rw [hm] at hn
      simp only at hn ⊢
      rw [compat_complete t t' ha.1 (member_wf ms' k t' hb hm) hal.1 (member_aligned ms' k t' hbl hm) hn.1]
      exact compatFields_complete rest ms' ha.2 hb hal.2 hbl hn.2
end

end Frappy.Lemmas.C03
