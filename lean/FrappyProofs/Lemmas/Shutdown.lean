import FrappyModel.Client.Shutdown
/-
C11 — helper lemmas for the shutdown protocol: the inductive invariant (attributes vs. program counters, no thread joins
itself, no join cycle, late phases imply finished loops, a marker is on its way to a blocked tx thread) and progress.
-/
namespace Frappy.Client.Shutdown

def lateTx : DPc → Bool
  | .d6 | .d7 | .d8 | .d9 | .d10 | .d11 | .fin => true
  | _ => false

def lateRx : DPc → Bool
  | .d9 | .d10 | .d11 | .fin => true
  | _ => false

def preMarker : DPc → Bool
  | .d0 | .d1 | .d2 | .d3 | .d4 => true
  | _ => false

def lateTxUsers (u : DPc → Nat) : Nat := u .d6 + u .d7 + u .d8 + u .d9 + u .d10 + u .d11
def lateRxUsers (u : DPc → Nat) : Nat := u .d9 + u .d10 + u .d11
def preUsers (u : DPc → Nat) : Nat := u .d1 + u .d2 + u .d3 + u .d4

def txInLoop (s : Sh) : Bool := match s.tx with | .check | .get | .proc => true | _ => false
def rxPre (s : Sh) : Bool := match s.rx with | .disc p => preMarker p | _ => false

structure Inv (s : Sh) : Prop where
  a : s.txAttr = !txIsDisc s
  b : s.rxAttr = !rxIsDisc s
  c1 : s.tx ≠ .disc .d4 ∧ s.tx ≠ .disc .d5 ∧ s.tx ≠ .disc .d6
  c2 : s.rx ≠ .disc .d8 ∧ s.rx ≠ .disc .d9
  d : ¬ ((s.tx = .disc .d8 ∨ s.tx = .disc .d9) ∧ (s.rx = .disc .d4 ∨ s.rx = .disc .d5 ∨ s.rx = .disc .d6))
  eu : 0 < lateTxUsers s.users → txIsDisc s = true
  er : ∀ p, s.rx = .disc p → lateTx p = true → txIsDisc s = true
  fu : 0 < lateRxUsers s.users → rxIsDisc s = true
  ft : ∀ p, s.tx = .disc p → lateRx p = true → rxIsDisc s = true
  j : s.running = false → txInLoop s = true → true ∈ s.txq ∨ 0 < preUsers s.users ∨ rxPre s = true

theorem inv_init : Inv {} := by
  constructor <;> simp [txIsDisc, rxIsDisc, lateTxUsers, lateRxUsers]

macro "ua" : tactic =>
  `(tactic| (simp only [lateTxUsers, lateRxUsers, preUsers, moveUser, reduceCtorEq, if_false, if_true, reduceIte] at *; omega))

theorem loop_not_disc {s : Sh} (h : txInLoop s = true) : txIsDisc s = false := by
  unfold txInLoop at h; unfold txIsDisc; cases hx : s.tx <;> simp_all

theorem done_isDisc_tx {s : Sh} (h : txDone s = true) : txIsDisc s = true := by
  unfold txDone at h; unfold txIsDisc; cases hx : s.tx <;> simp_all

theorem done_isDisc_rx {s : Sh} (h : rxDone s = true) : rxIsDisc s = true := by
  unfold rxDone at h; unfold rxIsDisc; cases hx : s.rx <;> simp_all

theorem rx_disc_isDisc {s : Sh} {p : DPc} (h : s.rx = .disc p) : rxIsDisc s = true := by
  simp [rxIsDisc, h]

theorem tx_disc_isDisc {s : Sh} {p : DPc} (h : s.tx = .disc p) : txIsDisc s = true := by
  simp [txIsDisc, h]

theorem inv_user {s s' : Sh} {p : DPc} (inv : Inv s) (h : step s (.user p) = some s') : Inv s' := by
  obtain ⟨ia, ib, ic1, ic2, id, ieu, ier, ifu, ift, ij⟩ := inv
  simp only [step] at h
  split at h
  · next hpos =>
    split at h
    · next s1 p1 hd =>
      cases h
      cases p <;> simp only [dstep] at hd
      case d0 =>
        cases hd
        refine ⟨ia, ib, ic1, ic2, id, ?_, ier, ?_, ift, ?_⟩
        · intro h; exact ieu (by ua)
        · intro h; exact ifu (by ua)
        · intro _ ht; right; left; ua
      case d1 =>
        split at hd <;> cases hd <;>
          (refine ⟨ia, ib, ic1, ic2, id, ?_, ier, ?_, ift, ?_⟩
           · intro h; exact ieu (by ua)
           · intro h; exact ifu (by ua)
           · intro _ ht; right; left; ua)
      case d2 =>
        cases hd
        refine ⟨ia, ib, ic1, ic2, id, ?_, ier, ?_, ift, ?_⟩
        · intro h; exact ieu (by ua)
        · intro h; exact ifu (by ua)
        · intro _ ht; right; left; ua
      case d3 =>
        cases hd
        cases hta : s.txAttr <;> rw [hta] at ia
        · have hdisc : txIsDisc s = true := by simpa using ia.symm
          simp only [Bool.false_eq_true, if_false]
          refine ⟨ia, ib, ic1, ic2, id, fun _ => hdisc, ier, ?_, ift, ?_⟩
          · intro h; exact ifu (by ua)
          · intro _ ht; have ht' : txInLoop s = true := ht; rw [loop_not_disc ht'] at hdisc; cases hdisc
        · simp only [if_true]
          refine ⟨ia, ib, ic1, ic2, id, ?_, ier, ?_, ift, ?_⟩
          · intro h; exact ieu (by ua)
          · intro h; exact ifu (by ua)
          · intro hr ht
            rcases ij hr ht with h | h | h
            · exact Or.inl h
            · right; left; ua
            · exact Or.inr (Or.inr h)
      case d4 =>
        cases hd
        refine ⟨ia, ib, ic1, ic2, id, ?_, ier, ?_, ift, ?_⟩
        · intro h; exact ieu (by ua)
        · intro h; exact ifu (by ua)
        · intro _ _; left; simp
      case d5 =>
        split at hd
        · next hdone =>
          cases hd
          have hdisc := done_isDisc_tx hdone
          refine ⟨ia, ib, ic1, ic2, id, fun _ => hdisc, ier, ?_, ift, ?_⟩
          · intro h; exact ifu (by ua)
          · intro _ ht; have ht' : txInLoop s = true := ht; rw [loop_not_disc ht'] at hdisc; cases hdisc
        · cases hd
      case d6 =>
        cases hd
        have hdisc : txIsDisc s = true := ieu (by ua)
        refine ⟨?_, ib, ic1, ic2, id, fun _ => hdisc, ier, ?_, ift, ?_⟩
        · show false = !txIsDisc s
          rw [hdisc]; rfl
        · intro h; exact ifu (by ua)
        · intro _ ht; have ht' : txInLoop s = true := ht; rw [loop_not_disc ht'] at hdisc; cases hdisc
      case d7 =>
        cases hd
        have hdisc : txIsDisc s = true := ieu (by ua)
        cases hra : s.rxAttr <;> rw [hra] at ib
        · have hrd : rxIsDisc s = true := by simpa using ib.symm
          simp only [Bool.false_eq_true, if_false]
          refine ⟨ia, ib, ic1, ic2, id, fun _ => hdisc, ier, fun _ => hrd, ift, ?_⟩
          intro _ ht; have ht' : txInLoop s = true := ht; rw [loop_not_disc ht'] at hdisc; cases hdisc
        · simp only [if_true]
          refine ⟨ia, ib, ic1, ic2, id, fun _ => hdisc, ier, ?_, ift, ?_⟩
          · intro h; exact ifu (by ua)
          · intro _ ht; have ht' : txInLoop s = true := ht; rw [loop_not_disc ht'] at hdisc; cases hdisc
      case d8 =>
        have hdisc : txIsDisc s = true := ieu (by ua)
        split at hd
        · next hdone =>
          cases hd
          refine ⟨ia, ib, ic1, ic2, id, fun _ => hdisc, ier, fun _ => done_isDisc_rx hdone, ift, ?_⟩
          intro _ ht; have ht' : txInLoop s = true := ht; rw [loop_not_disc ht'] at hdisc; cases hdisc
        · cases hd
      case d9 =>
        cases hd
        have hdisc : txIsDisc s = true := ieu (by ua)
        have hrd : rxIsDisc s = true := ifu (by ua)
        refine ⟨ia, ?_, ic1, ic2, id, fun _ => hdisc, ier, fun _ => hrd, ift, ?_⟩
        · show false = !rxIsDisc s
          rw [hrd]; rfl
        · intro _ ht; have ht' : txInLoop s = true := ht; rw [loop_not_disc ht'] at hdisc; cases hdisc
      case d10 =>
        cases hd
        have hdisc : txIsDisc s = true := ieu (by ua)
        have hrd : rxIsDisc s = true := ifu (by ua)
        refine ⟨ia, ib, ic1, ic2, id, fun _ => hdisc, ier, fun _ => hrd, ift, ?_⟩
        intro _ ht; have ht' : txInLoop s = true := ht; rw [loop_not_disc ht'] at hdisc; cases hdisc
      case d11 =>
        have hdisc : txIsDisc s = true := ieu (by ua)
        have hrd : rxIsDisc s = true := ifu (by ua)
        split at hd <;> cases hd <;>
          (refine ⟨ia, ib, ic1, ic2, id, fun _ => hdisc, ier, fun _ => hrd, ift, ?_⟩
           intro _ ht; have ht' : txInLoop s = true := ht; rw [loop_not_disc ht'] at hdisc; cases hdisc)
      case fin => cases hd
    · cases h
  · cases h

theorem inv_tx_loop {s s' : Sh} {fail : Bool} (inv : Inv s) (hl : txIsDisc s = false)
    (h : stepTx s fail = some s') : Inv s' := by
  obtain ⟨ia, ib, ic1, ic2, id, ieu, ier, ifu, ift, ij⟩ := inv
  have hnl : ¬ 0 < lateTxUsers s.users := fun hh => by rw [ieu hh] at hl; cases hl
  have hner : ∀ p, s.rx = .disc p → lateTx p = true → False := fun p h1 h2 => by rw [ier p h1 h2] at hl; cases hl
  unfold stepTx at h
  cases htx : s.tx <;> rw [htx] at h <;> simp only at h
  case check =>
    cases h
    cases hr : s.running <;> simp only [Bool.false_eq_true, if_false, if_true]
    · refine ⟨?_, ib, by simp, ic2, by simp, fun hh => absurd hh hnl, fun p h1 h2 => (hner p h1 h2).elim, ifu,
        by simp, by simp [txInLoop]⟩
      rw [ia]; simp [txIsDisc, htx]
    · refine ⟨?_, ib, by simp, ic2, by simp, fun hh => absurd hh hnl, fun p h1 h2 => (hner p h1 h2).elim, ifu,
        by simp, ?_⟩
      · rw [ia]; simp [txIsDisc, htx]
      · intro hr'; simp [hr] at hr'
  case get =>
    have hloop : txInLoop s = true := by simp [txInLoop, htx]
    split at h
    · cases h
    · next t hq =>
      cases h
      refine ⟨?_, ib, by simp, ic2, by simp, fun hh => absurd hh hnl, fun p h1 h2 => (hner p h1 h2).elim, ifu,
        by simp, by simp [txInLoop]⟩
      rw [ia]; simp [txIsDisc, htx]
    · next t hq =>
      cases h
      refine ⟨?_, ib, by simp, ic2, by simp, fun hh => absurd hh hnl, fun p h1 h2 => (hner p h1 h2).elim, ifu,
        by simp, ?_⟩
      · rw [ia]; simp [txIsDisc, htx]
      · intro hr _
        rcases ij hr hloop with h | h | h
        · left; rw [hq] at h; simpa using h
        · exact Or.inr (Or.inl h)
        · exact Or.inr (Or.inr h)
  case proc =>
    have hloop : txInLoop s = true := by simp [txInLoop, htx]
    cases h
    cases fail <;> simp only [Bool.false_eq_true, if_false, if_true]
    · refine ⟨?_, ib, by simp, ic2, by simp, fun hh => absurd hh hnl, fun p h1 h2 => (hner p h1 h2).elim, ifu,
        by simp, fun hr _ => ij hr hloop⟩
      rw [ia]; simp [txIsDisc, htx]
    · refine ⟨?_, ib, by simp, ic2, by simp, fun hh => absurd hh hnl, fun p h1 h2 => (hner p h1 h2).elim, ifu,
        by simp, by simp [txInLoop]⟩
      rw [ia]; simp [txIsDisc, htx]
  case x0 =>
    cases h
    exact ⟨by simp [txIsDisc], ib, by simp, ic2, by simp, fun _ => by simp [txIsDisc], fun _ _ _ => by simp [txIsDisc],
      ifu, by simp [lateRx], by simp [txInLoop]⟩
  case disc p => simp [txIsDisc, htx] at hl

theorem inv_tx_disc {s s' : Sh} {fail : Bool} {p : DPc} (inv : Inv s) (htx : s.tx = .disc p)
    (h : stepTx s fail = some s') : Inv s' := by
  obtain ⟨ia, ib, ic1, ic2, id, ieu, ier, ifu, ift, ij⟩ := inv
  have hd1 : txIsDisc s = true := by simp [txIsDisc, htx]
  have hta : s.txAttr = false := by rw [ia, hd1]; rfl
  unfold stepTx at h
  rw [htx] at h
  simp only at h
  split at h
  · next s1 p1 hd =>
    cases h
    rw [htx] at ic1 id
    cases p <;> simp only [dstep] at hd
    case d0 =>
      cases hd
      exact ⟨by simp [txIsDisc, hta], ib, by simp, ic2, by simp, fun _ => by simp [txIsDisc],
        fun _ _ _ => by simp [txIsDisc], ifu, by simp [lateRx], by simp [txInLoop]⟩
    case d1 =>
      split at hd <;> cases hd <;>
        exact ⟨by simp [txIsDisc, hta], ib, by simp, ic2, by simp, fun _ => by simp [txIsDisc],
          fun _ _ _ => by simp [txIsDisc], ifu, by simp [lateRx], by simp [txInLoop]⟩
    case d2 =>
      cases hd
      exact ⟨by simp [txIsDisc, hta], ib, by simp, ic2, by simp, fun _ => by simp [txIsDisc],
        fun _ _ _ => by simp [txIsDisc], ifu, by simp [lateRx], by simp [txInLoop]⟩
    case d3 =>
      cases hd
      simp only [hta, Bool.false_eq_true, if_false]
      exact ⟨by simp [txIsDisc, hta], ib, by simp, ic2, by simp, fun _ => by simp [txIsDisc],
        fun _ _ _ => by simp [txIsDisc], ifu, by simp [lateRx], by simp [txInLoop]⟩
    case d4 => simp at ic1
    case d5 => simp at ic1
    case d6 => simp at ic1
    case d7 =>
      cases hd
      cases hra : s.rxAttr
      · have hrd : rxIsDisc s = true := by rw [hra] at ib; simpa using ib.symm
        simp only [Bool.false_eq_true, if_false]
        refine ⟨by simp [txIsDisc, hta], ?_, by simp, ic2, by simp, fun _ => by simp [txIsDisc],
          fun _ _ _ => by simp [txIsDisc], ifu, fun _ _ _ => hrd, by simp [txInLoop]⟩
        rw [← hra]; exact ib
      · have hrd : rxIsDisc s = false := by rw [hra] at ib; simpa using ib.symm
        simp only [if_true]
        refine ⟨by simp [txIsDisc, hta], ?_, by simp, ic2, ?_, fun _ => by simp [txIsDisc],
          fun _ _ _ => by simp [txIsDisc], ifu, by simp [lateRx], by simp [txInLoop]⟩
        · rw [← hra]; exact ib
        · intro hc
          rcases hc.2 with h | h | h <;>
            (have h' := rx_disc_isDisc (s := s) h; rw [h'] at hrd; cases hrd)
    case d8 =>
      split at hd
      · next hdone =>
        cases hd
        refine ⟨by simp [txIsDisc, hta], ib, by simp, ic2, ?_, fun _ => by simp [txIsDisc],
          fun _ _ _ => by simp [txIsDisc], ifu, fun _ _ _ => done_isDisc_rx hdone, by simp [txInLoop]⟩
        intro hc
        exact id ⟨Or.inl rfl, hc.2⟩
      · cases hd
    case d9 =>
      cases hd
      have hrd : rxIsDisc s = true := ift _ htx rfl
      refine ⟨by simp [txIsDisc, hta], ?_, by simp, ic2, by simp, fun _ => by simp [txIsDisc],
        fun _ _ _ => by simp [txIsDisc], ifu, fun _ _ _ => hrd, by simp [txInLoop]⟩
      show false = !rxIsDisc s
      rw [hrd]; rfl
    case d10 =>
      cases hd
      have hrd : rxIsDisc s = true := ift _ htx rfl
      exact ⟨by simp [txIsDisc, hta], ib, by simp, ic2, by simp, fun _ => by simp [txIsDisc],
        fun _ _ _ => by simp [txIsDisc], ifu, fun _ _ _ => hrd, by simp [txInLoop]⟩
    case d11 =>
      have hrd : rxIsDisc s = true := ift _ htx rfl
      split at hd <;> cases hd <;>
        exact ⟨by simp [txIsDisc, hta], ib, by simp, ic2, by simp, fun _ => by simp [txIsDisc],
          fun _ _ _ => by simp [txIsDisc], ifu, fun _ _ _ => hrd, by simp [txInLoop]⟩
    case fin => cases hd
  · cases h

theorem inv_rx_loop {s s' : Sh} {closed : Bool} (inv : Inv s) (hl : rxIsDisc s = false)
    (h : stepRx s closed = some s') : Inv s' := by
  obtain ⟨ia, ib, ic1, ic2, id, ieu, ier, ifu, ift, ij⟩ := inv
  have hnl : ¬ 0 < lateRxUsers s.users := fun hh => by rw [ifu hh] at hl; cases hl
  have hnft : ∀ p, s.tx = .disc p → lateRx p = true → False := fun p h1 h2 => by rw [ift p h1 h2] at hl; cases hl
  have hnpre : rxPre s = false := by
    unfold rxPre; unfold rxIsDisc at hl; cases hx : s.rx <;> simp_all
  have hj : ∀ {q : List Bool} {u : DPc → Nat}, q = s.txq → u = s.users → s.running = false → txInLoop s = true →
      true ∈ q ∨ 0 < preUsers u ∨ False := by
    intro q u hq hu hr ht
    subst hq; subst hu
    rcases ij hr ht with h | h | h
    · exact Or.inl h
    · exact Or.inr (Or.inl h)
    · rw [hnpre] at h; cases h
  unfold stepRx at h
  cases hrx : s.rx <;> rw [hrx] at h <;> simp only at h
  case check =>
    cases h
    have hb : s.rxAttr = true := by rw [ib, hl]; rfl
    cases hr : s.running <;> simp only [Bool.false_eq_true, if_false, if_true]
    · refine ⟨ia, by simp [rxIsDisc, hb], ic1, by simp, by simp, ieu, by simp, fun hh => absurd hh hnl,
        fun p h1 h2 => (hnft p h1 h2).elim, ?_⟩
      intro _ ht
      rcases hj rfl rfl hr ht with h | h | h
      · exact Or.inl h
      · exact Or.inr (Or.inl h)
      · exact h.elim
    · refine ⟨ia, by simp [rxIsDisc, hb], ic1, by simp, by simp, ieu, by simp, fun hh => absurd hh hnl,
        fun p h1 h2 => (hnft p h1 h2).elim, ?_⟩
      intro hr' _
      cases hr'
  case read =>
    have hb : s.rxAttr = true := by rw [ib, hl]; rfl
    split at h
    · split at h
      · cases h
        refine ⟨ia, by simp [rxIsDisc, hb], ic1, by simp, by simp, ieu, by simp, fun hh => absurd hh hnl,
          fun p h1 h2 => (hnft p h1 h2).elim, ?_⟩
        intro hr' ht
        rcases hj rfl rfl hr' ht with h | h | h
        · exact Or.inl h
        · exact Or.inr (Or.inl h)
        · exact h.elim
      · cases h
    · cases h
      refine ⟨ia, by simp [rxIsDisc, hb], ic1, by simp, by simp, ieu, by simp, fun hh => absurd hh hnl,
        fun p h1 h2 => (hnft p h1 h2).elim, ?_⟩
      intro hr' ht
      rcases hj rfl rfl hr' ht with h | h | h
      · exact Or.inl h
      · exact Or.inr (Or.inl h)
      · exact h.elim
  case f0 =>
    cases h
    exact ⟨ia, by simp [rxIsDisc], ic1, by simp, by simp, ieu, by simp [lateTx], fun _ => by simp [rxIsDisc],
      fun _ _ _ => by simp [rxIsDisc], fun _ _ => Or.inr (Or.inr (by simp [rxPre, preMarker]))⟩
  case disc p => simp [rxIsDisc, hrx] at hl

theorem inv_rx_disc {s s' : Sh} {closed : Bool} {p : DPc} (inv : Inv s) (hrx : s.rx = .disc p)
    (h : stepRx s closed = some s') : Inv s' := by
  obtain ⟨ia, ib, ic1, ic2, id, ieu, ier, ifu, ift, ij⟩ := inv
  have hd1 : rxIsDisc s = true := rx_disc_isDisc hrx
  have hra : s.rxAttr = false := by rw [ib, hd1]; rfl
  have hrd' : ∀ {s2 : Sh} {q : DPc}, s2.rx = .disc q → rxIsDisc s2 = true := fun h => rx_disc_isDisc h
  -- once the tx thread has left its loop nothing has to be shown for the marker clause
  have jdisc : ∀ {s2 : Sh}, s2.tx = s.tx → txIsDisc s = true →
      (s2.running = false → txInLoop s2 = true → true ∈ s2.txq ∨ 0 < preUsers s2.users ∨ rxPre s2 = true) := by
    intro s2 h2 hdisc _ ht
    have : txInLoop s = true := by unfold txInLoop at ht ⊢; rw [h2] at ht; exact ht
    rw [loop_not_disc this] at hdisc; cases hdisc
  unfold stepRx at h
  rw [hrx] at h
  simp only at h
  split at h
  · next s1 p1 hd =>
    cases h
    rw [hrx] at ic2 id
    cases p <;> simp only [dstep] at hd
    case d0 =>
      cases hd
      exact ⟨ia, by simp [rxIsDisc, hra], ic1, by simp, by simp, ieu, by simp [lateTx], fun _ => by simp [rxIsDisc],
        fun _ _ _ => by simp [rxIsDisc], fun _ _ => Or.inr (Or.inr (by simp [rxPre, preMarker]))⟩
    case d1 =>
      split at hd <;> cases hd <;>
        exact ⟨ia, by simp [rxIsDisc, hra], ic1, by simp, by simp, ieu, by simp [lateTx], fun _ => by simp [rxIsDisc],
          fun _ _ _ => by simp [rxIsDisc], fun _ _ => Or.inr (Or.inr (by simp [rxPre, preMarker]))⟩
    case d2 =>
      cases hd
      exact ⟨ia, by simp [rxIsDisc, hra], ic1, by simp, by simp, ieu, by simp [lateTx], fun _ => by simp [rxIsDisc],
        fun _ _ _ => by simp [rxIsDisc], fun _ _ => Or.inr (Or.inr (by simp [rxPre, preMarker]))⟩
    case d3 =>
      cases hd
      cases hta : s.txAttr
      · have hdisc : txIsDisc s = true := by rw [hta] at ia; simpa using ia.symm
        simp only [Bool.false_eq_true, if_false]
        refine ⟨?_, by simp [rxIsDisc, hra], ic1, by simp, by simp, ieu, fun _ _ _ => hdisc, fun _ => by simp [rxIsDisc],
          fun _ _ _ => by simp [rxIsDisc], jdisc rfl hdisc⟩
        rw [← hta]; exact ia
      · have hdisc : txIsDisc s = false := by rw [hta] at ia; simpa using ia.symm
        simp only [if_true]
        refine ⟨?_, by simp [rxIsDisc, hra], ic1, by simp, ?_, ieu, by simp [lateTx], fun _ => by simp [rxIsDisc],
          fun _ _ _ => by simp [rxIsDisc], fun _ _ => Or.inr (Or.inr (by simp [rxPre, preMarker]))⟩
        · rw [← hta]; exact ia
        · intro hc
          rcases hc.1 with h | h <;>
            (have h' := tx_disc_isDisc (s := s) h; rw [h'] at hdisc; cases hdisc)
    case d4 =>
      cases hd
      refine ⟨ia, by simp [rxIsDisc, hra], ic1, by simp, ?_, ieu, by simp [lateTx], fun _ => by simp [rxIsDisc],
        fun _ _ _ => by simp [rxIsDisc], fun _ _ => Or.inl (by simp)⟩
      intro hc
      exact id ⟨hc.1, Or.inl rfl⟩
    case d5 =>
      split at hd
      · next hdone =>
        cases hd
        have hdisc := done_isDisc_tx hdone
        refine ⟨ia, by simp [rxIsDisc, hra], ic1, by simp, ?_, ieu, fun _ _ _ => hdisc, fun _ => by simp [rxIsDisc],
          fun _ _ _ => by simp [rxIsDisc], jdisc rfl hdisc⟩
        intro hc
        exact id ⟨hc.1, Or.inr (Or.inl rfl)⟩
      · cases hd
    case d6 =>
      cases hd
      have hdisc : txIsDisc s = true := ier _ hrx rfl
      refine ⟨?_, by simp [rxIsDisc, hra], ic1, by simp, by simp, ieu, fun _ _ _ => hdisc, fun _ => by simp [rxIsDisc],
        fun _ _ _ => by simp [rxIsDisc], jdisc rfl hdisc⟩
      show false = !txIsDisc s
      rw [hdisc]; rfl
    case d7 =>
      cases hd
      have hdisc : txIsDisc s = true := ier _ hrx rfl
      simp only [hra, Bool.false_eq_true, if_false]
      exact ⟨ia, by simp [rxIsDisc, hra], ic1, by simp, by simp, ieu, fun _ _ _ => hdisc, fun _ => by simp [rxIsDisc],
        fun _ _ _ => by simp [rxIsDisc], jdisc rfl hdisc⟩
    case d8 => simp at ic2
    case d9 => simp at ic2
    case d10 =>
      cases hd
      have hdisc : txIsDisc s = true := ier _ hrx rfl
      exact ⟨ia, by simp [rxIsDisc, hra], ic1, by simp, by simp, ieu, fun _ _ _ => hdisc, fun _ => by simp [rxIsDisc],
        fun _ _ _ => by simp [rxIsDisc], jdisc rfl hdisc⟩
    case d11 =>
      have hdisc : txIsDisc s = true := ier _ hrx rfl
      split at hd <;> cases hd <;>
        exact ⟨ia, by simp [rxIsDisc, hra], ic1, by simp, by simp, ieu, fun _ _ _ => hdisc, fun _ => by simp [rxIsDisc],
          fun _ _ _ => by simp [rxIsDisc], jdisc rfl hdisc⟩
    case fin => cases hd
  · cases h

theorem inv_step {s s' : Sh} {a : Act} (inv : Inv s) (h : step s a = some s') : Inv s' := by
  cases a with
  | put =>
    simp only [step] at h; cases h
    obtain ⟨ia, ib, ic1, ic2, id, ieu, ier, ifu, ift, ij⟩ := inv
    refine ⟨ia, ib, ic1, ic2, id, ieu, ier, ifu, ift, ?_⟩
    intro hr ht
    rcases ij hr ht with h | h | h
    · exact Or.inl (List.mem_append_left _ h)
    · exact Or.inr (Or.inl h)
    · exact Or.inr (Or.inr h)
  | drop =>
    simp only [step] at h; cases h
    obtain ⟨ia, ib, ic1, ic2, id, ieu, ier, ifu, ift, ij⟩ := inv
    exact ⟨ia, ib, ic1, ic2, id, ieu, ier, ifu, ift, ij⟩
  | userBegin =>
    simp only [step] at h; cases h
    obtain ⟨ia, ib, ic1, ic2, id, ieu, ier, ifu, ift, ij⟩ := inv
    refine ⟨ia, ib, ic1, ic2, id, ?_, ier, ?_, ift, ?_⟩
    · intro hh; apply ieu; simp only [lateTxUsers, reduceCtorEq, if_false] at hh ⊢; exact hh
    · intro hh; apply ifu; simp only [lateRxUsers, reduceCtorEq, if_false] at hh ⊢; exact hh
    · intro _ _; right; left
      simp only [preUsers, reduceCtorEq, if_false, if_true]; omega
  | user p => exact inv_user inv h
  | tx fail =>
    simp only [step] at h
    cases htx : s.tx
    case disc p => exact inv_tx_disc inv htx h
    all_goals exact inv_tx_loop inv (by simp [txIsDisc, htx]) h
  | rx closed =>
    simp only [step] at h
    cases hrx : s.rx
    case disc p => exact inv_rx_disc inv hrx h
    all_goals exact inv_rx_loop inv (by simp [rxIsDisc, hrx]) h

theorem reachable_inv {s : Sh} (h : Reachable s) : Inv s := by
  induction h with
  | init => exact inv_init
  | step a _ hs ih => exact inv_step ih hs

theorem canMove_of {s : Sh} {a : Act} (ha : a ∈ internalActs) (h : (step s a).isSome = true) : canMove s = true := by
  unfold canMove
  exact List.any_eq_true.2 ⟨a, ha, h⟩

theorem rx_moves {s : Sh} (inv : Inv s) (hnd : s.rx ≠ .disc .fin) (h5 : s.rx = .disc .d5 → txDone s = true) :
    (step s (.rx false)).isSome = true := by
  simp only [step, stepRx]
  cases hrx : s.rx
  case check => simp
  case read => simp
  case f0 => simp
  case disc p =>
    have c2 := inv.c2
    rw [hrx] at c2 hnd
    cases p <;> simp only [dstep] <;> (try simp) <;> (try (simp at hnd)) <;> (try (simp at c2))
    case d1 => cases s.txq <;> simp
    case d11 => cases s.txq <;> simp
    case d5 => simp [h5 hrx]

theorem tx_moves {s : Sh} (inv : Inv s) (hnd : s.tx ≠ .disc .fin) (hq : s.tx = .get → s.txq ≠ [])
    (h8 : s.tx = .disc .d8 → rxDone s = true) : (step s (.tx false)).isSome = true := by
  simp only [step, stepTx]
  cases htx : s.tx
  case check => simp
  case get =>
    have := hq htx
    cases hq' : s.txq with
    | nil => exact absurd hq' this
    | cons b t => cases b <;> simp
  case proc => simp
  case x0 => simp
  case disc p =>
    have c1 := inv.c1
    rw [htx] at c1 hnd
    cases p <;> simp only [dstep] <;> (try simp) <;> (try (simp at hnd)) <;> (try (simp at c1))
    case d1 => cases s.txq <;> simp
    case d11 => cases s.txq <;> simp
    case d8 => simp [h8 htx]

theorem user_moves {s : Sh} {p : DPc} (hpos : 0 < s.users p) (hp : p ≠ .fin) (h5 : p = .d5 → txDone s = true)
    (h8 : p = .d8 → rxDone s = true) : (step s (.user p)).isSome = true := by
  simp only [step, hpos, if_true]
  cases p <;> simp only [dstep] <;> (try simp)
  case d1 => cases s.txq <;> simp
  case d11 => cases s.txq <;> simp
  case d5 => simp [h5 rfl]
  case d8 => simp [h8 rfl]
  case fin => exact absurd rfl hp

theorem pre_user_moves {s : Sh} (h : 0 < preUsers s.users) : canMove s = true := by
  have : 0 < s.users .d1 ∨ 0 < s.users .d2 ∨ 0 < s.users .d3 ∨ 0 < s.users .d4 := by
    unfold preUsers at h; omega
  rcases this with h | h | h | h
  · exact canMove_of (by simp [internalActs]) (user_moves h (by simp) (by simp) (by simp))
  · exact canMove_of (by simp [internalActs]) (user_moves h (by simp) (by simp) (by simp))
  · exact canMove_of (by simp [internalActs]) (user_moves h (by simp) (by simp) (by simp))
  · exact canMove_of (by simp [internalActs]) (user_moves h (by simp) (by simp) (by simp))

/-- a blocked tx thread (empty queue) after a shutdown request: somebody is on the way to put the marker -/
theorem tx_blocked_somebody_moves {s : Sh} (inv : Inv s) (hr : s.running = false) (hget : s.tx = .get)
    (hrx : rxPre s = true → (step s (.rx false)).isSome = true) (hq : s.txq = []) : canMove s = true := by
  have hl : txInLoop s = true := by simp [txInLoop, hget]
  rcases inv.j hr hl with h | h | h
  · rw [hq] at h; simp at h
  · exact pre_user_moves h
  · exact canMove_of (by simp [internalActs]) (hrx h)

theorem progress {s : Sh} (inv : Inv s) (hr : s.running = false) (hnd : allDone s = false) : canMove s = true := by
  have rxpre_moves : rxPre s = true → (step s (.rx false)).isSome = true := by
    intro h
    refine rx_moves inv ?_ ?_
    · intro hx; simp [rxPre, hx, preMarker] at h
    · intro hx; simp [rxPre, hx, preMarker] at h
  -- the tx thread, when it is not finished, can move or somebody else can
  have tx_side : s.tx ≠ .disc .fin → (s.tx = .disc .d8 → rxDone s = true) → canMove s = true := by
    intro hnf h8
    by_cases hb : s.tx = .get ∧ s.txq = []
    · exact tx_blocked_somebody_moves inv hr hb.1 rxpre_moves hb.2
    · refine canMove_of (by simp [internalActs]) (tx_moves inv hnf ?_ h8)
      intro hg hq; exact hb ⟨hg, hq⟩
  by_cases hrd : s.rx = .disc .fin
  · -- rx finished
    have hrdone : rxDone s = true := by simp [rxDone, hrd]
    by_cases htd : s.tx = .disc .fin
    · -- both workers finished: a user thread is still inside disconnect()
      have hbusy : 0 < usersBusy s := by
        unfold allDone at hnd
        simp [txDone, rxDone, hrd, htd] at hnd
        omega
      have : 0 < s.users .d0 ∨ 0 < s.users .d1 ∨ 0 < s.users .d2 ∨ 0 < s.users .d3 ∨ 0 < s.users .d4
          ∨ 0 < s.users .d5 ∨ 0 < s.users .d6 ∨ 0 < s.users .d7 ∨ 0 < s.users .d8 ∨ 0 < s.users .d9
          ∨ 0 < s.users .d10 ∨ 0 < s.users .d11 := by
        unfold usersBusy at hbusy; omega
      have htdone : txDone s = true := by simp [txDone, htd]
      rcases this with h | h | h | h | h | h | h | h | h | h | h | h <;>
        exact canMove_of (by simp [internalActs]) (user_moves h (by simp) (fun _ => htdone) (fun _ => hrdone))
    · exact tx_side htd (fun _ => hrdone)
  · -- rx not finished
    by_cases h5 : s.rx = .disc .d5 ∧ txDone s = false
    · -- rx waits for the tx thread: the tx thread is not finished and does not wait for rx
      have htd : s.tx ≠ .disc .fin := by
        intro hx; have := h5.2; simp [txDone, hx] at this
      refine tx_side htd ?_
      intro h8
      exact absurd ⟨Or.inl h8, Or.inr (Or.inl h5.1)⟩ inv.d
    · refine canMove_of (by simp [internalActs]) (rx_moves inv hrd ?_)
      intro hx
      cases htd : txDone s
      · exact absurd ⟨hx, htd⟩ h5
      · rfl

end Frappy.Client.Shutdown
