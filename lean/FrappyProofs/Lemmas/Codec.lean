import FrappyModel.Spec.C07
/- helper lemmas about `cut`, `parts`, `latin1`, `strip`, `rstripSp` -/
namespace Frappy.Wire
open Frappy.Spec.C07

theorem cut_append_sp {a r : Bytes} (h : SP ∉ a) : cut (a ++ SP :: r) = (a, some r) := by
  induction a with
  | nil => simp [cut]
  | cons b t ih =>
    have hb : b ≠ SP := fun e => h (by simp [e])
    have ht : SP ∉ t := fun e => h (List.mem_cons_of_mem _ e)
    simp [cut, hb, ih ht]

theorem cut_no_sp {a : Bytes} (h : SP ∉ a) : cut a = (a, none) := by
  induction a with
  | nil => simp [cut]
  | cons b t ih =>
    have hb : b ≠ SP := fun e => h (by simp [e])
    have ht : SP ∉ t := fun e => h (List.mem_cons_of_mem _ e)
    simp [cut, hb, ih ht]

theorem cut_fst_no_sp (l : Bytes) : SP ∉ (cut l).1 := by
  induction l with
  | nil => simp [cut]
  | cons b t ih =>
    unfold cut
    by_cases hb : b = SP
    · simp [hb]
    · simp only [hb, ↓reduceIte, List.mem_cons, not_or]
      exact ⟨Ne.symm hb, ih⟩

theorem parts_action (l : Bytes) : (parts l).action = (cut l).1 := by
  unfold parts
  rcases h : cut l with ⟨a, _ | r⟩
  · rfl
  · simp only
    rcases cut r with ⟨s, _ | d⟩ <;> rfl

theorem parts_spec (l : Bytes) :
    (parts l).spec = match (cut l).2 with | none => [] | some r => (cut r).1 := by
  unfold parts
  rcases h : cut l with ⟨a, _ | r⟩
  · rfl
  · simp only
    rcases h2 : cut r with ⟨s, _ | d⟩ <;> rfl

theorem cut_latin1 (l : Bytes) : cut (latin1 l) = (latin1 (cut l).1, (cut l).2.map latin1) := by
  induction l with
  | nil => simp [cut, latin1]
  | cons b t ih =>
    have hl : latin1 (b :: t) = (if b < 128 then [b] else [192 + b / 64, 128 + b % 64]) ++ latin1 t := by
      simp [latin1]
    rw [hl]
    by_cases hb : b = SP
    · subst hb
      simp [cut, SP, latin1]
    · by_cases h128 : b < 128
      · simp only [h128, ↓reduceIte, List.cons_append, List.nil_append]
        simp only [cut, hb, ↓reduceIte]
        rw [show latin1 t = latin1 t from rfl, ih]
        simp [latin1, h128]
      · simp only [h128, ↓reduceIte, List.cons_append, List.nil_append]
        have h1 : 192 + b / 64 ≠ SP := by simp [SP]; omega
        have h2 : 128 + b % 64 ≠ SP := by simp [SP]; omega
        simp only [cut, hb, h1, h2, ↓reduceIte]
        rw [ih]
        simp [latin1, h128]

theorem latin1_ascii {l : Bytes} (h : nonAscii l = false) : latin1 l = l := by
  induction l with
  | nil => simp [latin1]
  | cons b t ih =>
    simp only [nonAscii, List.any_cons, Bool.or_eq_false_iff, decide_eq_false_iff_not, Nat.not_le] at h
    have := ih (by simpa [nonAscii] using h.2)
    simp only [latin1, List.flatMap_cons] at this ⊢
    simp [h.1, this]

theorem echo_latin1 (tok : Bytes) : Echo tok (latin1 tok) := by
  unfold Echo
  cases h : nonAscii tok with
  | true => exact Or.inr ⟨rfl, rfl⟩
  | false => exact Or.inl (latin1_ascii h)

theorem orNone_getD (b : Bytes) : (orNone b).getD [] = b := by
  unfold orNone
  by_cases h : b = [] <;> simp [h]

/-! ### strip / rstripSp on solid-ended texts -/

theorem isSolid_not_ws {b : Nat} (h : isSolid b = true) : isWs b = false := by
  simp only [isSolid, Bool.and_eq_true, decide_eq_true_eq] at h
  simp only [isWs, Bool.or_eq_false_iff, beq_eq_false_iff_ne, Bool.and_eq_false_iff, decide_eq_false_iff_not]
  omega

theorem solidEnds_cases {l : Bytes} (h : solidEnds l = true) :
    (∃ a t, l = a :: t ∧ isSolid a = true) ∧ (∃ b t, l.reverse = b :: t ∧ isSolid b = true) := by
  unfold solidEnds at h
  rw [List.getLast?_eq_head?_reverse] at h
  cases l with
  | nil => simp at h
  | cons a t =>
    cases hr : (a :: t).reverse with
    | nil => simp at hr
    | cons b t' =>
      rw [hr] at h
      simp only [List.head?_cons, Bool.and_eq_true] at h
      exact ⟨⟨a, t, rfl, h.1⟩, ⟨b, t', rfl, h.2⟩⟩

theorem strip_solid_eol {l : Bytes} (h : solidEnds l = true) : strip (l ++ [EOL]) = l := by
  obtain ⟨⟨a, t, rfl, ha⟩, ⟨b, t', hr, hb⟩⟩ := solidEnds_cases h
  have h1 : lstrip ((a :: t) ++ [EOL]) = (a :: t) ++ [EOL] := by
    simp [lstrip, isSolid_not_ws ha]
  unfold strip
  rw [h1]
  unfold rstrip
  rw [List.reverse_append, hr]
  have : isWs EOL = true := by decide
  simp only [List.reverse_cons, List.reverse_nil, List.nil_append, List.cons_append, List.dropWhile, this,
    isSolid_not_ws hb]
  have := congrArg List.reverse hr
  simpa using this.symm

theorem rstripSp_last {l : Bytes} {b : Nat} {t : Bytes} (hr : l.reverse = b :: t) (hb : b ≠ SP) :
    rstripSp l = l := by
  unfold rstripSp
  rw [hr]
  have : (b == SP) = false := by simpa using hb
  simp only [List.dropWhile, this]
  rw [← hr]; simp

theorem rstripSp_snoc (l : Bytes) : rstripSp (l ++ [SP]) = rstripSp l := by
  simp [rstripSp]

theorem solidEnds_of {l : Bytes} {a b : Nat} {t t' : Bytes} (h1 : l = a :: t) (h2 : l.reverse = b :: t')
    (ha : isSolid a = true) (hb : isSolid b = true) : solidEnds l = true := by
  unfold solidEnds
  rw [List.getLast?_eq_head?_reverse, h2, h1]
  simp [ha, hb]

theorem solid_ne_sp {b : Nat} (h : isSolid b = true) : b ≠ SP := by
  simp only [isSolid, Bool.and_eq_true, decide_eq_true_eq] at h
  simp [SP]; omega

end Frappy.Wire
