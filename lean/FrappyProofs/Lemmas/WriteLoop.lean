import FrappyModel.Spec.C10
/- helper lemmas for C10: the loop of `writeInitParams` with an arbitrary write oracle -/
namespace Frappy.Lemmas.WriteLoop
open Frappy.Config Frappy.Spec.C10

variable {Val : Type}

theorem lookup_none_not_mem (p : Name) : ∀ (wd : List (Name × Val)), lookup p wd = none → ∀ kv ∈ wd, kv.1 ≠ p := by
  intro wd
  induction wd with
  | nil => intro _ kv h; cases h
  | cons x wd ih =>
    intro h kv hkv
    simp only [lookup] at h
    split at h
    · cases h
    · rename_i hx
      rcases List.mem_cons.1 hkv with rfl | hin
      · exact hx
      · exact ih h kv hin

/-- with distinct names, an entry found by `lookup` can be moved to the front -/
theorem perm_of_lookup (p : Name) (v : Val) : ∀ (wd : List (Name × Val)), (wd.map (·.1)).Nodup →
    lookup p wd = some v → wd.Perm ((p, v) :: wd.filter (fun kv => kv.1 != p)) := by
  intro wd
  induction wd with
  | nil => intro _ h; cases h
  | cons x wd ih =>
    intro hnd h
    simp only [List.map_cons, List.nodup_cons] at hnd
    simp only [lookup] at h
    split at h
    · rename_i hx
      cases h
      have hx' : x = (p, x.2) := by cases x; simp_all
      have hrest : wd.filter (fun kv => kv.1 != p) = wd := by
        rw [List.filter_eq_self]
        intro kv hkv
        have : kv.1 ≠ p := by
          intro he; exact hnd.1 (by rw [hx, ← he]; exact List.mem_map_of_mem hkv)
        simpa using this
      simp only [List.filter_cons, hx, bne_self_eq_false, Bool.false_eq_true, ↓reduceIte, hrest]
      rw [← hx']
    · rename_i hx
      have := ih hnd.2 h
      simp only [List.filter_cons]
      have hb : (x.1 != p) = true := by simpa using hx
      simp only [hb, ↓reduceIte]
      exact (List.Perm.cons x this).trans (List.Perm.swap _ _ _)

theorem filter_names_sub {f : Name × Val → Bool} (wd : List (Name × Val)) (h : (wd.map (·.1)).Nodup) :
    ((wd.filter f).map (·.1)).Nodup :=
  (List.filter_sublist.map _).nodup h

/-- the loop hands over every entry of `writeDict` exactly once, whatever the write methods consume -/
theorem writeLoop_handed (consumes : WriteOracle Val) :
    ∀ (names : List Name) (wd : List (Name × Val)), (wd.map (·.1)).Nodup → (∀ kv ∈ wd, kv.1 ∈ names) →
      (handed (writeLoop consumes names wd)).Perm wd := by
  intro names
  induction names with
  | nil =>
    intro wd _ hsub
    cases wd with
    | nil => exact List.Perm.nil
    | cons x wd => cases hsub x List.mem_cons_self
  | cons p rest ih =>
    intro wd hnd hsub
    simp only [writeLoop]
    cases hl : lookup p wd with
    | none =>
      simp only
      apply ih wd hnd
      intro kv hkv
      rcases List.mem_cons.1 (hsub kv hkv) with h | h
      · exact absurd h (lookup_none_not_mem p wd hl kv hkv)
      · exact h
    | some v =>
      simp only [handed]
      have hperm := perm_of_lookup p v wd hnd hl
      have hnd1 : ((wd.filter (fun kv => kv.1 != p)).map (·.1)).Nodup := filter_names_sub wd hnd
      have hsub1 : ∀ kv ∈ wd.filter (fun kv => kv.1 != p), kv.1 ∈ rest := by
        intro kv hkv
        rw [List.mem_filter] at hkv
        rcases List.mem_cons.1 (hsub kv hkv.1) with h | h
        · simp [h] at hkv
        · exact h
      have hrec := ih ((wd.filter (fun kv => kv.1 != p)).filter
          (fun kv => !(consumes p v (wd.filter (fun kv => kv.1 != p))).contains kv.1))
        (filter_names_sub _ hnd1) (fun kv hkv => hsub1 kv (List.mem_filter.1 hkv).1)
      refine (List.Perm.cons _ ?_).trans hperm.symm
      exact (List.Perm.append_left _ hrec).trans (List.filter_append_perm _ _)

/-- the loop produces calls of write methods only -/
theorem writeLoop_no_poll (consumes : WriteOracle Val) :
    ∀ (names : List Name) (wd : List (Name × Val)), Ev.firstPoll ∉ writeLoop consumes names wd := by
  intro names
  induction names with
  | nil => intro wd h; cases h
  | cons p rest ih =>
    intro wd h
    simp only [writeLoop] at h
    split at h
    · exact ih _ h
    · rcases List.mem_cons.1 h with h' | h'
      · cases h'
      · exact ih _ h'

end Frappy.Lemmas.WriteLoop
