import FrappyModel.Spec.C02
/-
C02: the wire law `JsonText.loads_dumps` is satisfiable — a `dumps`/`loads` pair over the exact carrier `Rat` which reads
back every value it wrote (non-vacuity of `wire_roundtrip_text` / `wire_roundtrip_client`).  `dumps` is a prefix-free
code (a tag character per constructor, numbers in unary, strings and containers self-delimiting), `loads` is its inverse
(by choice: all that matters is that `dumps` is injective).
-/
namespace Frappy.Lemmas.C02
open Frappy Frappy.Spec.C02

/-- `n` in unary: `n` times `'1'`, then `'0'` -/
def codeNat : Nat → List Char
  | 0 => ['0']
  | n + 1 => '1' :: codeNat n

theorem codeNat_inj : ∀ (n m : Nat) (r r' : List Char), codeNat n ++ r = codeNat m ++ r' → n = m ∧ r = r'
  | 0, 0, r, r', h => by simpa [codeNat] using h
  | 0, m + 1, r, r', h => by simp [codeNat] at h
  | n + 1, 0, r, r', h => by simp [codeNat] at h
  | n + 1, m + 1, r, r', h => by
    simp only [codeNat, List.cons_append, List.cons.injEq, true_and] at h
    obtain ⟨h1, h2⟩ := codeNat_inj n m r r' h
    exact ⟨by omega, h2⟩

/-- an integer: its sign, then its absolute value -/
def codeInt (i : Int) : List Char := (if i < 0 then '-' else '+') :: codeNat i.natAbs

theorem codeInt_inj (i k : Int) (r r' : List Char) (h : codeInt i ++ r = codeInt k ++ r') : i = k ∧ r = r' := by
  simp only [codeInt, List.cons_append, List.cons.injEq] at h
  obtain ⟨hs, hn⟩ := h
  obtain ⟨h1, h2⟩ := codeNat_inj _ _ _ _ hn
  refine ⟨?_, h2⟩
  by_cases hi : i < 0 <;> by_cases hk : k < 0 <;> simp [hi, hk] at hs <;> omega

/-- a string: its length, then its characters -/
def codeStr (s : String) : List Char := codeNat s.toList.length ++ s.toList

theorem codeStr_inj (s t : String) (r r' : List Char) (h : codeStr s ++ r = codeStr t ++ r') : s = t ∧ r = r' := by
  simp only [codeStr, List.append_assoc] at h
  obtain ⟨h1, h2⟩ := codeNat_inj _ _ _ _ h
  obtain ⟨h3, h4⟩ := List.append_inj h2 h1
  exact ⟨String.toList_inj.mp h3, h4⟩

def codeRat (x : Rat) : List Char := codeInt x.num ++ codeNat x.den

theorem codeRat_inj (x y : Rat) (r r' : List Char) (h : codeRat x ++ r = codeRat y ++ r') : x = y ∧ r = r' := by
  simp only [codeRat, List.append_assoc] at h
  obtain ⟨h1, h2⟩ := codeInt_inj _ _ _ _ h
  obtain ⟨h3, h4⟩ := codeNat_inj _ _ _ _ h2
  exact ⟨Rat.ext h1 h3, h4⟩

mutual
def code : JVal Rat → List Char
  | .null => ['n']
  | .bool b => ['b', if b then '1' else '0']
  | .int i => 'i' :: codeInt i
  | .num x => 'f' :: codeRat x
  | .str s => 's' :: codeStr s
  | .arr l => 'a' :: codeList l
  | .obj fs => 'o' :: codeFields fs
def codeList : List (JVal Rat) → List Char
  | [] => ['.']
  | j :: l => ',' :: (code j ++ codeList l)
def codeFields : List (String × JVal Rat) → List Char
  | [] => ['.']
  | (k, j) :: l => ',' :: (codeStr k ++ (code j ++ codeFields l))
end

mutual
theorem code_inj : ∀ (j j' : JVal Rat) (r r' : List Char), code j ++ r = code j' ++ r' → j = j' ∧ r = r'
  | .null, j', r, r', h => by cases j' <;> simp_all [code]
  | .bool b, j', r, r', h => by
    cases j' <;> simp [code] at h
    case bool b' =>
      obtain ⟨h1, h2⟩ := h
      refine ⟨?_, h2⟩
      cases b <;> cases b' <;> simp_all
  | .int i, j', r, r', h => by
    cases j' <;> simp [code] at h
    case int k =>
      obtain ⟨h1, h2⟩ := codeInt_inj i k r r' h
      exact ⟨by rw [h1], h2⟩
  | .num x, j', r, r', h => by
    cases j' <;> simp [code] at h
    case num y =>
      obtain ⟨h1, h2⟩ := codeRat_inj x y r r' h
      exact ⟨by rw [h1], h2⟩
  | .str s, j', r, r', h => by
    cases j' <;> simp [code] at h
    case str t =>
      obtain ⟨h1, h2⟩ := codeStr_inj s t r r' h
      exact ⟨by rw [h1], h2⟩
  | .arr l, j', r, r', h => by
    cases j' <;> simp [code] at h
    case arr l' =>
      obtain ⟨h1, h2⟩ := codeList_inj l l' r r' h
      exact ⟨by rw [h1], h2⟩
  | .obj fs, j', r, r', h => by
    cases j' <;> simp [code] at h
    case obj fs' =>
      obtain ⟨h1, h2⟩ := codeFields_inj fs fs' r r' h
      exact ⟨by rw [h1], h2⟩
theorem codeList_inj : ∀ (l l' : List (JVal Rat)) (r r' : List Char), codeList l ++ r = codeList l' ++ r' → l = l' ∧ r = r'
  | [], l', r, r', h => by cases l' <;> simp_all [codeList]
  | j :: l, l', r, r', h => by
    cases l' with
    | nil => simp [codeList] at h
    | cons j' l' =>
      simp only [codeList, List.cons_append, List.cons.injEq, true_and, List.append_assoc] at h
      obtain ⟨h1, h2⟩ := code_inj j j' _ _ h
      obtain ⟨h3, h4⟩ := codeList_inj l l' r r' h2
      exact ⟨by rw [h1, h3], h4⟩
theorem codeFields_inj : ∀ (l l' : List (String × JVal Rat)) (r r' : List Char), codeFields l ++ r = codeFields l' ++ r' →
    l = l' ∧ r = r'
  | [], l', r, r', h => by
    cases l' with
    | nil => simpa [codeFields] using h
    | cons kv l' => obtain ⟨k, j⟩ := kv; simp [codeFields] at h
  | (k, j) :: l, l', r, r', h => by
    cases l' with
    | nil => simp [codeFields] at h
    | cons kv l' =>
      obtain ⟨k', j'⟩ := kv
      simp only [codeFields, List.cons_append, List.cons.injEq, true_and, List.append_assoc] at h
      obtain ⟨h0, h1⟩ := codeStr_inj k k' _ _ h
      obtain ⟨h2, h3⟩ := code_inj j j' _ _ h1
      obtain ⟨h4, h5⟩ := codeFields_inj l l' r r' h3
      exact ⟨by rw [h0, h2, h4], h5⟩
end

theorem code_injective (j j' : JVal Rat) (h : code j = code j') : j = j' :=
  (code_inj j j' [] [] (by simpa using h)).1

/-- a JSON text layer over `Rat` that reads back what it wrote -/
noncomputable def exJsonText : JsonText Rat where
  dumps j := String.ofList (code j)
  loads s := open Classical in if h : ∃ j, String.ofList (code j) = s then some (Classical.choose h) else none
  loads_dumps j _ := by
    have h : ∃ j', String.ofList (code j') = String.ofList (code j) := ⟨j, rfl⟩
    simp only [h, dite_true, Option.some.injEq]
    have := Classical.choose_spec h
    exact code_injective _ _ (by simpa using congrArg String.toList this)

end Frappy.Lemmas.C02
