import FrappyProofs.Lemmas.Config
import FrappyProofs.Lemmas.ConfigDsl
/- helper lemmas for C10: attached-module properties (the init phase of the node) -/
namespace Frappy.Lemmas.ConfigAttach
open Frappy.Config Frappy.Spec.C10 Frappy.Lemmas.Config Frappy.Lemmas.ConfigDsl

variable {DT Val : Type}

/-! ## the value a module property ends up with -/

/-- a property without cfg entry ends up with its class value (if any) -/
theorem modProps_absent_value (cfg : Cfg Val) (d : ModPropDesc Val)
    (habs : applyModProp d (lookup d.name cfg) = .absent) :
    ∀ (ds : List (ModPropDesc Val)) (acc : ModPropsOut Val), acc.raised = false →
      (ds.foldl (modPropStep cfg) acc).raised = false → (ds.map (·.name)).Nodup → d ∈ ds →
      lookup d.name acc.values = none →
      lookup d.name (ds.foldl (modPropStep cfg) acc).values = d.classValue := by
  intro ds
  induction ds with
  | nil => intro _ _ _ _ hd; cases hd
  | cons x ds ih =>
    intro acc hacc hr hnd hd hnone
    simp only [List.foldl_cons] at hr ⊢
    simp only [List.map_cons, List.nodup_cons] at hnd
    have hxr : (modPropStep cfg acc x).raised = false := by
      cases hx : (modPropStep cfg acc x).raised with
      | false => rfl
      | true => rw [modProps_raised cfg ds _ hx] at hr; cases hr
    rcases List.mem_cons.1 hd with rfl | hin
    · cases hcv : d.classValue with
      | some v =>
        apply modProps_keep
        simp only [modPropStep, hacc, Bool.false_eq_true, ↓reduceIte, habs, hcv]
        exact lookup_append_self _ _ _ hnone
      | none =>
        apply modProps_no_value cfg d.name ds
        · simp only [modPropStep, hacc, Bool.false_eq_true, ↓reduceIte, habs, hcv]
          exact hnone
        · intro d' hd' hn'
          exact absurd (by rw [← hn']; exact List.mem_map_of_mem hd') hnd.1
    · have hne : x.name ≠ d.name := by
        intro he; exact hnd.1 (by rw [he]; exact List.mem_map_of_mem hin)
      apply ih _ hxr hr hnd.2 hin
      unfold modPropStep
      simp only [hacc, Bool.false_eq_true, ↓reduceIte]
      split
      · split
        · simp only; rw [lookup_append_none]; exact ⟨hnone, hne⟩
        · exact hnone
      · simp only; rw [lookup_append_none]; exact ⟨hnone, hne⟩
      · split
        · simp only; rw [lookup_append_none]; exact ⟨hnone, hne⟩
        · exact hnone
      · exact hnone

theorem find?_name {α : Type} (f : α → Name) (n : Name) : ∀ (l : List α) (a : α),
    l.find? (fun x => f x == n) = some a → a ∈ l ∧ f a = n := by
  intro l a h
  exact ⟨List.mem_of_find?_eq_some h, by simpa using List.find?_some h⟩

theorem find?_name_none {α : Type} (f : α → Name) (n : Name) : ∀ (l : List α),
    l.find? (fun x => f x == n) = none → ∀ a ∈ l, f a ≠ n := by
  intro l h a ha
  rw [List.find?_eq_none] at h
  simpa using h a ha

/-- in a list with distinct names, looking for the name of an element finds that element -/
theorem find?_of_nodup {α : Type} (f : α → Name) : ∀ (l : List α), (l.map f).Nodup → ∀ a ∈ l,
    l.find? (fun x => f x == f a) = some a := by
  intro l hnd a ha
  cases hf : l.find? (fun x => f x == f a) with
  | none => exact absurd rfl (find?_name_none f (f a) l hf a ha)
  | some b =>
    obtain ⟨hb, hn⟩ := find?_name f (f a) l b hf
    rw [name_determines f l hnd b hb a ha hn]

/-- the module name an accepted instance holds for an attached-module property is the one the configuration gives
(configured value converted by the property's datatype, else the class value) -/
theorem att_link (ops : Ops DT Val) (nameOf : Val → Option Name) (m : ModDecl DT Val) (i : Instance DT Val)
    (wf : WellFormed m.cls) (h : applyConfig ops m.cls m.cfg = .ok i) (d : AttDecl) :
    attTarget nameOf i d = attGiven nameOf m d := by
  have acc := accepted_of_ok ops m.cls m.cfg i h
  unfold attTarget attGiven
  rw [acc.inst]
  cases hfind : m.cls.modProps.find? (fun pd => pd.name == d.prop) with
  | none =>
    have hne := find?_name_none (fun pd : ModPropDesc Val => pd.name) d.prop _ hfind
    have : lookup d.prop (applyModProps m.cls.modProps m.cfg).values = none := by
      apply modProps_no_value m.cfg d.prop m.cls.modProps ⟨[], [], false⟩ rfl
      intro d' hd' hn; exact absurd hn (hne d' hd')
    simp [this]
  | some pd =>
    obtain ⟨hpd, hname⟩ := find?_name (fun pd : ModPropDesc Val => pd.name) d.prop _ pd hfind
    have hok := ((modProps_ok m.cfg m.cls.modProps ⟨[], [], false⟩ rfl acc.mpRaised acc.mpErrs).2 pd hpd).2
    have hset : ∀ v', applyModProp pd (lookup pd.name m.cfg) = .set v' →
        lookup d.prop (applyModProps m.cls.modProps m.cfg).values = some v' := by
      intro v' hs
      rw [← hname]
      exact modProps_value m.cfg pd v' hs m.cls.modProps ⟨[], [], false⟩ rfl acc.mpRaised wf.propNames hpd rfl
    -- what `validate` says decides between `.set` and `.bad`
    have hval : ∀ v, (applyModProp pd (lookup pd.name m.cfg) = match pd.validate v with | some v' => .set v' | none => .bad) →
        (lookup d.prop (applyModProps m.cls.modProps m.cfg).values).bind nameOf = (pd.validate v).bind nameOf := by
      intro v hap
      cases hv : pd.validate v with
      | none => rw [hv] at hap; rw [hap] at hok; rcases hok with h1 | ⟨_, h1⟩ <;> cases h1
      | some v' => rw [hv] at hap; rw [hset v' hap]
    simp only
    cases hl : lookup pd.name m.cfg with
    | none =>
      have habs : applyModProp pd (lookup pd.name m.cfg) = .absent := by rw [hl]; rfl
      have := modProps_absent_value m.cfg pd habs m.cls.modProps ⟨[], [], false⟩ rfl acc.mpRaised wf.propNames hpd rfl
      rw [hname] at this
      simp only [propGiven, hl]
      rw [show lookup d.prop (applyModProps m.cls.modProps m.cfg).values = pd.classValue from this]
    | some e =>
      cases e with
      | prop pc =>
        cases pc with
        | bare v => simp only [propGiven, hl]; exact hval v (by rw [hl]; rfl)
        | dict ov =>
          cases ov with
          | none => rw [hl] at hok; rcases hok with h1 | ⟨_, h1⟩ <;> cases h1
          | some v => simp only [propGiven, hl]; exact hval v (by rw [hl]; rfl)
      | acc items =>
        cases hv : lookup "value" items with
        | none => rw [hl] at hok; simp only [applyModProp, hv] at hok; rcases hok with h1 | ⟨_, h1⟩ <;> cases h1
        | some v =>
          simp only [propGiven, hl, hv]
          exact hval v (by rw [hl]; simp only [applyModProp, hv]; cases pd.validate v <;> rfl)

/-! ## the init phase: invariants -/

/-- every attachment which the instance of module `x` names is resolved: the attached module is of the kind asked
for and is recorded as the attribute -/
def Resolved (env : InitEnv DT Val) (st : InitState) (x : Name) : Prop :=
  ∀ i md, lookup x env.node.modules = some i → declOf env x = some md →
    ∀ d ∈ md.attached, ∀ t, attTarget env.nameOf i d = some t →
      hasKind env t d.base = true ∧ (x, d.prop, t) ∈ st.attached

/-- what is recorded as attached is what the instance names -/
def AttSound (env : InitEnv DT Val) (st : InitState) : Prop :=
  ∀ e ∈ st.attached, ∃ i, lookup e.1 env.node.modules = some i ∧
    (lookup e.2.1 i.modProps).bind env.nameOf = some e.2.2

structure Inv (env : InitEnv DT Val) (st : InitState) : Prop where
  res : ∀ x ∈ st.initialized, x ∈ st.errors.map (·.1) ∨ Resolved env st x
  sound : AttSound env st

structure Mono (st st' : InitState) : Prop where
  errs : ∀ x ∈ st.errors.map (·.1), x ∈ st'.errors.map (·.1)
  att : ∀ e ∈ st.attached, e ∈ st'.attached
  ini : ∀ x ∈ st.initialized, x ∈ st'.initialized

theorem Mono.refl (st : InitState) : Mono st st := ⟨fun _ h => h, fun _ h => h, fun _ h => h⟩

theorem Mono.trans {a b c : InitState} (h1 : Mono a b) (h2 : Mono b c) : Mono a c :=
  ⟨fun x h => h2.errs x (h1.errs x h), fun x h => h2.att x (h1.att x h), fun x h => h2.ini x (h1.ini x h)⟩

theorem Resolved.mono {env : InitEnv DT Val} {st st' : InitState} {x : Name}
    (h : ∀ e ∈ st.attached, e ∈ st'.attached) (r : Resolved env st x) : Resolved env st' x :=
  fun i md hi hmd d hd t ht => ⟨(r i md hi hmd d hd t ht).1, h _ (r i md hi hmd d hd t ht).2⟩

/-- `Attached.__get__`, the checks on the module object -/
theorem checkTarget_spec (env : InitEnv DT Val) (m : Name) (d : AttDecl) (t : Name) (st : InitState)
    (i : Instance DT Val) (hi : lookup m env.node.modules = some i) (ht : attTarget env.nameOf i d = some t)
    (inv : Inv env st) :
    Inv env (checkTarget env m d t st).st ∧ Mono st (checkTarget env m d t st).st ∧
    ((checkTarget env m d t st).err = none →
      hasKind env t d.base = true ∧ (m, d.prop, t) ∈ (checkTarget env m d t st).st.attached) := by
  unfold checkTarget
  split
  · exact ⟨inv, Mono.refl _, fun h => by cases h⟩
  · rename_i hk
    split
    · exact ⟨inv, Mono.refl _, fun h => by cases h⟩
    · refine ⟨⟨fun x hx => ?_, fun e he => ?_⟩, ⟨fun _ h => h, fun e he => List.mem_append_left _ he, fun _ h => h⟩,
        fun _ => ⟨by simpa using hk, by simp⟩⟩
      · rcases inv.res x hx with h | h
        · exact Or.inl h
        · exact Or.inr (h.mono (fun e he => List.mem_append_left _ he))
      · rcases List.mem_append.1 he with he | he
        · exact inv.sound e he
        · simp only [List.mem_singleton] at he
          subst he
          exact ⟨i, hi, ht⟩

/-- one `getattr(modobj, pname)` of the loop in `get_module` -/
theorem resolveStep_spec (env : InitEnv DT Val) (initT : InitState → Name → InitState) (stack : List Name) (m : Name)
    (i : Instance DT Val) (hi : lookup m env.node.modules = some i)
    (H : ∀ st t, Inv env st → Inv env (initT st t) ∧ Mono st (initT st t))
    (acc : Loop) (d : AttDecl) (inv : Inv env acc.st) :
    Inv env (resolveStep env initT stack m i acc d).st ∧ Mono acc.st (resolveStep env initT stack m i acc d).st ∧
    (acc.err.isSome = true → resolveStep env initT stack m i acc d = acc) ∧
    ((resolveStep env initT stack m i acc d).err = none → ∀ t, attTarget env.nameOf i d = some t →
      hasKind env t d.base = true ∧ (m, d.prop, t) ∈ (resolveStep env initT stack m i acc d).st.attached) := by
  unfold resolveStep
  split
  · rename_i he
    refine ⟨inv, Mono.refl _, fun _ => rfl, fun hn => ?_⟩
    rw [hn] at he; cases he
  · rename_i he
    have hne : acc.err.isSome = true → False := fun h => he h
    cases ht : attTarget env.nameOf i d with
    | none => exact ⟨inv, Mono.refl _, fun h => absurd h he, fun _ t h => by cases h⟩
    | some t =>
      simp only
      split
      · exact ⟨inv, Mono.refl _, fun h => (hne h).elim, fun h => by cases h⟩
      · split
        · refine ⟨⟨inv.res, inv.sound⟩, ⟨fun _ h => h, fun _ h => h, fun _ h => h⟩, fun h => (hne h).elim, fun h => by cases h⟩
        · split
          · obtain ⟨h1, h2, h3⟩ := checkTarget_spec env m d t acc.st i hi ht inv
            exact ⟨h1, h2, fun h => (hne h).elim, fun hn t' ht' => by cases ht'; exact h3 hn⟩
          · split
            · exact ⟨inv, Mono.refl _, fun h => (hne h).elim, fun h => by cases h⟩
            · obtain ⟨i1, m1⟩ := H acc.st t inv
              obtain ⟨h1, h2, h3⟩ := checkTarget_spec env m d t (initT acc.st t) i hi ht i1
              exact ⟨h1, m1.trans h2, fun h => (hne h).elim, fun hn t' ht' => by cases ht'; exact h3 hn⟩

/-- the loop over the attached-module properties of one module -/
theorem resolveAll_spec (env : InitEnv DT Val) (initT : InitState → Name → InitState) (stack : List Name) (m : Name)
    (i : Instance DT Val) (hi : lookup m env.node.modules = some i)
    (H : ∀ st t, Inv env st → Inv env (initT st t) ∧ Mono st (initT st t)) :
    ∀ (ds : List AttDecl) (acc : Loop), Inv env acc.st →
      Inv env (ds.foldl (resolveStep env initT stack m i) acc).st ∧
      Mono acc.st (ds.foldl (resolveStep env initT stack m i) acc).st ∧
      ((ds.foldl (resolveStep env initT stack m i) acc).err = none → acc.err = none ∧
        ∀ d ∈ ds, ∀ t, attTarget env.nameOf i d = some t →
          hasKind env t d.base = true ∧ (m, d.prop, t) ∈ (ds.foldl (resolveStep env initT stack m i) acc).st.attached) := by
  intro ds
  induction ds with
  | nil => intro acc inv; exact ⟨inv, Mono.refl _, fun h => ⟨h, fun d hd => by cases hd⟩⟩
  | cons d ds ih =>
    intro acc inv
    simp only [List.foldl_cons]
    obtain ⟨s1, s2, s3, s4⟩ := resolveStep_spec env initT stack m i hi H acc d inv
    obtain ⟨r1, r2, r3⟩ := ih _ s1
    refine ⟨r1, s2.trans r2, fun hn => ?_⟩
    obtain ⟨h1, h2⟩ := r3 hn
    have hacc : acc.err = none := by
      cases he : acc.err with
      | none => rfl
      | some e =>
        have := s3 (by rw [he]; rfl)
        rw [this, he] at h1; cases h1
    refine ⟨hacc, fun d' hd' t ht => ?_⟩
    rcases List.mem_cons.1 hd' with rfl | hin
    · obtain ⟨k, a⟩ := s4 h1 t ht
      exact ⟨k, r2.att _ a⟩
    · exact h2 d' hin t ht

/-- end of `get_module` -/
theorem finishInit_spec (env : InitEnv DT Val) (m : Name) (r : Loop) (inv : Inv env r.st)
    (hres : r.err = none → Resolved env r.st m) :
    Inv env (finishInit m r) ∧ Mono r.st (finishInit m r) ∧ m ∈ (finishInit m r).initialized := by
  unfold finishInit
  cases he : r.err with
  | none =>
    refine ⟨⟨fun x hx => ?_, inv.sound⟩, ⟨fun _ h => h, fun _ h => h, fun _ h => List.mem_append_left _ h⟩, by simp⟩
    rcases List.mem_append.1 hx with hx | hx
    · exact inv.res x hx
    · simp only [List.mem_singleton] at hx; subst hx; exact Or.inr (hres he)
  | some e =>
    refine ⟨⟨fun x hx => ?_, inv.sound⟩,
      ⟨fun x h => by simp only [List.map_append, List.mem_append]; exact Or.inl h, fun _ h => h,
       fun _ h => List.mem_append_left _ h⟩, by simp⟩
    rcases List.mem_append.1 hx with hx | hx
    · rcases inv.res x hx with h | h
      · left; simp only [List.map_append, List.mem_append]; exact Or.inl h
      · exact Or.inr h
    · simp only [List.mem_singleton] at hx; subst hx
      left; simp

/-- `SecNode.get_module`, for every fuel -/
theorem initMod_spec (env : InitEnv DT Val) : ∀ (fuel : Nat) (stack : List Name) (st : InitState) (m : Name),
    Inv env st →
    Inv env (initMod env fuel stack st m) ∧ Mono st (initMod env fuel stack st m) ∧
    ((lookup m env.node.modules).isSome = true → (declOf env m).isSome = true →
      m ∈ (initMod env fuel stack st m).initialized) := by
  intro fuel
  induction fuel with
  | zero =>
    intro stack st m inv
    simp only [initMod]
    obtain ⟨h1, h2, h3⟩ := finishInit_spec env m ⟨st, some .fuel⟩ inv (fun h => by cases h)
    exact ⟨h1, h2, fun _ _ => h3⟩
  | succ fuel ih =>
    intro stack st m inv
    simp only [initMod]
    cases hi : lookup m env.node.modules with
    | none => exact ⟨inv, Mono.refl _, fun h => by cases h⟩
    | some i =>
      cases hmd : declOf env m with
      | none => exact ⟨inv, Mono.refl _, fun _ h => by cases h⟩
      | some md =>
        simp only
        have H : ∀ st' t, Inv env st' →
            Inv env (initMod env fuel (m :: stack) st' t) ∧ Mono st' (initMod env fuel (m :: stack) st' t) :=
          fun st' t inv' => ⟨(ih (m :: stack) st' t inv').1, (ih (m :: stack) st' t inv').2.1⟩
        obtain ⟨r1, r2, r3⟩ := resolveAll_spec env _ (m :: stack) m i hi H md.attached ⟨st, none⟩ inv
        obtain ⟨f1, f2, f3⟩ := finishInit_spec env m _ r1 (fun hn i' md' hi' hmd' d hd t ht => by
          rw [hi] at hi'; rw [hmd] at hmd'; cases hi'; cases hmd'
          exact (r3 hn).2 d hd t ht)
        exact ⟨f1, r2.trans f2, fun _ _ => f3⟩

theorem lookup_isSome_of_mem {α : Type} (k : Name) (v : α) : ∀ (l : List (Name × α)), (k, v) ∈ l → (lookup k l).isSome = true := by
  intro l
  induction l with
  | nil => intro h; cases h
  | cons x l ih =>
    intro h
    simp only [lookup]
    split
    · rfl
    · rename_i hx
      rcases List.mem_cons.1 h with rfl | h'
      · exact absurd rfl hx
      · exact ih h'

/-- `create_modules`, second loop: every registered module (which the node configuration declares) ends up
initialised, and the invariant holds at the end -/
theorem initNode_spec (env : InitEnv DT Val) :
    Inv env (initNode env) ∧
    ∀ kv ∈ env.node.modules, (declOf env kv.1).isSome = true → kv.1 ∈ (initNode env).initialized := by
  have key : ∀ (l : List (Name × Instance DT Val)) (st : InitState), Inv env st →
      (∀ kv ∈ l, (lookup kv.1 env.node.modules).isSome = true) →
      Inv env (l.foldl (initTop env) st) ∧ Mono st (l.foldl (initTop env) st) ∧
      ∀ kv ∈ l, (declOf env kv.1).isSome = true → kv.1 ∈ (l.foldl (initTop env) st).initialized := by
    intro l
    induction l with
    | nil => intro st inv _; exact ⟨inv, Mono.refl _, fun kv h => by cases h⟩
    | cons x l ih =>
      intro st inv hreg
      simp only [List.foldl_cons]
      have hx : Inv env (initTop env st x) ∧ Mono st (initTop env st x) ∧
          ((declOf env x.1).isSome = true → x.1 ∈ (initTop env st x).initialized) := by
        unfold initTop
        split
        · rename_i hc
          exact ⟨inv, Mono.refl _, fun _ => by simpa using hc⟩
        · obtain ⟨a, b, c⟩ := initMod_spec env (env.node.modules.length + 1) [] st x.1 inv
          exact ⟨a, b, fun hd => c (hreg x List.mem_cons_self) hd⟩
      obtain ⟨r1, r2, r3⟩ := ih _ hx.1 (fun kv hkv => hreg kv (List.mem_cons_of_mem _ hkv))
      refine ⟨r1, hx.2.1.trans r2, fun kv hkv hd => ?_⟩
      rcases List.mem_cons.1 hkv with rfl | hin
      · exact r2.ini _ (hx.2.2 hd)
      · exact r3 kv hin hd
  have inv0 : Inv env (⟨[], [], [], [], []⟩ : InitState) :=
    ⟨fun x hx => (by cases hx), fun e he => (by cases he)⟩
  obtain ⟨a, _, c⟩ := key env.node.modules _ inv0 (fun kv hkv => lookup_isSome_of_mem kv.1 kv.2 _ hkv)
  exact ⟨a, c⟩

/-! ## what `create_modules` registers -/

theorem lookup_mem {α : Type} (k : Name) (v : α) : ∀ (l : List (Name × α)), lookup k l = some v → (k, v) ∈ l := by
  intro l
  induction l with
  | nil => intro h; cases h
  | cons x l ih =>
    intro h
    simp only [lookup] at h
    split at h
    · rename_i hx; cases h; rw [← hx]; exact List.mem_cons_self
    · exact List.mem_cons_of_mem _ (ih h)

/-- a registered module was constructed from one of the configured modules, without error -/
theorem createNode_sound (ops : Ops DT Val) : ∀ (mods : List (Name × ClassDesc DT Val × Cfg Val)) (acc : NodeOut DT Val)
    (x : Name) (i : Instance DT Val), (x, i) ∈ (mods.foldl (createStep ops) acc).modules →
    (x, i) ∈ acc.modules ∨ ∃ m ∈ mods, m.1 = x ∧ applyConfig ops m.2.1 m.2.2 = .ok i := by
  intro mods
  induction mods with
  | nil => intro acc x i h; exact Or.inl h
  | cons m0 rest ih =>
    intro acc x i h
    simp only [List.foldl_cons] at h
    rcases ih _ x i h with h' | ⟨m, hm, h1, h2⟩
    · unfold createStep at h'
      split at h'
      · exact Or.inl h'
      · split at h'
        · rename_i i0 hok
          rcases List.mem_append.1 h' with h'' | h''
          · exact Or.inl h''
          · simp only [List.mem_singleton, Prod.mk.injEq] at h''
            exact Or.inr ⟨m0, List.mem_cons_self, h''.1.symm, by rw [hok, h''.2]⟩
        · exact Or.inl h'
    · exact Or.inr ⟨m, List.mem_cons_of_mem _ hm, h1, h2⟩

/-- `isinstance` holds only for a module of the node which is of that kind -/
theorem targetOk_of_hasKind (env : InitEnv DT Val) (d : AttDecl) (t : Name) (h : hasKind env t d.base = true) :
    targetOk env.mods d t = true := by
  unfold hasKind at h
  cases hd : declOf env t with
  | none => rw [hd] at h; cases h
  | some md =>
    rw [hd] at h
    obtain ⟨hmem, hn⟩ := find?_name (fun x : ModDecl DT Val => x.name) t env.mods md hd
    unfold targetOk
    rw [List.any_eq_true]
    simp only at h
    exact ⟨md, hmem, by simp only [hn, beq_self_eq_true, Bool.true_and]; exact h⟩

/-- the attribute of a started node: the first (and, by `AttSound`, only) target recorded for the property -/
theorem attachedOf_eq (env : InitEnv DT Val) (st : InitState) (sound : AttSound env st) (m prop t : Name)
    (i : Instance DT Val) (hi : lookup m env.node.modules = some i)
    (ht : (lookup prop i.modProps).bind env.nameOf = some t) (hmem : (m, prop, t) ∈ st.attached) :
    (st.attached.find? (fun e => e.1 == m && e.2.1 == prop)).map (·.2.2) = some t := by
  cases hf : st.attached.find? (fun e => e.1 == m && e.2.1 == prop) with
  | none =>
    rw [List.find?_eq_none] at hf
    have := hf _ hmem
    simp at this
  | some e =>
    have he := List.mem_of_find?_eq_some hf
    have hp := List.find?_some hf
    simp only [Bool.and_eq_true, beq_iff_eq] at hp
    obtain ⟨i', hi', ht'⟩ := sound e he
    rw [hp.1, hi] at hi'
    cases hi'
    rw [hp.2, ht] at ht'
    simp only [Option.map_some, Option.some.injEq]
    cases ht'; rfl

/-! ## the fuel of `initMod` is never used up -/

theorem nodup_subset_length : ∀ (l l' : List Name), l.Nodup → (∀ x ∈ l, x ∈ l') → l.length ≤ l'.length := by
  intro l
  induction l with
  | nil => intro l' _ _; simp
  | cons a l ih =>
    intro l' hnd hsub
    simp only [List.nodup_cons] at hnd
    have ha : a ∈ l' := hsub a List.mem_cons_self
    have h1 := ih (l'.erase a) hnd.2 (fun x hx => by
      have hne : x ≠ a := fun he => hnd.1 (he ▸ hx)
      exact (List.mem_erase_of_ne hne).2 (hsub x (List.mem_cons_of_mem _ hx)))
    have h2 := List.length_erase_of_mem ha
    have h3 : 0 < l'.length := List.length_pos_of_mem ha
    simp only [List.length_cons]
    omega

theorem mem_names_of_lookup {α : Type} (k : Name) (l : List (Name × α)) (h : (lookup k l).isSome = true) :
    k ∈ l.map (·.1) := by
  cases hl : lookup k l with
  | none => rw [hl] at h; cases h
  | some v => exact List.mem_map_of_mem (f := (·.1)) (lookup_mem k v l hl)

def NoFuel (st : InitState) : Prop := ∀ e ∈ st.errors, e.2 ≠ InitErr.fuel

theorem checkTarget_nofuel (env : InitEnv DT Val) (m : Name) (d : AttDecl) (t : Name) (st : InitState) (h : NoFuel st) :
    NoFuel (checkTarget env m d t st).st ∧ (checkTarget env m d t st).err ≠ some .fuel := by
  unfold checkTarget
  split
  · exact ⟨h, by simp⟩
  · split
    · exact ⟨h, by simp⟩
    · exact ⟨h, by simp⟩

theorem resolveStep_nofuel (env : InitEnv DT Val) (initT : InitState → Name → InitState) (stack : List Name) (m : Name)
    (i : Instance DT Val)
    (H : ∀ st t, NoFuel st → (lookup t env.node.modules).isSome = true → t ∉ stack → NoFuel (initT st t))
    (acc : Loop) (d : AttDecl) (h : NoFuel acc.st) (he : acc.err ≠ some .fuel) :
    NoFuel (resolveStep env initT stack m i acc d).st ∧ (resolveStep env initT stack m i acc d).err ≠ some .fuel := by
  unfold resolveStep
  split
  · exact ⟨h, he⟩
  · cases attTarget env.nameOf i d with
    | none => exact ⟨h, he⟩
    | some t =>
      simp only
      split
      · exact ⟨h, by simp⟩
      · cases hl : lookup t env.node.modules with
        | none => exact ⟨h, by simp⟩
        | some i' =>
          simp only
          split
          · exact checkTarget_nofuel env m d t acc.st h
          · split
            · exact ⟨h, by simp⟩
            · rename_i hc
              exact checkTarget_nofuel env m d t _ (H acc.st t h (by rw [hl]; rfl) (by simpa using hc))

theorem resolveAll_nofuel (env : InitEnv DT Val) (initT : InitState → Name → InitState) (stack : List Name) (m : Name)
    (i : Instance DT Val)
    (H : ∀ st t, NoFuel st → (lookup t env.node.modules).isSome = true → t ∉ stack → NoFuel (initT st t)) :
    ∀ (ds : List AttDecl) (acc : Loop), NoFuel acc.st → acc.err ≠ some .fuel →
      NoFuel (ds.foldl (resolveStep env initT stack m i) acc).st ∧
      (ds.foldl (resolveStep env initT stack m i) acc).err ≠ some .fuel := by
  intro ds
  induction ds with
  | nil => intro acc h he; exact ⟨h, he⟩
  | cons d ds ih =>
    intro acc h he
    simp only [List.foldl_cons]
    obtain ⟨a, b⟩ := resolveStep_nofuel env initT stack m i H acc d h he
    exact ih _ a b

theorem finishInit_nofuel (m : Name) (r : Loop) (h : NoFuel r.st) (he : r.err ≠ some .fuel) : NoFuel (finishInit m r) := by
  unfold finishInit
  cases hr : r.err with
  | none => exact h
  | some e =>
    intro x hx
    simp only [List.mem_append, List.mem_singleton] at hx
    rcases hx with hx | rfl
    · exact h x hx
    · intro hf; simp only at hf; rw [hr, hf] at he; exact he rfl

/-- with `stack.length + fuel` above the number of registered modules the fuel is not what ends an initialisation: the
stack of modules being initialised holds distinct registered modules -/
theorem initMod_nofuel (env : InitEnv DT Val) : ∀ (fuel : Nat) (stack : List Name) (st : InitState) (m : Name),
    NoFuel st → stack.Nodup → (∀ x ∈ stack, (lookup x env.node.modules).isSome = true) → m ∉ stack →
    (lookup m env.node.modules).isSome = true → env.node.modules.length + 1 ≤ stack.length + fuel →
    NoFuel (initMod env fuel stack st m) := by
  intro fuel
  induction fuel with
  | zero =>
    intro stack st m _ hnd hreg hm hmr hlen
    exfalso
    have := nodup_subset_length (m :: stack) (env.node.modules.map (·.1)) (List.nodup_cons.2 ⟨hm, hnd⟩) (fun x hx => by
      rcases List.mem_cons.1 hx with rfl | hx
      · exact mem_names_of_lookup _ _ hmr
      · exact mem_names_of_lookup _ _ (hreg x hx))
    simp only [List.length_cons, List.length_map] at this
    omega
  | succ fuel ih =>
    intro stack st m h hnd hreg hm hmr hlen
    simp only [initMod]
    cases hi : lookup m env.node.modules with
    | none => exact h
    | some i =>
      cases hmd : declOf env m with
      | none => exact h
      | some md =>
        simp only
        have H : ∀ st' t, NoFuel st' → (lookup t env.node.modules).isSome = true → t ∉ (m :: stack) →
            NoFuel (initMod env fuel (m :: stack) st' t) := by
          intro st' t h' ht hnot
          apply ih (m :: stack) st' t h' (List.nodup_cons.2 ⟨hm, hnd⟩) _ hnot ht
          · simp only [List.length_cons]; omega
          · intro x hx
            rcases List.mem_cons.1 hx with rfl | hx
            · exact hmr
            · exact hreg x hx
        obtain ⟨a, b⟩ := resolveAll_nofuel env _ (m :: stack) m i H md.attached ⟨st, none⟩ h (by simp)
        exact finishInit_nofuel m _ a b

/-- `create_modules`: the bound on the depth of `get_module` calls built into the model is never reached -/
theorem initNode_nofuel (env : InitEnv DT Val) : NoFuel (initNode env) := by
  have key : ∀ (l : List (Name × Instance DT Val)) (st : InitState), NoFuel st →
      (∀ kv ∈ l, (lookup kv.1 env.node.modules).isSome = true) → NoFuel (l.foldl (initTop env) st) := by
    intro l
    induction l with
    | nil => intro st h _; exact h
    | cons x l ih =>
      intro st h hreg
      simp only [List.foldl_cons]
      apply ih _ _ (fun kv hkv => hreg kv (List.mem_cons_of_mem _ hkv))
      unfold initTop
      split
      · exact h
      · exact initMod_nofuel env _ [] st x.1 h List.nodup_nil (fun _ hx => by cases hx) (by simp)
          (hreg x List.mem_cons_self) (by simp)
  exact key _ _ (fun e he => by cases he) (fun kv hkv => lookup_isSome_of_mem kv.1 kv.2 _ hkv)

end Frappy.Lemmas.ConfigAttach
