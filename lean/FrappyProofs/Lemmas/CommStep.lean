import FrappyProofs.Lemmas.Comm
/- helper lemmas for C16: facts about single steps of the transaction model (one pass over all arms each) -/
open Frappy.Spec.C16
namespace Frappy.Comm

@[simp] theorem setC_same (s : State) (c : Nat) (k : Caller) : (s.setC c k).callers c = k := by simp [State.setC]
@[simp] theorem setC_other (s : State) (c x : Nat) (k : Caller) (h : x ≠ c) : (s.setC c k).callers x = s.callers x := by
  simp [State.setC, h]
@[simp] theorem setC_owner (s : State) (c : Nat) (k : Caller) : (s.setC c k).owner = s.owner := rfl
@[simp] theorem setC_depth (s : State) (c : Nat) (k : Caller) : (s.setC c k).depth = s.depth := rfl
@[simp] theorem acquire_callers (s : State) (c : Nat) : (s.acquire c).callers = s.callers := rfl
@[simp] theorem release_callers (s : State) : s.release.callers = s.callers := rfl
@[simp] theorem acquire_owner (s : State) (c : Nat) : (s.acquire c).owner = some c := rfl
@[simp] theorem acquire_depth (s : State) (c : Nat) : (s.acquire c).depth = s.depth + 1 := rfl
@[simp] theorem release_owner (s : State) : s.release.owner = if s.depth ≤ 1 then none else s.owner := rfl
@[simp] theorem release_depth (s : State) : s.release.depth = s.depth - 1 := rfl
@[simp] theorem failTo_held (k : Caller) : (failTo k).held = k.held := rfl
@[simp] theorem nextReq_held (k : Caller) : (nextReq k).held = k.held := by unfold nextReq; split <;> rfl
@[simp] theorem afterConnected_held (k : Caller) : (afterConnected k).held = k.held := rfl
@[simp] theorem toFlush_held (s : State) (k : Caller) : (toFlush s k).held = k.held := by unfold toFlush; split <;> simp

inductive LockShape (s s' : State) (c : Nat) (e : Ev) : Prop
  | acq : (∃ x, e = .acq x) → s.freeFor c = true → s'.owner = some c → s'.depth = s.depth + 1 →
      (s'.callers c).held = (s.callers c).held + 1 → LockShape s s' c e
  | rel : (∃ x, e = .rel x) → s.owner = some c → s'.owner = (if s.depth ≤ 1 then none else s.owner) →
      s'.depth = s.depth - 1 → (s'.callers c).held = (s.callers c).held - 1 → LockShape s s' c e
  | keep : (∀ x, e ≠ .acq x) → (∀ x, e ≠ .rel x) → s'.owner = s.owner → s'.depth = s.depth →
      (s'.callers c).held = (s.callers c).held → LockShape s s' c e

set_option hygiene false in
/-- enumerate the accepted arms of `stepCaller s t c e = some s'` (hypothesis `h`), leaving `s'` substituted -/
macro "step_arms" : tactic => `(tactic| (
  cases hpc : (s.callers c).pc <;> cases e <;> simp only [stepCaller, hpc] at h <;> try (simp at h)
  all_goals (try (simp only [doAcqI, staleUpdate] at h))
  all_goals (repeat' (split at h))
  all_goals (try (simp at h; done))
  all_goals (try (simp only [Option.some.injEq] at h))
  all_goals (try (obtain ⟨hg, h⟩ := h))
  all_goals (try subst h)))

set_option maxHeartbeats 4000000 in
theorem step_lock (s s' : State) (t c : Nat) (e : Ev) (h : stepCaller s t c e = some s') : LockShape s s' c e := by
  step_arms
  all_goals (first
    | (apply LockShape.keep <;> simp <;> done)
    | (apply LockShape.acq <;> simp_all <;> done)
    | (apply LockShape.rel <;> simp_all <;> done))

set_option maxHeartbeats 4000000 in
theorem step_others (s s' : State) (t c : Nat) (e : Ev) (h : stepCaller s t c e = some s') (x : Nat) (hx : x ≠ c) :
    s'.callers x = s.callers x := by
  step_arms
  all_goals (simp [hx])

def base (k : Kind) : Nat := if k = .multi then 1 else 0

def heldOk (k : Caller) : Prop :=
  match k.pc with
  | .idle | .done => k.held = 0
  | .acqO => k.held = 0 ∧ k.kind = .multi
  | .fail => 0 < k.held
  | .check | .chkNow | .rcheck | .connecting | .visT | .cbs _ | .acqI | .slpD | .wakeD | .relO => k.held = base k.kind
  | .slpWB | .wakeWB | .flush | .drain | .read | .closing | .visF | .relI => k.held = base k.kind + 1

theorem heldOk_failTo (k : Caller) : heldOk (failTo k) := by
  unfold failTo heldOk
  by_cases h : k.held = 0 <;> simp [h]; omega

theorem heldOk_nextReq (k : Caller) (h : k.held = base k.kind) : heldOk (nextReq k) := by
  unfold nextReq
  split
  · by_cases hm : k.kind = .multi <;> simp [heldOk, hm, h, base]
  · simp [heldOk, h]

theorem heldOk_afterConnected (k : Caller) (h : k.held = base k.kind) : heldOk (afterConnected k) := by
  unfold afterConnected
  by_cases hm : k.kind = .poll <;> simp [heldOk, hm, h, base]

theorem heldOk_toFlush (s : State) (k : Caller) (h : k.held = base k.kind + 1) : heldOk (toFlush s k) := by
  unfold toFlush
  split
  · exact heldOk_failTo k
  · simp [heldOk, h]

set_option maxHeartbeats 4000000 in
theorem step_heldOk (s s' : State) (t c : Nat) (e : Ev) (h : stepCaller s t c e = some s')
    (hk : heldOk (s.callers c)) : heldOk (s'.callers c) := by
  step_arms
  all_goals (simp only [heldOk, hpc] at hk)
  all_goals (simp only [setC_same])
  all_goals (first
    | exact heldOk_failTo _
    | (apply heldOk_nextReq; simp_all [base]; done)
    | (apply heldOk_afterConnected; simp_all [base]; done)
    | (apply heldOk_toFlush; simp_all [base]; done)
    | (simp_all [heldOk, base]; done)
    | (simp only [heldOk]; simp only [base] at hk; split at hk <;> omega))

def todoOk (k : Caller) : Prop := k.kind ≠ .multi → k.todo.length ≤ 1

@[simp] theorem failTo_kind (k : Caller) : (failTo k).kind = k.kind := rfl
@[simp] theorem failTo_todo (k : Caller) : (failTo k).todo = k.todo := rfl
@[simp] theorem nextReq_kind (k : Caller) : (nextReq k).kind = k.kind := by unfold nextReq; split <;> rfl
@[simp] theorem nextReq_todo (k : Caller) : (nextReq k).todo = k.todo := by unfold nextReq; split <;> rfl
@[simp] theorem afterConnected_kind (k : Caller) : (afterConnected k).kind = k.kind := rfl
@[simp] theorem afterConnected_todo (k : Caller) : (afterConnected k).todo = k.todo := rfl
@[simp] theorem toFlush_kind (s : State) (k : Caller) : (toFlush s k).kind = k.kind := by unfold toFlush; split <;> simp
@[simp] theorem toFlush_todo (s : State) (k : Caller) : (toFlush s k).todo = k.todo := by unfold toFlush; split <;> simp

set_option maxHeartbeats 4000000 in
theorem step_todoOk (s s' : State) (t c : Nat) (e : Ev) (h : stepCaller s t c e = some s')
    (hk : todoOk (s.callers c)) : todoOk (s'.callers c) := by
  step_arms
  all_goals (simp only [todoOk] at hk ⊢)
  all_goals (try (simp only [setC_same]))
  all_goals (first
    | exact hk
    | exact hg
    | (simpa using hk)
    | (intro hm; have := hk (by simpa using hm); simp; omega)
    | (intro hm; simp at hm ⊢; omega)
    | skip)

set_option maxHeartbeats 4000000 in
/-- a release that gives the lock up completely is the last thing a call does before returning -/
theorem step_rel_done (s s' : State) (t c : Nat) (e : Ev) (h : stepCaller s t c e = some s')
    (hk : heldOk (s.callers c)) (ht : todoOk (s.callers c)) (he : ∃ x, e = .rel x)
    (h0 : (s'.callers c).held = 0) : (s'.callers c).pc = .done := by
  obtain ⟨x, rfl⟩ := he
  cases hpc : (s.callers c).pc <;> simp only [stepCaller, hpc] at h <;> try (simp at h)
  all_goals (repeat' (split at h))
  all_goals (try (simp at h; done))
  all_goals (try (simp only [Option.some.injEq] at h))
  all_goals (try (obtain ⟨hg, h⟩ := h))
  all_goals (try subst h)
  all_goals (simp only [heldOk, hpc] at hk)
  all_goals (simp only [setC_same] at h0 ⊢)
  all_goals (first
    | (simp [failTo] at h0 ⊢; simp [h0]; done)
    | rfl
    | (by_cases hm : (s.callers c).kind = .multi
       · simp [base, hm] at hk; simp [hk] at h0
       · have hl := ht hm
         have htl : (s.callers c).todo.tail = [] := by
           cases hh : (s.callers c).todo with
           | nil => rfl
           | cons a b => simp [hh] at hl; simp [hl]
         first | (simp [nextReq, htl, hm]; done) | simp_all))

set_option maxHeartbeats 4000000 in
/-- from `done` a caller only returns (or lets the read wrapper's late update happen) -/
theorem step_from_done (s s' : State) (t c : Nat) (e : Ev) (h : stepCaller s t c e = some s')
    (hpc : (s.callers c).pc = .done) : (∃ x r, e = .ret x r) ∨ (∃ x v, e = .isconn x v) ∧ (s'.callers c).pc = .done ∧ (s'.callers c).held = (s.callers c).held := by
  cases e <;> simp only [stepCaller, hpc] at h <;> try (simp at h)
  · right
    simp only [staleUpdate] at h
    split at h
    · simp only [Option.some.injEq] at h; subst h; simp [hpc]
    · simp at h
  · left; exact ⟨_, _, rfl⟩

theorem step_call_idle (s s' : State) (t c x : Nat) (kd : Kind) (rq : List Req)
    (h : stepCaller s t c (.call x kd rq) = some s') : (s.callers c).pc = .idle := by
  cases hpc : (s.callers c).pc <;> simp only [stepCaller, hpc] at h <;> first | rfl | (simp at h)

theorem step_ret_idle (s s' : State) (t c x : Nat) (r : Res)
    (h : stepCaller s t c (.ret x r) = some s') : (s'.callers c).pc = .idle ∧ (s'.callers c).held = (s.callers c).held := by
  cases hpc : (s.callers c).pc <;> simp only [stepCaller, hpc] at h <;> try (simp at h)
  all_goals (obtain ⟨_, rfl⟩ := h; simp)

theorem stale_send_pc (s s' : State) (t c conn n : Nat) (d : Bytes)
    (h : stepCaller s t c (.send c conn n d) = some s') : (s.callers c).pc = .drain := by
  cases hpc : (s.callers c).pc <;> simp only [stepCaller, hpc] at h <;> first | rfl | (simp at h)
theorem failTo_pc (k : Caller) : (failTo k).pc ≠ .read ∧ (failTo k).pc ≠ .relI := by
  unfold failTo; split <;> simp

def bufPc (p : Pc) : Bool := match p with | .drain | .read | .closing => true | _ => false

set_option maxHeartbeats 4000000 in
/-- only a caller inside the transaction (or a successful connect) touches connection, buffer and channel -/
theorem step_buf_keep (s s' : State) (t c : Nat) (e : Ev) (h : stepCaller s t c e = some s')
    (hp : bufPc (s.callers c).pc = false) (hc : ∀ x od, e ≠ .connect x true od) :
    s'.conn = s.conn ∧ s'.rxbuf = s.rxbuf ∧ s'.chan = s.chan ∧ s'.eof = s.eof := by
  step_arms
  all_goals (first
    | (simp [bufPc, hpc] at hp; done)
    | (simp [State.setC, State.acquire, State.release]; done)
    | (exfalso; exact hc _ _ rfl)
    | (exfalso; subst_vars; exact hc _ _ rfl)
    | (split <;> simp [State.setC, State.acquire, State.release]; done)
    | skip)

set_option maxHeartbeats 4000000 in
/-- the read loop: what one more event does to buffer and channel -/
theorem step_read (s s' : State) (t c : Nat) (e : Ev) (h : stepCaller s t c e = some s')
    (hp : (s.callers c).pc = .read) :
    s'.conn = s.conn ∧
    ( ((s'.callers c).pc = .read ∧ (s'.rxbuf ++ s'.chan.flatten = s.rxbuf ++ s.chan.flatten) ∧ (∀ x a b d, e ≠ .send x a b d)
        ∧ (∀ x od, e ≠ .connect x true od))
    ∨ ((s'.callers c).pc = .relI ∧ ∃ x l r dd rest, e = .recv x (.data dd) ∧ s.chan = dd :: rest ∧
          complete s.cfg (current (s.callers c)) (s.rxbuf ++ dd) = some (l, r) ∧
          (s'.callers c).replies = (s.callers c).replies ++ [l])
    ∨ ((s'.callers c).pc ≠ .read ∧ (s'.callers c).pc ≠ .relI) ) := by
  cases e <;> simp only [stepCaller, hp] at h <;> try (simp at h)
  all_goals (repeat' (split at h))
  all_goals (try (simp at h; done))
  all_goals (try (simp only [Option.some.injEq] at h))
  all_goals (try (obtain ⟨hg, h⟩ := h))
  all_goals (try subst h)
  all_goals (first
    | (refine ⟨?_, Or.inr (Or.inr ?_)⟩
       · simp [State.setC, State.release]
       · simp only [setC_same]; first | exact failTo_pc _ | (simp; done))
    | (refine ⟨?_, Or.inl ⟨?_, ?_, ?_, ?_⟩⟩ <;> (simp [State.setC, *]; done))
    | (have hd := (‹_ = _ ∧ mayRetry _ _ = true›).1; subst hd; exact ⟨by simp [State.setC], Or.inr (Or.inl ⟨by simp, _, _, _, _, _, rfl, ‹_›, ‹_›, by simp⟩)⟩)
    | skip)

theorem nextReq_pc (k : Caller) : (nextReq k).pc ≠ .read := by unfold nextReq; split <;> (try split) <;> simp
theorem afterConnected_pc (k : Caller) : (afterConnected k).pc ≠ .read := by unfold afterConnected; simp; split <;> simp
theorem toFlush_pc (s : State) (k : Caller) : (toFlush s k).pc ≠ .read := by
  unfold toFlush; split
  · exact (failTo_pc k).1
  · simp

set_option maxHeartbeats 4000000 in
/-- the read loop is entered by a send only -/
theorem step_enter_read (s s' : State) (t c : Nat) (e : Ev) (h : stepCaller s t c e = some s')
    (hp : (s'.callers c).pc = .read) : (s.callers c).pc = .read ∨ ∃ x conn n d, e = .send x conn n d := by
  step_arms
  all_goals (first
    | (left; first | exact hpc | rfl)
    | (right; exact ⟨_, _, _, _, rfl⟩)
    | (exfalso; simp only [setC_same] at hp; first
        | (rw [hpc] at hp; simp at hp; done)
        | (simp at hp; done)
        | (exact (failTo_pc _).1 hp)
        | (exact nextReq_pc _ hp)
        | (exact afterConnected_pc _ hp)
        | (exact toFlush_pc _ _ hp)
        | (split at hp <;> first | (simp at hp; done) | (exact (failTo_pc _).1 hp) | (exact nextReq_pc _ hp) | (exact afterConnected_pc _ hp) | (exact toFlush_pc _ _ hp)))
    | skip)

/-- a send: the channel has been drained, the receive buffer is emptied -/
theorem step_send (s s' : State) (t c x conn n : Nat) (d : Bytes) (h : stepCaller s t c (.send x conn n d) = some s') :
    s.conn = some conn ∧ n = s.nsend ∧
    (((s'.callers c).pc = .read ∧ s'.rxbuf = [] ∧ s'.chan = [] ∧ s'.conn = s.conn) ∨ (s'.callers c).pc = .relI) := by
  cases hpc : (s.callers c).pc <;> simp only [stepCaller, hpc] at h <;> try (simp at h)
  obtain ⟨⟨h1, h2, h3, h4, h5⟩, h⟩ := h
  refine ⟨h3, h4, ?_⟩
  split at h
  · split at h
    · simp only [Option.some.injEq] at h; subst h; right; simp
    · simp only [Option.some.injEq] at h; subst h; left; simp [State.setC, h1]
  · simp only [Option.some.injEq] at h; subst h; right; simp

theorem splitFirst_eq (e : Bytes) : ∀ (a l r : Bytes), splitFirst e a = some (l, r) → a = l ++ e ++ r
  | [], l, r, h => by
    unfold splitFirst at h
    split at h
    · next he => simp only [Option.some.injEq, Prod.mk.injEq] at h; simp [← h.1, ← h.2, he]
    · simp at h
  | b :: bs, l, r, h => by
    unfold splitFirst at h
    split at h
    · next hp =>
      simp only [Option.some.injEq, Prod.mk.injEq] at h
      rw [← h.1, ← h.2]
      obtain ⟨t, ht⟩ := List.isPrefixOf_iff_prefix.1 hp
      rw [← ht]; simp
    · split at h
      · next l' r' hs =>
        simp only [Option.some.injEq, Prod.mk.injEq] at h
        rw [← h.1, ← h.2, splitFirst_eq e bs l' r' hs]; simp
      · simp at h

end Frappy.Comm
