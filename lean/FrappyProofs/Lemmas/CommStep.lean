import FrappyProofs.Lemmas.Comm
/- helper lemmas for C16: facts about single steps of the transaction model (one pass over all arms each) -/
open Frappy.Spec.C16
namespace Frappy.Comm

@[simp] theorem setC_same (s : State) (c : Nat) (k : Caller) : (s.setC c k).callers c = k := by simp [State.setC]
@[simp] theorem setC_other (s : State) (c x : Nat) (k : Caller) (h : x ≠ c) : (s.setC c k).callers x = s.callers x := by
  simp [State.setC, h]
@[simp] theorem setC_owner (s : State) (c : Nat) (k : Caller) : (s.setC c k).owner = s.owner := rfl
@[simp] theorem setC_depth (s : State) (c : Nat) (k : Caller) : (s.setC c k).depth = s.depth := rfl
@[simp] theorem acquire_callers (s : State) (c : Nat) : (s.acquire c).callers = s.callers := rfl
@[simp] theorem release_callers (s : State) : s.release.callers = s.callers := rfl
@[simp] theorem acquire_owner (s : State) (c : Nat) : (s.acquire c).owner = some c := rfl
@[simp] theorem acquire_depth (s : State) (c : Nat) : (s.acquire c).depth = s.depth + 1 := rfl
@[simp] theorem release_owner (s : State) : s.release.owner = if s.depth ≤ 1 then none else s.owner := rfl
@[simp] theorem release_depth (s : State) : s.release.depth = s.depth - 1 := rfl
@[simp] theorem failTo_held (k : Caller) : (failTo k).held = k.held := rfl
@[simp] theorem nextReq_held (k : Caller) : (nextReq k).held = k.held := by unfold nextReq; split <;> rfl
@[simp] theorem afterConnected_held (s : State) (k : Caller) : (afterConnected s k).held = k.held := by
  unfold afterConnected; split <;> split <;> (try split) <;> simp
@[simp] theorem toFlush_held (s : State) (k : Caller) : (toFlush s k).held = k.held := by unfold toFlush; split <;> simp
@[simp] theorem rcFail_held (k : Caller) : (rcFail k).held = k.held := by unfold rcFail; split <;> simp
@[simp] theorem afterIdent_held (s : State) (k : Caller) : (afterIdent s k).held = k.held := by
  unfold afterIdent; split <;> (try split) <;> simp
@[simp] theorem startIdent_held (s : State) (k : Caller) : (startIdent s k).held = k.held := by
  unfold startIdent; split <;> simp
@[simp] theorem idNext_held (cfg : Cfg) (k : Caller) : (idNext cfg k).held = k.held := by
  unfold idNext; split <;> (try split) <;> (try split) <;> simp
@[simp] theorem toIdFlush_held (s : State) (k : Caller) : (toIdFlush s k).held = k.held := by unfold toIdFlush; split <;> simp
@[simp] theorem toIdEndFail_held (k : Caller) : (toIdEndFail k).held = k.held := rfl

inductive LockShape (s s' : State) (c : Nat) (e : Ev) : Prop
  | acq : (∃ x, e = .acq x) → s.freeFor c = true → s'.owner = some c → s'.depth = s.depth + 1 →
      (s'.callers c).held = (s.callers c).held + 1 → LockShape s s' c e
  | rel : (∃ x, e = .rel x) → s.owner = some c → s'.owner = (if s.depth ≤ 1 then none else s.owner) →
      s'.depth = s.depth - 1 → (s'.callers c).held = (s.callers c).held - 1 → LockShape s s' c e
  | keep : (∀ x, e ≠ .acq x) → (∀ x, e ≠ .rel x) → s'.owner = s.owner → s'.depth = s.depth →
      (s'.callers c).held = (s.callers c).held → LockShape s s' c e

set_option hygiene false in
/-- enumerate the accepted arms of `stepCaller s t c e = some s'` (hypothesis `h`), leaving `s'` substituted -/
macro "step_arms" : tactic => `(tactic| (
  cases hpc : (s.callers c).pc <;> cases e <;> simp only [stepCaller, hpc] at h <;> try (simp at h)
  all_goals (try (simp only [doAcqI, staleDrop, doAcqId, connGone] at h))
  all_goals (repeat' (split at h))
  all_goals (try (simp at h; done))
  all_goals (try (simp only [Option.some.injEq] at h))
  all_goals (try (obtain ⟨hg, h⟩ := h))
  all_goals (try subst h)))

set_option maxHeartbeats 4000000 in
theorem step_lock (s s' : State) (t c : Nat) (e : Ev) (h : stepCaller s t c e = some s') : LockShape s s' c e := by
  step_arms
  all_goals (first
    | (apply LockShape.keep <;> simp <;> done)
    | (apply LockShape.acq <;> simp_all <;> done)
    | (apply LockShape.rel <;> simp_all <;> done))

set_option maxHeartbeats 4000000 in
theorem step_others (s s' : State) (t c : Nat) (e : Ev) (h : stepCaller s t c e = some s') (x : Nat) (hx : x ≠ c) :
    s'.callers x = s.callers x := by
  step_arms
  all_goals (simp [hx])

def base (k : Kind) : Nat := if k = .multi then 1 else 0

def heldOk (k : Caller) : Prop :=
  match k.pc with
  | .idle | .done => k.held = 0
  | .acqO => k.held = 0 ∧ k.kind = .multi
  | .fail => 0 < k.held
  | .check | .chkNow | .rcheck | .connecting | .visT | .cbs _ | .acqI | .slpD | .wakeD | .relO => k.held = base k.kind
  | .slpWB | .wakeWB | .flush | .drain | .read | .closing | .visF | .relI | .readX => k.held = base k.kind + 1
  | .idChk | .idChkNow | .idAcq | .idEnd _ => k.held = base k.kind
  | .idSlp | .idWake | .idFlush | .idDrain | .idRead | .idRel | .idFail => k.held = base k.kind + 1
  | .idClosing b | .idVisF b => k.held = base k.kind + b.toNat

theorem heldOk_failTo (k : Caller) : heldOk (failTo k) := by
  unfold failTo heldOk
  by_cases h : k.held = 0 <;> simp [h]; omega

theorem heldOk_nextReq (k : Caller) (h : k.held = base k.kind) : heldOk (nextReq k) := by
  unfold nextReq
  split
  · by_cases hm : k.kind = .multi <;> simp [heldOk, hm, h, base]
  · simp [heldOk, h]

theorem heldOk_rcFail (k : Caller) (h : k.held = base k.kind) : heldOk (rcFail k) := by
  unfold rcFail
  split
  · exact heldOk_failTo k
  · simp [heldOk, h]

theorem heldOk_afterConnected (s : State) (k : Caller) (h : k.held = base k.kind) : heldOk (afterConnected s k) := by
  unfold afterConnected
  split
  · split
    · by_cases hm : k.kind = .poll <;> simp [heldOk, hm, h, base]
    · simp [heldOk, h]
  · split
    · split
      · next hm => simp [heldOk, hm, h, base]
      · exact heldOk_failTo k
    · simp [heldOk, h]

theorem heldOk_afterIdent (s : State) (k : Caller) (h : k.held = base k.kind) : heldOk (afterIdent s k) := by
  unfold afterIdent
  split
  · split
    · exact heldOk_afterConnected s k h
    · simp [heldOk, h]
  · exact heldOk_afterConnected s k h

theorem heldOk_startIdent (s : State) (k : Caller) (h : k.held = base k.kind) : heldOk (startIdent s k) := by
  unfold startIdent
  split
  · exact heldOk_afterIdent s k h
  · simp [heldOk, h]

theorem heldOk_idNext (cfg : Cfg) (k : Caller) (h : k.held = base k.kind) : heldOk (idNext cfg k) := by
  unfold idNext
  split
  · split <;> simp [heldOk, h]
  · split <;> simp [heldOk, h]

theorem heldOk_toIdFlush (s : State) (k : Caller) (h : k.held = base k.kind + 1) : heldOk (toIdFlush s k) := by
  unfold toIdFlush
  split <;> simp [heldOk, h]

theorem heldOk_toIdEndFail (k : Caller) (h : k.held = base k.kind) : heldOk (toIdEndFail k) := by
  simp [toIdEndFail, heldOk, h]

theorem heldOk_toFlush (s : State) (k : Caller) (h : k.held = base k.kind + 1) : heldOk (toFlush s k) := by
  unfold toFlush
  split
  · exact heldOk_failTo k
  · simp [heldOk, h]

set_option maxHeartbeats 4000000 in
theorem step_heldOk (s s' : State) (t c : Nat) (e : Ev) (h : stepCaller s t c e = some s')
    (hk : heldOk (s.callers c)) : heldOk (s'.callers c) := by
  step_arms
  all_goals (simp only [heldOk, hpc] at hk)
  all_goals (simp only [setC_same])
  all_goals (first
    | exact heldOk_failTo _
    | (apply heldOk_nextReq; simp_all [base]; done)
    | (apply heldOk_afterConnected; simp_all [base]; done)
    | (apply heldOk_toFlush; simp_all [base]; done)
    | (apply heldOk_rcFail; simp_all [base]; done)
    | (apply heldOk_afterIdent; simp_all [base]; done)
    | (apply heldOk_startIdent; simp_all [base]; done)
    | (apply heldOk_idNext; simp_all [base]; done)
    | (apply heldOk_toIdFlush; simp_all [base]; done)
    | (apply heldOk_toIdEndFail; simp_all [base]; done)
    | (apply heldOk_failTo; done)
    | (simp_all [heldOk, base]; done)
    | (simp only [heldOk]; simp only [base] at hk; split at hk <;> omega))

def todoOk (k : Caller) : Prop := k.kind ≠ .multi → k.todo.length ≤ 1

@[simp] theorem failTo_kind (k : Caller) : (failTo k).kind = k.kind := rfl
@[simp] theorem failTo_todo (k : Caller) : (failTo k).todo = k.todo := rfl
@[simp] theorem nextReq_kind (k : Caller) : (nextReq k).kind = k.kind := by unfold nextReq; split <;> rfl
@[simp] theorem nextReq_todo (k : Caller) : (nextReq k).todo = k.todo := by unfold nextReq; split <;> rfl
@[simp] theorem afterConnected_kind (s : State) (k : Caller) : (afterConnected s k).kind = k.kind := by
  unfold afterConnected; split <;> split <;> (try split) <;> simp
@[simp] theorem afterConnected_todo (s : State) (k : Caller) : (afterConnected s k).todo = k.todo := by
  unfold afterConnected; split <;> split <;> (try split) <;> simp
@[simp] theorem rcFail_kind (k : Caller) : (rcFail k).kind = k.kind := by unfold rcFail; split <;> simp
@[simp] theorem rcFail_todo (k : Caller) : (rcFail k).todo = k.todo := by unfold rcFail; split <;> simp
@[simp] theorem afterIdent_kind (s : State) (k : Caller) : (afterIdent s k).kind = k.kind := by
  unfold afterIdent; split <;> (try split) <;> simp
@[simp] theorem afterIdent_todo (s : State) (k : Caller) : (afterIdent s k).todo = k.todo := by
  unfold afterIdent; split <;> (try split) <;> simp
@[simp] theorem startIdent_kind (s : State) (k : Caller) : (startIdent s k).kind = k.kind := by
  unfold startIdent; split <;> simp
@[simp] theorem startIdent_todo (s : State) (k : Caller) : (startIdent s k).todo = k.todo := by
  unfold startIdent; split <;> simp
@[simp] theorem idNext_kind (cfg : Cfg) (k : Caller) : (idNext cfg k).kind = k.kind := by
  unfold idNext; split <;> (try split) <;> (try split) <;> simp
@[simp] theorem idNext_todo (cfg : Cfg) (k : Caller) : (idNext cfg k).todo = k.todo := by
  unfold idNext; split <;> (try split) <;> (try split) <;> simp
@[simp] theorem toIdFlush_kind (s : State) (k : Caller) : (toIdFlush s k).kind = k.kind := by unfold toIdFlush; split <;> simp
@[simp] theorem toIdFlush_todo (s : State) (k : Caller) : (toIdFlush s k).todo = k.todo := by unfold toIdFlush; split <;> simp
@[simp] theorem toIdEndFail_kind (k : Caller) : (toIdEndFail k).kind = k.kind := rfl
@[simp] theorem toIdEndFail_todo (k : Caller) : (toIdEndFail k).todo = k.todo := rfl
@[simp] theorem toFlush_kind (s : State) (k : Caller) : (toFlush s k).kind = k.kind := by unfold toFlush; split <;> simp
@[simp] theorem toFlush_todo (s : State) (k : Caller) : (toFlush s k).todo = k.todo := by unfold toFlush; split <;> simp

set_option maxHeartbeats 4000000 in
theorem step_todoOk (s s' : State) (t c : Nat) (e : Ev) (h : stepCaller s t c e = some s')
    (hk : todoOk (s.callers c)) : todoOk (s'.callers c) := by
  step_arms
  all_goals (simp only [todoOk] at hk ⊢)
  all_goals (try (simp only [setC_same]))
  all_goals (first
    | exact hk
    | exact hg
    | (simpa using hk)
    | (intro hm; have := hk (by simpa using hm); simp; omega)
    | (intro hm; simp at hm ⊢; omega)
    | skip)

/-- the states of a call before its (first) send, the identification made on a reconnect included -/
def prePc (p : Pc) : Bool :=
  match p with
  | .check | .chkNow | .rcheck | .connecting | .visT | .cbs _ | .acqI | .slpWB | .wakeWB | .flush | .drain
  | .idChk | .idChkNow | .idAcq | .idSlp | .idWake | .idFlush | .idDrain | .idRead | .idRel | .idClosing _ | .idVisF _
  | .idFail | .idEnd _ => true
  | _ => false

/-- states only a multicomm passes through -/
def multiPc (p : Pc) : Bool :=
  match p with
  | .acqO | .slpD | .wakeD | .relO => true
  | _ => false

/-- a communicate / writeline / doPoll call sends at most once, and only after these states -/
def sentOk (k : Caller) : Prop := k.kind ≠ .multi → multiPc k.pc = false ∧ (prePc k.pc = true → k.sent = 0)

@[simp] theorem failTo_sent (k : Caller) : (failTo k).sent = k.sent := rfl
@[simp] theorem nextReq_sent (k : Caller) : (nextReq k).sent = k.sent := by unfold nextReq; split <;> rfl
@[simp] theorem afterConnected_sent (s : State) (k : Caller) : (afterConnected s k).sent = k.sent := by
  unfold afterConnected; split <;> split <;> (try split) <;> simp
@[simp] theorem toFlush_sent (s : State) (k : Caller) : (toFlush s k).sent = k.sent := by unfold toFlush; split <;> simp
@[simp] theorem rcFail_sent (k : Caller) : (rcFail k).sent = k.sent := by unfold rcFail; split <;> simp
@[simp] theorem afterIdent_sent (s : State) (k : Caller) : (afterIdent s k).sent = k.sent := by
  unfold afterIdent; split <;> (try split) <;> simp
@[simp] theorem startIdent_sent (s : State) (k : Caller) : (startIdent s k).sent = k.sent := by
  unfold startIdent; split <;> simp
@[simp] theorem idNext_sent (cfg : Cfg) (k : Caller) : (idNext cfg k).sent = k.sent := by
  unfold idNext; split <;> (try split) <;> (try split) <;> simp
@[simp] theorem toIdFlush_sent (s : State) (k : Caller) : (toIdFlush s k).sent = k.sent := by unfold toIdFlush; split <;> simp
@[simp] theorem toIdEndFail_sent (k : Caller) : (toIdEndFail k).sent = k.sent := rfl

theorem failTo_prePc (k : Caller) : prePc (failTo k).pc = false ∧ multiPc (failTo k).pc = false := by
  unfold failTo; simp only; split <;> exact ⟨rfl, rfl⟩

theorem nextReq_prePc (k : Caller) (hm : k.kind ≠ .multi) (h : k.todo = []) :
    prePc (nextReq k).pc = false ∧ multiPc (nextReq k).pc = false := by
  unfold nextReq; rw [h]; simp [hm, prePc, multiPc]

theorem nextReq_multiPc (k : Caller) (hm : k.kind ≠ .multi) : multiPc (nextReq k).pc = false := by
  unfold nextReq; split <;> simp [hm, multiPc]

theorem afterConnected_multiPc (s : State) (k : Caller) : multiPc (afterConnected s k).pc = false := by
  unfold afterConnected; split <;> split <;> (try split) <;> (try simp [multiPc]) <;> exact (failTo_prePc k).2

theorem rcFail_multiPc (k : Caller) : multiPc (rcFail k).pc = false := by
  unfold rcFail; split <;> (try simp [multiPc]) <;> exact (failTo_prePc k).2

theorem afterIdent_multiPc (s : State) (k : Caller) : multiPc (afterIdent s k).pc = false := by
  unfold afterIdent; split <;> (try split) <;> (try simp [multiPc]) <;> exact afterConnected_multiPc s k

theorem startIdent_multiPc (s : State) (k : Caller) : multiPc (startIdent s k).pc = false := by
  unfold startIdent; split <;> (try simp [multiPc]) <;> exact afterIdent_multiPc s k

theorem idNext_multiPc (cfg : Cfg) (k : Caller) : multiPc (idNext cfg k).pc = false := by
  unfold idNext; split <;> (try split) <;> (try split) <;> simp [multiPc]

theorem toFlush_multiPc (s : State) (k : Caller) : multiPc (toFlush s k).pc = false := by
  unfold toFlush; split <;> (try simp [multiPc]) <;> exact (failTo_prePc k).2

theorem toIdFlush_multiPc (s : State) (k : Caller) : multiPc (toIdFlush s k).pc = false := by
  unfold toIdFlush; split <;> simp [multiPc]

theorem todo_tail_nil {k : Caller} (ht : todoOk k) (hm : k.kind ≠ .multi) : k.todo.drop 1 = [] := by
  have hl := ht hm
  cases hh : k.todo with
  | nil => rfl
  | cons a b => simp [hh] at hl; simp [hl]

theorem relI_next_sentOk (k : Caller) (ht : todoOk k) (hm : k.kind ≠ .multi) (k' : Caller) (hk : k'.kind = k.kind)
    (htd : k'.todo = k.todo.tail) :
    multiPc (nextReq k').pc = false ∧ (prePc (nextReq k').pc = true → (nextReq k').sent = 0) := by
  have h0 : k'.todo = [] := by
    rw [htd]
    have := todo_tail_nil ht hm
    cases hh : k.todo with
    | nil => rfl
    | cons a b => rw [hh] at this; simpa using this
  obtain ⟨h1, h2⟩ := nextReq_prePc k' (by rw [hk]; exact hm) h0
  exact ⟨h2, fun hp => by rw [h1] at hp; simp at hp⟩

set_option maxHeartbeats 8000000 in
theorem step_sentOk (s s' : State) (t c : Nat) (e : Ev) (h : stepCaller s t c e = some s')
    (hk : sentOk (s.callers c)) (ht : todoOk (s.callers c)) : sentOk (s'.callers c) := by
  step_arms
  all_goals (simp only [sentOk, hpc] at hk)
  all_goals (simp only [sentOk, setC_same])
  all_goals (intro hm)
  all_goals (first
    | (exact absurd rfl hm)
    | (exact absurd (‹_ ∧ _›).1 hm)
    | (simp at hm; exact relI_next_sentOk (s.callers c) ht hm _ rfl rfl)
    | (exact hk hm)
    | (rw [hpc]; exact hk hm)
    | (simp at hm; done)
    | (simp at hm; have hk' := hk hm; simp [multiPc, prePc] at hk'; done)
    | (refine ⟨?_, fun hp => ?_⟩
       · first
         | (simp [multiPc]; done)
         | exact (failTo_prePc _).2
         | exact nextReq_multiPc _ hm
         | exact afterConnected_multiPc _ _
         | exact rcFail_multiPc _
         | exact afterIdent_multiPc _ _
         | exact startIdent_multiPc _ _
         | exact idNext_multiPc _ _
         | exact toFlush_multiPc _ _
         | exact toIdFlush_multiPc _ _
         | (split <;> first | (simp [multiPc]; done) | exact (failTo_prePc _).2 | exact toFlush_multiPc _ _ | exact toIdFlush_multiPc _ _ | exact afterConnected_multiPc _ _)
       · first
         | rfl
         | (simp at hm; have hk' := (hk hm).2; simp [prePc] at hk'; simpa using hk')
         | (exfalso; simp [(failTo_prePc _).1] at hp; done)
         | (exfalso; simp [prePc] at hp; done)
         | (exfalso; simp at hm; have h1 := (nextReq_prePc _ hm (todo_tail_nil ht hm)).1; simp at h1; simp [h1] at hp; done)
         | (simp_all [prePc]; done))
    | skip)

set_option maxHeartbeats 8000000 in
/-- a release that gives the lock up completely is the last thing a call does before returning — once it has sent -/
theorem step_rel_done (s s' : State) (t c : Nat) (e : Ev) (h : stepCaller s t c e = some s')
    (hk : heldOk (s.callers c)) (ht : todoOk (s.callers c)) (hso : sentOk (s.callers c)) (hsent : 0 < (s.callers c).sent)
    (he : ∃ x, e = .rel x)
    (h0 : (s'.callers c).held = 0) : (s'.callers c).pc = .done := by
  obtain ⟨x, rfl⟩ := he
  cases hpc : (s.callers c).pc <;> simp only [stepCaller, hpc] at h <;> try (simp at h)
  all_goals (try (simp only [connGone] at h))
  all_goals (repeat' (split at h))
  all_goals (try (simp at h; done))
  all_goals (try (simp only [Option.some.injEq] at h))
  all_goals (try (obtain ⟨hg, h⟩ := h))
  all_goals (try subst h)
  all_goals (simp only [heldOk, hpc] at hk)
  all_goals (simp only [sentOk, hpc] at hso)
  all_goals (simp only [setC_same] at h0 ⊢)
  all_goals (first
    | (simp [failTo] at h0 ⊢; simp [h0]; done)
    | rfl
    | (exfalso; subst_vars
       by_cases hm : (s.callers c).kind = .multi
       · simp [base, hm] at hk; simp [hk] at h0
       · have h1 := (hso hm).2; simp [prePc] at h1; omega)
    | (by_cases hm : (s.callers c).kind = .multi
       · simp [base, hm] at hk; simp [hk] at h0; done
       · exfalso; have h1 := (hso hm).2; simp [prePc] at h1; omega)
    | (exfalso; subst_vars; simp_all [base]; done)
    | (by_cases hm : (s.callers c).kind = .multi
       · simp [base, hm] at hk; simp [hk] at h0
       · have hl := ht hm
         have htl : (s.callers c).todo.tail = [] := by
           cases hh : (s.callers c).todo with
           | nil => rfl
           | cons a b => simp [hh] at hl; simp [hl]
         first | (simp [nextReq, htl, hm]; done) | simp_all))

set_option maxHeartbeats 4000000 in
/-- from `done` a caller only returns (or the read wrapper's late update is discarded) -/
theorem step_from_done (s s' : State) (t c : Nat) (e : Ev) (h : stepCaller s t c e = some s')
    (hpc : (s.callers c).pc = .done) : (∃ x r, e = .ret x r) ∨ (∃ x, e = .drop x) ∧ (s'.callers c).pc = .done ∧ (s'.callers c).held = (s.callers c).held := by
  cases e <;> simp only [stepCaller, hpc] at h <;> try (simp at h)
  · left; exact ⟨_, _, rfl⟩
  · right
    simp only [staleDrop] at h
    split at h
    · simp only [Option.some.injEq] at h; subst h; simp [hpc]
    · simp at h

set_option maxHeartbeats 8000000 in
/-- the ghost count of sends only grows within a call -/
theorem step_sent_mono (s s' : State) (t c : Nat) (e : Ev) (h : stepCaller s t c e = some s')
    (hc : ∀ x kd rq, e ≠ .call x kd rq) : (s.callers c).sent ≤ (s'.callers c).sent := by
  step_arms
  all_goals (first
    | (exfalso; exact hc _ _ _ rfl)
    | (simp; done)
    | (simp only [setC_same]; split <;> simp; done)
    | skip)

theorem step_send_sent (s s' : State) (t c x conn n : Nat) (d : Bytes)
    (h : stepCaller s t c (.send x conn n d) = some s') : 0 < (s'.callers c).sent := by
  cases hpc : (s.callers c).pc <;> simp only [stepCaller, hpc] at h <;> try (simp at h)
  obtain ⟨_, h⟩ := h
  split at h
  · split at h <;> (simp only [Option.some.injEq] at h; subst h; simp)
  · simp only [Option.some.injEq] at h; subst h; simp

/-! ### communicators without identification: the states of checkHWIdent are never entered -/

def identPc (p : Pc) : Bool :=
  match p with
  | .idChk | .idChkNow | .idAcq | .idSlp | .idWake | .idFlush | .idDrain | .idRead | .idRel | .idClosing _ | .idVisF _
  | .idFail | .idEnd _ => true
  | _ => false

def identFree (k : Caller) : Prop := identPc k.pc = false ∧ k.idSaved = []

theorem rcFail_ni {k : Caller} (h : k.idSaved = []) : rcFail k = failTo k := by unfold rcFail; rw [h]

theorem afterConnected_ni (s : State) {k : Caller} (h : k.idSaved = []) :
    afterConnected s k = if s.isConn then { k with pc := if k.kind = .poll then .done else .acqI, viaRead := true }
      else (if k.kind = .poll then { k with pc := .done } else failTo k) := by
  unfold afterConnected; rw [h]

theorem startIdent_ni (s : State) (k : Caller) (h : s.cfg.ident = []) : startIdent s k = afterIdent s k := by
  unfold startIdent; rw [h]

theorem startIdent_ni' (s : State) (k : Caller) (h : s.cfg.ident = []) :
    startIdent { s with isConn := true } k = afterIdent { s with isConn := true } k := startIdent_ni _ k h

theorem identFree_failTo {k : Caller} (h : identFree k) : identFree (failTo k) := by
  unfold failTo; refine ⟨?_, h.2⟩; simp only; split <;> rfl

theorem identFree_nextReq {k : Caller} (h : identFree k) : identFree (nextReq k) := by
  unfold nextReq; split <;> (try split) <;> exact ⟨rfl, h.2⟩

theorem identFree_toFlush (s : State) {k : Caller} (h : identFree k) : identFree (toFlush s k) := by
  unfold toFlush; split
  · exact identFree_failTo h
  · exact ⟨rfl, h.2⟩

theorem identFree_afterConnected (s : State) {k : Caller} (h : identFree k) : identFree (afterConnected s k) := by
  rw [afterConnected_ni s h.2]
  split
  · refine ⟨?_, h.2⟩; simp only; split <;> rfl
  · split
    · exact ⟨rfl, h.2⟩
    · exact identFree_failTo h

theorem identFree_afterIdent (s : State) {k : Caller} (h : identFree k) : identFree (afterIdent s k) := by
  unfold afterIdent
  split
  · split
    · exact identFree_afterConnected s h
    · exact ⟨rfl, h.2⟩
  · exact identFree_afterConnected s h

set_option maxHeartbeats 8000000 in
theorem step_identFree (s s' : State) (t c : Nat) (e : Ev) (h : stepCaller s t c e = some s')
    (hid : s.cfg.ident = []) (hf : identFree (s.callers c)) : identFree (s'.callers c) := by
  step_arms
  all_goals (try (exfalso; simp [identFree, identPc, hpc] at hf; done))
  all_goals (try (exfalso; simp [hid] at hg; done))
  all_goals (simp only [setC_same])
  all_goals (first
    | exact hf
    | exact ⟨rfl, rfl⟩
    | exact ⟨rfl, hf.2⟩
    | exact ⟨hf.1, hf.2⟩
    | exact identFree_failTo hf
    | (apply identFree_failTo; first | exact ⟨rfl, hf.2⟩ | exact ⟨hf.1, hf.2⟩)
    | (apply identFree_nextReq; first | exact ⟨rfl, hf.2⟩ | exact ⟨hf.1, hf.2⟩)
    | (apply identFree_toFlush; first | exact ⟨rfl, hf.2⟩ | exact ⟨hf.1, hf.2⟩)
    | (apply identFree_afterConnected; first | exact ⟨rfl, hf.2⟩ | exact ⟨hf.1, hf.2⟩)
    | (rw [startIdent_ni _ _ hid]; apply identFree_afterIdent; first | exact ⟨rfl, hf.2⟩ | exact ⟨hf.1, hf.2⟩)
    | (rw [startIdent_ni _ _ (by exact hid)]; exact identFree_afterIdent _ hf)
    | (rw [rcFail_ni hf.2]; exact identFree_failTo hf)
    | (split <;> first
        | exact ⟨rfl, hf.2⟩
        | exact ⟨hf.1, hf.2⟩
        | (apply identFree_failTo; first | exact ⟨rfl, hf.2⟩ | exact ⟨hf.1, hf.2⟩)
        | (apply identFree_toFlush; first | exact ⟨rfl, hf.2⟩ | exact ⟨hf.1, hf.2⟩)
        | (apply identFree_afterConnected; first | exact ⟨rfl, hf.2⟩ | exact ⟨hf.1, hf.2⟩)
        | (apply identFree_nextReq; first | exact ⟨rfl, hf.2⟩ | exact ⟨hf.1, hf.2⟩))
    | skip)

set_option hygiene false in
/-- `step_arms` for communicators without identification (hypotheses `hid : s.cfg.ident = []` and
`hf : identFree (s.callers c)` in the context): the arms of checkHWIdent and of a connection dropped by another thread
are closed, `startIdent` / `rcFail` are reduced -/
macro "step_arms_ni" : tactic => `(tactic| (
  step_arms
  all_goals (try (exfalso; simp [identFree, identPc, hpc] at hf; done))
  all_goals (try (exfalso; simp [hid] at hg; done))
  all_goals (try (rw [startIdent_ni' _ _ hid] at hp))
  all_goals (try (rw [startIdent_ni' _ _ hid]))
  all_goals (try (rw [startIdent_ni _ _ hid] at hp))
  all_goals (try (rw [startIdent_ni _ _ hid]))
  all_goals (try (rw [rcFail_ni hf.2] at hp))
  all_goals (try (rw [rcFail_ni hf.2]))))

theorem afterConnected_pc_cases (s : State) (k : Caller) (h : k.idSaved = []) :
    (afterConnected s k).pc = .done ∨ (afterConnected s k).pc = .acqI ∨ (afterConnected s k).pc = .fail := by
  rw [afterConnected_ni s h]
  split
  · by_cases hp : k.kind = .poll <;> simp [hp]
  · split
    · simp
    · unfold failTo; simp only; split <;> simp

theorem afterIdent_pc_cases (s : State) (k : Caller) (h : k.idSaved = []) :
    (afterIdent s k).pc = .done ∨ (afterIdent s k).pc = .acqI ∨ (afterIdent s k).pc = .fail ∨ ∃ l, (afterIdent s k).pc = .cbs l := by
  unfold afterIdent
  split
  · split
    · rcases afterConnected_pc_cases s k h with h' | h' | h' <;> simp [h']
    · exact Or.inr (Or.inr (Or.inr ⟨_, rfl⟩))
  · rcases afterConnected_pc_cases s k h with h' | h' | h' <;> simp [h']

theorem step_cfg (s s' : State) (t c : Nat) (e : Ev) (h : stepCaller s t c e = some s') : s'.cfg = s.cfg := by
  step_arms
  all_goals (first | rfl | (simp [State.setC, State.acquire, State.release]; done) | (split <;> simp [State.setC, State.acquire, State.release]; done) | skip)

theorem step_call_idle (s s' : State) (t c x : Nat) (kd : Kind) (rq : List Req)
    (h : stepCaller s t c (.call x kd rq) = some s') : (s.callers c).pc = .idle := by
  cases hpc : (s.callers c).pc <;> simp only [stepCaller, hpc] at h <;> first | rfl | (simp at h)

theorem step_ret_idle (s s' : State) (t c x : Nat) (r : Res)
    (h : stepCaller s t c (.ret x r) = some s') : (s'.callers c).pc = .idle ∧ (s'.callers c).held = (s.callers c).held := by
  cases hpc : (s.callers c).pc <;> simp only [stepCaller, hpc] at h <;> try (simp at h)
  all_goals (obtain ⟨_, rfl⟩ := h; simp)

theorem stale_send_pc (s s' : State) (t c conn n : Nat) (d : Bytes)
    (h : stepCaller s t c (.send c conn n d) = some s') : (s.callers c).pc = .drain := by
  cases hpc : (s.callers c).pc <;> simp only [stepCaller, hpc] at h <;> first | rfl | (simp at h)
theorem failTo_pc (k : Caller) : (failTo k).pc ≠ .read ∧ (failTo k).pc ≠ .relI := by
  unfold failTo; split <;> simp

def bufPc (p : Pc) : Bool :=
  match p with
  | .drain | .read | .closing | .relI | .readX | .idDrain | .idRead | .idRel => true
  | .idClosing b => b
  | _ => false

set_option maxHeartbeats 4000000 in
/-- only a caller inside the transaction (or a successful connect) touches connection, buffer and channel -/
theorem step_buf_keep (s s' : State) (t c : Nat) (e : Ev) (h : stepCaller s t c e = some s')
    (hp : bufPc (s.callers c).pc = false) (hc : ∀ x od, e ≠ .connect x true od) (hh : ∀ x, e ≠ .hclose x) :
    s'.conn = s.conn ∧ s'.rxbuf = s.rxbuf ∧ s'.chan = s.chan ∧ s'.eof = s.eof := by
  step_arms
  all_goals (first
    | (simp [bufPc, hpc] at hp; done)
    | (simp [State.setC, State.acquire, State.release]; done)
    | (exfalso; exact hc _ _ rfl)
    | (exfalso; subst_vars; exact hc _ _ rfl)
    | (exfalso; exact hh _ rfl)
    | (split <;> simp [State.setC, State.acquire, State.release]; done)
    | skip)

set_option maxHeartbeats 4000000 in
/-- the read loop: what one more event does to buffer and channel -/
theorem step_read (s s' : State) (t c : Nat) (e : Ev) (h : stepCaller s t c e = some s')
    (hp : (s.callers c).pc = .read) :
    s'.conn = s.conn ∧
    ( ((s'.callers c).pc = .read ∧ (s'.rxbuf ++ s'.chan.flatten = s.rxbuf ++ s.chan.flatten) ∧ (∀ x a b d, e ≠ .send x a b d)
        ∧ (∀ x od, e ≠ .connect x true od))
    ∨ ((s'.callers c).pc = .relI ∧ ∃ x l r dd rest, e = .recv x (.data dd) ∧ s.chan = dd :: rest ∧
          complete s.cfg (current (s.callers c)) (s.rxbuf ++ dd) = some (l, r) ∧
          (s'.callers c).replies = (s.callers c).replies ++ [l])
    ∨ ((s'.callers c).pc ≠ .read ∧ (s'.callers c).pc ≠ .relI) ) := by
  cases e <;> simp only [stepCaller, hp] at h <;> try (simp at h)
  all_goals (try (simp only [connGone] at h))
  all_goals (repeat' (split at h))
  all_goals (try (simp at h; done))
  all_goals (try (simp only [Option.some.injEq] at h))
  all_goals (try (obtain ⟨hg, h⟩ := h))
  all_goals (try subst h)
  all_goals (first
    | (refine ⟨?_, Or.inr (Or.inr ?_)⟩
       · simp [State.setC, State.release]
       · simp only [setC_same]; first | exact failTo_pc _ | (simp; done))
    | (refine ⟨?_, Or.inl ⟨?_, ?_, ?_, ?_⟩⟩ <;> (simp [State.setC, *]; done))
    | (have hd := (‹_ = _ ∧ mayRetry _ _ = true›).1; subst hd; exact ⟨by simp [State.setC], Or.inr (Or.inl ⟨by simp, _, _, _, _, _, rfl, ‹_›, ‹_›, by simp⟩)⟩)
    | skip)

theorem nextReq_pc (k : Caller) : (nextReq k).pc ≠ .read := by unfold nextReq; split <;> (try split) <;> simp
theorem afterConnected_pc (s : State) (k : Caller) : (afterConnected s k).pc ≠ .read ∧ (afterConnected s k).pc ≠ .relI := by
  unfold afterConnected; split <;> split <;> (try split) <;> (try (simp; done)) <;> exact failTo_pc k
theorem rcFail_pc (k : Caller) : (rcFail k).pc ≠ .read ∧ (rcFail k).pc ≠ .relI := by
  unfold rcFail; split <;> (try (simp; done)) <;> exact failTo_pc k
theorem afterIdent_pc (s : State) (k : Caller) : (afterIdent s k).pc ≠ .read ∧ (afterIdent s k).pc ≠ .relI := by
  unfold afterIdent; split <;> (try split) <;> (try (simp; done)) <;> exact afterConnected_pc s k
theorem startIdent_pc (s : State) (k : Caller) : (startIdent s k).pc ≠ .read ∧ (startIdent s k).pc ≠ .relI := by
  unfold startIdent; split <;> (try (simp; done)) <;> exact afterIdent_pc s k
theorem idNext_pc (cfg : Cfg) (k : Caller) : (idNext cfg k).pc ≠ .read ∧ (idNext cfg k).pc ≠ .relI := by
  unfold idNext; split <;> (try split) <;> (try split) <;> simp
theorem toIdFlush_pc (s : State) (k : Caller) : (toIdFlush s k).pc ≠ .read ∧ (toIdFlush s k).pc ≠ .relI := by
  unfold toIdFlush; split <;> simp
theorem toIdEndFail_pc (k : Caller) : (toIdEndFail k).pc ≠ .read ∧ (toIdEndFail k).pc ≠ .relI := by simp [toIdEndFail]
theorem toFlush_pc (s : State) (k : Caller) : (toFlush s k).pc ≠ .read := by
  unfold toFlush; split
  · exact (failTo_pc k).1
  · simp

set_option maxHeartbeats 4000000 in
/-- the read loop is entered by a send only -/
theorem step_enter_read (s s' : State) (t c : Nat) (e : Ev) (h : stepCaller s t c e = some s')
    (hp : (s'.callers c).pc = .read) : (s.callers c).pc = .read ∨ ∃ x conn n d, e = .send x conn n d := by
  step_arms
  all_goals (first
    | (left; first | exact hpc | rfl)
    | (right; exact ⟨_, _, _, _, rfl⟩)
    | (exfalso; simp only [setC_same] at hp; first
        | (rw [hpc] at hp; simp at hp; done)
        | (simp at hp; done)
        | (exact (failTo_pc _).1 hp)
        | (exact nextReq_pc _ hp)
        | (exact (afterConnected_pc _ _).1 hp)
        | (exact toFlush_pc _ _ hp)
        | (exact (rcFail_pc _).1 hp)
        | (exact (afterIdent_pc _ _).1 hp)
        | (exact (startIdent_pc _ _).1 hp)
        | (exact (idNext_pc _ _).1 hp)
        | (exact (toIdFlush_pc _ _).1 hp)
        | (exact (toIdEndFail_pc _).1 hp)
        | (split at hp <;> first | (simp at hp; done) | (exact (failTo_pc _).1 hp) | (exact nextReq_pc _ hp) | (exact (afterConnected_pc _ _).1 hp) | (exact toFlush_pc _ _ hp) | (exact (toIdFlush_pc _ _).1 hp)))
    | skip)

theorem misc_pc_ne_readX (s : State) (cfg : Cfg) (k : Caller) :
    (failTo k).pc ≠ .readX ∧ (nextReq k).pc ≠ .readX ∧ (afterConnected s k).pc ≠ .readX ∧ (toFlush s k).pc ≠ .readX ∧
    (rcFail k).pc ≠ .readX ∧ (afterIdent s k).pc ≠ .readX ∧ (startIdent s k).pc ≠ .readX ∧ (idNext cfg k).pc ≠ .readX ∧
    (toIdFlush s k).pc ≠ .readX ∧ (toIdEndFail k).pc ≠ .readX := by
  have h1 : (failTo k).pc ≠ .readX := by unfold failTo; simp only; split <;> simp
  have h3 : (afterConnected s k).pc ≠ .readX := by
    unfold afterConnected; split <;> split <;> (try split) <;> (try (simp; done)) <;> exact h1
  have h6 : (afterIdent s k).pc ≠ .readX := by unfold afterIdent; split <;> (try split) <;> (try (simp; done)) <;> exact h3
  refine ⟨h1, ?_, h3, ?_, ?_, h6, ?_, ?_, ?_, ?_⟩
  · unfold nextReq; split <;> (try split) <;> simp
  · unfold toFlush; split <;> (try (simp; done)); exact h1
  · unfold rcFail; split <;> (try (simp; done)); exact h1
  · unfold startIdent; split <;> (try (simp; done)); exact h6
  · unfold idNext; split <;> (try split) <;> (try split) <;> simp
  · unfold toIdFlush; split <;> simp
  · simp [toIdEndFail]

set_option maxHeartbeats 8000000 in
/-- the read loop of `getFullReply` is entered by a `more` event only -/
theorem step_enter_readX (s s' : State) (t c : Nat) (e : Ev) (h : stepCaller s t c e = some s')
    (hp : (s'.callers c).pc = .readX) : (s.callers c).pc = .readX ∨ ∃ x n, e = .more x n := by
  step_arms
  all_goals (first
    | (left; first | exact hpc | rfl)
    | (right; exact ⟨_, _, rfl⟩)
    | (exfalso; simp only [setC_same] at hp; first
        | (rw [hpc] at hp; simp at hp; done)
        | (simp at hp; done)
        | (exact (misc_pc_ne_readX s s.cfg _).1 hp)
        | (exact (misc_pc_ne_readX s s.cfg _).2.1 hp)
        | (exact (misc_pc_ne_readX _ s.cfg _).2.2.1 hp)
        | (exact (misc_pc_ne_readX _ s.cfg _).2.2.2.1 hp)
        | (exact (misc_pc_ne_readX s s.cfg _).2.2.2.2.1 hp)
        | (exact (misc_pc_ne_readX _ s.cfg _).2.2.2.2.2.1 hp)
        | (exact (misc_pc_ne_readX _ s.cfg _).2.2.2.2.2.2.1 hp)
        | (exact (misc_pc_ne_readX s _ _).2.2.2.2.2.2.2.1 hp)
        | (exact (misc_pc_ne_readX _ s.cfg _).2.2.2.2.2.2.2.2.1 hp)
        | (exact (misc_pc_ne_readX s s.cfg _).2.2.2.2.2.2.2.2.2 hp)
        | (split at hp <;> first | (simp at hp; done) | (exact (misc_pc_ne_readX s s.cfg _).1 hp) | (exact (misc_pc_ne_readX _ s.cfg _).2.2.2.1 hp) | (exact (misc_pc_ne_readX _ s.cfg _).2.2.1 hp) | (exact (misc_pc_ne_readX s s.cfg _).2.1 hp) | (exact (misc_pc_ne_readX _ s.cfg _).2.2.2.2.2.2.2.2.1 hp)))
    | skip)

/-- a send: the channel has been drained, the receive buffer is emptied -/
theorem step_send (s s' : State) (t c x conn n : Nat) (d : Bytes) (h : stepCaller s t c (.send x conn n d) = some s') :
    s.conn = some conn ∧ n = s.nsend ∧
    (((s'.callers c).pc = .read ∧ s'.rxbuf = [] ∧ s'.chan = [] ∧ s'.conn = s.conn) ∨ (s'.callers c).pc = .relI) := by
  cases hpc : (s.callers c).pc <;> simp only [stepCaller, hpc] at h <;> try (simp at h)
  obtain ⟨⟨h1, h2, h3, h4, h5⟩, h⟩ := h
  refine ⟨h3, h4, ?_⟩
  split at h
  · split at h
    · simp only [Option.some.injEq] at h; subst h; right; simp
    · simp only [Option.some.injEq] at h; subst h; left; simp [State.setC, h1]
  · simp only [Option.some.injEq] at h; subst h; right; simp

theorem splitFirst_eq (e : Bytes) : ∀ (a l r : Bytes), splitFirst e a = some (l, r) → a = l ++ e ++ r
  | [], l, r, h => by
    unfold splitFirst at h
    split at h
    · next he => simp only [Option.some.injEq, Prod.mk.injEq] at h; simp [← h.1, ← h.2, he]
    · simp at h
  | b :: bs, l, r, h => by
    unfold splitFirst at h
    split at h
    · next hp =>
      simp only [Option.some.injEq, Prod.mk.injEq] at h
      rw [← h.1, ← h.2]
      obtain ⟨t, ht⟩ := List.isPrefixOf_iff_prefix.1 hp
      rw [← ht]; simp
    · split at h
      · next l' r' hs =>
        simp only [Option.some.injEq, Prod.mk.injEq] at h
        rw [← h.1, ← h.2, splitFirst_eq e bs l' r' hs]; simp
      · simp at h

end Frappy.Comm
