import FrappyProofs.Lemmas.DatatypesSound
/-
C01: an accepted value denotes the value that was offered — leaves.
-/
set_option linter.unusedSectionVars false
set_option linter.unusedVariables false
namespace Frappy.Lemmas.C01
open FloatOps DType Frappy.Datatypes Frappy.Spec.C01
open PVal (toFloat? seqItems? prevItems prevFields dictGet dictSet)

variable {F : Type} [FloatOps F] [LawfulFloatOps F]

theorem lt_of_not_le {x y : F} (hx : isNaN x = false) (hy : isNaN y = false) (h : le x y = false) :
    lt y x = true := (LawfulFloatOps.lt_iff y x hy hx).2 h

theorem le_of_not_lt {x y : F} (hx : isNaN x = false) (hy : isNaN y = false) (h : lt x y = false) :
    le y x = true := by
  cases hle : le y x
  · have := (LawfulFloatOps.lt_iff x y hx hy).2 hle; rw [h] at this; cases this
  · rfl

theorem not_le_of_lt {x y : F} (hx : isNaN x = false) (hy : isNaN y = false) (h : lt x y = true) :
    le y x = false := (LawfulFloatOps.lt_iff x y hx hy).1 h

/-- the sort-based clamp to ±max is the documented mapping of ±inf -/
theorem median3_max_eq_clampInf {x : F} (hx : isNaN x = false) :
    median3 (neg maxFinite) x maxFinite = clampInf x := by
  have hM := LawfulFloatOps.maxFinite_notNaN (F := F)
  have hN := LawfulFloatOps.neg_maxFinite_notNaN (F := F)
  have hNM := LawfulFloatOps.neg_max_le_max (F := F)
  unfold median3 clampInf
  by_cases h1 : lt maxFinite x = true
  · have h1' := not_le_of_lt hM hx h1
    have hMx : le maxFinite x = true := le_of_not_le hx hM h1'
    have hNx := LawfulFloatOps.le_trans _ _ _ hNM hMx
    simp [h1, h1', hNx, hNM]
  · have h1f : lt maxFinite x = false := by simpa using h1
    have hxM := le_of_not_lt hM hx h1f
    by_cases h2 : lt x (neg maxFinite) = true
    · have h2' := not_le_of_lt hx hN h2
      simp [h1f, h2, h2', hNM]
    · have h2f : lt x (neg maxFinite) = false := by simpa using h2
      have hNx := le_of_not_lt hx hN h2f
      simp [h1f, h2f, hNx, hxM]

theorem doubleCall_ok {v : PVal F} {x : F} (h : doubleCall v = .ok x) :
    ∃ x0, toFloat? v = some x0 ∧ isNaN x0 = false ∧ x = clampInf x0 := by
  unfold doubleCall at h
  split at h
  · cases h
  · rename_i x0 hx0
    split at h
    · cases h
    · rename_i hn
      injection h with h
      have hn' : isNaN x0 = false := by simpa using hn
      exact ⟨x0, hx0, hn', by rw [← h, median3_max_eq_clampInf hn']⟩

theorem doubleValidate_denotes {min max ar rr : F} {v : PVal F} {r : F}
    (hwf : (DType.double min max ar rr).WF) (h : doubleValidate min max ar rr v = .ok r) :
    DenotesDouble min max ar rr v r := by
  simp only [DType.WF] at hwf
  obtain ⟨hmin, hmax, hle, _⟩ := hwf
  have nmin := notNaN_of_finite hmin
  have nmax := notNaN_of_finite hmax
  unfold doubleValidate at h
  split at h
  · cases h
  · rename_i x hx
    have hxn := doubleCall_notNaN hx
    obtain ⟨x0, hx0, hn0, hxe⟩ := doubleCall_ok hx
    simp only at h
    split at h
    · rename_i hguard
      simp only [Bool.and_eq_true] at hguard
      injection h with h
      unfold DenotesDouble
      rw [hx0]
      simp only
      refine ⟨hn0, ?_⟩
      rw [← hxe, ← h]
      unfold median3
      by_cases h1 : le min x = true
      · by_cases h2 : le x max = true
        · left; simp [h1, h2, same_refl]
        · right; right
          have h2f : le x max = false := by simpa using h2
          simp [h1, h2f, hle, same_refl]
          exact ⟨lt_of_not_le hxn nmax h2f, hguard.2⟩
      · right; left
        have h1f : le min x = false := by simpa using h1
        simp [h1f, hle, same_refl]
        exact ⟨lt_of_not_le nmin hxn h1f, hguard.1⟩
    · cases h

theorem asInt_addZero (x : F) : asInt? (addZero x) = asInt? x := by
  unfold asInt?
  rw [LawfulFloatOps.round_addZero]
  split
  · rfl
  · split
    · rfl
    · rw [LawfulFloatOps.feq_addZero]

theorem asInt_trunc {x : F} {k t : Int} (h : asInt? x = some k) (ht : trunc x = some t) : t = k := by
  unfold asInt? at h
  split at h
  · cases h
  · rename_i k' hk'
    split at h
    · cases h
    · rename_i y hy
      split at h
      · rename_i hf
        injection h with h
        subst h
        have := LawfulFloatOps.trunc_of_integral x y k' hk' hy hf
        rw [ht] at this; injection this
      · cases h

theorem intCall_denotes {v : PVal F} {i : Int} (h : intCall v = .ok i) : numInt? v = some i := by
  cases v <;> simp only [intCall] at h
  all_goals first
    | cases h
    | skip
  case bool b => simp [numInt?]
  case int j =>
    split at h
    · cases h
    · injection h with h; simp [numInt?, h]
  case float x =>
    split at h
    · cases h
    · rename_i t ht
      split at h
      · cases h
      · rename_i k hk
        injection h with h
        rw [asInt_addZero] at hk
        have := asInt_trunc hk ht
        simp only [numInt?]
        rw [hk, ← h, this]

theorem intValidate_denotes {min max : Int} {v : PVal F} {i : Int} (h : intValidate min max v = .ok i) :
    numInt? v = some i := by
  unfold intValidate at h
  split at h
  · cases h
  · rename_i j hj
    split at h
    · injection h with h; rw [← h]; exact intCall_denotes hj
    · cases h

theorem scaledValidate_denotes {scale min max ar rr : F} {v : PVal F} {r : F}
    (hwf : (DType.scaled scale min max ar rr).WF) (h : scaledValidate scale min max v = .ok r) :
    DenotesScaled scale min max v r := by
  simp only [DType.WF] at hwf
  obtain ⟨hs, hp, _, _, hle, hcmin, hcmax, _⟩ := hwf
  obtain ⟨result, lo, hi, x, hres, hlo, hhi, hx, hcase⟩ := scaledValidate_ok h
  obtain ⟨slo, dlo⟩ := scaledCall_limit hcmin hlo
  obtain ⟨shi, dhi⟩ := scaledCall_limit hcmax hhi
  have hlohi := snap_mono hs hp hle dlo dhi
  obtain ⟨_, _, _, _, _, _, _, flo⟩ := scaledCall_ok hlo
  obtain ⟨_, _, _, _, _, _, _, fhi⟩ := scaledCall_ok hhi
  obtain ⟨x', k, y, hx', hk, hy, hr, fres⟩ := scaledCall_ok hres
  rw [hx] at hx'; injection hx' with hx'; subst hx'
  have nlo := notNaN_of_finite flo
  have nhi := notNaN_of_finite fhi
  have nres := notNaN_of_finite fres
  have hg : ofGrid scale k = some result := by unfold ofGrid; rw [hy, hr]
  unfold DenotesScaled
  rw [hx]; simp only
  rw [hk]; simp only
  rw [hg, slo, shi]; simp only
  rcases hcase with ⟨h1, h2, hr'⟩ | ⟨hnot, g1, g2, hr'⟩
  · left; rw [hr']; exact ⟨same_refl _, h1, h2⟩
  · right
    refine ⟨g1, g2, ?_⟩
    rw [hr']
    unfold median3
    by_cases h1 : le lo result = true
    · have h2f : le result hi = false := by
        cases h2 : le result hi
        · rfl
        · rw [h1, h2] at hnot; cases hnot
      right
      simp [h1, h2f, hlohi, same_refl]
      exact lt_of_not_le nres nhi h2f
    · left
      have h1f : le lo result = false := by simpa using h1
      simp [h1f, hlohi, same_refl]
      exact lt_of_not_le nlo nres h1f

theorem boolCall_denotes {v : PVal F} {b : Bool} (h : boolCall v = .ok b) :
    intLike? v = some (if b then 1 else 0) := by
  cases v <;> simp only [boolCall] at h
  all_goals first
    | cases h
    | skip
  case bool c => simp [intLike?, numInt?]
  case int i =>
    split at h
    · injection h with h; subst h; simp_all [intLike?, numInt?]
    · split at h
      · injection h with h; subst h; simp_all [intLike?, numInt?]
      · cases h
  case float x =>
    split at h
    · rename_i k hk
      split at h
      · injection h with h; subst h; simp_all [intLike?, numInt?]
      · split at h
        · injection h with h; subst h; simp_all [intLike?, numInt?]
        · cases h
    · cases h
  case enum n w =>
    split at h
    · injection h with h; subst h; simp_all [intLike?]
    · split at h
      · injection h with h; subst h; simp_all [intLike?]
      · cases h

theorem enumCall_denotes {ms : List (String × Int)} {v : PVal F} {n : String} {k : Int}
    (h : enumCall ms v = .ok (.enum n k)) : DenotesEnum ms v n k := by
  obtain ⟨n', k', hr, hm, hd⟩ := enumCall_ok h
  injection hr with hn hk
  subst hn; subst hk
  unfold DenotesEnum
  refine ⟨hm, ?_⟩
  rcases hd with ⟨s, hv, hs⟩ | ⟨hi, hns⟩
  · subst hv; simp [hs]
  · cases v <;> first | exact hi | exact absurd rfl (hns _)

end Frappy.Lemmas.C01
