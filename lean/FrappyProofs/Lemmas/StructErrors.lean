import FrappyProofs.Lemmas.ExtParams
/-
Error states of the members of a struct parameter: an operation that returns and during which a value of the struct
parameter was announced leaves no member in error state (`mP`: `readerror` set or never announced).

`Q s` = "if a struct update is in the update stream of the operation so far, no member is flagged".  Every step of every
operation keeps `Q` except `memberError`, and a `memberError` always ends the operation with an exception.
-/
namespace Frappy.ExtParams

def HasStructEv (s : St) : Prop := ∃ d, Ev.struct d ∈ s.evs
def Clean (cfg : Cfg) (s : St) : Prop := ∀ m ∈ cfg.members, m ∉ s.mP
def Q (cfg : Cfg) (s : St) : Prop := HasStructEv s → Clean cfg s

theorem q_mono (cfg : Cfg) {s t : St} (hev : HasStructEv t → HasStructEv s) (hsub : ∀ x ∈ t.mP, x ∈ s.mP)
    (h : Q cfg s) : Q cfg t :=
  fun he m hm hmem => h (hev he) m hm (hsub m hmem)

theorem hasStructEv_append_mem (s : St) (m : String) (x : Val) (evs : List Ev) (h : evs = s.evs ++ [.mem m x])
    (he : ∃ d, Ev.struct d ∈ evs) : HasStructEv s := by
  obtain ⟨d, hd⟩ := he
  rw [h] at hd
  simp only [List.mem_append, List.mem_singleton] at hd
  rcases hd with hd | hd
  · exact ⟨d, hd⟩
  · cases hd

theorem mem_clearM (s : St) (m x : String) (h : x ∈ clearM s m) : x ∈ s.mP ∧ x ≠ m := by
  unfold clearM at h
  simp only [List.mem_filter, bne_iff_ne, ne_eq] at h
  exact h

/-! `announceUpdate(member, x)` while the member callback is suppressed -/

theorem ami_sub (cfg : Cfg) (m : String) (x : Val) (s : St) : ∀ y ∈ (announceMemberIn cfg m x s).mP, y ∈ s.mP := by
  intro y hy
  unfold announceMemberIn at hy
  split at hy
  · exact hy
  · exact (mem_clearM s m y hy).1

theorem ami_clear (cfg : Cfg) (m : String) (x : Val) (s : St) : m ∉ (announceMemberIn cfg m x s).mP := by
  unfold announceMemberIn
  split
  · rename_i h
    unfold omittedS pendM at h
    simp only [Bool.and_eq_true, Bool.not_eq_true'] at h
    intro hm
    have : s.mP.contains m = true := by simpa using hm
    rw [this] at h; cases h.2
  · intro hm
    exact (mem_clearM s m m hm).2 rfl

theorem ami_ev (cfg : Cfg) (m : String) (x : Val) (s : St) (h : HasStructEv (announceMemberIn cfg m x s)) :
    HasStructEv s := by
  unfold announceMemberIn at h
  split at h
  · exact h
  · exact hasStructEv_append_mem s m x _ rfl h

/-! the loop of `struct_cb` -/

theorem setMembers_sub (cfg : Cfg) (ms : List String) (d : Dict) : ∀ s, ∀ y ∈ (setMembers cfg ms d s).mP, y ∈ s.mP := by
  induction ms with
  | nil => intro s y hy; exact hy
  | cons m ms ih =>
    intro s y hy
    simp only [setMembers] at hy
    split at hy
    · exact hy
    · exact ami_sub cfg m _ s y (ih _ y hy)

theorem setMembers_ev (cfg : Cfg) (ms : List String) (d : Dict) : ∀ s, HasStructEv (setMembers cfg ms d s) → HasStructEv s := by
  induction ms with
  | nil => intro s h; exact h
  | cons m ms ih =>
    intro s h
    simp only [setMembers] at h
    split at h
    · exact h
    · exact ami_ev cfg m _ s (ih _ h)

theorem setMembers_clear (cfg : Cfg) (ms : List String) (d : Dict) (hd : ∀ m ∈ ms, ∃ x, d.lookup m = some x) :
    ∀ s, ∀ m ∈ ms, m ∉ (setMembers cfg ms d s).mP := by
  induction ms with
  | nil => intro s m hm; cases hm
  | cons m0 ms ih =>
    intro s m hm
    obtain ⟨x, hx⟩ := hd m0 List.mem_cons_self
    simp only [setMembers, hx]
    have hd' : ∀ m ∈ ms, ∃ x, d.lookup m = some x := fun m' hm' => hd m' (List.mem_cons_of_mem _ hm')
    by_cases hmm : m = m0
    · subst hmm
      intro hin
      exact ami_clear cfg m x s (setMembers_sub cfg ms d _ m hin)
    · have hmem : m ∈ ms := by
        cases hm with
        | head => exact absurd rfl hmm
        | tail _ h => exact h
      exact ih hd' _ m hmem

/-- an update of the struct with a well-formed value: omitted, or every member is (re)announced -/
theorem q_announceStruct (cfg : Cfg) (d : Dict) (s : St) (hd : wf cfg d = true) (h : Q cfg s) : Q cfg (announceStruct cfg d s) := by
  unfold announceStruct
  split
  · exact h
  · intro _ m hm
    have hkeys : ∀ m ∈ cfg.members, ∃ x, d.lookup m = some x := by
      intro m hm
      apply lookup_isSome_of_mem_keys
      rw [(wf_iff cfg d).1 hd]; exact hm
    exact setMembers_clear cfg cfg.members d hkeys _ m hm

theorem q_assignStruct (cfg : Cfg) (d : Dict) (s : St) (h : Q cfg s) : Q cfg (assignStruct cfg d s) := by
  unfold assignStruct
  split
  · rename_i hd; exact q_announceStruct cfg d s hd h
  · exact q_mono cfg (s := s) (fun he => he) (fun _ hx => hx) h

theorem q_announceMember (cfg : Cfg) (m : String) (x : Val) (s : St) (h : Q cfg s) : Q cfg (announceMember cfg m x s) := by
  unfold announceMember
  split
  · exact h
  · have h1 : Q cfg { s with mem := s.mem.set m x, mP := clearM s m } :=
      q_mono cfg (s := s) (fun he => he) (fun y hy => (mem_clearM s m y hy).1) h
    have h2 := q_assignStruct cfg (s.struct.set m x) _ h1
    exact q_mono cfg (fun he => hasStructEv_append_mem _ m x _ rfl he) (fun _ hx => hx) h2

/-! operations: `Q` at the start and the operation returned ⇒ `Q` at the end -/

theorem q_fine (cfg : Cfg) (s : St) (h : Q cfg s) : Q cfg (fine s) := q_mono cfg (s := s) (fun he => he) (fun _ hx => hx) h

theorem q_readStructA (cfg : Cfg) (r : RRes Dict) (s : St) (h : Q cfg s) (hok : (readStructA cfg r s).ok = true) :
    Q cfg (readStructA cfg r s) := by
  unfold readStructA at hok ⊢
  cases r with
  | fail k => simp [failedExc] at hok
  | ok d =>
    simp only at hok ⊢
    by_cases hd : wf cfg d = true
    · simp only [hd, if_true]; exact q_fine cfg _ (q_announceStruct cfg d s hd h)
    · simp [hd, failed] at hok

theorem q_writeStructA (cfg : Cfg) (v : Dict) (w : WRes Dict) (s : St) (h : Q cfg s) (hok : (writeStructA cfg v w s).ok = true) :
    Q cfg (writeStructA cfg v w s) := by
  unfold writeStructA at hok ⊢
  by_cases hv : wf cfg v = true
  · simp only [hv, Bool.not_true, Bool.false_eq_true, if_false] at hok ⊢
    cases w with
    | fail k => simp [failedExc] at hok
    | retNone => exact q_fine cfg _ (q_announceStruct cfg v s hv h)
    | ret d =>
      simp only at hok ⊢
      by_cases hd : wf cfg d = true
      · simp only [hd, if_true]; exact q_fine cfg _ (q_announceStruct cfg d s hd h)
      · simp [hd, failed] at hok
  · simp [hv, failed] at hok

theorem q_readStructC (cfg : Cfg) (r : RRes Dict) (s : St) (h : Q cfg s) (hok : (readStructC cfg r s).ok = true) :
    Q cfg (readStructC cfg r s) := by
  unfold readStructC at hok ⊢
  split
  · rename_i hc; simp only [hc, if_true] at hok; exact q_readStructA cfg r s h hok
  · exact q_fine cfg s h

theorem q_writeStructC (cfg : Cfg) (v : Dict) (w : WRes Dict) (s : St) (h : Q cfg s) (hok : (writeStructC cfg v w s).ok = true) :
    Q cfg (writeStructC cfg v w s) := by
  unfold writeStructC at hok ⊢
  split
  · rename_i hc; simp only [hc, if_true] at hok; exact q_writeStructA cfg v w s h hok
  · rename_i hc; simp only [hc] at hok; exact q_writeStructA cfg v .retNone s h hok

@[simp] theorem memberError_ok (m : String) (s : St) : (memberError m s).ok = s.ok := rfl

theorem q_readMemberA (cfg : Cfg) (m : String) (r : RRes Dict) (s : St) (h : Q cfg s) (hok : (readMemberA cfg m r s).ok = true) :
    Q cfg (readMemberA cfg m r s) := by
  unfold readMemberA at hok ⊢
  simp only at hok ⊢
  by_cases h1 : (readStructC cfg r s).ok = true
  · have hq := q_readStructC cfg r s h h1
    simp only [h1, Bool.not_true, Bool.false_eq_true, if_false] at hok ⊢
    cases hl : (readStructC cfg r s).struct.lookup m with
    | none => simp [hl, failed] at hok
    | some x => simp only []; exact q_fine cfg _ (q_announceMember cfg m x _ hq)
  · have hf : (readStructC cfg r s).ok = false := by simpa using h1
    simp [hf] at hok

theorem q_readMemberB (cfg : Cfg) (m : String) (r : RRes Val) (s : St) (h : Q cfg s) (hok : (readMemberB cfg m r s).ok = true) :
    Q cfg (readMemberB cfg m r s) := by
  unfold readMemberB at hok ⊢
  split
  · rename_i hc
    simp only [hc, if_true] at hok
    cases r with
    | fail k => simp [failedExc] at hok
    | ok x => exact q_fine cfg _ (q_announceMember cfg m x s h)
  · exact q_fine cfg s h

theorem q_readMemberC (cfg : Cfg) (m : String) (r : RRes Dict) (rB : RRes Val) (s : St) (h : Q cfg s)
    (hok : (readMemberC cfg m r rB s).ok = true) : Q cfg (readMemberC cfg m r rB s) := by
  unfold readMemberC at hok ⊢
  split
  · rename_i hc; simp only [hc, if_true] at hok; exact q_readMemberB cfg m rB s h hok
  · rename_i hc; simp only [hc] at hok; exact q_readMemberA cfg m r s h hok

theorem q_writeMemberA (cfg : Cfg) (m : String) (v : Val) (w : WRes Dict) (r : RRes Dict) (rB : RRes Val) (s : St) (h : Q cfg s)
    (hok : (writeMemberA cfg m v w r rB s).ok = true) : Q cfg (writeMemberA cfg m v w r rB s) := by
  unfold writeMemberA at hok ⊢
  simp only at hok ⊢
  by_cases h1 : (writeStructC cfg (s.struct.set m v) w s).ok = true
  · have hq1 := q_writeStructC cfg _ w s h h1
    simp only [h1, Bool.not_true, Bool.false_eq_true, if_false] at hok ⊢
    by_cases h2 : (readMemberC cfg m r rB (writeStructC cfg (s.struct.set m v) w s)).ok = true
    · have hq2 := q_readMemberC cfg m r rB _ hq1 h2
      simp only [h2, Bool.not_true, Bool.false_eq_true, if_false] at hok ⊢
      cases hl : (readMemberC cfg m r rB (writeStructC cfg (s.struct.set m v) w s)).mem.lookup m with
      | none => simp [hl, failed] at hok
      | some x => simp only []; exact q_fine cfg _ (q_announceMember cfg m x _ hq2)
    · have hf : (readMemberC cfg m r rB (writeStructC cfg (s.struct.set m v) w s)).ok = false := by simpa using h2
      simp [hf] at hok
  · have hf : (writeStructC cfg (s.struct.set m v) w s).ok = false := by simpa using h1
    simp [hf] at hok

theorem q_writeMemberB (cfg : Cfg) (m : String) (v : Val) (w : WRes Val) (s : St) (h : Q cfg s)
    (hok : (writeMemberB cfg m v w s).ok = true) : Q cfg (writeMemberB cfg m v w s) := by
  unfold writeMemberB at hok ⊢
  split
  · rename_i hc
    simp only [hc, if_true] at hok
    cases w with
    | fail k => simp [failedExc] at hok
    | retNone => exact q_fine cfg _ (q_announceMember cfg m v s h)
    | ret x => exact q_fine cfg _ (q_announceMember cfg m x s h)
  · exact q_fine cfg _ (q_announceMember cfg m v s h)

/-! the generated struct methods of the per-member layout: after `n` members either the loop is still running, `Q` holds and
there are `n` results, or it has stopped with fewer results (and the method will raise) -/

def LQ (cfg : Cfg) (n : Nat) (l : Loop) : Prop :=
  (l.stop = false ∧ Q cfg l.st ∧ l.result.length = n) ∨ (l.stop = true ∧ l.result.length < n)

theorem q_ami (cfg : Cfg) (m : String) (x : Val) (s : St) (h : Q cfg s) : Q cfg (announceMemberIn cfg m x s) :=
  q_mono cfg (ami_ev cfg m x s) (ami_sub cfg m x s) h

theorem lq_readIter (cfg : Cfg) (r : String → RRes Val) (n : Nat) (l : Loop) (m : String) (h : LQ cfg n l) :
    LQ cfg (n + 1) (readIter cfg r l m) := by
  unfold readIter
  rcases h with ⟨hs, hq, hn⟩ | ⟨hs, hn⟩
  · simp only [hs, Bool.false_eq_true, if_false]
    split
    · cases r m with
      | fail k => exact Or.inr ⟨rfl, by simp; omega⟩
      | ok x => exact Or.inl ⟨rfl, q_ami cfg m x _ hq, by simp [hn]⟩
    · cases l.st.mem.lookup m with
      | none => exact Or.inr ⟨rfl, by simp; omega⟩
      | some x => exact Or.inl ⟨rfl, hq, by simp [hn]⟩
  · simp only [hs, if_true]; exact Or.inr ⟨hs, by omega⟩

theorem lq_writeIter (cfg : Cfg) (v : Dict) (w : String → WRes Val) (n : Nat) (l : Loop) (m : String) (h : LQ cfg n l) :
    LQ cfg (n + 1) (writeIter cfg v w l m) := by
  unfold writeIter
  rcases h with ⟨hs, hq, hn⟩ | ⟨hs, hn⟩
  · simp only [hs, Bool.false_eq_true, if_false]
    cases v.lookup m with
    | none => exact Or.inr ⟨rfl, by simp; omega⟩
    | some req =>
      dsimp only
      split
      · cases w m with
        | fail k => exact Or.inr ⟨rfl, by simp; omega⟩
        | retNone => exact Or.inl ⟨rfl, q_ami cfg m req _ hq, by simp [hn]⟩
        | ret x => exact Or.inl ⟨rfl, q_ami cfg m x _ hq, by simp [hn]⟩
      · exact Or.inl ⟨rfl, q_ami cfg m req _ hq, by simp [hn]⟩
  · simp only [hs, if_true]; exact Or.inr ⟨hs, by omega⟩

theorem lq_foldl (cfg : Cfg) (f : Loop → String → Loop) (hf : ∀ n l m, LQ cfg n l → LQ cfg (n + 1) (f l m)) :
    ∀ (ms : List String) (n : Nat) (l : Loop), LQ cfg n l → LQ cfg (n + ms.length) (ms.foldl f l) := by
  intro ms
  induction ms with
  | nil => intro n l h; simpa using h
  | cons m ms ih =>
    intro n l h
    have := ih (n + 1) (f l m) (hf n l m h)
    simp only [List.foldl_cons, List.length_cons]
    have e : n + (ms.length + 1) = n + 1 + ms.length := by omega
    rw [e]; exact this

theorem q_finishLoop (cfg : Cfg) (isRead : Bool) (l : Loop) (h : LQ cfg cfg.members.length l)
    (hok : (finishLoop cfg isRead l).ok = true) : Q cfg (finishLoop cfg isRead l) := by
  unfold finishLoop at hok ⊢
  by_cases hlt : l.result.length < cfg.members.length
  · exfalso; simp only [hlt, if_true] at hok; split at hok <;> simp [failedExc] at hok
  · simp only [hlt, if_false] at hok ⊢
    rcases h with ⟨_, hq, _⟩ | ⟨_, hn⟩
    · by_cases hw : wf cfg l.result = true
      · simp only [hw, if_true]; exact q_fine cfg _ (q_announceStruct cfg _ _ hw hq)
      · simp [hw, failed] at hok
    · exact absurd hn hlt

theorem q_readStructB (cfg : Cfg) (r : String → RRes Val) (s : St) (h : Q cfg s) (hok : (readStructB cfg r s).ok = true) :
    Q cfg (readStructB cfg r s) := by
  unfold readStructB at hok ⊢
  have := lq_foldl cfg (readIter cfg r) (lq_readIter cfg r) cfg.members 0 { st := s } (Or.inl ⟨rfl, h, rfl⟩)
  rw [Nat.zero_add] at this
  exact q_finishLoop cfg true _ this hok

theorem q_writeStructB (cfg : Cfg) (v : Dict) (w : String → WRes Val) (s : St) (h : Q cfg s)
    (hok : (writeStructB cfg v w s).ok = true) : Q cfg (writeStructB cfg v w s) := by
  unfold writeStructB at hok ⊢
  by_cases hv : wf cfg v = true
  · simp only [hv, Bool.not_true, Bool.false_eq_true, if_false] at hok ⊢
    have := lq_foldl cfg (writeIter cfg v w) (lq_writeIter cfg v w) cfg.members 0 { st := s } (Or.inl ⟨rfl, h, rfl⟩)
    rw [Nat.zero_add] at this
    exact q_finishLoop cfg false _ this hok
  · simp [hv, failed] at hok

theorem q_step (cfg : Cfg) (s : St) (op : Op) (h : Q cfg s) (hok : (step cfg s op).ok = true) : Q cfg (step cfg s op) := by
  cases op with
  | readStruct rA rB =>
    simp only [step] at hok ⊢
    split
    · rename_i hc; simp only [hc, if_true] at hok; exact q_readStructC cfg rA s h hok
    · rename_i hc; simp only [hc] at hok; exact q_readStructB cfg rB s h hok
  | writeStruct v wA wB =>
    simp only [step] at hok ⊢
    split
    · rename_i hc; simp only [hc, if_true] at hok; exact q_writeStructC cfg v wA s h hok
    · rename_i hc; simp only [hc] at hok; exact q_writeStructB cfg v wB s h hok
  | readMember m rA rB =>
    simp only [step] at hok ⊢
    by_cases hm : cfg.members.contains m = true
    · simp only [hm, Bool.not_true, Bool.false_eq_true, if_false] at hok ⊢
      split
      · rename_i hc; simp only [hc, if_true] at hok; exact q_readMemberA cfg m rA s h hok
      · rename_i hc; simp only [hc] at hok; exact q_readMemberB cfg m rB s h hok
    · have hm' : cfg.members.contains m = false := by simpa using hm
      rw [hm'] at hok; simp [failed] at hok
  | writeMember m v wA rA wB rB =>
    simp only [step] at hok ⊢
    by_cases hm : cfg.members.contains m = true
    · simp only [hm, Bool.not_true, Bool.false_eq_true, if_false] at hok ⊢
      split
      · rename_i hc; simp only [hc, if_true] at hok; exact q_writeMemberA cfg m v wA rA rB s h hok
      · rename_i hc; simp only [hc] at hok; exact q_writeMemberB cfg m v wB s h hok
    · have hm' : cfg.members.contains m = false := by simpa using hm
      rw [hm'] at hok; simp [failed] at hok
  | driverAssignStruct v =>
    simp only [step] at hok ⊢
    by_cases hv : wf cfg v = true
    · simp only [hv, if_true]; exact q_fine cfg _ (q_assignStruct cfg v s h)
    · simp [hv, failed] at hok
  | driverAssignMember m v =>
    simp only [step] at hok ⊢
    by_cases hm : cfg.members.contains m = true
    · simp only [hm, Bool.not_true, Bool.false_eq_true, if_false]; exact q_fine cfg _ (q_announceMember cfg m v s h)
    · have hm' : cfg.members.contains m = false := by simpa using hm
      rw [hm'] at hok; simp [failed] at hok

/-! ### overlapping operations: assignments of other threads between the steps of an access keep `Q` and the outcome flag -/

theorem ami_ok (cfg : Cfg) (m : String) (x : Val) (s : St) : (announceMemberIn cfg m x s).ok = s.ok := by
  unfold announceMemberIn; split <;> rfl

theorem setMembers_ok (cfg : Cfg) (ms : List String) (d : Dict) : ∀ s, (setMembers cfg ms d s).ok = s.ok := by
  induction ms with
  | nil => intro s; rfl
  | cons m ms ih =>
    intro s
    simp only [setMembers]
    split
    · rfl
    · rw [ih, ami_ok]

theorem announceStruct_ok (cfg : Cfg) (d : Dict) (s : St) : (announceStruct cfg d s).ok = s.ok := by
  unfold announceStruct
  split
  · rfl
  · show (setMembers cfg cfg.members d _).ok = s.ok
    rw [setMembers_ok]

theorem assignStruct_ok (cfg : Cfg) (d : Dict) (s : St) : (assignStruct cfg d s).ok = s.ok := by
  unfold assignStruct
  split
  · exact announceStruct_ok cfg d s
  · rfl

theorem announceMember_ok (cfg : Cfg) (m : String) (x : Val) (s : St) : (announceMember cfg m x s).ok = s.ok := by
  unfold announceMember
  split
  · rfl
  · show (assignStruct cfg _ _).ok = s.ok
    rw [assignStruct_ok]

theorem astep_ok (cfg : Cfg) (a : AOp) (s : St) : (astep cfg s a).ok = s.ok := by
  cases a with
  | assignStruct v => exact assignStruct_ok cfg v s
  | assignMember m v =>
    simp only [astep]
    split
    · exact announceMember_ok cfg m v s
    · rfl

theorem interrupt_ok (cfg : Cfg) (ops : List AOp) : ∀ s, (interrupt cfg ops s).ok = s.ok := by
  induction ops with
  | nil => intro s; rfl
  | cons a ops ih => intro s; simp only [interrupt, List.foldl_cons] at ih ⊢; rw [ih, astep_ok]

theorem q_astep (cfg : Cfg) (a : AOp) (s : St) (h : Q cfg s) : Q cfg (astep cfg s a) := by
  cases a with
  | assignStruct v => exact q_assignStruct cfg v s h
  | assignMember m v =>
    simp only [astep]
    split
    · exact q_announceMember cfg m v s h
    · exact h

theorem q_interrupt (cfg : Cfg) (ops : List AOp) : ∀ s, Q cfg s → Q cfg (interrupt cfg ops s) := by
  induction ops with
  | nil => intro s h; exact h
  | cons a ops ih => intro s h; simp only [interrupt, List.foldl_cons] at ih ⊢; exact ih _ (q_astep cfg a s h)

theorem lq_readIterO (cfg : Cfg) (r : String → RRes Val) (ov : Overlap) (n : Nat) (l : Loop) (m : String) (h : LQ cfg n l) :
    LQ cfg (n + 1) (readIterO cfg r ov l m) := by
  unfold readIterO
  rcases h with ⟨hs, hq, hn⟩ | ⟨hs, hn⟩
  · simp only [hs, Bool.false_eq_true, if_false]
    have hq1 := q_interrupt cfg (ov.before m) l.st hq
    split
    · split
      · exact Or.inr ⟨rfl, by simp; omega⟩
      · exact Or.inl ⟨rfl, q_ami cfg m _ _ hq1, by simp [hn]⟩
    · split
      · exact Or.inr ⟨rfl, by simp; omega⟩
      · exact Or.inl ⟨rfl, hq1, by simp [hn]⟩
  · simp only [hs, if_true]; exact Or.inr ⟨hs, by omega⟩

theorem lq_writeIterO (cfg : Cfg) (v : Dict) (w : String → WRes Val) (ov : Overlap) (n : Nat) (l : Loop) (m : String)
    (h : LQ cfg n l) : LQ cfg (n + 1) (writeIterO cfg v w ov l m) := by
  unfold writeIterO
  rcases h with ⟨hs, hq, hn⟩ | ⟨hs, hn⟩
  · simp only [hs, Bool.false_eq_true, if_false]
    have hq1 := q_interrupt cfg (ov.before m) l.st hq
    split
    · exact Or.inr ⟨rfl, by simp; omega⟩
    · split
      · split
        · exact Or.inr ⟨rfl, by simp; omega⟩
        · exact Or.inl ⟨rfl, q_ami cfg m _ _ hq1, by simp [hn]⟩
        · exact Or.inl ⟨rfl, q_ami cfg m _ _ hq1, by simp [hn]⟩
      · exact Or.inl ⟨rfl, q_ami cfg m _ _ hq1, by simp [hn]⟩
  · simp only [hs, if_true]; exact Or.inr ⟨hs, by omega⟩

theorem q_finishLoopO (cfg : Cfg) (isRead : Bool) (ov : Overlap) (l : Loop) (h : LQ cfg cfg.members.length l)
    (hok : (finishLoopO cfg isRead ov l).ok = true) : Q cfg (finishLoopO cfg isRead ov l) := by
  unfold finishLoopO at hok ⊢
  simp only at hok ⊢
  by_cases hlt : l.result.length < cfg.members.length
  · exfalso; simp only [hlt, if_true] at hok; split at hok <;> simp [failedExc] at hok
  · simp only [hlt, if_false] at hok ⊢
    rcases h with ⟨_, hq, _⟩ | ⟨_, hn⟩
    · have hq2 := q_interrupt cfg ov.afterRead _ (q_interrupt cfg ov.atEnd _ hq)
      by_cases hw : wf cfg l.result = true
      · simp only [hw, if_true]; exact q_fine cfg _ (q_announceStruct cfg _ _ hw hq2)
      · simp [hw, failed] at hok
    · exact absurd hn hlt

theorem q_readStructO (cfg : Cfg) (r : String → RRes Val) (ov : Overlap) (s : St) (h : Q cfg s)
    (hok : (readStructO cfg r ov s).ok = true) : Q cfg (readStructO cfg r ov s) := by
  unfold readStructO at hok ⊢
  have := lq_foldl cfg (readIterO cfg r ov) (lq_readIterO cfg r ov) cfg.members 0 { st := s } (Or.inl ⟨rfl, h, rfl⟩)
  rw [Nat.zero_add] at this
  exact q_finishLoopO cfg true ov _ this hok

theorem q_writeStructO (cfg : Cfg) (v : Dict) (w : String → WRes Val) (ov : Overlap) (s : St) (h : Q cfg s)
    (hok : (writeStructO cfg v w ov s).ok = true) : Q cfg (writeStructO cfg v w ov s) := by
  unfold writeStructO at hok ⊢
  by_cases hv : wf cfg v = true
  · simp only [hv, Bool.not_true, Bool.false_eq_true, if_false] at hok ⊢
    have := lq_foldl cfg (writeIterO cfg v w ov) (lq_writeIterO cfg v w ov) cfg.members 0 { st := s } (Or.inl ⟨rfl, h, rfl⟩)
    rw [Nat.zero_add] at this
    exact q_finishLoopO cfg false ov _ this hok
  · simp [hv, failed] at hok

theorem q_readMemberAV (cfg : Cfg) (m : String) (r : RRes Dict) (iv : List (List AOp)) (k : Nat) (s : St) (h : Q cfg s)
    (hok : (readMemberAV cfg m r iv k s).1.ok = true) : Q cfg (readMemberAV cfg m r iv k s).1 := by
  have key : ∀ (ret : Option Val) (s2 : St), Q cfg s2 →
      (match ret with
        | none => (failed (memberError m s2), (none : Option Val))
        | some x => (fine (announceMember cfg m x s2), some x)).1.ok = true →
      Q cfg (match ret with
        | none => (failed (memberError m s2), (none : Option Val))
        | some x => (fine (announceMember cfg m x s2), some x)).1 := by
    intro ret s2 hq2 hk
    cases ret with
    | none => simp [failed] at hk
    | some x => exact q_fine cfg _ (q_announceMember cfg m x s2 hq2)
  simp only [readMemberAV] at hok ⊢
  by_cases h1 : (readStructC cfg r (interrupt cfg (ivAt iv k) s)).ok = true
  · have hq1 := q_readStructC cfg r _ (q_interrupt cfg (ivAt iv k) s h) h1
    have hq2 := q_interrupt cfg (ivAt iv (k + 1)) _ hq1
    simp only [h1, Bool.not_true, Bool.false_eq_true, if_false] at hok ⊢
    exact key _ _ hq2 hok
  · have hf : (readStructC cfg r (interrupt cfg (ivAt iv k) s)).ok = false := by simpa using h1
    simp only [hf, Bool.not_false, if_true] at hok
    rw [memberError_ok, interrupt_ok, hf] at hok
    cases hok

theorem q_readMemberBV (cfg : Cfg) (m : String) (rB : RRes Val) (iv : List (List AOp)) (k : Nat) (s : St) (h : Q cfg s)
    (hok : (readMemberBV cfg m rB iv k s).1.ok = true) : Q cfg (readMemberBV cfg m rB iv k s).1 := by
  simp only [readMemberBV] at hok ⊢
  cases rB with
  | fail e => simp [failedExc] at hok
  | ok x => exact q_fine cfg _ (q_announceMember cfg m x _ (q_interrupt cfg (ivAt iv k) s h))

theorem q_writeMemberAO (cfg : Cfg) (m : String) (v : Val) (w : WRes Dict) (r : RRes Dict) (rB : RRes Val)
    (iv : List (List AOp)) (s : St) (h : Q cfg s) (hok : (writeMemberAO cfg m v w r rB iv s).ok = true) :
    Q cfg (writeMemberAO cfg m v w r rB iv s) := by
  have hqa := q_interrupt cfg (ivAt iv 0) s h
  have hq1i := q_interrupt cfg (ivAt iv 1) _ hqa
  have key : ∀ (sr : St × Option Val) (k : Nat), (sr.1.ok = true → Q cfg sr.1) →
      (if !sr.1.ok then sr.1 else
        match sr.2 with
        | none => failed sr.1
        | some x => fine (announceMember cfg m x (interrupt cfg (ivAt iv k) sr.1))).ok = true →
      Q cfg (if !sr.1.ok then sr.1 else
        match sr.2 with
        | none => failed sr.1
        | some x => fine (announceMember cfg m x (interrupt cfg (ivAt iv k) sr.1))) := by
    intro sr k hsr hk
    obtain ⟨s', ret⟩ := sr
    by_cases h2 : s'.ok = true
    · simp only [h2, Bool.not_true, Bool.false_eq_true, if_false] at hk ⊢
      cases ret with
      | none => simp [failed] at hk
      | some x => exact q_fine cfg _ (q_announceMember cfg m x _ (q_interrupt cfg _ _ (hsr h2)))
    · have hf : s'.ok = false := by simpa using h2
      simp [hf] at hk
  simp only [writeMemberAO] at hok ⊢
  by_cases h1 : (writeStructC cfg ((interrupt cfg (ivAt iv 0) s).struct.set m v) w
      (interrupt cfg (ivAt iv 1) (interrupt cfg (ivAt iv 0) s))).ok = true
  · have hq1 := q_writeStructC cfg _ w _ hq1i h1
    simp only [h1, Bool.not_true, Bool.false_eq_true, if_false] at hok ⊢
    by_cases hR : cfg.hasR m = true
    · simp only [hR, ↓reduceIte] at hok ⊢
      exact key _ 3 (fun hk => q_readMemberBV cfg m rB iv 2 _ hq1 hk) hok
    · simp only [hR] at hok ⊢
      exact key _ 4 (fun hk => q_readMemberAV cfg m r iv 2 _ hq1 hk) hok
  · have hf : (writeStructC cfg ((interrupt cfg (ivAt iv 0) s).struct.set m v) w
        (interrupt cfg (ivAt iv 1) (interrupt cfg (ivAt iv 0) s))).ok = false := by simpa using h1
    simp [hf] at hok

theorem q_ostep (cfg : Cfg) (s : St) (op : OOp) (h : Q cfg s) (hok : (ostep cfg s op).ok = true) : Q cfg (ostep cfg s op) := by
  cases op with
  | seq op => exact q_step cfg s op h hok
  | readStructO rA rB ov =>
    simp only [ostep] at hok ⊢
    split
    · rename_i hc; simp only [hc, if_true] at hok; exact q_readStructC cfg rA _ (q_interrupt cfg _ _ h) hok
    · rename_i hc; simp only [hc] at hok; exact q_readStructO cfg rB ov s h hok
  | writeStructO v wA wB ov =>
    simp only [ostep] at hok ⊢
    split
    · rename_i hc; simp only [hc, if_true] at hok; exact q_writeStructC cfg v wA _ (q_interrupt cfg _ _ h) hok
    · rename_i hc; simp only [hc] at hok; exact q_writeStructO cfg v wB ov s h hok
  | readMemberO m rA iv =>
    simp only [ostep] at hok ⊢
    split
    · rename_i hc; simp only [hc, if_true] at hok; exact q_readMemberAV cfg m rA iv 0 s h hok
    · rename_i hc; simp only [hc] at hok; simp [failed] at hok
  | writeMemberO m v wA rA rB iv =>
    simp only [ostep] at hok ⊢
    split
    · rename_i hc; simp only [hc, if_true] at hok; exact q_writeMemberAO cfg m v wA rA rB iv s h hok
    · rename_i hc; simp only [hc] at hok; simp [failed] at hok

end Frappy.ExtParams
