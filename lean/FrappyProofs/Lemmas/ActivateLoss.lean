import FrappyProofs.Lemmas.Activate
/-
C08, clause `NoLoss`: the inductive invariant that relates the monitor `lossMon` to the tables and
program counters of the model, and the theorem that every reachable trace is accepted.
-/
namespace Frappy.Activate
open Frappy.Spec.C08

/-! ## the monitor state after a trace -/

def lossAfter (cfg : Cfg) (tr : List Obs) : LossSt := (lossMon cfg).after (lossMon cfg).init tr

@[simp] theorem lossAfter_nil (cfg : Cfg) : lossAfter cfg [] = ⟨fun _ => [], fun _ => none⟩ := rfl

@[simp] theorem lossAfter_append (cfg : Cfg) (tr : List Obs) (o : Obs) :
    lossAfter cfg (tr ++ [o]) = lossNext cfg (lossAfter cfg tr) o :=
  Mon.after_append (lossMon cfg) (lossMon cfg).init tr o

theorem lossAcc_append (cfg : Cfg) (tr : List Obs) (o : Obs) :
    (lossMon cfg).acceptsFrom (lossMon cfg).init (tr ++ [o]) =
      ((lossMon cfg).acceptsFrom (lossMon cfg).init tr && lossOk (lossAfter cfg tr) o) :=
  Mon.acceptsFrom_append (lossMon cfg) (lossMon cfg).init tr o

@[simp] theorem lossNext_firm (cfg : Cfg) (s : LossSt) (o : Obs) : (lossNext cfg s o).firm = firmNext s.firm o := rfl
@[simp] theorem lossNext_oblig (cfg : Cfg) (s : LossSt) (o : Obs) :
    (lossNext cfg s o).oblig = obligNext cfg (firmNext s.firm o) s.oblig o := rfl

/-! ### `firm` after one event -/

theorem mem_firmNext (firm : Conn → List Scope) (o : Obs) (c : Conn) (s : Scope) (h : s ∈ firmNext firm o c) :
    s ∈ firm c ∨ o = .reply c (.activate s) true := by
  cases o with
  | reqStart c' r =>
    left
    simp only [firmNext, set_apply] at h
    split at h
    · rename_i hc; subst hc; exact (List.mem_filter.1 h).1
    · exact h
  | reply c' r ok =>
    cases r <;> cases ok <;> simp only [firmNext, set_apply] at h <;> (try exact Or.inl h)
    split at h
    · rename_i hc; subst hc
      rcases List.mem_cons.1 h with h | h
      · right; rw [h]
      · exact Or.inl h
    · exact Or.inl h
  | deliver _ _ _ _ => exact Or.inl h
  | emit _ _ _ _ => exact Or.inl h
  | emitDone _ => exact Or.inl h

theorem mem_firmNext_reqStart (firm : Conn → List Scope) (c : Conn) (r : Req) (s : Scope)
    (h : s ∈ firmNext firm (.reqStart c r) c) : ends r s = false := by
  simp only [firmNext, set_same] at h
  simpa using (List.mem_filter.1 h).2

theorem firmNext_other (firm : Conn → List Scope) (o : Obs) (c : Conn) (h : obsConn o ≠ some c) :
    firmNext firm o c = firm c := by
  cases o with
  | reqStart c' r =>
    have : c ≠ c' := by intro hc; apply h; simp [obsConn, hc]
    simp [firmNext, this]
  | reply c' r ok =>
    have : c ≠ c' := by intro hc; apply h; simp [obsConn, hc]
    cases r <;> cases ok <;> simp [firmNext, this]
  | deliver _ _ _ _ => rfl
  | emit _ _ _ _ => rfl
  | emitDone _ => rfl

/-- an event that is not a request marker only adds to `firm` -/
theorem firmNext_mono (firm : Conn → List Scope) (o : Obs) (h : ∀ c r, o ≠ .reqStart c r) (c : Conn) (s : Scope)
    (hs : s ∈ firm c) : s ∈ firmNext firm o c := by
  cases o with
  | reqStart c' r => exact absurd rfl (h c' r)
  | reply c' r ok =>
    cases r <;> cases ok <;> simp only [firmNext] <;> (try exact hs)
    simp only [set_apply]
    split
    · rename_i hc; subst hc; exact List.mem_cons_of_mem _ hs
    · exact hs
  | deliver _ _ _ _ => exact hs
  | emit _ _ _ _ => exact hs
  | emitDone _ => exact hs

theorem coveredBy_mono {l l' : List Scope} (h : ∀ s ∈ l, s ∈ l') (m : Mod) (p : Par) (hc : coveredBy l m p = true) :
    coveredBy l' m p = true := by
  simp only [coveredBy, List.any_eq_true] at *
  obtain ⟨s, h1, h2⟩ := hc
  exact ⟨s, h s h1, h2⟩

/-! ## program counters and the table -/

def actScope : Req → Option Scope
  | .activate s => some s
  | _ => none

@[simp] theorem actScope_activate {s} : actScope (.activate s) = some s := rfl
@[simp] theorem actScope_deactivate {s} : actScope (.deactivate s) = none := rfl
@[simp] theorem actScope_ident : actScope .ident = none := rfl
@[simp] theorem actScope_disconnect : actScope .disconnect = none := rfl

/-- the scope a request thread has entered into the table and not yet announced as `active` -/
def registered : HPc → Option Scope
  | .relSub r => actScope r
  | .wantUpd s _ _ => some s
  | .snapMod s _ _ _ => some s
  | .snapSend s _ _ _ _ _ => some s
  | .relDisp r ok => if ok then actScope r else none
  | .rep r ok => if ok then actScope r else none
  | _ => none

/-- the request whose marker is written and whose table change is still to come -/
def closing : HPc → Option Req
  | .start r => some r
  | .wantSub r => some r
  | _ => none

@[simp] theorem registered_wantAcc {w m p e n} : registered (.wantAcc w m p e n) = none := rfl
@[simp] theorem registered_relAcc {w m p e n} : registered (.relAcc w m p e n) = none := rfl
@[simp] theorem closing_wantAcc {w m p e n} : closing (.wantAcc w m p e n) = none := rfl
@[simp] theorem closing_relAcc {w m p e n} : closing (.relAcc w m p e n) = none := rfl
@[simp] theorem registered_afterCall {w m p e n} : registered (afterCall w m p e n) = none := by
  unfold afterCall; split <;> simp [registered, actScope]
@[simp] theorem closing_afterCall {w m p e n} : closing (afterCall w m p e n) = none := by
  unfold afterCall; split <;> rfl
@[simp] theorem registered_afterStart {cfg r} : registered (afterStart cfg r) = none := by
  cases r with
  | rw w m p e => by_cases hk : cfg.rw w m p = .calls <;> simp [afterStart, hk, registered, actScope]
  | _ => rfl
theorem closing_afterStart {cfg r r'} (h : closing (afterStart cfg r) = some r') : r = r' := by
  cases r with
  | rw w m p e => by_cases hk : cfg.rw w m p = .calls <;> simp [afterStart, hk, closing] at h
  | _ => simpa [afterStart, closing] using h
@[simp] theorem closing_afterStart_iff {cfg r r'} :
    closing (afterStart cfg r) = some r' ↔ (r = r' ∧ afterStart cfg r = .wantSub r) := by
  cases r with
  | rw w m p e => by_cases hk : cfg.rw w m p = .calls <;> simp [afterStart, hk, closing]
  | _ => simp [afterStart, closing]
@[simp] theorem registered_idle : registered .idle = none := rfl
@[simp] theorem registered_start {r} : registered (.start r) = none := rfl
@[simp] theorem registered_wantSub {r} : registered (.wantSub r) = none := rfl
@[simp] theorem registered_relSub {r} : registered (.relSub r) = actScope r := rfl
@[simp] theorem registered_wantUpd {s m rest} : registered (.wantUpd s m rest) = some s := rfl
@[simp] theorem registered_snapMod {s m ps rest} : registered (.snapMod s m ps rest) = some s := rfl
@[simp] theorem registered_snapSend {s m p e ps rest} : registered (.snapSend s m p e ps rest) = some s := rfl
@[simp] theorem registered_relDisp {r ok} : registered (.relDisp r ok) = if ok then actScope r else none := rfl
@[simp] theorem registered_rep {r ok} : registered (.rep r ok) = if ok then actScope r else none := rfl
@[simp] theorem registered_done : registered .done = none := rfl
@[simp] theorem registered_firstPc (r) : registered (firstPc r) = none := by cases r <;> rfl
@[simp] theorem registered_afterSnap (s l) : registered (afterSnap s l) = some s := by cases l <;> rfl
@[simp] theorem registered_afterTable (cfg c r) : registered (afterTable cfg c r) = actScope r := by
  cases r <;> simp [afterTable, actScope]

@[simp] theorem closing_idle : closing .idle = none := rfl
@[simp] theorem closing_start {r} : closing (.start r) = some r := rfl
@[simp] theorem closing_wantSub {r} : closing (.wantSub r) = some r := rfl
@[simp] theorem closing_relSub {r} : closing (.relSub r) = none := rfl
@[simp] theorem closing_wantUpd {s m rest} : closing (.wantUpd s m rest) = none := rfl
@[simp] theorem closing_snapMod {s m ps rest} : closing (.snapMod s m ps rest) = none := rfl
@[simp] theorem closing_snapSend {s m p e ps rest} : closing (.snapSend s m p e ps rest) = none := rfl
@[simp] theorem closing_relDisp {r ok} : closing (.relDisp r ok) = none := rfl
@[simp] theorem closing_rep {r ok} : closing (.rep r ok) = none := rfl
@[simp] theorem closing_done : closing .done = none := rfl
@[simp] theorem closing_firstPc (r) : closing (firstPc r) = some r := by cases r <;> rfl
@[simp] theorem closing_afterSnap (s l) : closing (afterSnap s l) = none := by cases l <;> rfl
@[simp] theorem closing_afterTable (cfg c r) : closing (afterTable cfg c r) = none := by
  cases r <;> simp [afterTable]

theorem tableHas_tableWrite_other (σ : State) (c c' : Conn) (r : Req) (a : Scope) (h : c' ≠ c) :
    tableHas (tableWrite σ c r) c' a = tableHas σ c' a := by
  exact tableHas_write_other σ c c' r a h

theorem tableHas_tableWrite_keep (σ : State) (c : Conn) (r : Req) (a : Scope) (he : ends r a = false)
    (h : tableHas σ c a = true) : tableHas (tableWrite σ c r) c a = true := by
  rw [tableHas_tableWrite]; simp [he, h]

theorem tableHas_tableWrite_reg (σ : State) (c : Conn) (r : Req) (s : Scope) (h : actScope r = some s) :
    tableHas (tableWrite σ c r) c s = true := by
  cases r <;> simp only [actScope, Option.some.injEq, reduceCtorEq] at h
  subst h
  rename_i s
  simp [tableHas_tableWrite, ends]

/-! ## the obligation of an updater, by its program counter -/

def oblRel (cfg : Cfg) (firm : Conn → List Scope) : UPc → Option Oblig → Prop
  | .idle, ob => ob = none
  | .done, ob => ob = none
  | .relUpd _ false, ob => ob = none
  | .relUpd _ true, ob => ∃ o, ob = some o ∧ o.l = []
  | .wantSub m p e, ob => ∃ o, ob = some o ∧ o.m = m ∧ o.p = p ∧ o.e = e ∧
      ∀ c ∈ o.l, c ∈ cfg.conns ∧ coveredBy (firm c) m p = true
  | .sending m p e ls, ob => ∃ o, ob = some o ∧ o.m = m ∧ o.p = p ∧ o.e = e ∧ ∀ c ∈ o.l, c ∈ ls

@[simp] theorem oblRel_idle {cfg firm ob} : oblRel cfg firm .idle ob = (ob = none) := rfl
@[simp] theorem oblRel_done {cfg firm ob} : oblRel cfg firm .done ob = (ob = none) := rfl
@[simp] theorem oblRel_relUpd_false {cfg firm ob m} : oblRel cfg firm (.relUpd m false) ob = (ob = none) := rfl
@[simp] theorem oblRel_relUpd_true {cfg firm ob m} :
    oblRel cfg firm (.relUpd m true) ob = ∃ o, ob = some o ∧ o.l = [] := rfl
@[simp] theorem oblRel_wantSub {cfg firm ob m p e} :
    oblRel cfg firm (.wantSub m p e) ob = ∃ o, ob = some o ∧ o.m = m ∧ o.p = p ∧ o.e = e ∧
      ∀ c ∈ o.l, c ∈ cfg.conns ∧ coveredBy (firm c) m p = true := rfl
@[simp] theorem oblRel_sending {cfg firm ob m p e ls} :
    oblRel cfg firm (.sending m p e ls) ob =
      ∃ o, ob = some o ∧ o.m = m ∧ o.p = p ∧ o.e = e ∧ ∀ c ∈ o.l, c ∈ ls := rfl

/-- obligations only shrink, and what stays is still covered -/
theorem oblRel_shrink (cfg : Cfg) (firm firm' : Conn → List Scope) (pc : UPc) (ob : Option Oblig) (f : Oblig → Oblig)
    (hf : ∀ o, (f o).m = o.m ∧ (f o).p = o.p ∧ (f o).e = o.e ∧
      ∀ x ∈ (f o).l, x ∈ o.l ∧ (coveredBy (firm x) o.m o.p = true → coveredBy (firm' x) o.m o.p = true))
    (h : oblRel cfg firm pc ob) : oblRel cfg firm' pc (ob.map f) := by
  cases pc with
  | idle => simp_all
  | done => simp_all
  | relUpd m em =>
    cases em with
    | false => simp_all
    | true =>
      simp only [oblRel_relUpd_true] at *
      obtain ⟨o, rfl, hl⟩ := h
      refine ⟨f o, rfl, ?_⟩
      have := (hf o).2.2.2
      rw [hl] at this
      cases hfl : (f o).l with
      | nil => rfl
      | cons x xs => exact absurd (this x (by simp [hfl])).1 (by simp)
  | wantSub m p e =>
    simp only [oblRel_wantSub] at *
    obtain ⟨o, rfl, hm, hp, he, hl⟩ := h
    obtain ⟨g1, g2, g3, g4⟩ := hf o
    refine ⟨f o, rfl, g1.trans hm, g2.trans hp, g3.trans he, ?_⟩
    intro c hc
    obtain ⟨k1, k2⟩ := g4 c hc
    obtain ⟨k3, k4⟩ := hl c k1
    rw [hm, hp] at k2
    exact ⟨k3, k2 k4⟩
  | sending m p e ls =>
    simp only [oblRel_sending] at *
    obtain ⟨o, rfl, hm, hp, he, hl⟩ := h
    obtain ⟨g1, g2, g3, g4⟩ := hf o
    exact ⟨f o, rfl, g1.trans hm, g2.trans hp, g3.trans he, fun c hc => hl c (g4 c hc).1⟩

/-- any event that is not the updater's own `emit` / `emitDone` keeps its obligation relation -/
theorem oblRel_next (cfg : Cfg) (s : LossSt) (o : Obs) (pc : UPc) (k : Nat) (hk : obsUpd o ≠ some k)
    (h : oblRel cfg s.firm pc (s.oblig k)) :
    oblRel cfg (lossNext cfg s o).firm pc ((lossNext cfg s o).oblig k) := by
  cases o with
  | reqStart c r =>
    simp only [lossNext_firm, lossNext_oblig, obligNext]
    apply oblRel_shrink cfg s.firm _ pc _ _ _ h
    intro o
    refine ⟨rfl, rfl, rfl, ?_⟩
    intro x hx
    simp only [List.mem_filter, Bool.or_eq_true, bne_iff_ne, ne_eq] at hx
    refine ⟨hx.1, ?_⟩
    intro hcov
    by_cases hxc : x = c
    · subst hxc
      rcases hx.2 with h1 | h1
      · exact absurd rfl h1
      · exact h1
    · rw [firmNext_other _ _ _ (by simp [obsConn]; exact fun h => hxc h.symm)]
      exact hcov
  | reply c r ok =>
    simp only [lossNext_firm, lossNext_oblig, obligNext]
    have := oblRel_shrink cfg s.firm (firmNext s.firm (.reply c r ok)) pc (s.oblig k) id
      (by
        intro o
        refine ⟨rfl, rfl, rfl, ?_⟩
        intro x hx
        refine ⟨hx, ?_⟩
        exact coveredBy_mono (fun a ha => firmNext_mono _ _ (by simp) x a ha) _ _) h
    simpa using this
  | deliver c m p e =>
    simp only [lossNext_firm, lossNext_oblig, obligNext]
    apply oblRel_shrink cfg s.firm _ pc _ _ _ h
    intro o
    split
    · refine ⟨rfl, rfl, rfl, ?_⟩
      intro x hx
      exact ⟨(List.mem_filter.1 hx).1, fun h => h⟩
    · exact ⟨rfl, rfl, rfl, fun x hx => ⟨hx, fun h => h⟩⟩
  | emit u m p e =>
    have : k ≠ u := by intro hc; apply hk; simp [obsUpd, hc]
    simpa [obligNext, firmNext, set_apply, this] using h
  | emitDone u =>
    have : k ≠ u := by intro hc; apply hk; simp [obsUpd, hc]
    simpa [obligNext, firmNext, set_apply, this] using h

theorem lossOk_of_notUpd (s : LossSt) (o : Obs) (h : obsUpd o = none) : lossOk s o = true := by
  cases o <;> simp_all [lossOk, obsUpd]

/-! ## the invariant -/

structure LossInv (cfg : Cfg) (σ : State) : Prop where
  acc : (lossMon cfg).acceptsFrom (lossMon cfg).init σ.trace = true
  /-- what is firmly in force is in the table -/
  tbl : ∀ c s, s ∈ (lossAfter cfg σ.trace).firm c → tableHas σ c s = true
  /-- so is what a running `activate` has registered -/
  reg : ∀ c s, registered (σ.hpc c) = some s → tableHas σ c s = true
  /-- between the marker of a request and its table change nothing it ends is firm -/
  pend : ∀ c r, closing (σ.hpc c) = some r → ∀ a ∈ (lossAfter cfg σ.trace).firm c, ends r a = false
  obl : ∀ k, oblRel cfg (lossAfter cfg σ.trace).firm (σ.upc k) ((lossAfter cfg σ.trace).oblig k)

theorem lossInv_init (cfg : Cfg) (hs us cache) : LossInv cfg (init hs us cache) := by
  constructor <;> intros <;> simp_all [init, Mon.acceptsFrom]

/-- a request thread moves without event and without table change -/
theorem lossInv_quiet (cfg : Cfg) (σ σ' : State) (c : Conn) (pc : HPc) (hI : LossInv cfg σ)
    (htr : σ'.trace = σ.trace) (hupc : σ'.upc = σ.upc) (hpc : σ'.hpc = set σ.hpc c pc)
    (htb : ∀ c' a, tableHas σ' c' a = tableHas σ c' a)
    (hreg : ∀ s, registered pc = some s → registered (σ.hpc c) = some s)
    (hcl : ∀ r, closing pc = some r → closing (σ.hpc c) = some r) : LossInv cfg σ' := by
  constructor
  · rw [htr]; exact hI.acc
  · intro c' s h; rw [htr] at h; rw [htb]; exact hI.tbl c' s h
  · intro c' s h
    rw [htb]
    rw [hpc, set_apply] at h
    split at h
    · rename_i hc; subst hc; exact hI.reg c' s (hreg s h)
    · exact hI.reg c' s h
  · intro c' r h
    rw [htr]
    rw [hpc, set_apply] at h
    split at h
    · rename_i hc; subst hc; exact hI.pend c' r (hcl r h)
    · exact hI.pend c' r h
  · intro k; rw [htr, hupc]; exact hI.obl k

/-- the table change of a request -/
theorem lossInv_write (cfg : Cfg) (σ σ' : State) (c : Conn) (r : Req) (pc : HPc) (hI : LossInv cfg σ)
    (htr : σ'.trace = σ.trace) (hupc : σ'.upc = σ.upc) (hpc : σ'.hpc = set σ.hpc c pc)
    (hcl : closing (σ.hpc c) = some r)
    (htb : ∀ c' a, tableHas σ' c' a = tableHas (tableWrite σ c r) c' a)
    (hreg : registered pc = actScope r) (hcl' : closing pc = none) : LossInv cfg σ' := by
  constructor
  · rw [htr]; exact hI.acc
  · intro c' s h
    rw [htr] at h
    rw [htb]
    by_cases hc : c' = c
    · subst hc
      exact tableHas_tableWrite_keep σ c' r s (hI.pend c' r hcl s h) (hI.tbl c' s h)
    · rw [tableHas_tableWrite_other σ c c' r s hc]; exact hI.tbl c' s h
  · intro c' s h
    rw [htb]
    rw [hpc, set_apply] at h
    split at h
    · rename_i hc; subst hc
      rw [hreg] at h
      exact tableHas_tableWrite_reg σ c' r s h
    · rename_i hc
      rw [tableHas_tableWrite_other σ c c' r s hc]; exact hI.reg c' s h
  · intro c' r' h
    rw [htr]
    rw [hpc, set_apply] at h
    split at h
    · rw [hcl'] at h; cases h
    · exact hI.pend c' r' h
  · intro k; rw [htr, hupc]; exact hI.obl k

/-- a request thread appends an event -/
theorem lossInv_event (cfg : Cfg) (σ σ' : State) (c : Conn) (o : Obs) (pc : HPc) (hI : LossInv cfg σ)
    (htr : σ'.trace = σ.trace ++ [o]) (hupc : σ'.upc = σ.upc) (hpc : σ'.hpc = set σ.hpc c pc)
    (hob : obsUpd o = none) (hoc : ∀ c', c' ≠ c → obsConn o ≠ some c')
    (htb : ∀ c' a, tableHas σ' c' a = tableHas σ c' a)
    (hrep : ∀ s, o = .reply c (.activate s) true → registered (σ.hpc c) = some s)
    (hreg : ∀ s, registered pc = some s → registered (σ.hpc c) = some s)
    (hcl : ∀ r, closing pc = some r → o = .reqStart c r) : LossInv cfg σ' := by
  constructor
  · rw [htr, lossAcc_append, hI.acc, lossOk_of_notUpd _ _ hob]; rfl
  · intro c' s h
    rw [htr, lossAfter_append, lossNext_firm] at h
    rw [htb]
    rcases mem_firmNext _ _ _ _ h with h | h
    · exact hI.tbl c' s h
    · by_cases hc : c' = c
      · subst hc; exact hI.reg c' s (hrep s h)
      · exact absurd (by rw [h]; rfl) (hoc c' hc)
  · intro c' s h
    rw [htb]
    rw [hpc, set_apply] at h
    split at h
    · rename_i hc; subst hc; exact hI.reg c' s (hreg s h)
    · exact hI.reg c' s h
  · intro c' r h a ha
    rw [htr, lossAfter_append, lossNext_firm] at ha
    rw [hpc, set_apply] at h
    split at h
    · rename_i hc; subst hc
      rw [hcl r h] at ha
      exact mem_firmNext_reqStart _ _ _ _ ha
    · rename_i hc
      rw [firmNext_other _ _ _ (hoc c' hc)] at ha
      exact hI.pend c' r h a ha
  · intro k
    rw [htr, lossAfter_append, hupc]
    exact oblRel_next cfg _ o _ k (by rw [hob]; simp) (hI.obl k)

theorem lossInv_stepH (cfg : Cfg) (σ σ' : State) (c : Conn) (hI : LossInv cfg σ)
    (hs : stepH cfg σ c = some σ') : LossInv cfg σ' := by
  unfold stepH at hs
  step_cases hs
  all_goals first
    | exact lossInv_quiet cfg σ _ c _ hI rfl rfl rfl (by intro c' a; cases a <;> rfl) (by simp [*]) (by simp [*])
    | exact lossInv_event cfg σ _ c _ _ hI rfl rfl rfl rfl (by intro c' hc; simp [obsConn] <;> exact fun h => hc h.symm)
        (by intro c' a; cases a <;> rfl) (by intro s h; cases h <;> simp_all) (by simp [*]; done) (by simp [*]; done)
    | exact lossInv_write cfg σ _ c _ _ hI (by simp) (by simp) rfl (by simp [*]; rfl) (by intro c' a; cases a <;> rfl) (by simp) (by simp)
    | (rename_i heq hr
       subst hr
       exact lossInv_event cfg σ _ c (.reply c .disconnect (!cfg.logFails c)) _ hI rfl rfl rfl rfl
         (by intro c' hc; simp [obsConn]; exact fun h => hc h.symm)
         (by intro c' a; cases a <;> rfl) (by intro s h; simp at h) (by simp [afterTable, heq, actScope]) (by simp [afterTable]))

/-! ## updater steps -/

theorem firmNext_noConn (firm : Conn → List Scope) (o : Obs) (h : obsConn o = none) : firmNext firm o = firm := by
  cases o <;> first | rfl | (simp [obsConn] at h)

theorem mem_listeners_of_covered (cfg : Cfg) (σ : State) (hI : LossInv cfg σ) (c : Conn) (m : Mod) (p : Par)
    (hc : c ∈ cfg.conns) (hcov : coveredBy ((lossAfter cfg σ.trace).firm c) m p = true) :
    c ∈ listeners cfg σ m p := by
  simp only [coveredBy, List.any_eq_true] at hcov
  obtain ⟨s, h1, h2⟩ := hcov
  simp only [listeners, List.mem_filter]
  exact ⟨hc, (listens_iff σ c m p).2 ⟨s, hI.tbl c s h1, h2⟩⟩

/-- an updater moves without event -/
theorem lossInv_uquiet (cfg : Cfg) (σ σ' : State) (k : Nat) (pc : UPc) (hI : LossInv cfg σ)
    (htr : σ'.trace = σ.trace) (hpc : σ'.hpc = σ.hpc) (hupc : σ'.upc = set σ.upc k pc)
    (htb : ∀ c' a, tableHas σ' c' a = tableHas σ c' a)
    (hobl : oblRel cfg (lossAfter cfg σ.trace).firm pc ((lossAfter cfg σ.trace).oblig k)) : LossInv cfg σ' := by
  constructor
  · rw [htr]; exact hI.acc
  · intro c' s h; rw [htr] at h; rw [htb]; exact hI.tbl c' s h
  · intro c' s h; rw [htb]; rw [hpc] at h; exact hI.reg c' s h
  · intro c' r h; rw [htr]; rw [hpc] at h; exact hI.pend c' r h
  · intro k'
    rw [htr, hupc, set_apply]
    split
    · rename_i hk; subst hk; exact hobl
    · exact hI.obl k'

/-- an updater appends an event -/
theorem lossInv_uevent (cfg : Cfg) (σ σ' : State) (k : Nat) (o : Obs) (pc : UPc) (hI : LossInv cfg σ)
    (htr : σ'.trace = σ.trace ++ [o]) (hpc : σ'.hpc = σ.hpc) (hupc : σ'.upc = set σ.upc k pc)
    (htb : ∀ c' a, tableHas σ' c' a = tableHas σ c' a)
    (hoc : obsConn o = none) (hou : ∀ k', k' ≠ k → obsUpd o ≠ some k')
    (hok : lossOk (lossAfter cfg σ.trace) o = true)
    (hobl : oblRel cfg (lossAfter cfg σ.trace).firm pc ((lossNext cfg (lossAfter cfg σ.trace) o).oblig k)) :
    LossInv cfg σ' := by
  have hfirm : (lossAfter cfg σ'.trace).firm = (lossAfter cfg σ.trace).firm := by
    rw [htr, lossAfter_append, lossNext_firm, firmNext_noConn _ _ hoc]
  constructor
  · rw [htr, lossAcc_append, hI.acc, hok]; rfl
  · intro c' s h; rw [hfirm] at h; rw [htb]; exact hI.tbl c' s h
  · intro c' s h; rw [htb]; rw [hpc] at h; exact hI.reg c' s h
  · intro c' r h; rw [hfirm]; rw [hpc] at h; exact hI.pend c' r h
  · intro k'
    rw [hupc, set_apply]
    split
    · rename_i hk; subst hk
      rw [hfirm, htr, lossAfter_append]; exact hobl
    · rename_i hk
      rw [htr, lossAfter_append]
      exact oblRel_next cfg _ o _ k' (hou k' hk) (hI.obl k')

theorem oblRel_send (cfg : Cfg) (firm : Conn → List Scope) (ob : Option Oblig) (m : Mod) (p : Par) (e : Entry)
    (ls : List Conn) (arg : Conn) (h : oblRel cfg firm (.sending m p e ls) ob) :
    oblRel cfg firm (.sending m p e (ls.filter (fun c => c != arg)))
      (ob.map (fun o => if o.m = m ∧ o.p = p ∧ o.e = e then { o with l := o.l.filter (fun c' => c' != arg) } else o)) := by
  simp only [oblRel_sending] at *
  obtain ⟨o, rfl, hm, hp, he, hl⟩ := h
  refine ⟨{ o with l := o.l.filter (fun c' => c' != arg) }, ?_, hm, hp, he, ?_⟩
  · simp [hm, hp, he]
  · intro c hc
    simp only [List.mem_filter] at *
    exact ⟨hl c hc.1, hc.2⟩

theorem lossInv_stepU (cfg : Cfg) (σ σ' : State) (k : Nat) (arg : Conn) (hI : LossInv cfg σ)
    (hs : stepU cfg σ k arg = some σ') : LossInv cfg σ' := by
  have hk := hI.obl k
  unfold stepU at hs
  step_cases hs
  all_goals first
    | refine lossInv_uquiet cfg σ _ k _ hI rfl rfl rfl (by intro c' a; cases a <;> rfl) ?_
    | refine lossInv_uevent cfg σ _ k _ _ hI rfl rfl rfl (by intro c' a; cases a <;> rfl) rfl ?_ ?_ ?_
  all_goals (simp only [*] at hk)
  all_goals try (intro k' hk'; simp [obsUpd] <;> exact fun h => hk' h.symm)
  all_goals try (simp_all [lossOk, obligNext]; done)
  · -- the store: the obligation list is what `firm` covers now
    simp only [lossNext_oblig, obligNext, set_same, oblRel_wantSub]
    refine ⟨_, rfl, rfl, rfl, rfl, ?_⟩
    intro c hc
    simpa [List.mem_filter, firmNext] using hc
  · -- the listener selection
    simp only [oblRel_wantSub, oblRel_sending] at hk ⊢
    obtain ⟨o, h1, h2, h3, h4, h5⟩ := hk
    exact ⟨o, h1, h2, h3, h4, fun c hc => mem_listeners_of_covered cfg σ hI c _ _ (h5 c hc).1 (h5 c hc).2⟩
  · -- nothing left to send
    simp only [oblRel_sending, oblRel_relUpd_true] at hk ⊢
    obtain ⟨o, h1, _, _, _, h5⟩ := hk
    refine ⟨o, h1, ?_⟩
    cases hl : o.l with
    | nil => rfl
    | cons x xs => exact absurd (h5 x (by simp [hl])) (by simp)
  · -- one send
    simp only [lossNext_oblig, obligNext]
    exact oblRel_send cfg _ _ _ _ _ _ arg hk
  · -- the assignment returns: nothing is owed
    simp only [oblRel_relUpd_true] at hk
    obtain ⟨o, h1, h2⟩ := hk
    simp [lossOk, h1, h2]

theorem lossInv_step (cfg : Cfg) (σ σ' : State) (a : Act) (hI : LossInv cfg σ) (hs : step cfg σ a = some σ') :
    LossInv cfg σ' := by
  unfold step at hs
  split at hs
  · exact lossInv_stepH cfg σ σ' _ hI hs
  · exact lossInv_stepU cfg σ σ' _ _ hI (stepUG_some hs)

theorem lossInv_reach (cfg : Cfg) (hs us cache) (σ : State) (h : Reach cfg (init hs us cache) σ) : LossInv cfg σ := by
  induction h with
  | init => exact lossInv_init cfg hs us cache
  | step a _ hstep ih => exact lossInv_step cfg _ _ a ih hstep

/-- `NoLoss` holds of the trace of every reachable state -/
theorem noLoss_reach (cfg : Cfg) (hs us cache) (σ : State) (h : Reach cfg (init hs us cache) σ) :
    (lossMon cfg).acceptsFrom (lossMon cfg).init σ.trace = true :=
  (lossInv_reach cfg hs us cache σ h).acc

theorem noLoss_reach' (cfg : Cfg) (hs us cache) (σ : State) (h : Reach cfg (init hs us cache) σ) :
    NoLoss cfg σ.trace :=
  noLoss_reach cfg hs us cache σ h

end Frappy.Activate
