import FrappyModel.Spec.C09
/- helper lemmas for C09: heap extension, frames of the four operations -/
namespace Frappy.Klass
open Frappy.Spec.C09

/-- `h'` is `h` with new objects appended -/
def Extends (h h' : Heap) : Prop := ∃ ext, h' = h ++ ext

theorem Extends.refl (h : Heap) : Extends h h := ⟨[], by simp⟩
theorem Extends.trans {a b c : Heap} : Extends a b → Extends b c → Extends a c
  | ⟨x, hx⟩, ⟨y, hy⟩ => ⟨x ++ y, by simp [hy, hx]⟩
theorem Extends.get {h h' : Heap} (e : Extends h h') {r : Nat} (hr : r < h.length) : h'[r]? = h[r]? := by
  obtain ⟨x, rfl⟩ := e
  exact List.getElem?_append_left hr
theorem Extends.len {h h' : Heap} (e : Extends h h') : h.length ≤ h'.length := by
  obtain ⟨x, rfl⟩ := e; simp
theorem extends_alloc (h : Heap) (o : Obj) : Extends h (h.alloc o).1 := ⟨[o], rfl⟩
@[simp] theorem alloc_ref (h : Heap) (o : Obj) : (h.alloc o).2 = h.length := rfl
@[simp] theorem alloc_heap (h : Heap) (o : Obj) : (h.alloc o).1 = h ++ [o] := rfl

theorem extends_foldl {α β : Type} (f : Heap × β → α → Heap × β)
    (hf : ∀ st a, Extends st.1 (f st a).1) (l : List α) (st : Heap × β) : Extends st.1 (l.foldl f st).1 := by
  induction l generalizing st with
  | nil => exact Extends.refl _
  | cons a l ih => exact (hf st a).trans (ih _)

theorem extends_allocDecl (self : Name) (st : Heap × List (Name × Ref)) (ke : Name × EntryV) :
    Extends st.1 (allocDecl self st ke).1 := by
  unfold allocDecl
  split
  · split
    · exact extends_alloc _ _
    · exact Extends.refl _
  · exact Extends.refl _

theorem extends_allocSlot (w : World) (self : Name) (sd : List (Name × Ref)) (h : Heap) (s : DtSlot) :
    Extends h (allocSlot w self sd h s).1 := by
  unfold allocSlot
  split
  · exact extends_alloc _ _
  · exact Extends.refl _
  · exact Extends.refl _

theorem extends_allocAcc (w : World) (self : Name) (sd : List (Name × Ref)) (st : Heap × List (Name × Ref))
    (ke : Name × EntryV) : Extends st.1 (allocAcc w self sd st ke).1 := by
  unfold allocAcc
  split
  · exact (extends_allocSlot w self sd st.1 _).trans (extends_alloc _ _)
  · exact Extends.refl _

theorem extends_allocView (st : Heap × List (Name × Ref)) (nv : Name × AccView) :
    Extends st.1 (allocView st nv).1 := by
  unfold allocView
  split
  · exact (extends_alloc _ _).trans (extends_alloc _ _)
  · exact extends_alloc _ _

theorem extends_layout (w : World) (cv : ClassV) : Extends w.heap (layout w cv).heap := by
  show Extends w.heap (layoutAcc w cv (layoutDecl w cv)).1
  exact (extends_foldl _ (extends_allocDecl _) cv.dict (w.heap, [])).trans
    (extends_foldl _ (extends_allocAcc _ _ _) cv.dict ((layoutDecl w cv).1, []))

theorem extends_define (T : Tables) (w : World) (d : ClassDecl) : Extends w.heap (defineClass T w d).heap :=
  extends_layout w _

theorem extends_instantiate (T : Tables) (w : World) (n c : Name) (cfg : List (Name × PropMap)) :
    Extends w.heap (instantiate T w n c cfg).heap := by
  unfold instantiate
  exact extends_foldl _ extends_allocView _ _

/-! ### what depends on which cells -/

theorem accAt_congr {h h' : Heap} {r : Ref} (e : h'[r]? = h[r]?) : h'.accAt r = h.accAt r := by
  unfold Heap.accAt; rw [e]
theorem dtAt_congr {h h' : Heap} {r : Ref} (e : h'[r]? = h[r]?) : h'.dtAt r = h.dtAt r := by
  unfold Heap.dtAt; rw [e]

theorem reachAcc_congr {h h' : Heap} {r : Ref} (e : h'[r]? = h[r]?) : reachAcc h' r = reachAcc h r := by
  unfold reachAcc; rw [accAt_congr e]

theorem self_mem_reachAcc (h : Heap) (r : Ref) : r ∈ reachAcc h r := by
  unfold reachAcc; exact List.mem_cons_self

theorem dtype_mem_reachAcc {h : Heap} {r rd : Ref} {a : AccH} (ha : h.accAt r = some a) (hd : a.dtype = some rd) :
    rd ∈ reachAcc h r := by
  unfold reachAcc; rw [ha]; simp [hd]

theorem viewAt_congr {h h' : Heap} {r : Ref} (e : ∀ x ∈ reachAcc h r, h'[x]? = h[x]?) : viewAt h' r = viewAt h r := by
  have e0 := e r (self_mem_reachAcc h r)
  unfold viewAt
  rw [accAt_congr e0]
  cases ha : h.accAt r with
  | none => rfl
  | some a =>
    simp only
    cases hd : a.dtype with
    | none => rfl
    | some rd => simp only; rw [dtAt_congr (e rd (dtype_mem_reachAcc ha hd))]

/-! ### records of the owners that are not the target -/

theorem pureDefine_decl (T : Tables) (chain : List ClassV) (d : ClassDecl) : (pureDefine T chain d).decl = d := by
  unfold pureDefine; split <;> rfl

theorem find?_append_miss {α : Type} (p : α → Bool) (l : List α) (x : α) (hx : p x = false) :
    (l ++ [x]).find? p = l.find? p := by
  rw [List.find?_append]; simp [List.find?, hx]

theorem findClass_layout_ne (w : World) (cv : ClassV) (n : Name) (hn : n ≠ cv.decl.name) :
    (layout w cv).findClass n = w.findClass n := by
  unfold World.findClass layout
  simp only
  apply find?_append_miss
  simp only [layoutRec, beq_eq_false_iff_ne, ne_eq]
  exact fun h => hn h.symm

theorem findInst_layout (w : World) (cv : ClassV) (n : Name) : (layout w cv).findInst n = w.findInst n := rfl

theorem findClass_instantiate (T : Tables) (w : World) (n c : Name) (cfg : List (Name × PropMap)) (m : Name) :
    (instantiate T w n c cfg).findClass m = w.findClass m := rfl

theorem findInst_instantiate_ne (T : Tables) (w : World) (n c : Name) (cfg : List (Name × PropMap)) (m : Name)
    (hm : m ≠ n) : (instantiate T w n c cfg).findInst m = w.findInst m := by
  unfold World.findInst instantiate
  simp only
  apply find?_append_miss
  simp only [beq_eq_false_iff_ne, ne_eq]
  exact fun h => hm h.symm

/-- the records (accessibles, roots) of an owner other than the target are untouched -/
theorem records_step (T : Tables) (w : World) (op : Op) (o : Owner) (ho : o ≠ op.target) :
    (step T w op).accessiblesOf o = w.accessiblesOf o ∧ (step T w op).roots o = w.roots o := by
  cases op with
  | define d =>
    have hname : (pureDefine T (chainOf w d) d).decl.name = d.name := by rw [pureDefine_decl]
    cases o with
    | cls n =>
      have hn : n ≠ (pureDefine T (chainOf w d) d).decl.name := by
        rw [hname]; intro h; exact ho (by simp [Op.target, h])
      simp only [step, defineClass, World.accessiblesOf, World.roots, findClass_layout_ne _ _ _ hn, and_self]
    | inst n => simp only [step, defineClass, World.accessiblesOf, World.roots, findInst_layout, and_self]
  | inst n c cfg =>
    cases o with
    | cls m => simp only [step, World.accessiblesOf, World.roots, findClass_instantiate, and_self]
    | inst m =>
      have hm : m ≠ n := by intro h; exact ho (by simp [Op.target, h])
      simp only [step, World.accessiblesOf, World.roots, findInst_instantiate_ne _ _ _ _ _ _ hm, and_self]
  | setprop i p k v =>
    have : (step T w (.setprop i p k v)).classes = w.classes ∧ (step T w (.setprop i p k v)).insts = w.insts := by
      simp only [step, setprop]
      repeat' split
      all_goals exact ⟨rfl, rfl⟩
    cases o <;> simp only [World.accessiblesOf, World.roots, World.findClass, World.findInst, this.1, this.2, and_self]
  | addEnum i p m =>
    have : (step T w (.addEnum i p m)).classes = w.classes ∧ (step T w (.addEnum i p m)).insts = w.insts := by
      simp only [step, addEnum]
      repeat' split
      all_goals exact ⟨rfl, rfl⟩
    cases o <;> simp only [World.accessiblesOf, World.roots, World.findClass, World.findInst, this.1, this.2, and_self]

/-! ### the frame of every operation -/

theorem aget?_mem {α : Type} {l : List (Name × α)} {k : Name} {v : α} (h : aget? l k = some v) : (k, v) ∈ l := by
  induction l with
  | nil => simp [aget?] at h
  | cons kv rest ih =>
    obtain ⟨k', v'⟩ := kv
    simp only [aget?] at h
    split at h
    · rename_i hk
      have : k' = k := by simpa using hk
      cases h; subst this; exact List.mem_cons_self
    · exact List.mem_cons_of_mem _ (ih h)

theorem accessible_mem_roots {w : World} {o : Owner} {n : Name} {r : Ref} (h : (n, r) ∈ w.accessiblesOf o) :
    r ∈ w.roots o := by
  cases o with
  | cls c =>
    simp only [World.accessiblesOf, World.roots] at h ⊢
    cases hc : w.findClass c with
    | none => simp [hc] at h
    | some cr =>
      simp only [hc] at h ⊢
      simp only [List.mem_append, List.mem_map]
      exact Or.inl (Or.inl ⟨(n, r), h, rfl⟩)
  | inst i =>
    simp only [World.accessiblesOf, World.roots] at h ⊢
    cases hc : w.findInst i with
    | none => simp [hc] at h
    | some ir =>
      simp only [hc] at h ⊢
      exact List.mem_map.2 ⟨(n, r), h, rfl⟩

theorem root_reach {w : World} {o : Owner} {r x : Ref} (hr : r ∈ w.roots o) (hx : x ∈ reachAcc w.heap r) :
    x ∈ reach w o := List.mem_flatMap.2 ⟨r, hr, hx⟩

theorem getElem?_set_ne' {h : Heap} {i j : Nat} {o : Obj} (hij : i ≠ j) : (h.set i o)[j]? = h[j]? := by
  simp [hij]

/-- **frame**: an operation leaves every existing object alone that is not reachable from its target -/
theorem frame_step (T : Tables) (w : World) (op : Op) (r : Ref) (hr : r < w.heap.length)
    (hnot : r ∉ reach w op.target) : (step T w op).heap[r]? = w.heap[r]? := by
  cases op with
  | define d => exact (extends_define T w d).get hr
  | inst n c cfg => exact (extends_instantiate T w n c cfg).get hr
  | setprop i p k v =>
    simp only [step, setprop]
    split
    · rename_i r' hacc
      have hroot := accessible_mem_roots (aget?_mem hacc)
      split
      · rename_i a ha
        split
        · have : r' ≠ r := fun e => hnot (e ▸ root_reach hroot (self_mem_reachAcc _ _))
          exact getElem?_set_ne' this
        · split
          · rename_i rd hd
            split
            · have : rd ≠ r := fun e => hnot (e ▸ root_reach hroot (dtype_mem_reachAcc ha hd))
              exact getElem?_set_ne' this
            · rfl
          · rfl
      · rfl
    · rfl
  | addEnum i p m =>
    simp only [step, addEnum]
    split
    · rename_i r' hacc
      have hroot := accessible_mem_roots (aget?_mem hacc)
      split
      · rename_i a ha
        split
        · split
          · have : r' ≠ r := fun e => hnot (e ▸ root_reach hroot (self_mem_reachAcc _ _))
            simp only [alloc_heap]
            rw [getElem?_set_ne' this]
            exact List.getElem?_append_left hr
          · rfl
        · rfl
      · rfl
    · rfl

end Frappy.Klass
