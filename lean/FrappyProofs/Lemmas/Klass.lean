import FrappyModel.Spec.C09
/- helper lemmas for C09: heap extension, frames of the four operations -/
namespace Frappy.Klass
open Frappy.Spec.C09

/-- `h'` is `h` with new objects appended -/
def Extends (h h' : Heap) : Prop := ∃ ext, h' = h ++ ext

theorem Extends.refl (h : Heap) : Extends h h := ⟨[], by simp⟩
theorem Extends.trans {a b c : Heap} : Extends a b → Extends b c → Extends a c
  | ⟨x, hx⟩, ⟨y, hy⟩ => ⟨x ++ y, by simp [hy, hx]⟩
theorem Extends.get {h h' : Heap} (e : Extends h h') {r : Nat} (hr : r < h.length) : h'[r]? = h[r]? := by
  obtain ⟨x, rfl⟩ := e
  exact List.getElem?_append_left hr
theorem Extends.len {h h' : Heap} (e : Extends h h') : h.length ≤ h'.length := by
  obtain ⟨x, rfl⟩ := e; simp
theorem extends_alloc (h : Heap) (o : Obj) : Extends h (h.alloc o).1 := ⟨[o], rfl⟩
@[simp] theorem alloc_ref (h : Heap) (o : Obj) : (h.alloc o).2 = h.length := rfl
@[simp] theorem alloc_heap (h : Heap) (o : Obj) : (h.alloc o).1 = h ++ [o] := rfl

theorem extends_foldl {α β : Type} (f : Heap × β → α → Heap × β)
    (hf : ∀ st a, Extends st.1 (f st a).1) (l : List α) (st : Heap × β) : Extends st.1 (l.foldl f st).1 := by
  induction l generalizing st with
  | nil => exact Extends.refl _
  | cons a l ih => exact (hf st a).trans (ih _)

theorem extends_allocDecl (self : Name) (st : Heap × List (Name × Ref)) (ke : Name × EntryV) :
    Extends st.1 (allocDecl self st ke).1 := by
  unfold allocDecl
  split
  · split
    · exact extends_alloc _ _
    · exact Extends.refl _
  · exact Extends.refl _

theorem extends_allocSlot (w : World) (self : Name) (sd : List (Name × Ref)) (h : Heap) (s : DtSlot) :
    Extends h (allocSlot w self sd h s).1 := by
  unfold allocSlot
  split
  · exact ⟨_, rfl⟩
  · exact Extends.refl _
  · exact Extends.refl _

theorem extends_allocAcc (w : World) (self : Name) (sd : List (Name × Ref)) (st : Heap × List (Name × Ref))
    (ke : Name × EntryV) : Extends st.1 (allocAcc w self sd st ke).1 := by
  unfold allocAcc
  split
  · exact (extends_allocSlot w self sd st.1 _).trans ⟨_, rfl⟩
  · exact Extends.refl _

theorem extends_allocView (st : Heap × List (Name × Ref)) (nv : Name × AccView) :
    Extends st.1 (allocView st nv).1 := by
  unfold allocView
  split
  · exact ⟨_, List.append_assoc _ _ _⟩
  · exact ⟨_, rfl⟩

theorem extends_allocProp (st : Heap × List (Name × Ref)) (ke : Name × EntryV) :
    Extends st.1 (allocProp st ke).1 := by
  unfold allocProp
  split
  · exact ⟨_, rfl⟩
  · exact Extends.refl _

theorem extends_layoutProp (w : World) (cv : ClassV) : Extends w.heap (layoutProp w cv).1 :=
  extends_foldl _ extends_allocProp cv.dict (w.heap, [])

theorem extends_layout (w : World) (cv : ClassV) : Extends w.heap (layout w cv).heap := by
  show Extends w.heap (layoutAcc (w.restrictTo cv.decl.mro.tail) cv (layoutDecl w cv)).1
  exact ((extends_layoutProp w cv).trans (extends_foldl _ (extends_allocDecl _) cv.dict ((layoutProp w cv).1, []))).trans
    (extends_foldl _ (extends_allocAcc _ _ _) cv.dict ((layoutDecl w cv).1, []))

theorem extends_define (T : Tables) (w : World) (d : ClassDecl) : Extends w.heap (defineClass T w d).heap :=
  extends_layout w _

theorem extends_instantiate (T : Tables) (w : World) (n c : Name) (cfg : List (Name × PropMap)) :
    Extends w.heap (instantiate T w n c cfg).heap := by
  unfold instantiate
  exact extends_foldl _ extends_allocView _ _

/-! ### what depends on which cells -/

theorem accAt_congr {h h' : Heap} {r : Ref} (e : h'[r]? = h[r]?) : h'.accAt r = h.accAt r := by
  unfold Heap.accAt; rw [e]
theorem dtAt_congr {h h' : Heap} {r : Ref} (e : h'[r]? = h[r]?) : h'.dtAt r = h.dtAt r := by
  unfold Heap.dtAt; rw [e]

theorem reachAcc_congr {h h' : Heap} {r : Ref} (e : h'[r]? = h[r]?) : reachAcc h' r = reachAcc h r := by
  unfold reachAcc; rw [accAt_congr e]

theorem self_mem_reachAcc (h : Heap) (r : Ref) : r ∈ reachAcc h r := by
  unfold reachAcc; exact List.mem_cons_self

theorem dtype_mem_reachAcc {h : Heap} {r rd : Ref} {a : AccH} (ha : h.accAt r = some a) (hd : a.dtype = some rd) :
    rd ∈ reachAcc h r := by
  unfold reachAcc; rw [ha]; simp [hd]

theorem viewAt_congr {h h' : Heap} {r : Ref} (e : ∀ x ∈ reachAcc h r, h'[x]? = h[x]?) : viewAt h' r = viewAt h r := by
  have e0 := e r (self_mem_reachAcc h r)
  unfold viewAt
  rw [accAt_congr e0]
  cases ha : h.accAt r with
  | none => rfl
  | some a =>
    simp only
    cases hd : a.dtype with
    | none => rfl
    | some rd => simp only [treeAt]; rw [dtAt_congr (e rd (dtype_mem_reachAcc ha hd))]

/-! ### records of the owners that are not the target -/

theorem pureDefine_decl (T : Tables) (chain : List ClassV) (d : ClassDecl) : (pureDefine T chain d).decl = d := by
  unfold pureDefine; split <;> rfl

theorem find?_append_miss {α : Type} (p : α → Bool) (l : List α) (x : α) (hx : p x = false) :
    (l ++ [x]).find? p = l.find? p := by
  rw [List.find?_append]; simp [List.find?, hx]

theorem findClass_layout_ne (w : World) (cv : ClassV) (n : Name) (hn : n ≠ cv.decl.name) :
    (layout w cv).findClass n = w.findClass n := by
  unfold World.findClass layout
  simp only
  apply find?_append_miss
  simp only [layoutRec, beq_eq_false_iff_ne, ne_eq]
  exact fun h => hn h.symm

theorem findInst_layout (w : World) (cv : ClassV) (n : Name) : (layout w cv).findInst n = w.findInst n := rfl

theorem findClass_instantiate (T : Tables) (w : World) (n c : Name) (cfg : List (Name × PropMap)) (m : Name) :
    (instantiate T w n c cfg).findClass m = w.findClass m := rfl

theorem findInst_instantiate_ne (T : Tables) (w : World) (n c : Name) (cfg : List (Name × PropMap)) (m : Name)
    (hm : m ≠ n) : (instantiate T w n c cfg).findInst m = w.findInst m := by
  unfold World.findInst instantiate
  simp only
  apply find?_append_miss
  simp only [beq_eq_false_iff_ne, ne_eq]
  exact fun h => hm h.symm

/-- the records (accessibles, roots) of an owner other than the target are untouched -/
theorem records_step (T : Tables) (w : World) (op : Op) (o : Owner) (ho : o ≠ op.target) :
    (step T w op).accessiblesOf o = w.accessiblesOf o ∧ (step T w op).roots o = w.roots o := by
  cases op with
  | define d =>
    have hname : (pureDefine T (chainOf w d) d).decl.name = d.name := by rw [pureDefine_decl]
    cases o with
    | cls n =>
      have hn : n ≠ (pureDefine T (chainOf w d) d).decl.name := by
        rw [hname]; intro h; exact ho (by simp [Op.target, h])
      simp only [step, defineClass, World.accessiblesOf, World.roots, findClass_layout_ne _ _ _ hn, and_self]
    | inst n => simp only [step, defineClass, World.accessiblesOf, World.roots, findInst_layout, and_self]
  | inst n c cfg =>
    cases o with
    | cls m => simp only [step, World.accessiblesOf, World.roots, findClass_instantiate, and_self]
    | inst m =>
      have hm : m ≠ n := by intro h; exact ho (by simp [Op.target, h])
      simp only [step, World.accessiblesOf, World.roots, findInst_instantiate_ne _ _ _ _ _ _ hm, and_self]
  | setprop i p pa k v =>
    have : (step T w (.setprop i p pa k v)).classes = w.classes ∧ (step T w (.setprop i p pa k v)).insts = w.insts := by
      simp only [step, setprop]
      repeat' split
      all_goals exact ⟨rfl, rfl⟩
    cases o <;> simp only [World.accessiblesOf, World.roots, World.findClass, World.findInst, this.1, this.2, and_self]
  | addEnum i p m =>
    have : (step T w (.addEnum i p m)).classes = w.classes ∧ (step T w (.addEnum i p m)).insts = w.insts := by
      simp only [step, addEnum]
      repeat' split
      all_goals exact ⟨rfl, rfl⟩
    cases o <;> simp only [World.accessiblesOf, World.roots, World.findClass, World.findInst, this.1, this.2, and_self]

/-! ### the frame of every operation -/

theorem aget?_mem {α : Type} {l : List (Name × α)} {k : Name} {v : α} (h : aget? l k = some v) : (k, v) ∈ l := by
  induction l with
  | nil => simp [aget?] at h
  | cons kv rest ih =>
    obtain ⟨k', v'⟩ := kv
    simp only [aget?] at h
    split at h
    · rename_i hk
      have : k' = k := by simpa using hk
      cases h; subst this; exact List.mem_cons_self
    · exact List.mem_cons_of_mem _ (ih h)

theorem accessible_mem_roots {w : World} {o : Owner} {n : Name} {r : Ref} (h : (n, r) ∈ w.accessiblesOf o) :
    r ∈ w.roots o := by
  cases o with
  | cls c =>
    simp only [World.accessiblesOf, World.roots] at h ⊢
    cases hc : w.findClass c with
    | none => simp [hc] at h
    | some cr =>
      simp only [hc] at h ⊢
      simp only [List.mem_append, List.mem_map]
      exact Or.inl (Or.inl (Or.inl (Or.inl ⟨(n, r), h, rfl⟩)))
  | inst i =>
    simp only [World.accessiblesOf, World.roots] at h ⊢
    cases hc : w.findInst i with
    | none => simp [hc] at h
    | some ir =>
      simp only [hc] at h ⊢
      exact List.mem_map.2 ⟨(n, r), h, rfl⟩

theorem root_reach {w : World} {o : Owner} {r x : Ref} (hr : r ∈ w.roots o) (hx : x ∈ reachAcc w.heap r) :
    x ∈ reach w o := List.mem_flatMap.2 ⟨r, hr, hx⟩

theorem getElem?_set_ne' {h : Heap} {i j : Nat} {o : Obj} (hij : i ≠ j) : (h.set i o)[j]? = h[j]? := by
  simp [hij]

/-- **frame**: an operation leaves every existing object alone that is not reachable from its target -/
theorem frame_step (T : Tables) (w : World) (op : Op) (r : Ref) (hr : r < w.heap.length)
    (hnot : r ∉ reach w op.target) : (step T w op).heap[r]? = w.heap[r]? := by
  cases op with
  | define d => exact (extends_define T w d).get hr
  | inst n c cfg => exact (extends_instantiate T w n c cfg).get hr
  | setprop i p pa k v =>
    simp only [step, setprop]
    split
    · rename_i r' hacc
      have hroot := accessible_mem_roots (aget?_mem hacc)
      split
      · rename_i a ha
        split
        · have : r' ≠ r := fun e => hnot (e ▸ root_reach hroot (self_mem_reachAcc _ _))
          exact getElem?_set_ne' this
        · split
          · rename_i rd hd
            split
            · have : rd ≠ r := fun e => hnot (e ▸ root_reach hroot (dtype_mem_reachAcc ha hd))
              exact getElem?_set_ne' this
            · rfl
          · rfl
      · rfl
    · rfl
  | addEnum i p m =>
    simp only [step, addEnum]
    split
    · rename_i r' hacc
      have hroot := accessible_mem_roots (aget?_mem hacc)
      split
      · rename_i a ha
        split
        · split
          · have : r' ≠ r := fun e => hnot (e ▸ root_reach hroot (self_mem_reachAcc _ _))
            simp only [enumHeap]
            rw [getElem?_set_ne' this]
            exact List.getElem?_append_left hr
          · rfl
        · rfl
      · rfl
    · rfl

/-! ### preservation of `Bounded` and `Separated` -/

theorem reach_congr {w w' : World} {o : Owner} (hroots : w'.roots o = w.roots o)
    (hcells : ∀ r ∈ w.roots o, w'.heap[r]? = w.heap[r]?) : reach w' o = reach w o := by
  unfold reach
  rw [hroots]
  generalize w.roots o = l at hcells
  induction l with
  | nil => rfl
  | cons a l ih =>
    simp only [List.flatMap_cons]
    rw [reachAcc_congr (hcells a List.mem_cons_self), ih (fun r hr => hcells r (List.mem_cons_of_mem _ hr))]

theorem root_lt {w : World} (hb : Bounded w) {o : Owner} {r : Ref} (hr : r ∈ w.roots o) : r < w.heap.length :=
  hb o r (root_reach hr (self_mem_reachAcc _ _))

/-- an operation that only appends objects, leaves the records of all other owners alone and makes its
target reach only new objects (or, for a class, objects of existing classes) keeps the invariants -/
theorem preserve_of_fresh (w w' : World) (t : Owner) (he : Extends w.heap w'.heap)
    (hrec : ∀ o, o ≠ t → w'.roots o = w.roots o) (hb : Bounded w) (hs : Separated w)
    (hnew : ∀ r ∈ reach w' t, (w.heap.length ≤ r ∧ r < w'.heap.length) ∨
      ((∃ n, t = .cls n) ∧ ∃ c, r ∈ reach w (.cls c))) :
    Bounded w' ∧ Separated w' := by
  have hsame : ∀ o, o ≠ t → reach w' o = reach w o := fun o ho =>
    reach_congr (hrec o ho) (fun r hr => he.get (root_lt hb hr))
  constructor
  · intro o r hr
    by_cases ho : o = t
    · subst ho
      rcases hnew r hr with h | ⟨_, c, hc⟩
      · exact h.2
      · exact Nat.lt_of_lt_of_le (hb _ r hc) he.len
    · rw [hsame o ho] at hr
      exact Nat.lt_of_lt_of_le (hb o r hr) he.len
  · intro i o hoi r hr
    by_cases hi : Owner.inst i = t
    · subst hi
      rw [hsame o hoi]
      intro hro
      rcases hnew r hr with h | ⟨⟨n, hn⟩, _⟩
      · exact absurd (hb o r hro) (Nat.not_lt.2 h.1)
      · cases hn
    · rw [hsame _ hi] at hr
      by_cases ho : o = t
      · subst ho
        intro hro
        rcases hnew r hro with h | ⟨_, c, hc⟩
        · exact absurd (hb _ r hr) (Nat.not_lt.2 h.1)
        · exact hs i (.cls c) (by simp) r hr hc
      · rw [hsame o ho]
        exact hs i o hoi r hr

/-- everything reachable from the listed objects was allocated at or after `base` -/
def FreshInv (base : Nat) (st : Heap × List (Name × Ref)) : Prop :=
  base ≤ st.1.length ∧ ∀ nr ∈ st.2, ∀ x ∈ reachAcc st.1 nr.2, base ≤ x ∧ x < st.1.length

theorem accAt_append_new (h : Heap) (o : Obj) : (h ++ [o])[h.length]? = some o := by simp

theorem FreshInv.extend {base : Nat} {st : Heap × List (Name × Ref)} (hi : FreshInv base st) {h' : Heap}
    (he : Extends st.1 h') (n : Name) (r : Ref) (hr : ∀ x ∈ reachAcc h' r, base ≤ x ∧ x < h'.length) :
    FreshInv base (h', st.2 ++ [(n, r)]) := by
  refine ⟨Nat.le_trans hi.1 he.len, ?_⟩
  intro nr hnr x hx
  simp only [List.mem_append, List.mem_singleton] at hnr
  rcases hnr with hold | rfl
  · have hlt : nr.2 < st.1.length := (hi.2 nr hold nr.2 (self_mem_reachAcc _ _)).2
    rw [reachAcc_congr (he.get hlt)] at hx
    exact ⟨(hi.2 nr hold x hx).1, Nat.lt_of_lt_of_le (hi.2 nr hold x hx).2 he.len⟩
  · exact hr x hx

theorem reachAcc_new (h : Heap) (a : AccH) :
    reachAcc (h ++ [Obj.acc a]) h.length = h.length :: (a.dtype.toList ++ a.ownDt.toList ++ a.mergedDt.toList) := by
  unfold reachAcc Heap.accAt; simp

theorem freshInv_allocView (base : Nat) (st : Heap × List (Name × Ref)) (nv : Name × AccView)
    (hi : FreshInv base st) : FreshInv base (allocView st nv) := by
  have hb := hi.1
  unfold allocView
  split
  · rename_i t ht
    apply hi.extend ⟨_, List.append_assoc _ _ _⟩
    intro x hx
    have hlen : (st.1 ++ [Obj.dt t]).length = st.1.length + 1 := by simp
    rw [← hlen, reachAcc_new] at hx
    simp only [Option.toList, List.append_nil, List.mem_cons, List.not_mem_nil, or_false] at hx
    rcases hx with rfl | rfl <;> simp <;> omega
  · apply hi.extend ⟨_, rfl⟩
    intro x hx
    rw [reachAcc_new] at hx
    simp only [Option.toList, List.append_nil, List.mem_cons, List.not_mem_nil, or_false] at hx
    subst hx; simp; omega

theorem freshInv_foldl {α : Type} (base : Nat) (f : Heap × List (Name × Ref) → α → Heap × List (Name × Ref))
    (hf : ∀ st a, FreshInv base st → FreshInv base (f st a)) (l : List α) (st : Heap × List (Name × Ref))
    (hi : FreshInv base st) : FreshInv base (l.foldl f st) := by
  induction l generalizing st with
  | nil => exact hi
  | cons a l ih => exact ih _ (hf st a hi)

theorem find?_append_new {α : Type} (p : α → Bool) (l : List α) (x : α) (hl : l.find? p = none) (hx : p x = true) :
    (l ++ [x]).find? p = some x := by
  rw [List.find?_append, hl]; simp [List.find?, hx]

/-- a new instance reaches only objects created for it -/
theorem preserve_instantiate (T : Tables) (w : World) (n c : Name) (cfg : List (Name × PropMap))
    (hadm : w.findInst n = none) (hb : Bounded w) (hs : Separated w) :
    Bounded (instantiate T w n c cfg) ∧ Separated (instantiate T w n c cfg) := by
  apply preserve_of_fresh w _ (.inst n) (extends_instantiate T w n c cfg)
    (fun o ho => (records_step T w (.inst n c cfg) o ho).2) hb hs
  intro r hr
  left
  have hinv := freshInv_foldl w.heap.length allocView (freshInv_allocView _)
    (instViews T (describeH w (.cls c)) cfg) (w.heap, []) ⟨Nat.le_refl _, by simp⟩
  have hfind : (instantiate T w n c cfg).findInst n =
      some ⟨n, c, ((instViews T (describeH w (.cls c)) cfg).foldl allocView (w.heap, [])).2,
        instMVals (describeM w (.cls c)) cfg⟩ := by
    unfold World.findInst instantiate
    exact find?_append_new _ _ _ hadm (by simp)
  have hroots : (instantiate T w n c cfg).roots (.inst n) =
      (((instViews T (describeH w (.cls c)) cfg).foldl allocView (w.heap, [])).2).map (·.2) := by
    simp only [World.roots, hfind]
  unfold reach at hr
  rw [hroots] at hr
  simp only [List.mem_flatMap, List.mem_map] at hr
  obtain ⟨x, ⟨nr, hnr, rfl⟩, hx⟩ := hr
  exact hinv.2 nr hnr r hx

/-! ### what a class is computed from -/

theorem chainOf_layout (w : World) (cv : ClassV) (d : ClassDecl) (hn : cv.decl.name ∉ d.mro.tail) :
    chainOf (layout w cv) d = chainOf w d := by
  unfold chainOf
  generalize d.mro.tail = l at hn
  induction l with
  | nil => rfl
  | cons n l ih =>
    have hne : n ≠ cv.decl.name := fun h => hn (h ▸ List.mem_cons_self)
    simp only [List.filterMap_cons, findClass_layout_ne w cv n hne]
    rw [ih (fun h => hn (List.mem_cons_of_mem _ h))]

theorem chainOf_instantiate (T : Tables) (w : World) (n c : Name) (cfg : List (Name × PropMap)) (d : ClassDecl) :
    chainOf (instantiate T w n c cfg) d = chainOf w d := rfl

theorem findClass_layout_new (w : World) (cv : ClassV) (hadm : w.findClass cv.decl.name = none) :
    (layout w cv).findClass cv.decl.name = some (layoutRec w cv) := by
  unfold World.findClass layout
  exact find?_append_new _ _ _ hadm (by simp [layoutRec])

/-! ### a new instance shows the copied views -/

/-- every listed object shows the listed view -/
def ViewsInv (st : Heap × List (Name × Ref)) (views : List (Name × AccView)) : Prop :=
  st.2.map (fun nr => (nr.1, viewAt st.1 nr.2)) = views.map (fun nv => (nv.1, some nv.2)) ∧
  ∀ nr ∈ st.2, ∀ x ∈ reachAcc st.1 nr.2, x < st.1.length

theorem viewAt_new (h : Heap) (a : AccH) :
    viewAt (h ++ [Obj.acc a]) h.length =
      some ⟨a.isCmd, a.props, treeAt (h ++ [Obj.acc a]) a.dtype⟩ := by
  unfold viewAt Heap.accAt; simp only [List.getElem?_concat_length]

theorem viewsInv_allocView (st : Heap × List (Name × Ref)) (views : List (Name × AccView)) (nv : Name × AccView)
    (hi : ViewsInv st views) : ViewsInv (allocView st nv) (views ++ [nv]) := by
  have hold : ∀ (h' : Heap), Extends st.1 h' → ∀ nr ∈ st.2, viewAt h' nr.2 = viewAt st.1 nr.2 ∧
      ∀ x ∈ reachAcc h' nr.2, x < h'.length := by
    intro h' he nr hnr
    have hcells : ∀ x ∈ reachAcc st.1 nr.2, h'[x]? = st.1[x]? := fun x hx => he.get (hi.2 nr hnr x hx)
    refine ⟨viewAt_congr hcells, ?_⟩
    intro x hx
    rw [reachAcc_congr (hcells nr.2 (self_mem_reachAcc _ _))] at hx
    exact Nat.lt_of_lt_of_le (hi.2 nr hnr x hx) he.len
  unfold allocView
  split
  · rename_i t ht
    have he : Extends st.1 (st.1 ++ [Obj.dt t] ++ [Obj.acc ⟨nv.2.isCmd, nv.2.props, some st.1.length, none, none⟩]) :=
      ⟨_, List.append_assoc _ _ _⟩
    have hlen : (st.1 ++ [Obj.dt t]).length = st.1.length + 1 := by simp
    constructor
    · simp only [List.map_append, List.map_cons, List.map_nil]
      congr 1
      · rw [← hi.1]
        apply List.map_congr_left
        intro nr hnr
        rw [(hold _ he nr hnr).1]
      · rw [← hlen, viewAt_new]
        have : (st.1 ++ [Obj.dt t] ++ [Obj.acc ⟨nv.2.isCmd, nv.2.props, some st.1.length, none, none⟩]).dtAt st.1.length
            = some t := by
          unfold Heap.dtAt; simp
        simp only [treeAt, this, ← ht]
    · intro nr hnr x hx
      simp only [List.mem_append, List.mem_singleton] at hnr
      rcases hnr with h | rfl
      · exact (hold _ he nr h).2 x hx
      · rw [← hlen, reachAcc_new] at hx
        simp only [Option.toList, List.append_nil, List.mem_cons, List.not_mem_nil, or_false] at hx
        rcases hx with rfl | rfl <;> simp
  · rename_i ht
    have he : Extends st.1 (st.1 ++ [Obj.acc ⟨nv.2.isCmd, nv.2.props, none, none, none⟩]) := ⟨_, rfl⟩
    constructor
    · simp only [List.map_append, List.map_cons, List.map_nil]
      congr 1
      · rw [← hi.1]
        apply List.map_congr_left
        intro nr hnr
        rw [(hold _ he nr hnr).1]
      · rw [viewAt_new]
        simp only [treeAt, ← ht]
    · intro nr hnr x hx
      simp only [List.mem_append, List.mem_singleton] at hnr
      rcases hnr with h | rfl
      · exact (hold _ he nr h).2 x hx
      · rw [reachAcc_new] at hx
        simp only [Option.toList, List.append_nil, List.mem_cons, List.not_mem_nil, or_false] at hx
        subst hx; simp

theorem viewsInv_foldl (l : List (Name × AccView)) (st : Heap × List (Name × Ref)) (views : List (Name × AccView))
    (hi : ViewsInv st views) : ViewsInv (l.foldl allocView st) (views ++ l) := by
  induction l generalizing st views with
  | nil => simpa using hi
  | cons a l ih =>
    have := ih _ _ (viewsInv_allocView st views a hi)
    simpa using this

/-- the description of a new instance is `instViews` of the description of its class -/
theorem describe_instantiate (T : Tables) (w : World) (n c : Name) (cfg : List (Name × PropMap))
    (hadm : w.findInst n = none) :
    describeH (instantiate T w n c cfg) (.inst n) =
      (instViews T (describeH w (.cls c)) cfg).map (fun nv => (nv.1, some nv.2)) := by
  have hinv := viewsInv_foldl (instViews T (describeH w (.cls c)) cfg) (w.heap, []) [] ⟨rfl, by simp⟩
  have hfind : (instantiate T w n c cfg).findInst n =
      some ⟨n, c, ((instViews T (describeH w (.cls c)) cfg).foldl allocView (w.heap, [])).2,
        instMVals (describeM w (.cls c)) cfg⟩ := by
    unfold World.findInst instantiate
    exact find?_append_new _ _ _ hadm (by simp)
  have hacc : (instantiate T w n c cfg).accessiblesOf (.inst n) =
      ((instViews T (describeH w (.cls c)) cfg).foldl allocView (w.heap, [])).2 := by
    simp only [World.accessiblesOf, hfind]
  have h1 := hinv.1
  simp only [List.nil_append] at h1
  show List.map (fun nr => (nr.1, viewAt (instantiate T w n c cfg).heap nr.2))
      ((instantiate T w n c cfg).accessiblesOf (.inst n)) = _
  rw [hacc]
  exact h1


/-! ### the two mutations keep the invariants -/

/-- an operation that writes only inside its target instance (and may give it new objects) keeps the invariants -/
theorem preserve_of_target_write (w w' : World) (i : Name)
    (hroots : ∀ o, w'.roots o = w.roots o) (hlen : w.heap.length ≤ w'.heap.length)
    (hframe : ∀ x, x < w.heap.length → x ∉ reach w (.inst i) → w'.heap[x]? = w.heap[x]?)
    (hb : Bounded w) (hs : Separated w)
    (hnew : ∀ r ∈ reach w' (.inst i), r ∈ reach w (.inst i) ∨ (w.heap.length ≤ r ∧ r < w'.heap.length)) :
    Bounded w' ∧ Separated w' := by
  have hsame : ∀ o, o ≠ Owner.inst i → reach w' o = reach w o := fun o ho =>
    reach_congr (hroots o) (fun r hr => hframe r (root_lt hb hr)
      (fun hc => hs i o ho r hc (root_reach hr (self_mem_reachAcc _ _))))
  constructor
  · intro o r hr
    by_cases ho : o = .inst i
    · subst ho
      rcases hnew r hr with h | h
      · exact Nat.lt_of_lt_of_le (hb _ r h) hlen
      · exact h.2
    · rw [hsame o ho] at hr
      exact Nat.lt_of_lt_of_le (hb o r hr) hlen
  · intro j o hoj r hr
    by_cases hj : Owner.inst j = .inst i
    · have hji : j = i := by cases hj; rfl
      subst hji
      rw [hsame o hoj]
      rcases hnew r hr with h | h
      · exact hs j o hoj r h
      · exact fun hro => absurd (hb o r hro) (Nat.not_lt.2 h.1)
    · rw [hsame _ hj] at hr
      by_cases ho : o = .inst i
      · subst ho
        intro hro
        rcases hnew r hro with h | h
        · exact hs j (.inst i) hoj r hr h
        · exact absurd (hb _ r hr) (Nat.not_lt.2 h.1)
      · rw [hsame o ho]
        exact hs j o hoj r hr

theorem accAt_lt {h : Heap} {r : Ref} {a : AccH} (ha : h.accAt r = some a) : r < h.length := by
  unfold Heap.accAt at ha
  cases hr : h[r]? with
  | none => simp [hr] at ha
  | some o => exact (List.getElem?_eq_some_iff.1 hr).1

theorem dtAt_lt {h : Heap} {r : Ref} {t : DTree} (ha : h.dtAt r = some t) : r < h.length := by
  unfold Heap.dtAt at ha
  cases hr : h[r]? with
  | none => simp [hr] at ha
  | some o => exact (List.getElem?_eq_some_iff.1 hr).1

theorem accAt_set_self {h : Heap} {r : Ref} (hr : r < h.length) (a : AccH) :
    Heap.accAt (h.set r (.acc a)) r = some a := by
  unfold Heap.accAt; simp [hr]

theorem accAt_set_dt {h : Heap} {rd : Ref} {t : DTree} (hd : h.dtAt rd = some t) (t' : DTree) (x : Ref) :
    Heap.accAt (h.set rd (.dt t')) x = h.accAt x := by
  by_cases hx : rd = x
  · subst hx
    have hlt := dtAt_lt hd
    have h1 : (h.set rd (Obj.dt t'))[rd]? = some (Obj.dt t') := by simp [hlt]
    unfold Heap.dtAt at hd
    unfold Heap.accAt
    rw [h1]
    cases hr : h[rd]? with
    | none => simp [hr] at hd
    | some o => cases o with
      | acc a => simp [hr] at hd
      | dt t0 => rfl
      | prop p0 => rfl
  · exact accAt_congr (getElem?_set_ne' hx)

theorem records_mutation (T : Tables) (w : World) (op : Op) (hop : (∃ i p pa k v, op = .setprop i p pa k v) ∨ ∃ i p m, op = .addEnum i p m) :
    (step T w op).classes = w.classes ∧ (step T w op).insts = w.insts := by
  rcases hop with ⟨i, p, pa, k, v, rfl⟩ | ⟨i, p, m, rfl⟩
  · simp only [step, setprop]
    repeat' split
    all_goals exact ⟨rfl, rfl⟩
  · simp only [step, addEnum]
    repeat' split
    all_goals exact ⟨rfl, rfl⟩

theorem roots_of_records {w w' : World} (hc : w'.classes = w.classes) (hi : w'.insts = w.insts) (o : Owner) :
    w'.roots o = w.roots o := by
  cases o <;> simp only [World.roots, World.findClass, World.findInst, hc, hi]

theorem mem_reach_inst {w : World} {i par : Name} {r : Ref} (h : aget? (w.accessiblesOf (.inst i)) par = some r) :
    r ∈ w.roots (.inst i) := accessible_mem_roots (aget?_mem h)

/-- what is reachable from `x` after the cell `r` was overwritten by an accessible with the given fields -/
theorem reachAcc_after_set {h h' : Heap} {r : Ref} {a' : AccH} (hr' : h'.accAt r = some a')
    (hother : ∀ x, x ≠ r → h'.accAt x = h.accAt x) (x : Ref) :
    reachAcc h' x = if x = r then r :: (a'.dtype.toList ++ a'.ownDt.toList ++ a'.mergedDt.toList) else reachAcc h x := by
  by_cases hx : x = r
  · subst hx; simp only [if_true]; unfold reachAcc; rw [hr']
  · simp only [hx, if_false]; unfold reachAcc; rw [hother x hx]

theorem preserve_setprop (T : Tables) (w : World) (i p : Name) (pa : List Nat) (k : Name) (v : PVal) (hb : Bounded w) (hs : Separated w) :
    Bounded (setprop T w i p pa k v) ∧ Separated (setprop T w i p pa k v) := by
  have hrec := records_mutation T w (.setprop i p pa k v) (Or.inl ⟨i, p, pa, k, v, rfl⟩)
  have hframe := fun x hx hn => frame_step T w (.setprop i p pa k v) x hx hn
  simp only [step] at hrec hframe
  apply preserve_of_target_write w _ i (roots_of_records hrec.1 hrec.2) ?_ hframe hb hs
  · -- what the instance reaches afterwards
    intro x hx
    left
    unfold reach at hx ⊢
    rw [roots_of_records hrec.1 hrec.2] at hx
    obtain ⟨root, hroot, hxr⟩ := List.mem_flatMap.1 hx
    revert hx hxr
    unfold setprop
    split
    · rename_i r' hacc
      have hr'root := mem_reach_inst hacc
      split
      · rename_i a ha
        have hlt := accAt_lt ha
        split
        · intro _ hxr
          simp only at hxr
          rw [reachAcc_after_set (accAt_set_self hlt _) (fun y hy => accAt_congr (getElem?_set_ne' (Ne.symm hy))) root] at hxr
          split at hxr
          · rename_i hroot'
            refine List.mem_flatMap.2 ⟨r', hr'root, ?_⟩
            unfold reachAcc; rw [ha]; exact hxr
          · exact List.mem_flatMap.2 ⟨root, hroot, hxr⟩
        · split
          · rename_i rd hd
            split
            · rename_i t ht
              intro _ hxr
              simp only at hxr
              unfold reachAcc at hxr
              rw [accAt_set_dt ht] at hxr
              exact List.mem_flatMap.2 ⟨root, hroot, hxr⟩
            · intro _ hxr; exact List.mem_flatMap.2 ⟨root, hroot, hxr⟩
          · intro _ hxr; exact List.mem_flatMap.2 ⟨root, hroot, hxr⟩
      · intro _ hxr; exact List.mem_flatMap.2 ⟨root, hroot, hxr⟩
    · intro _ hxr; exact List.mem_flatMap.2 ⟨root, hroot, hxr⟩
  · -- the heap does not shrink
    unfold setprop
    repeat' split
    all_goals simp


theorem accAt_append_dt (h : Heap) (t : DTree) (y : Ref) : Heap.accAt (h ++ [Obj.dt t]) y = h.accAt y := by
  unfold Heap.accAt
  by_cases hy : y < h.length
  · rw [List.getElem?_append_left hy]
  · have hge : h.length ≤ y := Nat.le_of_not_lt hy
    have h2 : h[y]? = none := List.getElem?_eq_none hge
    rw [h2]
    by_cases hy2 : y = h.length
    · subst hy2; simp
    · have hlen : (h ++ [Obj.dt t]).length ≤ y := by
        rw [List.length_append, List.length_singleton]
        exact Nat.succ_le_of_lt (Nat.lt_of_le_of_ne hge (fun e => hy2 e.symm))
      have : (h ++ [Obj.dt t])[y]? = none := List.getElem?_eq_none hlen
      rw [this]

theorem preserve_addEnum (T : Tables) (w : World) (i p m : Name) (hb : Bounded w) (hs : Separated w) :
    Bounded (addEnum w i p m) ∧ Separated (addEnum w i p m) := by
  have hrec := records_mutation T w (.addEnum i p m) (Or.inr ⟨i, p, m, rfl⟩)
  have hframe := fun x hx hn => frame_step T w (.addEnum i p m) x hx hn
  simp only [step] at hrec hframe
  apply preserve_of_target_write w _ i (roots_of_records hrec.1 hrec.2) ?_ hframe hb hs
  · intro x hx
    unfold reach at hx ⊢
    rw [roots_of_records hrec.1 hrec.2] at hx
    obtain ⟨root, hroot, hxr⟩ := List.mem_flatMap.1 hx
    revert hx hxr
    unfold addEnum
    split
    · rename_i r' hacc
      have hr'root := mem_reach_inst hacc
      split
      · rename_i a ha
        have hlt := accAt_lt ha
        split
        · rename_i rd hd
          split
          · rename_i t ht
            intro _ hxr
            simp only [enumHeap] at hxr ⊢
            have hlt1 : r' < (w.heap ++ [Obj.dt (.node "enum" [] [] (t.members ++ [(m, nextEnum t.members)]))]).length :=
              Nat.lt_of_lt_of_le hlt (by simp)
            rw [reachAcc_after_set (h := w.heap) (accAt_set_self hlt1 _)
              (fun y hy => by rw [accAt_congr (getElem?_set_ne' (Ne.symm hy)), accAt_append_dt]) root] at hxr
            split at hxr
            · simp only [Option.toList, List.mem_cons, List.mem_append, List.not_mem_nil, or_false] at hxr
              rcases hxr with rfl | (rfl | hx2) | hx2
              · exact Or.inl (List.mem_flatMap.2 ⟨x, hr'root, self_mem_reachAcc _ _⟩)
              · right; simp
              · left
                refine List.mem_flatMap.2 ⟨r', hr'root, ?_⟩
                unfold reachAcc; rw [ha]
                simp only [List.mem_cons, List.mem_append]
                exact Or.inr (Or.inl (Or.inr hx2))
              · left
                refine List.mem_flatMap.2 ⟨r', hr'root, ?_⟩
                unfold reachAcc; rw [ha]
                simp only [List.mem_cons, List.mem_append]
                exact Or.inr (Or.inr hx2)
            · exact Or.inl (List.mem_flatMap.2 ⟨root, hroot, hxr⟩)
          · intro _ hxr; exact Or.inl (List.mem_flatMap.2 ⟨root, hroot, hxr⟩)
        · intro _ hxr; exact Or.inl (List.mem_flatMap.2 ⟨root, hroot, hxr⟩)
      · intro _ hxr; exact Or.inl (List.mem_flatMap.2 ⟨root, hroot, hxr⟩)
    · intro _ hxr; exact Or.inl (List.mem_flatMap.2 ⟨root, hroot, hxr⟩)
  · unfold addEnum
    repeat' split
    all_goals simp [enumHeap]


/-! ### the classes along the MRO -/

theorem findClass_restrictTo (w : World) (mro : List Name) (c : Name) :
    (w.restrictTo mro).findClass c = if mro.contains c then w.findClass c else none := by
  unfold World.findClass World.restrictTo
  simp only
  generalize w.classes = l
  induction l with
  | nil => simp
  | cons a l ih =>
    rw [List.filter_cons]
    cases hm : mro.contains a.pure.decl.name with
    | true =>
      simp only [if_true, List.find?_cons]
      cases hb : (a.pure.decl.name == c) with
      | true =>
        have ha : a.pure.decl.name = c := by simpa using hb
        rw [ha] at hm
        simp only [hm, if_true]
      | false => simp only [ih]
    | false =>
      simp only [Bool.false_eq_true, if_false, List.find?_cons]
      cases hb : (a.pure.decl.name == c) with
      | true =>
        have ha : a.pure.decl.name = c := by simpa using hb
        rw [ha] at hm
        simp only [ih, hm, Bool.false_eq_true, if_false]
      | false => simp only [ih]

theorem findClass_of_restrictTo {w : World} {mro : List Name} {c : Name} {cr : ClassRec}
    (h : (w.restrictTo mro).findClass c = some cr) : w.findClass c = some cr := by
  rw [findClass_restrictTo] at h
  split at h
  · exact h
  · cases h

theorem roots_of_restrictTo {w : World} {mro : List Name} {c : Name} {x : Ref}
    (h : x ∈ (w.restrictTo mro).roots (.cls c)) : x ∈ w.roots (.cls c) := by
  simp only [World.roots] at h ⊢
  cases hc : (w.restrictTo mro).findClass c with
  | none => simp [hc] at h
  | some cr => rw [findClass_of_restrictTo hc]; simpa [hc] using h

/-! ### class definition keeps the invariants -/

/-- reachable from an existing class -/
def ClassReach (w : World) (x : Ref) : Prop := ∃ c, x ∈ reach w (.cls c)

/-- the listed objects are new; everything reachable from them is new or belongs to an existing class -/
def FreshOrInv (base : Nat) (P : Ref → Prop) (st : Heap × List (Name × Ref)) : Prop :=
  base ≤ st.1.length ∧ ∀ nr ∈ st.2, (base ≤ nr.2 ∧ nr.2 < st.1.length) ∧
    ∀ x ∈ reachAcc st.1 nr.2, (base ≤ x ∧ x < st.1.length) ∨ P x

theorem FreshOrInv.extend {base : Nat} {P : Ref → Prop} {st : Heap × List (Name × Ref)} (hi : FreshOrInv base P st)
    {h' : Heap} (he : Extends st.1 h') (n : Name) (r : Ref) (hr0 : base ≤ r ∧ r < h'.length)
    (hr : ∀ x ∈ reachAcc h' r, (base ≤ x ∧ x < h'.length) ∨ P x) :
    FreshOrInv base P (h', st.2 ++ [(n, r)]) := by
  refine ⟨Nat.le_trans hi.1 he.len, ?_⟩
  intro nr hnr
  simp only [List.mem_append, List.mem_singleton] at hnr
  rcases hnr with hold | rfl
  · obtain ⟨h0, h1⟩ := hi.2 nr hold
    refine ⟨⟨h0.1, Nat.lt_of_lt_of_le h0.2 he.len⟩, ?_⟩
    intro x hx
    rw [reachAcc_congr (he.get h0.2)] at hx
    rcases h1 x hx with h | h
    · exact Or.inl ⟨h.1, Nat.lt_of_lt_of_le h.2 he.len⟩
    · exact Or.inr h
  · exact ⟨hr0, hr⟩

theorem reachAcc_new_dt (h : Heap) (t : DTree) : reachAcc (h ++ [Obj.dt t]) h.length = [h.length] := by
  unfold reachAcc Heap.accAt; simp

theorem freshOrInv_allocDecl (base : Nat) (P : Ref → Prop) (self : Name) (st : Heap × List (Name × Ref))
    (ke : Name × EntryV) (hi : FreshOrInv base P st) : FreshOrInv base P (allocDecl self st ke) := by
  unfold allocDecl
  split
  · split
    · rename_i t _
      simp only [alloc_heap, alloc_ref]
      have hb := hi.1
      apply hi.extend ⟨_, rfl⟩
      · simp; omega
      · intro x hx
        rw [reachAcc_new_dt] at hx
        simp only [List.mem_singleton] at hx
        subst hx; left; simp; omega
    · exact hi
  · exact hi

theorem freshOrInv_foldl {α : Type} (base : Nat) (P : Ref → Prop)
    (f : Heap × List (Name × Ref) → α → Heap × List (Name × Ref))
    (hf : ∀ st a, FreshOrInv base P st → FreshOrInv base P (f st a)) (l : List α) (st : Heap × List (Name × Ref))
    (hi : FreshOrInv base P st) : FreshOrInv base P (l.foldl f st) := by
  induction l generalizing st with
  | nil => exact hi
  | cons a l ih => exact ih _ (hf st a hi)

theorem declDt_classReach {w : World} {c n : Name} {cr : ClassRec} {x : Ref} (hc : w.findClass c = some cr)
    (hx : aget? cr.declDt n = some x) : ClassReach w x := by
  refine ⟨c, root_reach (r := x) ?_ (self_mem_reachAcc _ _)⟩
  simp only [World.roots, hc, List.mem_append, List.mem_map]
  exact Or.inl (Or.inl (Or.inr ⟨(n, x), aget?_mem hx, rfl⟩))

theorem accRef_root {w : World} {c n : Name} {cr : ClassRec} {x : Ref} (hc : w.findClass c = some cr)
    (hx : aget? cr.accRef n = some x) : x ∈ w.roots (.cls c) := by
  simp only [World.roots, hc, List.mem_append, List.mem_map]
  exact Or.inl (Or.inl (Or.inl (Or.inr ⟨(n, x), aget?_mem hx, rfl⟩)))

theorem propRef_root {w : World} {c n : Name} {cr : ClassRec} {x : Ref} (hc : w.findClass c = some cr)
    (hx : aget? cr.propRef n = some x) : x ∈ w.roots (.cls c) := by
  simp only [World.roots, hc, List.mem_append, List.mem_map]
  exact Or.inl (Or.inr ⟨(n, x), aget?_mem hx, rfl⟩)

theorem propertyRef_ok {w : World} {self : Name} {own : List (Name × Ref)} {ns : Name × PSlot} {nr : Name × Ref}
    (h : propertyRef w self own ns = some nr) :
    nr ∈ own ∨ ∃ c, nr.2 ∈ w.roots (.cls c) := by
  unfold propertyRef at h
  split at h
  · cases hg : aget? own ns.1 with
    | none => simp [hg] at h
    | some r =>
      simp only [hg, Option.map_some, Option.some.injEq] at h
      subst h
      exact Or.inl (aget?_mem hg)
  · cases hc : w.findClass ns.2.owner with
    | none => simp [hc] at h
    | some cr =>
      cases hg : aget? cr.propRef ns.1 with
      | none => simp [hc, hg] at h
      | some r =>
        simp only [hc, Option.bind_some, hg, Option.map_some, Option.some.injEq] at h
        subst h
        exact Or.inr ⟨_, propRef_root hc hg⟩

/-- pass 0 creates Property objects only: each is new and reaches nothing but itself -/
def PropInv (base : Nat) (st : Heap × List (Name × Ref)) : Prop :=
  base ≤ st.1.length ∧ ∀ nr ∈ st.2, (base ≤ nr.2 ∧ nr.2 < st.1.length) ∧ ∃ p, st.1[nr.2]? = some (Obj.prop p)

theorem propInv_allocProp (base : Nat) (st : Heap × List (Name × Ref)) (ke : Name × EntryV)
    (hi : PropInv base st) : PropInv base (allocProp st ke) := by
  unfold allocProp
  split
  · rename_i p _
    refine ⟨by simp; have := hi.1; omega, ?_⟩
    intro nr hnr
    simp only [List.mem_append, List.mem_singleton] at hnr
    rcases hnr with hold | rfl
    · obtain ⟨h0, q, hq⟩ := hi.2 nr hold
      refine ⟨⟨h0.1, Nat.lt_of_lt_of_le h0.2 (by simp)⟩, q, ?_⟩
      simp only
      rw [List.getElem?_append_left h0.2]; exact hq
    · refine ⟨⟨hi.1, by simp⟩, p, ?_⟩
      simp
  · exact hi

theorem propInv_foldl (base : Nat) (l : List (Name × EntryV)) (st : Heap × List (Name × Ref))
    (hi : PropInv base st) : PropInv base (l.foldl allocProp st) := by
  induction l generalizing st with
  | nil => exact hi
  | cons a l ih => exact ih _ (propInv_allocProp base st a hi)

theorem reachAcc_prop {h : Heap} {r : Ref} {p : PropV} (hp : h[r]? = some (Obj.prop p)) : reachAcc h r = [r] := by
  unfold reachAcc Heap.accAt; rw [hp]

theorem resolve_ok {w : World} {self : Name} {sd : List (Name × Ref)} {base L : Nat}
    (hsd : ∀ nr ∈ sd, base ≤ nr.2 ∧ nr.2 < L) {id : DtId} {x : Ref} (h : resolveDt w self sd id = some x) :
    (base ≤ x ∧ x < L) ∨ ClassReach w x := by
  cases id with
  | copy c n => simp [resolveDt] at h
  | decl c n =>
    simp only [resolveDt] at h
    split at h
    · exact Or.inl (hsd _ (aget?_mem h))
    · cases hc : w.findClass c with
      | none => simp [hc] at h
      | some cr =>
        simp only [hc, Option.bind_some] at h
        exact Or.inr (declDt_classReach hc h)

theorem slotRef_ok {w : World} {self : Name} {sd : List (Name × Ref)} {base L : Nat}
    (hsd : ∀ nr ∈ sd, base ≤ nr.2 ∧ nr.2 < L) {s : DtSlot} {x : Ref} (h : slotRef w self sd s = some x) :
    (base ≤ x ∧ x < L) ∨ ClassReach w x := by
  cases s with
  | unset => simp [slotRef] at h
  | cleared => simp [slotRef] at h
  | set id t => exact resolve_ok hsd (by simpa [slotRef] using h)


theorem allocSlot_ref_ok {w : World} {self : Name} {sd : List (Name × Ref)} {base : Nat} {h : Heap}
    (hb : base ≤ h.length) (hsd : ∀ nr ∈ sd, base ≤ nr.2 ∧ nr.2 < h.length) (s : DtSlot) {x : Ref}
    (hx : (allocSlot w self sd h s).2 = some x) :
    (base ≤ x ∧ x < (allocSlot w self sd h s).1.length + 1) ∨ ClassReach w x := by
  cases s with
  | unset => simp [allocSlot] at hx
  | cleared => simp [allocSlot] at hx
  | set id t =>
    cases id with
    | copy c n =>
      simp only [allocSlot, Option.some.injEq] at hx ⊢
      subst hx
      left
      refine ⟨hb, ?_⟩
      simp only [List.length_append, List.length_singleton]
      exact Nat.lt_succ_of_lt (Nat.lt_succ_self _)
    | decl c n =>
      simp only [allocSlot] at hx ⊢
      rcases resolve_ok hsd hx with h1 | h1
      · left; exact ⟨h1.1, Nat.lt_succ_of_lt h1.2⟩
      · exact Or.inr h1

theorem freshOrInv_allocAcc (w : World) (self : Name) (sd : List (Name × Ref)) (base L0 : Nat)
    (hsd : ∀ nr ∈ sd, base ≤ nr.2 ∧ nr.2 < L0) (st : Heap × List (Name × Ref)) (ke : Name × EntryV)
    (hi : FreshOrInv base (ClassReach w) st ∧ L0 ≤ st.1.length) :
    FreshOrInv base (ClassReach w) (allocAcc w self sd st ke) ∧ L0 ≤ (allocAcc w self sd st ke).1.length := by
  have hext := extends_allocAcc w self sd st ke
  refine ⟨?_, Nat.le_trans hi.2 hext.len⟩
  unfold allocAcc
  split
  · rename_i a _
    have hb := hi.1.1
    have hsd' : ∀ nr ∈ sd, base ≤ nr.2 ∧ nr.2 < st.1.length := fun nr h =>
      ⟨(hsd nr h).1, Nat.lt_of_lt_of_le (hsd nr h).2 hi.2⟩
    have he1 := extends_allocSlot w self sd st.1 a.dt
    have hl1 := he1.len
    have hdref := fun x => allocSlot_ref_ok (w := w) (self := self) hb hsd' a.dt (x := x)
    have hlen2 : ((allocSlot w self sd st.1 a.dt).1 ++
        [Obj.acc (accObj w self sd a (allocSlot w self sd st.1 a.dt).2)]).length =
        (allocSlot w self sd st.1 a.dt).1.length + 1 := by simp
    generalize hLh : (allocSlot w self sd st.1 a.dt).1.length = Lh at hl1 hdref hlen2
    have hbig : ∀ y, base ≤ y → y < Lh + 1 → (base ≤ y ∧ y < ((allocSlot w self sd st.1 a.dt).1 ++
        [Obj.acc (accObj w self sd a (allocSlot w self sd st.1 a.dt).2)]).length) ∨ ClassReach w y :=
      fun y h1 h2 => Or.inl ⟨h1, by rw [hlen2]; exact h2⟩
    apply hi.1.extend (he1.trans ⟨_, rfl⟩)
    · exact ⟨Nat.le_trans hb hl1, by rw [hlen2]; exact Nat.lt_succ_self _⟩
    · intro x hx
      rw [← hLh, reachAcc_new] at hx
      simp only [List.mem_cons, List.mem_append, Option.mem_toList] at hx
      rcases hx with hx | (hx | hx) | hx
      · rw [hLh] at hx; subst hx; exact hbig _ (Nat.le_trans hb hl1) (Nat.lt_succ_self _)
      · rcases hdref x hx with h1 | h1
        · exact hbig x h1.1 h1.2
        · exact Or.inr h1
      · rcases slotRef_ok hsd' (s := a.ownDt) hx with h1 | h1
        · exact hbig x h1.1 (Nat.lt_succ_of_lt (Nat.lt_of_lt_of_le h1.2 hl1))
        · exact Or.inr h1
      · simp only [accObj, mergedRef] at hx
        split at hx
        · rcases slotRef_ok hsd' hx with h1 | h1
          · exact hbig x h1.1 (Nat.lt_succ_of_lt (Nat.lt_of_lt_of_le h1.2 hl1))
          · exact Or.inr h1
        · simp at hx
  · exact hi.1

theorem freshOrInv_layoutAcc (w : World) (self : Name) (sd : List (Name × Ref)) (base L0 : Nat)
    (hsd : ∀ nr ∈ sd, base ≤ nr.2 ∧ nr.2 < L0) (l : List (Name × EntryV)) (st : Heap × List (Name × Ref))
    (hi : FreshOrInv base (ClassReach w) st ∧ L0 ≤ st.1.length) :
    FreshOrInv base (ClassReach w) (l.foldl (allocAcc w self sd) st) := by
  induction l generalizing st with
  | nil => exact hi.1
  | cons a l ih => exact ih _ (freshOrInv_allocAcc w self sd base L0 hsd st a hi)


theorem accessibleRef_ok {w : World} {self : Name} {own : List (Name × Ref)} {ns : Name × SlotV} {nr : Name × Ref}
    (h : accessibleRef w self own ns = some nr) :
    nr ∈ own ∨ ∃ c, nr.2 ∈ w.roots (.cls c) := by
  unfold accessibleRef at h
  split at h
  · cases hg : aget? own ns.1 with
    | none => simp [hg] at h
    | some r =>
      simp only [hg, Option.map_some, Option.some.injEq] at h
      subst h
      exact Or.inl (aget?_mem hg)
  · cases hc : w.findClass ns.2.owner with
    | none => simp [hc] at h
    | some cr =>
      cases hg : aget? cr.accRef ns.1 with
      | none => simp [hc, hg] at h
      | some r =>
        simp only [hc, Option.bind_some, hg, Option.map_some, Option.some.injEq] at h
        subst h
        exact Or.inr ⟨_, accRef_root hc hg⟩

theorem dictAccs_mem {own : List (Name × Ref)} {dict : List (Name × EntryV)} {nr : Name × Ref}
    (h : nr ∈ dictAccs own dict) : nr ∈ own := by
  unfold dictAccs at h
  obtain ⟨ke, _, hke⟩ := List.mem_filterMap.1 h
  split at hke
  · cases hg : aget? own ke.1 with
    | none => simp [hg] at hke
    | some r =>
      simp only [hg, Option.map_some, Option.some.injEq] at hke
      subst hke
      exact aget?_mem hg
  · simp at hke

/-- a new class reaches only new objects and objects of existing classes -/
theorem preserve_define (T : Tables) (w : World) (d : ClassDecl) (hadm : w.findClass d.name = none)
    (hb : Bounded w) (hs : Separated w) :
    Bounded (defineClass T w d) ∧ Separated (defineClass T w d) := by
  have hname : (pureDefine T (chainOf w d) d).decl.name = d.name := by rw [pureDefine_decl]
  unfold defineClass
  generalize hcv : pureDefine T (chainOf w d) d = cv at hname
  have hrec : ∀ o, o ≠ Owner.cls d.name → (layout w cv).roots o = w.roots o := by
    intro o ho
    have := (records_step T w (.define d) o ho).2
    simpa only [step, defineClass, hcv] using this
  apply preserve_of_fresh w (layout w cv) (.cls d.name) (extends_layout w cv) hrec hb hs
  intro r hr
  have hfind : (layout w cv).findClass d.name = some (layoutRec w cv) := by
    have := findClass_layout_new w cv (by rw [hname]; exact hadm)
    rwa [hname] at this
  have s0inv : PropInv w.heap.length (layoutProp w cv) :=
    propInv_foldl _ cv.dict (w.heap, []) ⟨Nat.le_refl _, by simp⟩
  have he01 : Extends (layoutProp w cv).1 (layoutDecl w cv).1 :=
    extends_foldl _ (extends_allocDecl _) cv.dict ((layoutProp w cv).1, [])
  have s1inv : FreshOrInv w.heap.length (ClassReach w) (layoutDecl w cv) :=
    freshOrInv_foldl _ _ _ (freshOrInv_allocDecl _ _ _) cv.dict ((layoutProp w cv).1, []) ⟨s0inv.1, by simp⟩
  have hsd : ∀ nr ∈ (layoutDecl w cv).2, w.heap.length ≤ nr.2 ∧ nr.2 < (layoutDecl w cv).1.length :=
    fun nr h => (s1inv.2 nr h).1
  have hreach : ∀ x, ClassReach (w.restrictTo cv.decl.mro.tail) x → ClassReach w x := by
    rintro x ⟨c, hc⟩
    obtain ⟨root, hroot, hx⟩ := List.mem_flatMap.1 hc
    exact ⟨c, List.mem_flatMap.2 ⟨root, roots_of_restrictTo hroot, hx⟩⟩
  have s2inv : FreshOrInv w.heap.length (ClassReach (w.restrictTo cv.decl.mro.tail))
      (layoutAcc (w.restrictTo cv.decl.mro.tail) cv (layoutDecl w cv)) :=
    freshOrInv_layoutAcc (w.restrictTo cv.decl.mro.tail) cv.decl.name _ _ _ hsd cv.dict ((layoutDecl w cv).1, [])
      ⟨⟨s1inv.1, by simp⟩, Nat.le_refl _⟩
  have he12 : Extends (layoutDecl w cv).1 (layoutAcc (w.restrictTo cv.decl.mro.tail) cv (layoutDecl w cv)).1 :=
    extends_foldl _ (extends_allocAcc _ _ _) cv.dict ((layoutDecl w cv).1, [])
  have hheap : (layout w cv).heap = (layoutAcc (w.restrictTo cv.decl.mro.tail) cv (layoutDecl w cv)).1 := rfl
  -- objects of the new class: from pass 2
  have own2 : ∀ nr ∈ (layoutAcc (w.restrictTo cv.decl.mro.tail) cv (layoutDecl w cv)).2, ∀ x ∈ reachAcc (layout w cv).heap nr.2,
      (w.heap.length ≤ x ∧ x < (layout w cv).heap.length) ∨ ClassReach w x := by
    intro nr hnr x hx
    rw [hheap] at hx ⊢
    rcases (s2inv.2 nr hnr).2 x hx with h | h
    · exact Or.inl h
    · exact Or.inr (hreach x h)
  unfold reach at hr
  simp only [World.roots, hfind] at hr
  obtain ⟨root, hroot, hx⟩ := List.mem_flatMap.1 hr
  have hgoal : (w.heap.length ≤ r ∧ r < (layout w cv).heap.length) ∨ ClassReach w r := by
    simp only [List.mem_append, List.mem_map] at hroot
    have own0 : ∀ nr ∈ (layoutProp w cv).2, ∀ x ∈ reachAcc (layout w cv).heap nr.2,
        (w.heap.length ≤ x ∧ x < (layout w cv).heap.length) ∨ ClassReach w x := by
      intro nr hnr x hx
      obtain ⟨h0, p, hp⟩ := s0inv.2 nr hnr
      have hcell : (layout w cv).heap[nr.2]? = some (Obj.prop p) := by
        rw [hheap, (he01.trans he12).get h0.2]; exact hp
      rw [reachAcc_prop hcell] at hx
      simp only [List.mem_singleton] at hx
      subst hx
      left
      rw [hheap]
      exact ⟨h0.1, Nat.lt_of_lt_of_le h0.2 (he01.trans he12).len⟩
    rcases hroot with (((⟨nr, hnr, rfl⟩ | ⟨nr, hnr, rfl⟩) | ⟨nr, hnr, rfl⟩) | ⟨nr, hnr, rfl⟩) | ⟨nr, hnr, rfl⟩
    rotate_left 3
    · -- a Property object of the class' `__dict__`
      exact own0 nr hnr r hx
    · -- an entry of `propertyDict`: own, or lying in the `__dict__` of an existing class
      simp only [layoutRec] at hnr
      obtain ⟨ns, _, hns⟩ := List.mem_filterMap.1 hnr
      rcases propertyRef_ok hns with h | ⟨c, hc⟩
      · exact own0 nr h r hx
      · right
        rw [reachAcc_congr ((extends_layout w cv).get (root_lt hb hc))] at hx
        exact ⟨c, root_reach hc hx⟩
    · -- an accessible
      have hcases : nr ∈ (layoutAcc (w.restrictTo cv.decl.mro.tail) cv (layoutDecl w cv)).2 ∨ ∃ c, nr.2 ∈ w.roots (.cls c) := by
        simp only [layoutRec, layoutAccessibles] at hnr
        split at hnr
        · obtain ⟨ns, _, hns⟩ := List.mem_filterMap.1 hnr
          rcases accessibleRef_ok hns with h | ⟨c, hc⟩
          · exact Or.inl h
          · exact Or.inr ⟨c, roots_of_restrictTo hc⟩
        · exact Or.inl (dictAccs_mem hnr)
      rcases hcases with h | ⟨c, hc⟩
      · exact own2 nr h r hx
      · right
        rw [reachAcc_congr ((extends_layout w cv).get (root_lt hb hc))] at hx
        exact ⟨c, root_reach hc hx⟩
    · exact own2 nr hnr r hx
    · -- a declared datatype object
      have hlt := (s1inv.2 nr hnr).1.2
      rw [hheap, reachAcc_congr (he12.get hlt)] at hx
      rcases (s1inv.2 nr hnr).2 r hx with h | h
      · left; rw [hheap]; exact ⟨h.1, Nat.lt_of_lt_of_le h.2 he12.len⟩
      · exact Or.inr h
  rcases hgoal with h | ⟨c, hc⟩
  · exact Or.inl h
  · exact Or.inr ⟨⟨d.name, rfl⟩, c, hc⟩


/-! ### module properties -/

theorem propAt_congr {h h' : Heap} {r : Ref} (e : h'[r]? = h[r]?) : h'.propAt r = h.propAt r := by
  unfold Heap.propAt; rw [e]

theorem findClass_step_ne (T : Tables) (w : World) (op : Op) (n : Name) (ho : Owner.cls n ≠ op.target) :
    (step T w op).findClass n = w.findClass n := by
  cases op with
  | define d =>
    have hname : (pureDefine T (chainOf w d) d).decl.name = d.name := by rw [pureDefine_decl]
    have hn : n ≠ (pureDefine T (chainOf w d) d).decl.name := by
      rw [hname]; intro h; exact ho (by simp [Op.target, h])
    simp only [step, defineClass, findClass_layout_ne _ _ _ hn]
  | inst n' c cfg => rfl
  | setprop i p pa k v =>
    have := (records_mutation T w (.setprop i p pa k v) (Or.inl ⟨i, p, pa, k, v, rfl⟩)).1
    simp only [World.findClass, this]
  | addEnum i p m =>
    have := (records_mutation T w (.addEnum i p m) (Or.inr ⟨i, p, m, rfl⟩)).1
    simp only [World.findClass, this]

theorem findInst_step_ne (T : Tables) (w : World) (op : Op) (m : Name) (ho : Owner.inst m ≠ op.target) :
    (step T w op).findInst m = w.findInst m := by
  cases op with
  | define d => rfl
  | inst n c cfg =>
    have hm : m ≠ n := by intro h; exact ho (by simp [Op.target, h])
    exact findInst_instantiate_ne T w n c cfg m hm
  | setprop i p pa k v =>
    have := (records_mutation T w (.setprop i p pa k v) (Or.inl ⟨i, p, pa, k, v, rfl⟩)).2
    simp only [World.findInst, this]
  | addEnum i p m' =>
    have := (records_mutation T w (.addEnum i p m') (Or.inr ⟨i, p, m', rfl⟩)).2
    simp only [World.findInst, this]

theorem propDict_root {w : World} {c : Name} {cr : ClassRec} {nr : Name × Ref} (hc : w.findClass c = some cr)
    (h : nr ∈ cr.propDict) : nr.2 ∈ w.roots (.cls c) := by
  simp only [World.roots, hc, List.mem_append, List.mem_map]
  exact Or.inr ⟨nr, h, rfl⟩

/-- no operation writes to an object reachable from a class: class definition and instantiation only append,
the two mutations write inside their target instance, which shares nothing with a class -/
theorem class_cell_step (T : Tables) (w : World) (op : Op) (hb : Bounded w) (hs : Separated w) (c : Name) (r : Ref)
    (hr : r ∈ reach w (.cls c)) : (step T w op).heap[r]? = w.heap[r]? := by
  have hlt := hb _ r hr
  cases op with
  | define d => exact (extends_define T w d).get hlt
  | inst n c' cfg => exact (extends_instantiate T w n c' cfg).get hlt
  | setprop i p pa k v => exact frame_step T w _ r hlt (fun hc => hs i (.cls c) (by simp) r hc hr)
  | addEnum i p m => exact frame_step T w _ r hlt (fun hc => hs i (.cls c) (by simp) r hc hr)

/-- the module properties of a class with record `cr` look the same after the operation -/
theorem propDict_views_step (T : Tables) (w : World) (op : Op) (hb : Bounded w) (hs : Separated w) {c : Name}
    {cr : ClassRec} (hc : w.findClass c = some cr) (f : Name → Option PVal) :
    cr.propDict.map (fun nr => (nr.1, (⟨(step T w op).heap.propAt nr.2, f nr.1⟩ : MView))) =
      cr.propDict.map (fun nr => (nr.1, (⟨w.heap.propAt nr.2, f nr.1⟩ : MView))) := by
  apply List.map_congr_left
  intro nr hnr
  rw [propAt_congr (class_cell_step T w op hb hs c nr.2 (root_reach (propDict_root hc hnr) (self_mem_reachAcc _ _)))]

/-! ### what a class is computed from: refinement to `pureOf` -/

/-- every class of the world is what `pureOf` says, from some fuel on -/
def PureInv (T : Tables) (env : Name → Option ClassDecl) (w : World) : Prop :=
  ∀ n cr, w.findClass n = some cr → ∃ f, ∀ f', f ≤ f' → pureOf T env f' n = some cr.pure

theorem pureOf_none (T : Tables) (env : Name → Option ClassDecl) (f : Nat) (n : Name) (h : env n = none) :
    pureOf T env f n = none := by
  cases f with
  | zero => rfl
  | succ f => simp [pureOf, h]

theorem chain_agrees (T : Tables) (env : Name → Option ClassDecl) (w : World) (hinv : PureInv T env w)
    (l : List Name) (hcons : ∀ m ∈ l, env m ≠ none → w.findClass m ≠ none) :
    ∃ F, ∀ f', F ≤ f' → l.filterMap (pureOf T env f') = l.filterMap (fun n => (w.findClass n).map (·.pure)) := by
  induction l with
  | nil => exact ⟨0, fun _ _ => rfl⟩
  | cons m l ih =>
    obtain ⟨F, hF⟩ := ih (fun m' h => hcons m' (List.mem_cons_of_mem _ h))
    cases hc : w.findClass m with
    | none =>
      have henv : env m = none := by
        false_or_by_contra
        rename_i hne
        exact hcons m List.mem_cons_self hne hc
      refine ⟨F, fun f' hf' => ?_⟩
      simp only [List.filterMap_cons, pureOf_none T env f' m henv, hc, Option.map_none, hF f' hf']
    | some cr =>
      obtain ⟨f, hf⟩ := hinv m cr hc
      refine ⟨max F f, fun f' hf' => ?_⟩
      simp only [List.filterMap_cons, hf f' (Nat.le_trans (Nat.le_max_right _ _) hf'), hc, Option.map_some,
        hF f' (Nat.le_trans (Nat.le_max_left _ _) hf')]

theorem pureInv_define (T : Tables) (env : Name → Option ClassDecl) (w : World) (d : ClassDecl)
    (hadm : w.findClass d.name = none) (hcons : Consistent env w (.define d)) (hinv : PureInv T env w) :
    PureInv T env (defineClass T w d) := by
  have hname : (pureDefine T (chainOf w d) d).decl.name = d.name := by rw [pureDefine_decl]
  intro n cr hfind
  by_cases hn : n = d.name
  · subst hn
    have hnew := findClass_layout_new w (pureDefine T (chainOf w d) d) (by rw [hname]; exact hadm)
    rw [hname] at hnew
    unfold defineClass at hfind
    rw [hnew] at hfind
    cases hfind
    obtain ⟨F, hF⟩ := chain_agrees T env w hinv d.mro.tail hcons.2
    refine ⟨F + 1, fun f' hf' => ?_⟩
    obtain ⟨g, rfl⟩ : ∃ g, f' = g + 1 := ⟨f' - 1, by omega⟩
    simp only [pureOf, hcons.1, Option.map_some, hF g (by omega)]
    rfl
  · unfold defineClass at hfind
    rw [findClass_layout_ne w _ n (by rw [hname]; exact hn)] at hfind
    exact hinv n cr hfind

theorem pureInv_step (T : Tables) (env : Name → Option ClassDecl) (w : World) (op : Op)
    (hadm : Admissible w op) (hcons : Consistent env w op) (hinv : PureInv T env w) : PureInv T env (step T w op) := by
  cases op with
  | define d => exact pureInv_define T env w d hadm hcons hinv
  | inst n c cfg => exact fun m cr h => hinv m cr (by rwa [step, findClass_instantiate] at h)
  | setprop i p pa k v =>
    have := (records_mutation T w (.setprop i p pa k v) (Or.inl ⟨i, p, pa, k, v, rfl⟩)).1
    exact fun m cr h => hinv m cr (by simpa only [World.findClass, this] using h)
  | addEnum i p m' =>
    have := (records_mutation T w (.addEnum i p m') (Or.inr ⟨i, p, m', rfl⟩)).1
    exact fun m cr h => hinv m cr (by simpa only [World.findClass, this] using h)

theorem pureInv_run (T : Tables) (env : Name → Option ClassDecl) (ops : List Op) (w : World)
    (hadm : AdmissibleRun T w ops) (hcons : ConsistentRun T env w ops) (hinv : PureInv T env w) :
    PureInv T env (run T w ops) := by
  induction ops generalizing w with
  | nil => exact hinv
  | cons op ops ih =>
    simp only [run, List.foldl_cons]
    exact ih _ hadm.2 hcons.2 (pureInv_step T env w op hadm.1 hcons.1 hinv)

end Frappy.Klass
