import FrappyProofs.Lemmas.DatatypesSound
import FrappyProofs.Lemmas.DatatypesTotal
import FrappyProofs.Lemmas.DatatypesMonitor
import FrappyProofs.Lemmas.DatatypesDenotesM
import FrappyProofs.Lemmas.DatatypesImport
import FrappyProofs.Lemmas.RatLawful
import FrappyProofs.Lemmas.DatatypesCanon
import FrappyProofs.Lemmas.DatatypesCall
import FrappyProofs.Lemmas.RatGrid
import FrappyProofs.Lemmas.DatatypesReval
import FrappyProofs.Lemmas.DatatypesOfType
import FrappyProofs.Lemmas.DatatypesConvDenotes
import FrappyModel.Datatypes.ErrText
import FrappyModel.Generated.C01
/-
C01 — property theorems (nothing but property theorems and their non-vacuity examples).

For every float carrier `F` satisfying `LawfulFloatOps`, every datatype tree `dt` with `dt.WF`
(what the constructors enforce), every JSON value `j` / Python value `v` offered, every previous
value `prev` that is absent or in the value set.
-/
set_option linter.unusedSectionVars false
namespace Frappy.Props.C01
open Frappy.Spec.C01 Frappy.Datatypes Frappy.Lemmas.C01

variable {F : Type} [FloatOps F] [LawfulFloatOps F]

/-! ## what a parameter may hold

The hypothesis on `prev` in the theorems below is `Shaped dt p` only: tuples inside `p` have the arity of
the type.  It does NOT require `p` to lie inside the limits — a parameter may hold whatever `__call__`
returned for a driver update. -/

/-- a value of the value set has the shape -/
theorem shaped_of_inSet (dt : DType F) (p : PVal F) (h : InSet dt p) : Shaped dt p := inSet_shaped dt p h

/-- whatever `__call__` returned (a driver update, a configured value) has the shape -/
theorem shaped_of_call (dt : DType F) (w p : PVal F) (h : call dt w = .ok p) : Shaped dt p :=
  call_shaped dt w none p h

/-! ## never an out-of-set value -/

/-- a value accepted by `validate` (from a driver) lies in the declared value set -/
theorem validate_sound (dt : DType F) (hwf : dt.WF) (v : PVal F) (prev : Option (PVal F))
    (hprev : ∀ p, prev = some p → Shaped dt p) (r : PVal F) (h : validate dt v prev = .ok r) : InSet dt r :=
  conv_sound dt v prev r hwf hprev h

/-- a value accepted from the wire (`import_value` then `validate`) lies in the declared value set -/
theorem accept_sound (dt : DType F) (hwf : dt.WF) (j : JVal F) (prev : Option (PVal F))
    (hprev : ∀ p, prev = some p → Shaped dt p) (r : PVal F) (h : acceptWire dt j prev = .ok r) : InSet dt r := by
  unfold acceptWire at h
  split at h
  · cases h
  · exact validate_sound dt hwf _ prev hprev r h

/-! ## lengths of strings are counted in character points

`minchars` / `maxchars` bound the number of code points (`String.length`), not the number of bytes of
an encoding: the string type accepts exactly the strings of its declared value set, in all three
entry points. -/

/-- what a string type accepts is the string offered, and its number of code points lies within the limits -/
theorem string_length_in_chars (minc maxc : Nat) (utf8 : Bool) (v : PVal F) (prev : Option (PVal F)) (r : PVal F)
    (h : validate (.string minc maxc utf8) v prev = .ok r) :
    ∃ s, v = .str s ∧ r = .str s ∧ minc ≤ s.length ∧ s.length ≤ maxc := by
  simp only [validate, conv] at h
  obtain ⟨s, hs, hr⟩ := map_ok h
  have hin := (stringCall_sound hs).1
  simp only [InSet, InSetG] at hin
  exact ⟨s, (stringCall_sound hs).2, hr, hin.1, hin.2.1⟩

/-- exact characterisation: a string is accepted (and returned as it is) iff it lies in the declared value set -
`minc ≤ number of code points ≤ maxc`, ASCII only unless `isUTF8`, no NUL - whatever its encoded size -/
theorem string_accepted_iff (minc maxc : Nat) (utf8 : Bool) (s : String) (prev : Option (PVal F)) :
    validate (F := F) (.string minc maxc utf8) (.str s) prev = .ok (.str s) ↔
      InSet (F := F) (.string minc maxc utf8) (.str s) := by
  constructor
  · intro h
    simp only [validate, conv] at h
    obtain ⟨t, ht, hr⟩ := map_ok h
    cases hr
    exact (stringCall_sound ht).1
  · intro hin
    simp only [validate, conv, stringCall_idem (F := F) hin]; rfl

/-- the same through the wire (`import_value` then `validate`) -/
theorem string_wire_length_in_chars (minc maxc : Nat) (utf8 : Bool) (j : JVal F) (prev : Option (PVal F)) (r : PVal F)
    (h : acceptWire (.string minc maxc utf8) j prev = .ok r) :
    ∃ s, j = .str s ∧ r = .str s ∧ minc ≤ s.length ∧ s.length ≤ maxc := by
  unfold acceptWire at h
  split at h
  · cases h
  · rename_i v hv
    obtain ⟨s, hvs, hr, h1, h2⟩ := string_length_in_chars minc maxc utf8 v prev r h
    have hd := importValue_denotes (.string minc maxc utf8) j v hv
    subst hvs
    cases j <;> simp only [WireDenotes] at hd
    case str t => subst hd; exact ⟨_, rfl, hr, h1, h2⟩

/-! ## the value accepted is the value offered -/

/-- a value accepted by `validate` denotes the Python value that was offered: numbers numerically
equal (or clamped to a limit from inside the documented tolerance), no string taken as a number or as
a list of characters, sequences element-wise of equal length, structs key-wise with `previous` -/
theorem validate_denotes (dt : DType F) (hwf : dt.WF) (v : PVal F) (prev : Option (PVal F))
    (hprev : ∀ p, prev = some p → Shaped dt p) (r : PVal F) (h : validate dt v prev = .ok r) :
    Denotes dt prev v r :=
  conv_denotes dt v prev r hwf hprev h

/-- `import_value` produces the Python value the JSON value stands for: numbers for numbers (a scaled
value travels as its integer grid index: no string taken as a number, no fraction truncated), strict
base64 for blobs, lists of equal length for arrays and tuples (no string taken as a list of characters),
objects key-wise for structs -/
theorem import_denotes (dt : DType F) (j : JVal F) (v : PVal F) (h : importValue dt j = .ok v) :
    WireDenotes dt j v := importValue_denotes dt j v h

/-- the wire path: the JSON value stands for a Python value `v`, and the accepted value denotes `v` -/
theorem accept_denotes (dt : DType F) (hwf : dt.WF) (j : JVal F) (prev : Option (PVal F))
    (hprev : ∀ p, prev = some p → Shaped dt p) (r : PVal F) (h : acceptWire dt j prev = .ok r) :
    ∃ v, WireDenotes dt j v ∧ Denotes dt prev v r := by
  unfold acceptWire at h
  split at h
  · cases h
  · rename_i v hv
    exact ⟨v, import_denotes dt j v hv, validate_denotes dt hwf v prev hprev r h⟩

/-! ## validating a validated value returns it unchanged -/

/-- a value of the declared value set in canonical form (`Canon`: no `-0.0` leaf — `validate` returns
`0.0` for `-0.0`, equal in Python's sense but not the same representation) is returned unchanged, without
and with itself as `previous`.  `GridExact dt`: for every scaled type in the tree the grid is exactly
representable on the declared range (`round((k*scale)/scale) = k`, finite); it holds for every scaled
type over `Rat` and for binary64 wherever `scale` is not below the float spacing at the limits. -/
theorem validate_idem (dt : DType F) (hwf : dt.WF) (hgrid : GridExact dt) (r : PVal F) (hin : InSet dt r)
    (hcanon : Canon r) : validate dt r none = .ok r ∧ validate dt r (some r) = .ok r :=
  conv_idem dt r hwf hgrid hin hcanon

/-- what `validate` returns is in canonical form, whatever `previous` is -/
theorem validate_canon (dt : DType F) (hwf : dt.WF) (v : PVal F) (prev : Option (PVal F)) (r : PVal F)
    (h : validate dt v prev = .ok r) : Canon r :=
  conv_canon dt v prev r hwf h

/-- "validating an already validated value returns it unchanged" -/
theorem revalidate_unchanged (dt : DType F) (hwf : dt.WF) (hgrid : GridExact dt) (v : PVal F)
    (prev : Option (PVal F)) (hprev : ∀ p, prev = some p → Shaped dt p) (r : PVal F)
    (h : validate dt v prev = .ok r) : validate dt r none = .ok r ∧ validate dt r (some r) = .ok r :=
  validate_idem dt hwf hgrid r (validate_sound dt hwf v prev hprev r h) (validate_canon dt hwf v prev r h)

/-- the same statement without the grid hypothesis is not a consequence of the float laws (and is false
for binary64 where `scale` is below the float spacing at the limits; the repaired `ScaledInteger.validate`
removed the failing inputs the search found, see design notes).  It quantifies over the whole declared
value set; what the property demands is the statement about *validated* values below. -/
def validate_idem_statement : Prop :=
  ∀ (F : Type) [FloatOps F] [LawfulFloatOps F] (dt : DType F), dt.WF → ∀ (r : PVal F), InSet dt r → Canon r →
    validate dt r none = .ok r ∧ validate dt r (some r) = .ok r

/-- "validating an already validated value returns it unchanged", with no hypothesis on the tree -/
def revalidate_unchanged_statement : Prop :=
  ∀ (F : Type) [FloatOps F] [LawfulFloatOps F] (dt : DType F), dt.WF → ∀ (v : PVal F) (prev : Option (PVal F)),
    (∀ p, prev = some p → Shaped dt p) → ∀ r, validate dt v prev = .ok r →
      validate dt r none = .ok r ∧ validate dt r (some r) = .ok r

/-- the proved part of `revalidate_unchanged_statement` (and, restricted to validated values, of
`validate_idem_statement`): the only thing missing is ONE property of the float carrier, `SnapIdem F` - a finite
value that came out of snapping to a grid (`y = round(x/scale)*scale`, `scale > 0` finite) snaps to itself.  No
hypothesis on the tree (`GridExact` needed every grid value between the limits to be exact and the limits'
grid values to be finite), none on the value set: the induction is over what `validate` did (the grid value
of the offer, or the grid value of a limit it was clamped to).  `SnapIdem` is proved for `Rat`
(`rat_snapIdem`); for binary64 it is not among the 27 laws - it is what the run tests on every accepted
value (clause `idem`), and could fail only where `scale` is below the float spacing (grid indices beyond 2^53). -/
theorem revalidate_unchanged_partial (hsnap : SnapIdem F) (dt : DType F) (hwf : dt.WF) (v : PVal F)
    (prev : Option (PVal F)) (hprev : ∀ p, prev = some p → Shaped dt p) (r : PVal F)
    (h : validate dt v prev = .ok r) : validate dt r none = .ok r ∧ validate dt r (some r) = .ok r :=
  conv_reval hsnap dt v prev r hwf hprev h

/-- the full statement over the exact carrier -/
theorem revalidate_unchanged_rat (dt : DType Rat) (hwf : dt.WF) (v : PVal Rat) (prev : Option (PVal Rat))
    (hprev : ∀ p, prev = some p → Shaped dt p) (r : PVal Rat) (h : validate dt v prev = .ok r) :
    validate dt r none = .ok r ∧ validate dt r (some r) = .ok r :=
  revalidate_unchanged_partial rat_snapIdem dt hwf v prev hprev r h

/-- the conversion-only path: converting a converted value returns it unchanged.  `GridAll dt`: for every
scaled type in the tree a finite value that came out of snapping snaps to itself (holds over `Rat`; for
binary64 it could fail for grid indices beyond 2^53 — `__call__` has no limits) -/
theorem call_idem (dt : DType F) (hwf : dt.WF) (hgrid : GridAll dt) (v r : PVal F) (h : call dt v = .ok r) :
    call dt r = .ok r := conv_call_idem dt v none r hwf hgrid h

/-- `call_idem` from the same single carrier property -/
theorem call_idem_of_snapIdem (hsnap : SnapIdem F) (dt : DType F) (hwf : dt.WF) (v r : PVal F)
    (h : call dt v = .ok r) : call dt r = .ok r :=
  call_idem dt hwf (gridAll_of_snapIdem hsnap dt hwf) v r h

theorem call_idem_rat (dt : DType Rat) (hwf : dt.WF) (v r : PVal Rat) (h : call dt v = .ok r) : call dt r = .ok r :=
  call_idem_of_snapIdem rat_snapIdem dt hwf v r h

/-! ## never any other kind of exception -/

/-- `validate` on any Python value: a value or a bad-value error -/
theorem validate_total (dt : DType F) (v : PVal F) (prev : Option (PVal F)) (c : String) :
    validate dt v prev ≠ .error (.other c) := conv_total .validate dt v prev c

/-- `__call__` on any Python value -/
theorem call_total (dt : DType F) (v : PVal F) (c : String) : call dt v ≠ .error (.other c) :=
  conv_total .call dt v none c

/-- `import_value` on any JSON value -/
theorem import_total (dt : DType F) (j : JVal F) (c : String) : importValue dt j ≠ .error (.other c) :=
  importValue_total dt j c

/-- what the dispatcher does with a `change` request -/
theorem accept_total (dt : DType F) (j : JVal F) (prev : Option (PVal F)) (c : String) :
    acceptWire dt j prev ≠ .error (.other c) := acceptWire_total dt j prev c

/-! ## the monitors decide the specification -/

/-- the value-set monitor never accepts a value outside the declared value set -/
theorem inSetB_sound (dt : DType F) (v : PVal F) (h : inSetB dt v = true) : InSet dt v := by
  have h' : InSetM dt v := of_decide_eq_true h
  exact inSetG_mono (fun _ _ => onGrid_of_near) dt v h'

/-- completeness of the value-set monitor wherever its decidable grid test finds the grid values
(`OnGridNear`: an index within one of `round(x/scale)` gives `x`) — e.g. on the exact carrier -/
theorem inSetB_complete (hgrid : ∀ s x : F, OnGrid s x → OnGridNear s x) (dt : DType F) (v : PVal F)
    (h : InSet dt v) : inSetB dt v = true := by
  have h' : InSetM dt v := inSetG_mono hgrid dt v h
  exact decide_eq_true h'

example (dt : DType Rat) (v : PVal Rat) : InSet dt v ↔ inSetB dt v = true :=
  ⟨inSetB_complete rat_onGridNear dt v, inSetB_sound dt v⟩

theorem inSetB_iff (dt : DType F) (v : PVal F) : inSetB dt v = true ↔ InSetM dt v := decide_eq_true_iff

theorem denotesB_iff (dt : DType F) (prev : Option (PVal F)) (o r : PVal F) :
    denotesB dt prev o r = true ↔ Denotes dt prev o r := decide_eq_true_iff

theorem wireDenotesB_iff (dt : DType F) (j : JVal F) (v : PVal F) :
    wireDenotesB dt j v = true ↔ WireDenotes dt j v := decide_eq_true_iff

/-! ## a `change` request: the glue around `import_value` and `validate`

`changeValue dt j held` is what the dispatcher and the write wrapper do with the data of a `change` request
for a parameter holding `held` (import, validate against `held`, validate once more). -/

/-- the value stored by a `change` request lies in the declared value set -/
theorem change_sound (dt : DType F) (hwf : dt.WF) (j : JVal F) (held r : PVal F)
    (h : changeValue dt j held = .ok r) : InSet dt r := by
  unfold changeValue at h
  split at h
  · cases h
  · exact validate_sound dt hwf _ none (fun p hp => by cases hp) r h

/-- a `change` request answers with a value or a bad-value error -/
theorem change_total (dt : DType F) (j : JVal F) (held : PVal F) (c : String) :
    changeValue dt j held ≠ .error (.other c) := by
  unfold changeValue
  split
  · rename_i e he
    intro hc
    injection hc with hc
    exact accept_total dt j (some held) c (by rw [he, hc])
  · exact validate_total dt _ none c

/-- the second validation (in the write wrapper) changes nothing: the value stored and reported is the value
`import_value` + `validate(previous = value held)` accepted - under the carrier property `SnapIdem` -/
theorem change_eq_accept (hsnap : SnapIdem F) (dt : DType F) (hwf : dt.WF) (j : JVal F) (held : PVal F)
    (hheld : Shaped dt held) : changeValue dt j held = acceptWire dt j (some held) := by
  unfold changeValue
  cases h : acceptWire dt j (some held) with
  | error e => rfl
  | ok r =>
    simp only
    unfold acceptWire at h
    split at h
    · cases h
    · exact (revalidate_unchanged_partial hsnap dt hwf _ (some held)
        (fun p hp => by injection hp with hp; rw [← hp]; exact hheld) r h).1

/-- the full clause for a `change` request -/
def change_ok_statement : Prop :=
  ∀ (F : Type) [FloatOps F] [LawfulFloatOps F] (dt : DType F), dt.WF → ∀ (j : JVal F) (held : PVal F), Shaped dt held →
    ∀ r, changeValue dt j held = .ok r → ChangeOK dt j (some held) (.ok r)

/-- proved under `SnapIdem F` (needed only for "denotes the value offered": without it the stored value is known
to denote the value accepted by the first validation, not the offer itself); `change_sound` and `change_total`
need no hypothesis -/
theorem change_ok_partial (hsnap : SnapIdem F) (dt : DType F) (hwf : dt.WF) (j : JVal F) (held : PVal F)
    (hheld : Shaped dt held) (r : PVal F) (h : changeValue dt j held = .ok r) : ChangeOK dt j (some held) (.ok r) := by
  refine ⟨change_sound dt hwf j held r h, ?_⟩
  rw [change_eq_accept hsnap dt hwf j held hheld] at h
  exact accept_denotes dt hwf j (some held) (fun p hp => by injection hp with hp; rw [← hp]; exact hheld) r h

/-- the hypothesis `Shaped dt held` of the `change` theorems is an invariant of the parameter: it survives every driver
update (accepted or refused) and every `change` request (accepted or refused) -/
theorem held_shaped_step (dt : DType F) (hwf : dt.WF) (held : PVal F) (h : Shaped dt held) (ev : ParamEvent F) :
    Shaped dt (holdStep dt held ev) := by
  cases ev with
  | update v =>
    simp only [holdStep]
    split
    · rename_i r hr; exact shaped_of_call dt v r hr
    · exact h
  | change j =>
    simp only [holdStep]
    split
    · rename_i r hr; exact shaped_of_inSet dt r (change_sound dt hwf j held r hr)
    · exact h

theorem held_shaped (dt : DType F) (hwf : dt.WF) (held : PVal F) (h : Shaped dt held) (evs : List (ParamEvent F)) :
    Shaped dt (holdRun dt held evs) := by
  unfold holdRun
  induction evs generalizing held with
  | nil => exact h
  | cons ev evs ih => exact ih (holdStep dt held ev) (held_shaped_step dt hwf held h ev)

/-- after ANY history of driver updates and change requests (starting from a shaped value, e.g. any value of the set
or anything `__call__` returned) a `change` request obeys the clause - under `SnapIdem` -/
theorem change_ok_always_partial (hsnap : SnapIdem F) (dt : DType F) (hwf : dt.WF) (held0 : PVal F)
    (h0 : Shaped dt held0) (evs : List (ParamEvent F)) (j : JVal F) (r : PVal F)
    (h : changeValue dt j (holdRun dt held0 evs) = .ok r) : ChangeOK dt j (some (holdRun dt held0 evs)) (.ok r) :=
  change_ok_partial hsnap dt hwf j _ (held_shaped dt hwf held0 h0 evs) r h

/-- a `do` request: the argument handed to the command function (`Command.do`, params.py:533-538: import, validate
without `previous`) lies in the declared value set of the argument type and denotes the value offered - no hypothesis -/
theorem command_argument_ok (dt : DType F) (hwf : dt.WF) (j : JVal F) (r : PVal F)
    (h : acceptWire dt j none = .ok r) : ChangeOK dt j none (.ok r) :=
  ⟨accept_sound dt hwf j none (fun p hp => by cases hp) r h, accept_denotes dt hwf j none (fun p hp => by cases hp) r h⟩

/-- the monitor of the request clause is sound: an empty verdict means the clause holds for that outcome -/
theorem judgeChange_sound (dt : DType F) (j : JVal F) (held : Option (PVal F)) (hint : Option (PVal F)) (out : Outcome F)
    (h : judgeChange dt j held hint out = []) : ChangeOK dt j held out := by
  cases out with
  | bad => trivial
  | other c => simp [judgeChange] at h
  | ok r =>
    simp only [judgeChange, List.append_eq_nil_iff] at h
    obtain ⟨h1, h2⟩ := h
    have hin : inSetB dt r = true := by
      by_cases hb : inSetB dt r = true
      · exact hb
      · simp [hb] at h1
    refine ⟨inSetB_sound dt r hin, ?_⟩
    cases hint with
    | none => simp at h2
    | some v =>
      simp only at h2
      by_cases hb : (wireDenotesB dt j v && denotesB dt held v r) = true
      · simp only [Bool.and_eq_true] at hb
        exact ⟨v, (wireDenotesB_iff dt j v).1 hb.1, (denotesB_iff dt held v r).1 hb.2⟩
      · simp [hb] at h2

/-! ## a value from a driver at the result position of a command (`Command.do`: `self.result(res)`)

The result is converted by `__call__`: type-checked, numeric limits not applied (by design: a device reports what it
reports).  What the statement still demands there: a value *of the type* (`OfType` = the declared value set, numeric
limits aside) or a bad-value error, never anything else - in particular the driver's `None` is not a result. -/

/-- the declared value set lies inside the type -/
theorem inSet_ofType (dt : DType F) (hwf : dt.WF) (v : PVal F) (h : InSet dt v) : OfType dt v :=
  inSetG_ofTypeG dt v hwf h

/-- whatever `__call__` returns is a value of the type: right kinds at every position, grid values for scaled leaves,
members of the enum, string / blob / array lengths within their limits, the arity of tuples, known member names and
all mandatory members of structs -/
theorem call_ofType_sound (dt : DType F) (hwf : dt.WF) (v r : PVal F) (h : call dt v = .ok r) : OfType dt r :=
  call_ofType dt v none r hwf h

/-- `None` is a value of no type -/
theorem none_of_no_type (dt : DType F) : ¬ OfType dt (.none : PVal F) := by
  cases dt <;> simp [OfType, OfTypeG]

/-- a command with a declared result type whose function returns `None` answers with a bad-value error -/
theorem command_none_refused (dt : DType F) : commandResult (some dt) (.none : PVal F) = .error .wrongType := by
  cases dt <;> simp [commandResult, call, conv, doubleCall, intCall, scaledCall, boolCall, enumCall, stringCall, blobCall,
    PVal.toFloat?, PVal.seqItems?, Except.map]

/-- … and it denotes the value offered: numbers numerically equal (no fraction truncated, no string taken as a number),
the nearest grid value for a scaled leaf, element-wise, key-wise -/
theorem call_denotes (dt : DType F) (hwf : dt.WF) (v r : PVal F) (h : call dt v = .ok r) : ConvDenotes dt v r :=
  call_convDenotes dt v none r hwf h

/-- the conversion-only path as a whole: `dt(v)` answers with a value of the type that denotes `v`, or with a bad-value
error - for every Python value `v` (a driver update, the result of a `read_*` method or of a command, a configured value) -/
theorem call_ok (dt : DType F) (hwf : dt.WF) (v : PVal F) :
    match call dt v with
    | .ok r => ConvOK dt v (.ok r)
    | .error .range => True
    | .error .wrongType => True
    | .error (.other _) => False := by
  cases h : call dt v with
  | ok r => exact ⟨call_ofType_sound dt hwf v r h, call_denotes dt hwf v r h⟩
  | error e =>
    cases e with
    | range => trivial
    | wrongType => trivial
    | other c => exact call_total dt v c h

/-- a parameter always holds a value of its type: the invariant survives every driver update (converted, or refused and
the old value kept) and every `change` request (accepted into the value set, or refused) -/
theorem held_ofType_step (dt : DType F) (hwf : dt.WF) (held : PVal F) (h : OfType dt held) (ev : ParamEvent F) :
    OfType dt (holdStep dt held ev) := by
  cases ev with
  | update v =>
    simp only [holdStep]
    split
    · rename_i r hr; exact call_ofType_sound dt hwf v r hr
    · exact h
  | change j =>
    simp only [holdStep]
    split
    · rename_i r hr; exact inSet_ofType dt hwf r (change_sound dt hwf j held r hr)
    · exact h

theorem held_ofType (dt : DType F) (hwf : dt.WF) (held : PVal F) (h : OfType dt held) (evs : List (ParamEvent F)) :
    OfType dt (holdRun dt held evs) := by
  unfold holdRun
  induction evs generalizing held with
  | nil => exact h
  | cons ev evs ih => exact ih (holdStep dt held ev) (held_ofType_step dt hwf held h ev)

/-- the result clause for whatever the command function returned -/
theorem command_result_ok (resT : Option (DType F)) (hwf : ∀ dt, resT = some dt → dt.WF) (v r : PVal F)
    (h : commandResult resT v = .ok r) : ResultOK resT v (.ok r) := by
  cases resT with
  | none =>
    simp only [commandResult] at h
    injection h with h
    subst h
    simp [ResultOK, PVal.isNone]
  | some dt => exact ⟨call_ofType_sound dt (hwf dt rfl) v r h, call_denotes dt (hwf dt rfl) v r h⟩

/-- … and never any other kind of exception -/
theorem command_result_total (resT : Option (DType F)) (v : PVal F) (c : String) :
    commandResult resT v ≠ .error (.other c) := by
  cases resT with
  | none => simp [commandResult]
  | some dt => exact call_total dt v c

/-- converting the converted result again returns it unchanged (from the single carrier property `SnapIdem`) -/
theorem command_result_idem_of_snapIdem (hsnap : SnapIdem F) (dt : DType F) (hwf : dt.WF) (v r : PVal F)
    (h : commandResult (some dt) v = .ok r) : commandResult (some dt) r = .ok r :=
  call_idem_of_snapIdem hsnap dt hwf v r h

/-- the whole of `Command.do`, for EVERY command function (the driver): the function is called at most once, with the
validated argument (or without one), and what is handed back to the dispatcher is what the function returned for that
call, converted: a value of the declared result type denoting it (or `None` when no result type is declared) … -/
theorem command_do_ok (argT resT : Option (DType F)) (hwf : ∀ dt, resT = some dt → dt.WF)
    (func : Option (PVal F) → PVal F) (data : Option (JVal F)) (r : PVal F)
    (h : commandDo argT resT func data = .ok r) :
    ∃ a, ResultOK resT (func a) (.ok r) ∧
      match argT with
      | some adt => ∃ j v, dataArg data = some j ∧ acceptWire adt j none = .ok v ∧ a = some v
      | none => dataArg data = none ∧ a = none := by
  cases argT with
  | none =>
    cases hd : dataArg data with
    | none =>
      simp only [commandDo, hd] at h
      exact ⟨none, command_result_ok resT hwf _ r h, rfl, rfl⟩
    | some j => simp [commandDo, hd] at h
  | some adt =>
    cases hd : dataArg data with
    | none => simp [commandDo, hd] at h
    | some j =>
      simp only [commandDo, hd] at h
      split at h
      · cases h
      · rename_i v hv
        exact ⟨some v, command_result_ok resT hwf _ r h, j, v, rfl, hv, rfl⟩

/-- … or a bad-value error, never anything else -/
theorem command_do_total (argT resT : Option (DType F)) (func : Option (PVal F) → PVal F) (data : Option (JVal F))
    (c : String) : commandDo argT resT func data ≠ .error (.other c) := by
  unfold commandDo
  split
  · simp
  · rename_i adt j _
    split
    · rename_i e he
      intro hc
      injection hc with hc
      exact accept_total adt j none c (by rw [he, hc])
    · exact command_result_total resT _ c
  · simp
  · exact command_result_total resT _ c

/-- the type monitor never accepts a value that is not of the type -/
theorem ofTypeB_sound (dt : DType F) (v : PVal F) (h : ofTypeB dt v = true) : OfType dt v := by
  have h' : OfTypeM dt v := of_decide_eq_true h
  exact ofTypeG_mono (fun _ _ => onGrid_of_near) dt v h'

theorem convDenotesB_iff (dt : DType F) (o r : PVal F) : convDenotesB dt o r = true ↔ ConvDenotes dt o r :=
  decide_eq_true_iff

/-- the monitor of the result clause is sound: an empty verdict means the clause holds for that outcome -/
theorem judgeResult_sound (resT : Option (DType F)) (ret : PVal F) (out : Outcome F) (again : Option (Outcome F))
    (h : judgeResult resT ret out again = []) : ResultOK resT ret out := by
  cases out with
  | bad => trivial
  | other c => simp [judgeResult] at h
  | ok r =>
    simp only [judgeResult, List.append_eq_nil_iff] at h
    obtain ⟨h1, _⟩ := h
    cases resT with
    | none =>
      simp only [ResultOK]
      by_cases hb : PVal.isNone r = true
      · exact hb
      · simp [hb] at h1
    | some dt =>
      simp only [ResultOK]
      simp only [List.append_eq_nil_iff] at h1
      obtain ⟨h1, h2⟩ := h1
      refine ⟨?_, ?_⟩
      · by_cases hb : ofTypeB dt r = true
        · exact ofTypeB_sound dt r hb
        · simp [hb] at h1
      · by_cases hb : convDenotesB dt ret r = true
        · exact (convDenotesB_iff dt ret r).1 hb
        · simp [hb] at h2

/-- the monitor of the conversion path is sound -/
theorem judgeConv_sound (dt : DType F) (o : PVal F) (out : Outcome F) (recall : Option (Outcome F))
    (h : judgeConv dt o out recall = []) : ConvOK dt o out := by
  cases out with
  | bad => trivial
  | other c => simp [judgeConv] at h
  | ok r =>
    simp only [judgeConv, List.append_eq_nil_iff] at h
    obtain ⟨⟨h1, h2⟩, _⟩ := h
    refine ⟨?_, ?_⟩
    · by_cases hb : ofTypeB dt r = true
      · exact ofTypeB_sound dt r hb
      · simp [hb] at h1
    · by_cases hb : convDenotesB dt o r = true
      · exact of_decide_eq_true hb
      · simp [hb] at h2

/-! ## the refusal path: the helper that builds the text of every bad-value error of the scalar types

`shortrepr` runs on every refused candidate before the error exists; `repr` is an external call that may raise. -/

/-- `shortrepr` answers a text for every candidate, whatever `repr` does with it -/
theorem shortrepr_total {α : Type} (repr : α → Except String String) (typeName : α → String) (v : α) :
    ∃ s, shortrepr repr typeName v = .ok s := by
  unfold shortrepr
  split <;> exact ⟨_, rfl⟩

/-- … so what leaves a refusing method is the bad-value error it meant to raise - for every candidate, of every kind and
size (a JSON object of a thousand members, an int of 5000 digits, a value nested 3000 levels deep) -/
theorem raiseBad_is_bad {α : Type} (repr : α → Except String String) (typeName : α → String) (cls : Err) (v : α) :
    raiseBad repr typeName cls v = cls := by
  unfold raiseBad
  obtain ⟨s, hs⟩ := shortrepr_total repr typeName v
  rw [hs]

/-- where `repr` answers, the text is `repr` itself up to 40 characters, else its first 40 characters and `...` -/
theorem shortrepr_short {α : Type} (repr : α → Except String String) (typeName : α → String) (v : α) (r : String)
    (h : repr v = .ok r) : shortrepr repr typeName v = .ok (cut40 r) ∧ (r.length ≤ 40 → cut40 r = r) ∧
      (40 < r.length → cut40 r = String.ofList (r.toList.take 40) ++ "...") := by
  unfold shortrepr
  rw [h]
  refine ⟨rfl, ?_, ?_⟩
  · intro hl; unfold cut40; rw [if_neg (by omega)]
  · intro hl; unfold cut40; rw [if_pos (by omega)]

/-! ## non-vacuity: the exact carrier `Rat` is lawful, and a nested tree over it -/

/-- a struct of an array of scaled values, a double with a relative tolerance and an enum; member `b` optional -/
def exTree : DType Rat :=
  .struct [("a", .array (.scaled (1/10) 0 10 (1/10) 0) 0 3), ("b", .double (-5) 5 0 (1/100)),
    ("c", .enum [("on", 1), ("off", 0)])] ["b"] false

def exWire : JVal Rat := .obj [("a", .arr [.int 3, .num 7]), ("c", .str "on")]
def exPrev : PVal Rat := .dict [("a", .tuple []), ("b", .float 2), ("c", .enum "off" 0)]
def exResult : PVal Rat :=
  .dict [("b", .float 2), ("a", .tuple [.float (3/10), .float (7/10)]), ("c", .enum "on" 1)]

theorem exTree_wf : exTree.WF := by
  simp only [exTree, DType.WF, DType.WFFields]
  decide +kernel

theorem exPrev_inSet : InSet exTree exPrev := inSetB_sound _ _ (by decide +kernel)

/-- the hypotheses of `accept_sound`, `accept_denotes`, `accept_total` are met by a concrete
request on a nested tree with a previous value; the model accepts it, merges member `b` from the
previous value, and the result is the expected one -/
example : ∃ r, acceptWire exTree exWire (some exPrev) = .ok r ∧ InSet exTree r ∧
    (∃ v, WireDenotes exTree exWire v ∧ Denotes exTree (some exPrev) v r) ∧
    PVal.same r exResult = true := by
  have hb : (match acceptWire exTree exWire (some exPrev) with
      | .ok r => PVal.same r exResult
      | _ => false) = true := by decide +kernel
  have hp : ∀ p, some exPrev = some p → Shaped exTree p := fun p hp => by
    injection hp with hp; rw [← hp]; exact shaped_of_inSet _ _ exPrev_inSet
  cases h : acceptWire exTree exWire (some exPrev) with
  | error e => rw [h] at hb; cases hb
  | ok r =>
    rw [h] at hb
    exact ⟨r, rfl, accept_sound exTree exTree_wf _ _ hp r h, accept_denotes exTree exTree_wf _ _ hp r h, hb⟩

/-- the parameter holds a value outside the limits (member `b = 50`, as a driver may report it — accepted
by `__call__`, so the hypothesis `Shaped` holds): a request that leaves `b` out is refused, because the
member taken over must be valid; a request that replaces `b` is accepted -/
def exHeld : PVal Rat := .dict [("a", .tuple []), ("b", .float 50), ("c", .enum "off" 0)]

example : call exTree exHeld = .ok exHeld → Shaped exTree exHeld := shaped_of_call exTree exHeld exHeld

example : (match call exTree exHeld, acceptWire exTree exWire (some exHeld),
      acceptWire exTree (.obj [("a", .arr []), ("b", .int 1), ("c", .int 0)]) (some exHeld) with
    | .ok h, .error .range, .ok _ => PVal.same h exHeld
    | _, _, _ => false) = true := by
  decide +kernel

/-- `GridAll` (hypothesis of `call_idem`) holds for the example tree over `Rat` -/
theorem exTree_gridAll : GridAll exTree := by
  simp only [exTree, GridAll, GridAllFields, and_true]
  exact rat_gridAllScaled _ (by decide +kernel)

example : ∀ v r, call exTree v = .ok r → call exTree r = .ok r :=
  fun v r h => call_idem exTree exTree_wf exTree_gridAll v r h

/-- `revalidate_unchanged_partial` / `revalidate_unchanged_rat` on the example: whatever the model accepts for the
nested tree (here the request of the first example, with the previous value) is returned unchanged -/
example : ∃ r, acceptWire exTree exWire (some exPrev) = .ok r ∧
    validate exTree r none = .ok r ∧ validate exTree r (some r) = .ok r := by
  have hp : ∀ p, some exPrev = some p → Shaped exTree p := fun p hp => by
    injection hp with hp; rw [← hp]; exact shaped_of_inSet _ _ exPrev_inSet
  cases h : acceptWire exTree exWire (some exPrev) with
  | error e =>
    have hb : (match acceptWire exTree exWire (some exPrev) with
      | .ok _ => true
      | _ => false) = true := by decide +kernel
    rw [h] at hb; cases hb
  | ok r =>
    refine ⟨r, rfl, ?_⟩
    unfold acceptWire at h
    split at h
    · cases h
    · exact revalidate_unchanged_rat exTree exTree_wf _ _ hp r h

/-- a clamped value: `0.3 - 0.04` offered to `ScaledInteger(0.1, 0.3, 10)`-like limits is outside by less than one
step, returned as the limit's grid value, and that is returned unchanged -/
example : (match validate (F := Rat) (.scaled (1/10) (3/10) 10 (1/10) 0) (.float (26/100)) none with
    | .ok r => PVal.same r (.float (3/10))
    | _ => false) = true := by
  decide +kernel

/-- limits OFF the grid (`ScaledInteger(0.1, 0, 0.34)`: declared interval `[0, 0.3]`, the grid values of the limits): the
clamping band is measured from the interval's ends - 0.39 (outside by less than one step) is clamped to 0.3, 0.4 (a whole
step outside) is refused although `0.4 < 0.34 + 0.1`; the specification says the same (`DenotesScaled`) -/
example : (match validate (F := Rat) (.scaled (1/10) 0 (34/100) (1/10) 0) (.float (39/100)) none with
    | .ok r => PVal.same r (.float (3/10))
    | _ => false) = true ∧
    (match validate (F := Rat) (.scaled (1/10) 0 (34/100) (1/10) 0) (.float (4/10)) none with
    | .error .range => true
    | _ => false) = true ∧
    DenotesScaled (1/10 : Rat) 0 (34/100) (.float (39/100)) (3/10) ∧
    ¬ DenotesScaled (1/10 : Rat) 0 (34/100) (.float (4/10)) (3/10) ∧
    ¬ DenotesScaled (1/10 : Rat) 0 (34/100) (.float (4/10)) (4/10) := by
  refine ⟨?_, ?_, ?_, ?_, ?_⟩ <;> decide +kernel

example : ∀ v prev r, (∀ p, prev = some p → Shaped (.scaled (1/10 : Rat) (3/10) 10 (1/10) 0) p) →
    validate (F := Rat) (.scaled (1/10) (3/10) 10 (1/10) 0) v prev = .ok r →
    validate (F := Rat) (.scaled (1/10) (3/10) 10 (1/10) 0) r none = .ok r ∧
    validate (F := Rat) (.scaled (1/10) (3/10) 10 (1/10) 0) r (some r) = .ok r :=
  fun v prev r hp h => revalidate_unchanged_rat _ (by simp only [DType.WF]; decide +kernel) v prev hp r h

/-- a `change` request on the example (hypotheses of `change_sound`, `change_ok_partial`, `change_eq_accept` met):
the node stores the merged struct; the monitor accepts that outcome with the imported value as witness, and flags
a stored value outside the limits (`b = 50`) -/
example : ∃ r, changeValue exTree exWire exPrev = .ok r ∧ ChangeOK exTree exWire (some exPrev) (.ok r) ∧
    PVal.same r exResult = true := by
  have hb : (match changeValue exTree exWire exPrev with
      | .ok r => PVal.same r exResult
      | _ => false) = true := by decide +kernel
  cases h : changeValue exTree exWire exPrev with
  | error e => rw [h] at hb; cases hb
  | ok r =>
    rw [h] at hb
    exact ⟨r, rfl, change_ok_partial rat_snapIdem exTree exTree_wf exWire exPrev (shaped_of_inSet _ _ exPrev_inSet) r h, hb⟩

example : (match importValue exTree exWire with
    | .ok v => (judgeChange exTree exWire (some exPrev) (some v) (.ok exResult)).isEmpty &&
        (judgeChange exTree exWire (some exPrev) (some v) (.ok exHeld)).contains "inset:change" &&
        (judgeChange exTree exWire (some exPrev) none (.ok exResult)).contains "denotes:change"
    | _ => false) = true := by
  decide +kernel

/-- a history on the example: a driver reports `b = 50` (outside the limits, accepted by `__call__`), a client changes
`b`, then offers `exWire`: the invariant and the clause hold at the end -/
example : ∃ r, changeValue exTree exWire
      (holdRun exTree exPrev [.update exHeld, .change (.obj [("a", .arr []), ("b", .int 1), ("c", .int 0)])]) = .ok r ∧
    ChangeOK exTree exWire
      (some (holdRun exTree exPrev [.update exHeld, .change (.obj [("a", .arr []), ("b", .int 1), ("c", .int 0)])])) (.ok r) := by
  cases h : changeValue exTree exWire
      (holdRun exTree exPrev [.update exHeld, .change (.obj [("a", .arr []), ("b", .int 1), ("c", .int 0)])]) with
  | error e =>
    have hb : (match changeValue exTree exWire
        (holdRun exTree exPrev [.update exHeld, .change (.obj [("a", .arr []), ("b", .int 1), ("c", .int 0)])]) with
      | .ok _ => true
      | _ => false) = true := by decide +kernel
    rw [h] at hb; cases hb
  | ok r =>
    exact ⟨r, rfl, change_ok_always_partial rat_snapIdem exTree exTree_wf exPrev (shaped_of_inSet _ _ exPrev_inSet) _ _ r h⟩

/-- `command_argument_ok` on the example: the complete struct offered as the argument of a command -/
example : ∃ r, acceptWire exTree (.obj [("a", .arr [.int 3]), ("b", .int 1), ("c", .str "off")]) none = .ok r ∧
    ChangeOK exTree (.obj [("a", .arr [.int 3]), ("b", .int 1), ("c", .str "off")]) none (.ok r) := by
  cases h : acceptWire exTree (.obj [("a", .arr [.int 3]), ("b", .int 1), ("c", .str "off")]) none with
  | error e =>
    have hb : (match acceptWire exTree (.obj [("a", .arr [.int 3]), ("b", .int 1), ("c", .str "off")]) none with
      | .ok _ => true
      | _ => false) = true := by decide +kernel
    rw [h] at hb; cases hb
  | ok r => exact ⟨r, rfl, command_argument_ok exTree exTree_wf _ r h⟩

/-- a rejected request: a JSON string offered to the scaled elements is a bad-value error, not a number -/
example : (match acceptWire exTree (.obj [("a", .arr [.str "5"]), ("c", .int 1)]) none with
    | .error .wrongType => true
    | _ => false) = true := by
  decide +kernel

/-- the hypotheses of `validate_idem` are satisfiable: the example tree has an exact grid over `Rat`,
and the accepted value of the example above is returned unchanged -/
theorem exTree_gridExact : GridExact exTree := by
  simp only [exTree, GridExact, GridExactFields, and_true]
  exact rat_gridExact_example

example : validate exTree exResult none = .ok exResult ∧ validate exTree exResult (some exResult) = .ok exResult :=
  validate_idem exTree exTree_wf exTree_gridExact exResult (inSetB_sound _ _ (by decide +kernel))
    (by simp only [exResult, Canon, CanonFields, CanonList]; decide +kernel)

/-- lengths in character points: two characters that need four bytes in UTF-8 are too short for a string type
with `minchars = 3, maxchars = 4`; four characters (eight bytes) are accepted and returned -/
example : "äö".length = 2 ∧ "äö".utf8ByteSize = 4 ∧ "äöüß".length = 4 ∧ "äöüß".utf8ByteSize = 8 ∧
    (match validate (F := Rat) (.string 3 4 true) (.str "äö") none with
      | .error .range => true
      | _ => false) = true := by
  decide +kernel

theorem exString_inSet : InSet (F := Rat) (.string 3 4 true) (.str "äöüß") := inSetB_sound _ _ (by decide +kernel)

example : validate (F := Rat) (.string 3 4 true) (.str "äöüß") none = .ok (.str "äöüß") :=
  (string_accepted_iff 3 4 true "äöüß" none).2 exString_inSet

example : ∃ s, (PVal.str "äöüß" : PVal Rat) = .str s ∧ (PVal.str "äöüß" : PVal Rat) = .str s ∧ 3 ≤ s.length ∧ s.length ≤ 4 :=
  string_length_in_chars (F := Rat) 3 4 true _ none _ ((string_accepted_iff 3 4 true "äöüß" none).2 exString_inSet)

example : (match acceptWire (F := Rat) (.string 3 4 true) (.str "äöüß") none, acceptWire (F := Rat) (.string 3 4 true) (.str "€") none with
    | .ok _, .error .range => true
    | _, _ => false) = true := by
  decide +kernel

/-! ### non-vacuity: command results, the error-text helper -/

/-- a command with result type `exTree` whose function reports `b = 50` (outside the limits): `Command.do` hands it back
(the conversion-only path does not apply numeric limits) - a value of the type (`command_do_ok`), not of the value set -/
example : ∃ r, commandDo none (some exTree) (fun _ => exHeld) none = .ok r ∧ ResultOK (some exTree) exHeld (.ok r) ∧
    inSetB exTree r = false := by
  have hb : (match commandDo none (some exTree) (fun _ => exHeld) none with
      | .ok r => !inSetB exTree r
      | _ => false) = true := by decide +kernel
  cases h : commandDo none (some exTree) (fun _ => exHeld) none with
  | error e => rw [h] at hb; cases hb
  | ok r =>
    rw [h] at hb
    obtain ⟨a, ha, _⟩ := command_do_ok none (some exTree) (fun dt hdt => by injection hdt with hdt; rw [← hdt]; exact exTree_wf) _ _ r h
    exact ⟨r, rfl, ha, by simpa using hb⟩

/-- a communicate-like command (string argument, string result) whose function has no answer: a bad-value error, for
the argument-less form too; with an answer the answer is handed back; without a declared result type `None` is -/
example : (match commandDo (F := Rat) (some (.string 0 10 true)) (some (.string 0 10 true)) (fun _ => .none) (some (.str "xyz")),
      commandDo (F := Rat) none (some (.int 0 5)) (fun _ => .none) none,
      commandDo (F := Rat) (some (.string 0 10 true)) (some (.string 0 10 true)) (fun _ => .str "device") (some (.str "*IDN?")),
      commandDo (F := Rat) none none (fun _ => .int 7) (some .null),
      commandDo (F := Rat) none none (fun _ => .int 7) (some (.int 1)) with
    | .error .wrongType, .error .wrongType, .ok (.str "device"), .ok .none, .error .wrongType => true
    | _, _, _, _, _ => false) = true := by
  decide +kernel

example : commandResult (some exTree) (.none : PVal Rat) = .error .wrongType := command_none_refused exTree

example : ¬ OfType exTree (.none : PVal Rat) := none_of_no_type exTree

example : OfType exTree exPrev := inSet_ofType exTree exTree_wf exPrev exPrev_inSet

/-- the result monitor accepts the converted value and flags `None`, a value of another kind and a leaked exception -/
example : ((judgeResult (some exTree) exHeld (.ok exHeld) (some (.ok exHeld))).isEmpty &&
    (judgeResult (some exTree) .none (.ok .none) none).contains "oftype:result" &&
    (judgeResult (F := Rat) (some (.string 0 10 true)) (.int 5) (.ok (.int 5)) (some .bad)).contains "oftype:result" &&
    (judgeResult (F := Rat) (some (.string 0 10 true)) .none (.ok (.str "None")) (some (.ok (.str "None")))).contains "denotes:result" &&
    (judgeResult (F := Rat) (some (.int 0 5)) (.float (7/2)) (.ok (.int 3)) (some (.ok (.int 3)))).contains "denotes:result" &&
    (judgeResult (F := Rat) (some (.string 0 10 true)) .none (.other "TypeError") none).contains "total:result" &&
    (judgeResult (F := Rat) none (.int 7) (.ok .none) none).isEmpty) = true := by
  decide +kernel

/-- the conversion path on the example: a driver update with `b = 50` is converted (`call_ok`), the monitor accepts the
outcome and flags a truncated fraction and a value of another kind -/
example : ∃ r, call exTree exHeld = .ok r ∧ ConvOK exTree exHeld (.ok r) := by
  cases hc : call exTree exHeld with
  | error e =>
    have hb : (match call exTree exHeld with
      | .ok _ => true
      | _ => false) = true := by decide +kernel
    rw [hc] at hb; cases hb
  | ok r =>
    have := call_ok exTree exTree_wf exHeld
    rw [hc] at this
    exact ⟨r, rfl, this⟩

example : ((judgeConv exTree exHeld (.ok exHeld) (some (.ok exHeld))).isEmpty &&
    (judgeConv (F := Rat) (.int 0 5) (.float (7/2)) (.ok (.int 3)) (some (.ok (.int 3)))).contains "denotes:call" &&
    (judgeConv (F := Rat) (.int 0 5) (.str "3") (.ok (.int 3)) (some (.ok (.int 3)))).contains "denotes:call" &&
    (judgeConv (F := Rat) (.int 0 5) (.int 3) (.ok (.str "3")) (some (.ok (.str "3")))).contains "oftype:call") = true := by
  decide +kernel

/-- `held_ofType` on the example: after a driver update outside the limits and two change requests the parameter holds
a value of its type -/
example : OfType exTree
    (holdRun exTree exPrev [.update exHeld, .change (.obj [("a", .arr []), ("b", .int 1), ("c", .int 0)]), .change exWire,
      .update .none]) :=
  held_ofType exTree exTree_wf exPrev (inSet_ofType exTree exTree_wf exPrev exPrev_inSet) _

/-- the helper on a `repr` that fails for big values (as `repr(int)` beyond 4300 digits): a text in every case, a cut
one for long texts; and the error that leaves the method is the one meant -/
def exRepr (n : Nat) : Except String String :=
  if n > 4300 then .error "ValueError" else .ok (String.ofList (List.replicate n 'x'))

example : (match shortrepr exRepr (fun _ => "int") 5000, shortrepr exRepr (fun _ => "int") 41, shortrepr exRepr (fun _ => "int") 3 with
    | .ok a, .ok b, .ok c => a == "<int object>" && b.length == 43 && c == "xxx"
    | _, _, _ => false) = true := by
  decide +kernel

example : raiseBad exRepr (fun _ => "int") .wrongType 5000 = .wrongType := raiseBad_is_bad _ _ _ _

example : ∃ s, shortrepr exRepr (fun _ => "int") 5000 = .ok s := shortrepr_total _ _ _

example : shortrepr exRepr (fun _ => "int") 3 = .ok (cut40 "xxx") :=
  (shortrepr_short exRepr (fun _ => "int") 3 "xxx" (by simp [exRepr])).1

/-! ## constants of the source -/

/-- the limit built into `DType.WF` for integer limits is the one of the source (`UNLIMITED`) -/
theorem intLimit_is_unlimited : DType.intLimit = Generated.C01.unlimited ∧
    Generated.C01.intPropMin = -Generated.C01.unlimited ∧ Generated.C01.intPropMax = Generated.C01.unlimited := by
  decide

end Frappy.Props.C01
