import FrappyModel.Datatypes.Import
import FrappyModel.Spec.C01
import FrappyModel.Generated.C01
/-
C01 — property theorems (nothing but property theorems and their non-vacuity examples).
-/
namespace Frappy.Props.C01
open Frappy.Spec.C01 Frappy.Datatypes

/-- the limit built into `DType.WF` for integer limits is the one of the source (`UNLIMITED`) -/
theorem intLimit_is_unlimited : DType.intLimit = Generated.C01.unlimited ∧
    Generated.C01.intPropMin = -Generated.C01.unlimited ∧ Generated.C01.intPropMax = Generated.C01.unlimited := by
  decide

end Frappy.Props.C01
