import FrappyProofs.Lemmas.DatatypesSound
import FrappyProofs.Lemmas.DatatypesTotal
import FrappyProofs.Lemmas.DatatypesMonitor
import FrappyModel.Generated.C01
/-
C01 — property theorems (nothing but property theorems and their non-vacuity examples).

For every float carrier `F` satisfying `LawfulFloatOps`, every datatype tree `dt` with `dt.WF`
(what the constructors enforce), every JSON value `j` / Python value `v` offered, every previous
value `prev` that is absent or in the value set.
-/
set_option linter.unusedSectionVars false
namespace Frappy.Props.C01
open Frappy.Spec.C01 Frappy.Datatypes Frappy.Lemmas.C01

variable {F : Type} [FloatOps F] [LawfulFloatOps F]

/-! ## never an out-of-set value -/

/-- a value accepted by `validate` (from a driver) lies in the declared value set -/
theorem validate_sound (dt : DType F) (hwf : dt.WF) (v : PVal F) (prev : Option (PVal F))
    (hprev : ∀ p, prev = some p → InSet dt p) (r : PVal F) (h : validate dt v prev = .ok r) : InSet dt r :=
  conv_sound dt v prev r hwf hprev h

/-- a value accepted from the wire (`import_value` then `validate`) lies in the declared value set -/
theorem accept_sound (dt : DType F) (hwf : dt.WF) (j : JVal F) (prev : Option (PVal F))
    (hprev : ∀ p, prev = some p → InSet dt p) (r : PVal F) (h : acceptWire dt j prev = .ok r) : InSet dt r := by
  unfold acceptWire at h
  split at h
  · cases h
  · exact validate_sound dt hwf _ prev hprev r h

/-! ## never any other kind of exception -/

/-- `validate` on any Python value: a value or a bad-value error -/
theorem validate_total (dt : DType F) (v : PVal F) (prev : Option (PVal F)) (c : String) :
    validate dt v prev ≠ .error (.other c) := conv_total .validate dt v prev c

/-- `__call__` on any Python value -/
theorem call_total (dt : DType F) (v : PVal F) (c : String) : call dt v ≠ .error (.other c) :=
  conv_total .call dt v none c

/-- `import_value` on any JSON value -/
theorem import_total (dt : DType F) (j : JVal F) (c : String) : importValue dt j ≠ .error (.other c) :=
  importValue_total dt j c

/-- what the dispatcher does with a `change` request -/
theorem accept_total (dt : DType F) (j : JVal F) (prev : Option (PVal F)) (c : String) :
    acceptWire dt j prev ≠ .error (.other c) := acceptWire_total dt j prev c

/-! ## the monitors decide the specification -/

/-- the value-set monitor never accepts a value outside the declared value set -/
theorem inSetB_sound (dt : DType F) (v : PVal F) (h : inSetB dt v = true) : InSet dt v := by
  have h' : InSetM dt v := of_decide_eq_true h
  exact inSetG_mono (fun _ _ => onGrid_of_near) dt v h'

theorem inSetB_iff (dt : DType F) (v : PVal F) : inSetB dt v = true ↔ InSetM dt v := decide_eq_true_iff

theorem denotesB_iff (dt : DType F) (prev : Option (PVal F)) (o r : PVal F) :
    denotesB dt prev o r = true ↔ Denotes dt prev o r := decide_eq_true_iff

theorem wireDenotesB_iff (dt : DType F) (j : JVal F) (v : PVal F) :
    wireDenotesB dt j v = true ↔ WireDenotes dt j v := decide_eq_true_iff

/-! ## constants of the source -/

/-- the limit built into `DType.WF` for integer limits is the one of the source (`UNLIMITED`) -/
theorem intLimit_is_unlimited : DType.intLimit = Generated.C01.unlimited ∧
    Generated.C01.intPropMin = -Generated.C01.unlimited ∧ Generated.C01.intPropMax = Generated.C01.unlimited := by
  decide

end Frappy.Props.C01
