import FrappyProofs.Lemmas.DatatypesSound
import FrappyProofs.Lemmas.DatatypesTotal
import FrappyProofs.Lemmas.DatatypesMonitor
import FrappyProofs.Lemmas.DatatypesDenotesM
import FrappyProofs.Lemmas.DatatypesImport
import FrappyProofs.Lemmas.RatLawful
import FrappyProofs.Lemmas.DatatypesCanon
import FrappyProofs.Lemmas.RatGrid
import FrappyModel.Generated.C01
/-
C01 — property theorems (nothing but property theorems and their non-vacuity examples).

For every float carrier `F` satisfying `LawfulFloatOps`, every datatype tree `dt` with `dt.WF`
(what the constructors enforce), every JSON value `j` / Python value `v` offered, every previous
value `prev` that is absent or in the value set.
-/
set_option linter.unusedSectionVars false
namespace Frappy.Props.C01
open Frappy.Spec.C01 Frappy.Datatypes Frappy.Lemmas.C01

variable {F : Type} [FloatOps F] [LawfulFloatOps F]

/-! ## never an out-of-set value -/

/-- a value accepted by `validate` (from a driver) lies in the declared value set -/
theorem validate_sound (dt : DType F) (hwf : dt.WF) (v : PVal F) (prev : Option (PVal F))
    (hprev : ∀ p, prev = some p → InSet dt p) (r : PVal F) (h : validate dt v prev = .ok r) : InSet dt r :=
  conv_sound dt v prev r hwf hprev h

/-- a value accepted from the wire (`import_value` then `validate`) lies in the declared value set -/
theorem accept_sound (dt : DType F) (hwf : dt.WF) (j : JVal F) (prev : Option (PVal F))
    (hprev : ∀ p, prev = some p → InSet dt p) (r : PVal F) (h : acceptWire dt j prev = .ok r) : InSet dt r := by
  unfold acceptWire at h
  split at h
  · cases h
  · exact validate_sound dt hwf _ prev hprev r h

/-! ## the value accepted is the value offered -/

/-- a value accepted by `validate` denotes the Python value that was offered: numbers numerically
equal (or clamped to a limit from inside the documented tolerance), no string taken as a number or as
a list of characters, sequences element-wise of equal length, structs key-wise with `previous` -/
theorem validate_denotes (dt : DType F) (hwf : dt.WF) (v : PVal F) (prev : Option (PVal F))
    (hprev : ∀ p, prev = some p → InSet dt p) (r : PVal F) (h : validate dt v prev = .ok r) :
    Denotes dt prev v r :=
  conv_denotes dt v prev r hwf hprev h

/-- `import_value` produces the Python value the JSON value stands for: numbers for numbers (a scaled
value travels as its integer grid index: no string taken as a number, no fraction truncated), strict
base64 for blobs, lists of equal length for arrays and tuples (no string taken as a list of characters),
objects key-wise for structs -/
theorem import_denotes (dt : DType F) (j : JVal F) (v : PVal F) (h : importValue dt j = .ok v) :
    WireDenotes dt j v := importValue_denotes dt j v h

/-- the wire path: the JSON value stands for a Python value `v`, and the accepted value denotes `v` -/
theorem accept_denotes (dt : DType F) (hwf : dt.WF) (j : JVal F) (prev : Option (PVal F))
    (hprev : ∀ p, prev = some p → InSet dt p) (r : PVal F) (h : acceptWire dt j prev = .ok r) :
    ∃ v, WireDenotes dt j v ∧ Denotes dt prev v r := by
  unfold acceptWire at h
  split at h
  · cases h
  · rename_i v hv
    exact ⟨v, import_denotes dt j v hv, validate_denotes dt hwf v prev hprev r h⟩

/-! ## validating a validated value returns it unchanged -/

/-- a value of the declared value set in canonical form (`Canon`: no `-0.0` leaf — `validate` returns
`0.0` for `-0.0`, equal in Python's sense but not the same representation) is returned unchanged, without
and with itself as `previous`.  `GridExact dt`: for every scaled type in the tree the grid is exactly
representable on the declared range (`round((k*scale)/scale) = k`, finite); it holds for every scaled
type over `Rat` and for binary64 wherever `scale` is not below the float spacing at the limits. -/
theorem validate_idem (dt : DType F) (hwf : dt.WF) (hgrid : GridExact dt) (r : PVal F) (hin : InSet dt r)
    (hcanon : Canon r) : validate dt r none = .ok r ∧ validate dt r (some r) = .ok r :=
  conv_idem dt r hwf hgrid hin hcanon

/-- what `validate` returns is in canonical form (given that `previous` is) -/
theorem validate_canon (dt : DType F) (hwf : dt.WF) (v : PVal F) (prev : Option (PVal F))
    (hprev : ∀ p, prev = some p → Canon p) (r : PVal F) (h : validate dt v prev = .ok r) : Canon r :=
  conv_canon dt v prev r hwf hprev h

/-- "validating an already validated value returns it unchanged" -/
theorem revalidate_unchanged (dt : DType F) (hwf : dt.WF) (hgrid : GridExact dt) (v : PVal F)
    (prev : Option (PVal F)) (hprev : ∀ p, prev = some p → InSet dt p ∧ Canon p) (r : PVal F)
    (h : validate dt v prev = .ok r) : validate dt r none = .ok r ∧ validate dt r (some r) = .ok r :=
  validate_idem dt hwf hgrid r
    (validate_sound dt hwf v prev (fun p hp => (hprev p hp).1) r h)
    (validate_canon dt hwf v prev (fun p hp => (hprev p hp).2) r h)

/-- the same statement without the grid hypothesis is not a consequence of the float laws (and is false
for binary64 where `scale` is below the float spacing at the limits; the repaired `ScaledInteger.validate`
removed the failing inputs the search found, see design notes) -/
def validate_idem_statement : Prop :=
  ∀ (F : Type) [FloatOps F] [LawfulFloatOps F] (dt : DType F), dt.WF → ∀ (r : PVal F), InSet dt r → Canon r →
    validate dt r none = .ok r ∧ validate dt r (some r) = .ok r

/-- idempotence of the conversion-only path `__call__` (not proved; judged by the monitor `judgeCall` on
every outcome of the implementation) -/
def call_idem_statement : Prop :=
  ∀ (F : Type) [FloatOps F] [LawfulFloatOps F] (dt : DType F), dt.WF → GridExact dt → ∀ (v r : PVal F),
    call dt v = .ok r → call dt r = .ok r

/-! ## never any other kind of exception -/

/-- `validate` on any Python value: a value or a bad-value error -/
theorem validate_total (dt : DType F) (v : PVal F) (prev : Option (PVal F)) (c : String) :
    validate dt v prev ≠ .error (.other c) := conv_total .validate dt v prev c

/-- `__call__` on any Python value -/
theorem call_total (dt : DType F) (v : PVal F) (c : String) : call dt v ≠ .error (.other c) :=
  conv_total .call dt v none c

/-- `import_value` on any JSON value -/
theorem import_total (dt : DType F) (j : JVal F) (c : String) : importValue dt j ≠ .error (.other c) :=
  importValue_total dt j c

/-- what the dispatcher does with a `change` request -/
theorem accept_total (dt : DType F) (j : JVal F) (prev : Option (PVal F)) (c : String) :
    acceptWire dt j prev ≠ .error (.other c) := acceptWire_total dt j prev c

/-! ## the monitors decide the specification -/

/-- the value-set monitor never accepts a value outside the declared value set -/
theorem inSetB_sound (dt : DType F) (v : PVal F) (h : inSetB dt v = true) : InSet dt v := by
  have h' : InSetM dt v := of_decide_eq_true h
  exact inSetG_mono (fun _ _ => onGrid_of_near) dt v h'

/-- completeness of the value-set monitor wherever its decidable grid test finds the grid values
(`OnGridNear`: an index within one of `round(x/scale)` gives `x`) — e.g. on the exact carrier -/
theorem inSetB_complete (hgrid : ∀ s x : F, OnGrid s x → OnGridNear s x) (dt : DType F) (v : PVal F)
    (h : InSet dt v) : inSetB dt v = true := by
  have h' : InSetM dt v := inSetG_mono hgrid dt v h
  exact decide_eq_true h'

example (dt : DType Rat) (v : PVal Rat) : InSet dt v ↔ inSetB dt v = true :=
  ⟨inSetB_complete rat_onGridNear dt v, inSetB_sound dt v⟩

theorem inSetB_iff (dt : DType F) (v : PVal F) : inSetB dt v = true ↔ InSetM dt v := decide_eq_true_iff

theorem denotesB_iff (dt : DType F) (prev : Option (PVal F)) (o r : PVal F) :
    denotesB dt prev o r = true ↔ Denotes dt prev o r := decide_eq_true_iff

theorem wireDenotesB_iff (dt : DType F) (j : JVal F) (v : PVal F) :
    wireDenotesB dt j v = true ↔ WireDenotes dt j v := decide_eq_true_iff

/-! ## non-vacuity: the exact carrier `Rat` is lawful, and a nested tree over it -/

/-- a struct of an array of scaled values, a double with a relative tolerance and an enum; member `b` optional -/
def exTree : DType Rat :=
  .struct [("a", .array (.scaled (1/10) 0 10 (1/10) 0) 0 3), ("b", .double (-5) 5 0 (1/100)),
    ("c", .enum [("on", 1), ("off", 0)])] ["b"] false

def exWire : JVal Rat := .obj [("a", .arr [.int 3, .num 7]), ("c", .str "on")]
def exPrev : PVal Rat := .dict [("a", .tuple []), ("b", .float 2), ("c", .enum "off" 0)]
def exResult : PVal Rat :=
  .dict [("a", .tuple [.float (3/10), .float (7/10)]), ("b", .float 2), ("c", .enum "on" 1)]

theorem exTree_wf : exTree.WF := by
  simp only [exTree, DType.WF, DType.WFFields]
  decide +kernel

theorem exPrev_inSet : InSet exTree exPrev := inSetB_sound _ _ (by decide +kernel)

/-- the hypotheses of `accept_sound`, `accept_denotes`, `accept_total` are met by a concrete
request on a nested tree with a previous value; the model accepts it, merges member `b` from the
previous value, and the result is the expected one -/
example : ∃ r, acceptWire exTree exWire (some exPrev) = .ok r ∧ InSet exTree r ∧
    (∃ v, WireDenotes exTree exWire v ∧ Denotes exTree (some exPrev) v r) ∧
    PVal.same r exResult = true := by
  have hb : (match acceptWire exTree exWire (some exPrev) with
      | .ok r => PVal.same r exResult
      | _ => false) = true := by decide +kernel
  have hp : ∀ p, some exPrev = some p → InSet exTree p := fun p hp => by
    injection hp with hp; rw [← hp]; exact exPrev_inSet
  cases h : acceptWire exTree exWire (some exPrev) with
  | error e => rw [h] at hb; cases hb
  | ok r =>
    rw [h] at hb
    exact ⟨r, rfl, accept_sound exTree exTree_wf _ _ hp r h, accept_denotes exTree exTree_wf _ _ hp r h, hb⟩

/-- a rejected request: a JSON string offered to the scaled elements is a bad-value error, not a number -/
example : (match acceptWire exTree (.obj [("a", .arr [.str "5"]), ("c", .int 1)]) none with
    | .error .wrongType => true
    | _ => false) = true := by
  decide +kernel

/-- the hypotheses of `validate_idem` are satisfiable: the example tree has an exact grid over `Rat`,
and the accepted value of the example above is returned unchanged -/
theorem exTree_gridExact : GridExact exTree := by
  simp only [exTree, GridExact, GridExactFields, and_true]
  exact rat_gridExact_example

example : validate exTree exResult none = .ok exResult ∧ validate exTree exResult (some exResult) = .ok exResult :=
  validate_idem exTree exTree_wf exTree_gridExact exResult (inSetB_sound _ _ (by decide +kernel))
    (by simp only [exResult, Canon, CanonFields, CanonList]; decide +kernel)

/-! ## constants of the source -/

/-- the limit built into `DType.WF` for integer limits is the one of the source (`UNLIMITED`) -/
theorem intLimit_is_unlimited : DType.intLimit = Generated.C01.unlimited ∧
    Generated.C01.intPropMin = -Generated.C01.unlimited ∧ Generated.C01.intPropMax = Generated.C01.unlimited := by
  decide

end Frappy.Props.C01
