import FrappyProofs.Lemmas.Discovery
import FrappyProofs.Lemmas.DiscoveryServer
/-
C19 — property theorems (nothing but property theorems and their non-vacuity examples).

`generatedTables` are the constants re-extracted from `frappy/protocol/discovery.py` on every run;
the theorems are about the model instantiated with them.
-/
namespace Frappy.Props.C19
open Frappy.Discovery Frappy.Spec.C19

/-! ## table facts -/

theorem max_message_len_le_508 : generatedTables.maxLen ≤ limit := by decide
theorem budget_port_is_widest : generatedTables.budgetPort = maxPort := by decide
/-- datagrams of up to 1024 bytes are seen whole by the responder -/
theorem recv_buffer_holds_1024 : wholeUpTo ≤ generatedTables.recvBuf := by decide
/-- the sends answering a request are protected: an `OSError` of `sendto` does not leave the loop -/
theorem send_errors_caught : generatedTables.catchesSend = true := by decide
/-- the `except` clause keeps the loop going for everything the decoding raises -/
theorem decode_errors_caught :
    generatedTables.catches .unicodeDecodeError = true ∧ generatedTables.catches .jsonDecodeError = true ∧
    generatedTables.catches .valueError = true := by decide
/-- of the interface schemes the server knows, `startswith('tcp')` selects exactly `tcp` -/
theorem tcp_prefix_test_exact :
    ∀ s ∈ Generated.C19.serverSchemes, (['t', 'c', 'p'].isPrefixOf s = true ↔ s = ['t', 'c', 'p']) := by decide

/-! ## size -/

/-- Every message the enabled responder builds for a port of at most 65535 has at most 508 bytes —
all equipment ids, versions, descriptions (or `None`), interface lists. -/
theorem message_le_508 (id version : Str) (description : Option Str) (ifaces : List Iface) (p : Nat)
    (hen : (construct generatedTables id version description ifaces).enabled = true)
    (hp : p ≤ maxPort) :
    (message generatedTables id (construct generatedTables id version description ifaces).fw
      (construct generatedTables id version description ifaces).desc p).length ≤ limit := by
  unfold construct at hen ⊢
  split at hen
  · simp at hen
  · rename_i h
    rw [if_neg h]
    simp only
    rw [message_length]
    rw [gen_maxLen, baseLen_eq] at h ⊢
    have h1 := strSize_fit_le (508 - (78 + strSize id + strSize (generatedTables.fwPrefix ++ version))) (description.getD [])
    have h2 := utf8_decimal_length_le p hp
    unfold limit; omega

example : (construct generatedTables ['e', 'q'] ['1'] (some (List.replicate 600 '"')) [⟨['t', 'c', 'p'], 10767⟩]).enabled = true
    ∧ (10767 : Nat) ≤ maxPort := by decide

/-! ## truncation -/

/-- the description sent is a prefix, as a list of characters, of the original -/
theorem truncation_on_char_boundary (id version : Str) (description : Option Str) (ifaces : List Iface) :
    (construct generatedTables id version description ifaces).desc <+: description.getD [] := by
  unfold construct; split
  · exact List.nil_prefix
  · exact fit_prefix _ _

/-- a description that is not over-long is sent whole -/
theorem description_kept_when_it_fits (id version : Str) (description : Option Str) (ifaces : List Iface)
    (hfit : compactSize (nodeOf id version description ifaces) (description.getD []) ≤ limit) :
    (construct generatedTables id version description ifaces).desc = description.getD [] := by
  unfold compactSize nodeOf frameSize limit at hfit
  simp only at hfit
  unfold construct
  rw [gen_maxLen, baseLen_eq, gen_fw]
  rw [if_neg (by omega)]
  exact fit_eq_self _ _ (by omega)

/-- truncation removes no more than necessary: one more character would not fit -/
theorem truncation_minimal (id version : Str) (description : Option Str) (ifaces : List Iface)
    (hen : (construct generatedTables id version description ifaces).enabled = true) :
    TruncationMinimal (nodeOf id version description ifaces)
      (construct generatedTables id version description ifaces).desc := by
  unfold construct at hen ⊢
  split at hen
  · simp at hen
  · rename_i h
    rw [if_neg h]
    rw [gen_maxLen, baseLen_eq, gen_fw] at h ⊢
    unfold TruncationMinimal compactSize nodeOf frameSize limit
    simp only
    rcases fit_maximal (508 - (78 + strSize id + strSize (firmwareOf version))) (description.getD []) with h' | h'
    · left; exact h'
    · right; omega

/-! ## enabled or disabled -/

/-- the responder is disabled exactly when the identity alone does not fit -/
theorem disabled_iff_identity_too_long (id version : Str) (description : Option Str) (ifaces : List Iface) :
    (construct generatedTables id version description ifaces).enabled = false ↔
      ¬ IdentityFits (nodeOf id version description ifaces) := by
  unfold construct IdentityFits compactSize nodeOf frameSize limit
  rw [gen_maxLen, baseLen_eq, gen_fw]
  simp only [strSize]
  split <;> simp <;> omega

example : ¬ IdentityFits (nodeOf (List.replicate 500 'x') ['1'] none []) := by decide +kernel
example : IdentityFits (nodeOf (List.replicate 300 'x') ['1'] none []) := by decide +kernel

/-- what the constructed responder says about itself meets the Spec's rule -/
theorem listener_ok (id version : Str) (description : Option Str) (ifaces : List Iface) :
    ListenerOK (nodeOf id version description ifaces)
      (construct generatedTables id version description ifaces).enabled
      (construct generatedTables id version description ifaces).desc := by
  refine ⟨?_, fun _ => ⟨truncation_on_char_boundary id version description ifaces, ?_⟩⟩
  · have := disabled_iff_identity_too_long id version description ifaces
    cases h : (construct generatedTables id version description ifaces).enabled <;> simp_all
  · exact description_kept_when_it_fits id version description ifaces

/-! ## content of a message -/

/-- The Spec's own readers (strict UTF-8 decoder, JSON object reader) recover from the bytes of a message
exactly: `SECoP = "node"`, the port, the equipment id, the firmware string and the description it was
built from — for all strings, whatever characters they contain. -/
theorem message_fields (id fw desc : Str) (port : Nat) :
    readMessage (message generatedTables id fw desc port) = some ⟨wNode, port, id, fw, desc⟩ :=
  readMessage_message id fw desc port

example : readMessage (message generatedTables ['"', '\\', Char.ofNat 1, 'é', Char.ofNat 0x1F604] ['F'] ['\n', '€'] 10767)
    = some ⟨wNode, 10767, ['"', '\\', Char.ofNat 1, 'é', Char.ofNat 0x1F604], ['F'], ['\n', '€']⟩ := by decide +kernel

/-- every message of the enabled responder for one of the node's TCP ports is a well-formed message of the node:
valid UTF-8, one JSON object, at most 508 bytes, identity, port, description by the rule -/
theorem message_well_formed (id version : Str) (description : Option Str) (ifaces : List Iface) (p : Nat)
    (hen : (construct generatedTables id version description ifaces).enabled = true)
    (hp : p ∈ tcpPorts (nodeOf id version description ifaces)) (hp' : p ≤ maxPort) :
    WellFormedMessage (nodeOf id version description ifaces)
      (message generatedTables (construct generatedTables id version description ifaces).id
        (construct generatedTables id version description ifaces).fw
        (construct generatedTables id version description ifaces).desc p) := by
  rw [construct_id]
  refine ⟨message_le_508 id version description ifaces p hen hp', ?_⟩
  rw [message_fields]
  refine ⟨rfl, rfl, ?_, hp, (listener_ok id version description ifaces).2 hen⟩
  show (construct generatedTables id version description ifaces).fw = firmwareOf version
  rw [construct_fw]; rfl

/-- a batch (announcement or answer) is one well-formed message per TCP port, in order, all to the same destination -/
theorem batch_ok {α : Type} [DecidableEq α] (id version : Str) (description : Option Str) (ifaces : List Iface)
    (dest : Dest α)
    (hen : (construct generatedTables id version description ifaces).enabled = true)
    (hschemes : ∀ i ∈ ifaces, i.scheme ∈ Generated.C19.serverSchemes)
    (hports : ∀ i ∈ ifaces, i.port ≤ maxPort) :
    BatchOK (nodeOf id version description ifaces) dest
      (sendAll generatedTables (construct generatedTables id version description ifaces) dest) := by
  have hpo := portsOf_eq_tcpPorts id version description ifaces hschemes
  unfold BatchOK sendAll
  rw [construct_ports]
  refine ⟨?_, ?_⟩
  · intro s hs
    simp only [List.mem_map] at hs
    obtain ⟨p, hp, rfl⟩ := hs
    refine ⟨rfl, ?_⟩
    obtain ⟨i, hi, e⟩ := mem_portsOf ifaces p hp
    exact message_well_formed id version description ifaces p hen (hpo ▸ hp) (e ▸ hports i hi)
  · rw [List.map_map, ← hpo]
    apply List.map_congr_left
    intro p _
    simp only [Function.comp, portOf, message_fields]

/-! ## datagrams -/

/-- The responder answers (one message per port, to the sender) if and only if the datagram is a discovery
request: it decodes to a JSON object whose member `SECoP` is the string `discover`.  For every listener, every
decoding function, every datagram (the first 1024 bytes count) — `hdict`: a decoded object is a `dict`, its
keys are distinct. -/
theorem answers_iff_discover {α : Type} (L : Listener) (decode : Bytes → Except Exc JTop) (sendOk : α → Bool)
    (dg : Bytes) (addr : α)
    (hdict : ∀ items, decode (dg.take generatedTables.recvBuf) = .ok (.obj items) → (items.map (·.1)).Nodup)
    (hok : sendOk addr = true) :
    handleDatagram generatedTables L decode sendOk dg addr = .answered (sendAll generatedTables L (.peer addr))
      ↔ IsRequest (decode (dg.take generatedTables.recvBuf)) := by
  rw [← isDiscover_iff _ hdict]
  unfold handleDatagram afterDecode answer
  cases h : decode (dg.take generatedTables.recvBuf) with
  | error e => simp only; split <;> simp
  | ok v =>
    simp only [Except.ok.injEq, exists_eq_left', hok, if_true]
    cases hv : isDiscover v <;> simp

/-- a datagram of at most 1024 bytes is decoded whole -/
theorem small_datagram_seen_whole (dg : Bytes) (h : dg.length ≤ wholeUpTo) :
    dg.take generatedTables.recvBuf = dg :=
  List.take_of_length_le (Nat.le_trans h recv_buffer_holds_1024)

/-- anything that is not a request is ignored or (if the decoding raises something the `except` clause does not
name) ends the thread — it is never answered -/
theorem non_request_not_answered {α : Type} (L : Listener) (decode : Bytes → Except Exc JTop) (sendOk : α → Bool)
    (dg : Bytes) (addr : α)
    (hdict : ∀ items, decode (dg.take generatedTables.recvBuf) = .ok (.obj items) → (items.map (·.1)).Nodup)
    (hn : ¬ IsRequest (decode (dg.take generatedTables.recvBuf))) :
    ∀ sends, handleDatagram generatedTables L decode sendOk dg addr ≠ .answered sends := by
  rw [← isDiscover_iff _ hdict] at hn
  unfold handleDatagram afterDecode
  intro sends
  cases h : decode (dg.take generatedTables.recvBuf) with
  | error e => simp only; split <;> simp
  | ok v =>
    simp only
    cases hv : isDiscover v
    · simp
    · exact absurd ⟨v, h, hv⟩ hn

/-- No datagram ends the thread: whatever the bytes, the outcome is `answered` or `ignored`.
`hexc`: the decoding raises nothing but UnicodeDecodeError, JSONDecodeError or another ValueError. -/
theorem responder_total {α : Type} (L : Listener) (decode : Bytes → Except Exc JTop) (sendOk : α → Bool)
    (hexc : ∀ b e, decode b = .error e → e = .unicodeDecodeError ∨ e = .jsonDecodeError ∨ e = .valueError)
    (dg : Bytes) (addr : α) :
    ∀ e, handleDatagram generatedTables L decode sendOk dg addr ≠ .died e := by
  intro e
  unfold handleDatagram afterDecode answer
  cases h : decode (dg.take generatedTables.recvBuf) with
  | error e' =>
    have hc : generatedTables.catches e' = true := by
      rcases hexc _ _ h with rfl | rfl | rfl <;> decide
    simp [hc]
  | ok v =>
    simp only [send_errors_caught, if_true]
    split
    · split <;> simp
    · simp

/-- A request from a sender that cannot be answered (`sendto` raises, e.g. source port 0) is not answered, sends
nothing - and does not end the thread: the outcome is `unanswerable`, the loop goes on. -/
theorem unreachable_sender_survived {α : Type} (L : Listener) (decode : Bytes → Except Exc JTop) (sendOk : α → Bool)
    (dg : Bytes) (addr : α)
    (hdict : ∀ items, decode (dg.take generatedTables.recvBuf) = .ok (.obj items) → (items.map (·.1)).Nodup)
    (hreq : IsRequest (decode (dg.take generatedTables.recvBuf))) (hbad : sendOk addr = false) :
    handleDatagram generatedTables L decode sendOk dg addr = .unanswerable := by
  rw [← isDiscover_iff _ hdict] at hreq
  obtain ⟨v, hv, hd⟩ := hreq
  unfold handleDatagram afterDecode answer
  rw [hv]
  simp [hd, hbad, send_errors_caught]

/-- the loop gives every datagram its own pass, whatever came before it -/
theorem loop_never_stops {α : Type} (L : Listener) (decode : Bytes → Except Exc JTop) (sendOk : α → Bool)
    (hexc : ∀ b e, decode b = .error e → e = .unicodeDecodeError ∨ e = .jsonDecodeError ∨ e = .valueError) :
    ∀ dgs : List (Bytes × α), loop generatedTables L decode sendOk (eventsOf dgs) =
      dgs.map (fun d => handleDatagram generatedTables L decode sendOk d.1 d.2)
  | [] => rfl
  | d :: rest => by
    have ih := loop_never_stops L decode sendOk hexc rest
    unfold eventsOf at ih ⊢
    simp only [List.map_cons, loop]
    have := responder_total L decode sendOk hexc d.1 d.2
    split
    · rename_i e he; exact absurd he (this e)
    · rw [ih]

/-- … and keeps answering later requests: a request (from a sender that can be answered) is answered wherever it
stands in a sequence of datagrams - whatever came before it, including requests from senders that cannot be
answered (`sendOk` is arbitrary on the other datagrams) -/
theorem later_requests_answered {α : Type} (L : Listener) (decode : Bytes → Except Exc JTop) (sendOk : α → Bool)
    (hexc : ∀ b e, decode b = .error e → e = .unicodeDecodeError ∨ e = .jsonDecodeError ∨ e = .valueError)
    (pre post : List (Bytes × α)) (dg : Bytes) (addr : α)
    (hdict : ∀ items, decode (dg.take generatedTables.recvBuf) = .ok (.obj items) → (items.map (·.1)).Nodup)
    (hreq : IsRequest (decode (dg.take generatedTables.recvBuf))) (hok : sendOk addr = true) :
    (loop generatedTables L decode sendOk (eventsOf (pre ++ (dg, addr) :: post)))[pre.length]? =
      some (.answered (sendAll generatedTables L (.peer addr))) := by
  rw [loop_never_stops L decode sendOk hexc]
  simp [(answers_iff_discover L decode sendOk dg addr hdict hok).2 hreq]

/-- a decoding function that meets the hypotheses and has requests, non-requests and errors -/
example : ∃ decode : Bytes → Except Exc JTop,
    (∀ b e, decode b = .error e → e = .unicodeDecodeError ∨ e = .jsonDecodeError ∨ e = .valueError) ∧
    (∀ b items, decode b = .ok (.obj items) → (items.map (·.1)).Nodup) ∧
    IsRequest (decode [1]) ∧ ¬ IsRequest (decode [2]) ∧ ¬ IsRequest (decode [255, 254]) :=
  ⟨fun b => if b = [1] then .ok (.obj [(kSECoP, .str wDiscover)]) else if b = [2] then .ok .arr
            else .error .unicodeDecodeError,
   by intro b e; simp only; split; · simp
      split <;> simp_all,
   by intro b items; simp only; split
      · intro h; cases h; decide
      · split <;> simp,
   by decide, by decide, by decide⟩

/-! ## the whole run -/

/-- The run of the model — construction, announcement, loop over any sequence of datagrams — satisfies the
Spec's `RunOK`, the very predicate the monitor evaluates on what the real implementation sent.
Hypotheses: the interface schemes are those of the server's table and the ports are TCP port numbers;
`hexc`, `hdict` as above. -/
theorem run_satisfies_spec {α : Type} [DecidableEq α] (id version : Str) (description : Option Str)
    (ifaces : List Iface) (startup : Bool) (decode : Bytes → Except Exc JTop) (sendOk : α → Bool)
    (dgs : List (Bytes × α))
    (hschemes : ∀ i ∈ ifaces, i.scheme ∈ Generated.C19.serverSchemes)
    (hports : ∀ i ∈ ifaces, i.port ≤ maxPort)
    (hexc : ∀ b e, decode b = .error e → e = .unicodeDecodeError ∨ e = .jsonDecodeError ∨ e = .valueError)
    (hdict : ∀ b items, decode b = .ok (.obj items) → (items.map (·.1)).Nodup) :
    RunOK (nodeOf id version description ifaces) startup sendOk
      (receivedOf generatedTables.recvBuf decode dgs)
      (run generatedTables (construct generatedTables id version description ifaces) startup decode sendOk (eventsOf dgs)).1
      (stepsOf generatedTables.recvBuf decode dgs
        (run generatedTables (construct generatedTables id version description ifaces) startup decode sendOk (eventsOf dgs)).2) := by
  have hdis := disabled_iff_identity_too_long id version description ifaces
  unfold RunOK run announce
  by_cases hfit : IdentityFits (nodeOf id version description ifaces)
  · have hen : (construct generatedTables id version description ifaces).enabled = true := by
      cases h : (construct generatedTables id version description ifaces).enabled
      · exact absurd hfit (hdis.1 h)
      · rfl
    rw [if_pos hfit, hen]
    simp only [Bool.true_and, if_true]
    rw [loop_never_stops _ decode sendOk hexc]
    have hsteps : stepsOf generatedTables.recvBuf decode dgs
        (dgs.map (fun d => handleDatagram generatedTables (construct generatedTables id version description ifaces) decode sendOk d.1 d.2))
        = dgs.map (fun d => ⟨d.2, decode (d.1.take generatedTables.recvBuf),
            sendsOf (handleDatagram generatedTables (construct generatedTables id version description ifaces) decode sendOk d.1 d.2)⟩) := by
      unfold stepsOf
      induction dgs with
      | nil => rfl
      | cons d rest ih => simp only [List.map_cons, List.zipWith_cons_cons, ih]
    rw [hsteps]
    refine ⟨?_, ?_, ?_⟩
    · cases startup
      · simp
      · simp only [if_true]
        exact batch_ok id version description ifaces .broadcast hen hschemes hports
    · unfold receivedOf; rw [List.map_map]; rfl
    · intro st hst
      simp only [List.mem_map] at hst
      obtain ⟨d, _, rfl⟩ := hst
      unfold StepOK
      simp only
      by_cases hreq : IsRequest (decode (d.1.take generatedTables.recvBuf))
      · by_cases hok : sendOk d.2 = true
        · rw [if_pos ⟨hreq, hok⟩, (answers_iff_discover _ decode sendOk d.1 d.2 (hdict _) hok).2 hreq]
          exact batch_ok id version description ifaces (.peer d.2) hen hschemes hports
        · rw [if_neg (fun h => hok h.2)]
          have hbad : sendOk d.2 = false := by cases h : sendOk d.2 <;> simp_all
          rw [unreachable_sender_survived _ decode sendOk d.1 d.2 (hdict _) hreq hbad]
          rfl
      · rw [if_neg (fun h => hreq h.1)]
        have h1 := non_request_not_answered (construct generatedTables id version description ifaces) decode sendOk d.1 d.2 (hdict _) hreq
        cases ho : handleDatagram generatedTables (construct generatedTables id version description ifaces) decode sendOk d.1 d.2 with
        | answered s => exact absurd ho (h1 s)
        | ignored => rfl
        | unanswerable => rfl
        | died e => rfl
  · have hen : (construct generatedTables id version description ifaces).enabled = false := hdis.2 hfit
    rw [if_neg hfit, hen]
    simp [stepsOf]

/-- the hypotheses on the interface list are met by the server's usual configuration -/
example : (∀ i ∈ [(⟨['t', 'c', 'p'], 10767⟩ : Iface), ⟨['w', 's'], 8080⟩], i.scheme ∈ Generated.C19.serverSchemes) ∧
    (∀ i ∈ [(⟨['t', 'c', 'p'], 10767⟩ : Iface), ⟨['w', 's'], 8080⟩], i.port ≤ maxPort) ∧
    tcpPorts (nodeOf ['e'] ['1'] none [⟨['t', 'c', 'p'], 10767⟩, ⟨['w', 's'], 8080⟩]) = [10767] := by decide

/-! ## the server: a TCP port it really listens on, in every round -/

/-- table facts about `Server.run` / `Server.restart`: the dict of started interfaces is emptied at the start of
every round, the responder is given the ports really bound, `restart()` shuts the responder down -/
theorem server_round_facts :
    generatedServerTables.resetPerRound = true ∧ generatedServerTables.announcesBoundPort = true ∧
    generatedServerTables.restartClosesDiscovery = true ∧ Generated.C19.listenerArgumentRecognised = true := by decide

/-- In every round of every run of the server — any number of restarts, any pattern of interfaces that start or
fail to start, any order in which they come up, any bound ports — every port that a running discovery responder
of the node can announce is a port bound by a TCP interface that was started successfully in THAT round.
(`message_fields`/`batch_ok` say that a message carries one of the responder's `ports`.) -/
theorem announced_ports_are_served (id version : Str) (description : Option Str) (rounds : List (List Attempt))
    (hschemes : ∀ r ∈ rounds, ∀ a ∈ r, a.iface.scheme ∈ Generated.C19.serverSchemes)
    (i : Nat) (s : SrvState) (attempts : List Attempt)
    (hs : (runRounds generatedServerTables generatedTables id version description .init rounds)[i]? = some s)
    (hr : rounds[i]? = some attempts) :
    ∀ L ∈ s.live, AnnouncedServed (servedTcpPorts attempts) L.ports := by
  intro L hL
  have := runRounds_live generatedTables id version description rounds .init rfl i s attempts hs hr L hL
  rw [this]
  exact roundListener_ports_served _ _ _ _ _ (hschemes attempts (List.mem_of_getElem? hr))

/-- at most one responder runs in a round: a responder of an earlier round is never left over -/
theorem one_responder_per_round (id version : Str) (description : Option Str) (rounds : List (List Attempt))
    (i : Nat) (s : SrvState)
    (hs : (runRounds generatedServerTables generatedTables id version description .init rounds)[i]? = some s) :
    s.live.length ≤ 1 :=
  runRounds_live_le_one generatedTables id version description rounds .init rfl i s hs

/-- a run with a restart during which the second port is taken by somebody else: hypotheses met, the second
round's responder announces the first port only -/
example :
    let rounds : List (List Attempt) :=
      [[⟨⟨['t', 'c', 'p'], 10767⟩, .started 10767⟩, ⟨⟨['t', 'c', 'p'], 10768⟩, .started 10768⟩],
       [⟨⟨['t', 'c', 'p'], 10768⟩, .failed⟩, ⟨⟨['t', 'c', 'p'], 10767⟩, .started 10767⟩]]
    (∀ r ∈ rounds, ∀ a ∈ r, a.iface.scheme ∈ Generated.C19.serverSchemes) ∧
    ((runRounds generatedServerTables generatedTables ['e'] ['1'] none .init rounds).map
      (fun s => s.live.map (·.ports))) = [[[10767, 10768]], [[10767]]] := by decide +kernel

end Frappy.Props.C19
