import FrappyProofs.Lemmas.Discovery
/-
C19 — property theorems (nothing but property theorems and their non-vacuity examples).

`generatedTables` are the constants re-extracted from `frappy/protocol/discovery.py` on every run;
the theorems are about the model instantiated with them.
-/
namespace Frappy.Props.C19
open Frappy.Discovery Frappy.Spec.C19

/-! ## table facts -/

theorem max_message_len_le_508 : generatedTables.maxLen ≤ limit := by decide
theorem budget_port_is_widest : generatedTables.budgetPort = maxPort := by decide
theorem recv_buffer_positive : 0 < generatedTables.recvBuf := by decide
/-- the `except` clause keeps the loop going for everything the decoding raises -/
theorem decode_errors_caught :
    generatedTables.catches .unicodeDecodeError = true ∧ generatedTables.catches .jsonDecodeError = true ∧
    generatedTables.catches .valueError = true := by decide
/-- of the interface schemes the server knows, `startswith('tcp')` selects exactly `tcp` -/
theorem tcp_prefix_test_exact :
    ∀ s ∈ Generated.C19.serverSchemes, (['t', 'c', 'p'].isPrefixOf s = true ↔ s = ['t', 'c', 'p']) := by decide

/-! ## size -/

/-- Every message the enabled responder builds for a port of at most 65535 has at most 508 bytes —
all equipment ids, versions, descriptions (or `None`), interface lists. -/
theorem message_le_508 (id version : Str) (description : Option Str) (ifaces : List Iface) (p : Nat)
    (hen : (construct generatedTables id version description ifaces).enabled = true)
    (hp : p ≤ maxPort) :
    (message generatedTables id (construct generatedTables id version description ifaces).fw
      (construct generatedTables id version description ifaces).desc p).length ≤ limit := by
  unfold construct at hen ⊢
  split at hen
  · simp at hen
  · rename_i h
    rw [if_neg h]
    simp only
    rw [message_length]
    rw [gen_maxLen, baseLen_eq] at h ⊢
    have h1 := strSize_fit_le (508 - (78 + strSize id + strSize (generatedTables.fwPrefix ++ version))) (description.getD [])
    have h2 := utf8_decimal_length_le p hp
    unfold limit; omega

example : (construct generatedTables ['e', 'q'] ['1'] (some (List.replicate 600 '"')) [⟨['t', 'c', 'p'], 10767⟩]).enabled = true
    ∧ (10767 : Nat) ≤ maxPort := by decide

/-! ## truncation -/

/-- the description sent is a prefix, as a list of characters, of the original -/
theorem truncation_on_char_boundary (id version : Str) (description : Option Str) (ifaces : List Iface) :
    (construct generatedTables id version description ifaces).desc <+: description.getD [] := by
  unfold construct; split
  · exact List.nil_prefix
  · exact fit_prefix _ _

/-- a description that is not over-long is sent whole -/
theorem description_kept_when_it_fits (id version : Str) (description : Option Str) (ifaces : List Iface)
    (hfit : compactSize (nodeOf id version description ifaces) (description.getD []) ≤ limit) :
    (construct generatedTables id version description ifaces).desc = description.getD [] := by
  unfold compactSize nodeOf frameSize limit at hfit
  simp only at hfit
  unfold construct
  rw [gen_maxLen, baseLen_eq, gen_fw]
  rw [if_neg (by omega)]
  exact fit_eq_self _ _ (by omega)

/-- truncation removes no more than necessary: one more character would not fit -/
theorem truncation_minimal (id version : Str) (description : Option Str) (ifaces : List Iface)
    (hen : (construct generatedTables id version description ifaces).enabled = true) :
    TruncationMinimal (nodeOf id version description ifaces)
      (construct generatedTables id version description ifaces).desc := by
  unfold construct at hen ⊢
  split at hen
  · simp at hen
  · rename_i h
    rw [if_neg h]
    rw [gen_maxLen, baseLen_eq, gen_fw] at h ⊢
    unfold TruncationMinimal compactSize nodeOf frameSize limit
    simp only
    rcases fit_maximal (508 - (78 + strSize id + strSize (firmwareOf version))) (description.getD []) with h' | h'
    · left; exact h'
    · right; omega

/-! ## enabled or disabled -/

/-- the responder is disabled exactly when the identity alone does not fit -/
theorem disabled_iff_identity_too_long (id version : Str) (description : Option Str) (ifaces : List Iface) :
    (construct generatedTables id version description ifaces).enabled = false ↔
      ¬ IdentityFits (nodeOf id version description ifaces) := by
  unfold construct IdentityFits compactSize nodeOf frameSize limit
  rw [gen_maxLen, baseLen_eq, gen_fw]
  simp only [strSize]
  split <;> simp <;> omega

example : ¬ IdentityFits (nodeOf (List.replicate 500 'x') ['1'] none []) := by decide +kernel
example : IdentityFits (nodeOf (List.replicate 300 'x') ['1'] none []) := by decide +kernel

/-- what the constructed responder says about itself meets the Spec's rule -/
theorem listener_ok (id version : Str) (description : Option Str) (ifaces : List Iface) :
    ListenerOK (nodeOf id version description ifaces)
      (construct generatedTables id version description ifaces).enabled
      (construct generatedTables id version description ifaces).desc := by
  refine ⟨?_, fun _ => ⟨truncation_on_char_boundary id version description ifaces, ?_⟩⟩
  · have := disabled_iff_identity_too_long id version description ifaces
    cases h : (construct generatedTables id version description ifaces).enabled <;> simp_all
  · exact description_kept_when_it_fits id version description ifaces

end Frappy.Props.C19
