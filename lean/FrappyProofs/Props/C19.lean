import FrappyProofs.Lemmas.Discovery
namespace Frappy.Props.C19
open Frappy.Discovery Frappy.Spec.C19

theorem max_message_len_le_508 : Generated.C19.maxMessageLen ≤ limit := by decide

end Frappy.Props.C19
