import FrappyProofs.Lemmas.Activate
import FrappyProofs.Lemmas.ActivateSnap
import FrappyProofs.Lemmas.ActivateLoss
import FrappyProofs.Lemmas.ActivateQuiet
import FrappyProofs.Lemmas.ActivateExplicit
import FrappyModel.Generated.C08
/-
C08 — property theorems (nothing but property theorems and their non-vacuity examples).

The model is of the repaired dispatcher (`fix:` commits for F13, F15, F16 in the repository).  Every theorem
quantifies over all node descriptions, all scripts of all request threads and updater threads, and all
reachable states, i.e. all interleavings of the model's actions.
-/
namespace Frappy.Props.C08
open Frappy.Activate Frappy.Spec.C08

/-- After the reply to the matching `deactivate`, to `*IDN?`, or after a disconnect, no update of that scope
is delivered: every update delivered to a connection lies in the scope of an activation of that connection
that is still possibly in force.  All interleavings, any number of connections and updaters. -/
theorem silent_after_deactivate (cfg : Cfg) (hs : Conn → List Req) (us : Nat → List (Mod × Par × Entry))
    (cache : Mod → Par → Entry) (σ : State) (h : Reach cfg (init hs us cache) σ) : Silent σ.trace :=
  (silentInv_reach cfg hs us cache σ h).acc

/-- Between an `activate s` request and its `active` reply the connection is sent one update for every
exported parameter in scope `s`, and every update ever delivered (snapshot or broadcast) carries the value
the cache holds at the moment of delivery — also when the activation races with updaters. -/
theorem snapshot_complete (cfg : Cfg) (hs : Conn → List Req) (us : Nat → List (Mod × Par × Entry))
    (cache : Mod → Par → Entry) (σ : State) (h : Reach cfg (init hs us cache) σ) :
    SnapshotComplete cfg cache σ.trace :=
  snapshotComplete_reach cfg hs us cache σ h

/-- An update emitted while a connection's activation covering the parameter is firmly in force (after
its `active` reply, no ending request started) reaches that connection before the assignment returns. -/
theorem no_loss (cfg : Cfg) (hs : Conn → List Req) (us : Nat → List (Mod × Par × Entry))
    (cache : Mod → Par → Entry) (σ : State) (h : Reach cfg (init hs us cache) σ) : NoLoss cfg σ.trace :=
  noLoss_reach' cfg hs us cache σ h

/-- When nothing is in progress (every request answered, every announced assignment returned), the last
update a connection holds for a parameter of a scope firmly in force equals the node's cache. -/
theorem quiescent_last_eq_cache (cfg : Cfg) (hs : Conn → List Req) (us : Nat → List (Mod × Par × Entry))
    (cache : Mod → Par → Entry) (σ : State) (h : Reach cfg (init hs us cache) σ) :
    QuiescentLastEqCache cfg cache σ.trace :=
  quiescent_reach cfg hs us cache σ h

/-- the cache the specification reconstructs from the trace is the node's cache -/
theorem cacheAfter_is_cache (cfg : Cfg) (hs : Conn → List Req) (us : Nat → List (Mod × Par × Entry))
    (cache : Mod → Par → Entry) (σ : State) (h : Reach cfg (init hs us cache) σ) :
    cacheAfter cache σ.trace = σ.cache := by
  rw [cacheAfter_eq cfg cache σ.trace]; exact (snapInv_reach cfg hs us cache σ h).cur

/-- `silent_after_deactivate` without the monitor: every update delivered to `c` for `m:p` is preceded by a request
marker `activate s` of `c` with `s` covering `m:p`, and no reply of `c` that ends `s` lies in between (`endsReply`:
the positive reply to the matching `deactivate`; any reply to `*IDN?`; the end of a disconnect, successful or not). -/
theorem silent_after_deactivate_explicit (cfg : Cfg) (hs : Conn → List Req) (us : Nat → List (Mod × Par × Entry))
    (cache : Mod → Par → Entry) (σ : State) (h : Reach cfg (init hs us cache) σ) : SilentExplicit σ.trace :=
  (silent_iff_explicit σ.trace).1 (silent_after_deactivate cfg hs us cache σ h)

/-- the executable quiescence test the driver uses is the `Quiet` of the specification -/
theorem quiet_monitor_exact (tr : List Obs) : quietB tr = true ↔ Quiet tr := quietB_iff tr

/-- A request of connection `c`, and every action of an updater, leaves the scopes of all other connections
as they are. -/
theorem others_unaffected (cfg : Cfg) (σ σ' : State) (a : Act) : OthersUnaffected cfg σ σ' a := by
  intro hs c' m p hne
  unfold step at hs
  split at hs
  · rename_i c hc
    exact others_stepH cfg σ σ' c c' m p (by intro h; subst h; exact hne hc) hs
  · rename_i k hk
    obtain ⟨_, _, _, _, f5, f6, _⟩ := stepU_frame cfg σ σ' k a.arg hs
    simp [listens, f5, f6]

/-- The lock discipline of the repaired code (`_lock` → `updateLock` → `_subscription_lock`) cannot
deadlock: in no reachable state with an unfinished thread is every thread blocked. -/
theorem deadlock_free (cfg : Cfg) (hs : Conn → List Req) (us : Nat → List (Mod × Par × Entry))
    (cache : Mod → Par → Entry) (σ : State) (h : Reach cfg (init hs us cache) σ)
    (t : Tid) (ht : finished σ t = false) : ∃ a, (step cfg σ a).isSome = true :=
  no_deadlock cfg σ (lockInv_reach cfg hs us cache σ h) t ht

/-- Mutual exclusion, as used above: a lock is owned by exactly the thread whose program counter is
inside the region the lock guards. -/
theorem locks_exclusive (cfg : Cfg) (hs : Conn → List Req) (us : Nat → List (Mod × Par × Entry))
    (cache : Mod → Par → Entry) (σ : State) (h : Reach cfg (init hs us cache) σ) : LockInv σ :=
  lockInv_reach cfg hs us cache σ h

/-- The string tests of `Dispatcher.unsubscribe` (`':' in`, `startswith(f'{eventname}:')`, exact key) remove exactly the
subscriptions the deactivation matches — for ALL names, in particular names that are string prefixes of one another
(`T` / `T2`, `target` / `target_max`): a scope that is not matched keeps its table entry, nobody else's entry changes. -/
theorem deactivate_exact (σ : State) (c : Conn) (d : Scope) (c' : Conn) (a : Scope) :
    tableHas (unregister σ c d) c' a = (if c' = c ∧ cancels d a = true then false else tableHas σ c' a) :=
  tableHas_unregister σ c d c' a

/-- prefix-related specifiers are different scopes: deactivating the shorter one does not match the longer one -/
theorem prefix_related_not_cancelled (m m' : Mod) (p p' : Par) :
    (p ≠ p' → cancels (.par m p) (.par m p') = false) ∧
    (m ≠ m' → cancels (.mod m) (.mod m') = false ∧ cancels (.mod m) (.par m' p) = false) := by
  constructor
  · intro h
    have : ¬ p = p' := h
    simp [cancels, this]
  · intro h
    have : ¬ m.val = m'.val := fun e => h (Subtype.ext e)
    simp [cancels, this]

/-- `*IDN?` and disconnect end every activation whatever the outcome of switching remote logging off (`Cfg.logFails`
is universally quantified in `silent_after_deactivate`): the table is cleared before that call, so every entry of
the connection is gone when the reply — positive or an error report — is sent. -/
theorem reset_clears_before_logging (σ : State) (c : Conn) (a : Scope) :
    tableHas (tableWrite σ c .ident) c a = false ∧ tableHas (tableWrite σ c .disconnect) c a = false :=
  ⟨tableHas_write_ends σ c .ident a rfl, tableHas_write_ends σ c .disconnect a rfl⟩

/-- Table fact the harness relies on to tell updates from replies in a connection's log: the reply names of
`activate`, `deactivate`, `*IDN?` (regenerated from `frappy.protocol.messages` on every run) are distinct,
none of them is the update message name, and none starts with the error prefix. -/
theorem reply_names_distinct :
    (Generated.C08.requestReply.map (·.2)).Nodup ∧
    Generated.C08.eventReply ∉ Generated.C08.requestReply.map (·.2) ∧
    (Generated.C08.requestReply.all (fun x => !x.2.startsWith Generated.C08.errorPrefix)) = true := by
  decide +kernel

/-! ### non-vacuity: a concrete interleaving (one connection, one updater, the F16 schedule) -/

def mT : Mod := ⟨['T'], by decide⟩
def mT2 : Mod := ⟨['T', '2'], by decide⟩
def pTarget : Par := ['t', 'a', 'r', 'g', 'e', 't']
def pTargetMax : Par := pTarget ++ ['_', 'm', 'a', 'x']

def exCfg : Cfg := ⟨[mT, mT2], fun _ => [pTarget, pTargetMax], [1], fun _ => false⟩
def exInit : State :=
  init (fun c => if c = 1 then [.activate (.par mT pTarget), .deactivate (.par mT pTarget)] else [])
       (fun k => if k = 1 then [(mT, pTarget, .val 7), (mT, pTarget, .val 5)] else []) (fun _ _ => .val 0)

/-- the updater stores 7 and has selected its listeners while the connection is active; the deactivation has
to wait for the delivery -/
def exActs : List Act :=
  [⟨.h 1, 0⟩, ⟨.h 1, 0⟩, ⟨.h 1, 0⟩, ⟨.h 1, 0⟩,       -- marker, disp, register, release sub
   ⟨.u 1, 0⟩, ⟨.u 1, 0⟩,                              -- store 7, select listeners (holds sub)
   ⟨.u 1, 1⟩, ⟨.u 1, 0⟩, ⟨.u 1, 0⟩,                   -- send to 1, release sub, release upd
   ⟨.h 1, 0⟩, ⟨.h 1, 0⟩, ⟨.h 1, 0⟩, ⟨.h 1, 0⟩, ⟨.h 1, 0⟩, ⟨.h 1, 0⟩]  -- snapshot, release, reply

example : ((run exCfg exInit exActs).map (fun σ => σ.trace)) =
    some [.reqStart 1 (.activate (.par mT pTarget)), .emit 1 mT pTarget (.val 7), .deliver 1 mT pTarget (.val 7), .emitDone 1,
          .deliver 1 mT pTarget (.val 7), .reply 1 (.activate (.par mT pTarget)) true] := by decide

example : ∃ σ, Reach exCfg exInit σ ∧ σ.trace.length = 6 ∧ finished σ (.h 1) = false := by
  cases h : run exCfg exInit exActs with
  | none => exact absurd h (by decide)
  | some σ =>
    refine ⟨σ, run_reach exCfg exInit exInit σ exActs Reach.init h, ?_, ?_⟩
    · have : ((run exCfg exInit exActs).map (fun σ => σ.trace.length)) = some 6 := by decide
      rw [h] at this; simpa using this
    · have : ((run exCfg exInit exActs).map (fun σ => finished σ (.h 1))) = some false := by decide
      rw [h] at this; simpa using this

/-- while the updater holds the module's update lock the activating thread cannot start its snapshot (it is
blocked, the updater is not): blocking occurs, deadlock does not -/
example : ((run exCfg exInit (exActs.take 6 ++ [⟨.h 1, 0⟩])).isSome) = false := by decide

/-- a quiescent reachable state in which the hypotheses of `quiescent_last_eq_cache` and `no_loss` are met:
connection 1 stays activated, the updater's value 7 was emitted after the `active` reply, reached the
connection, and is the last message it holds -/
def exInit2 : State :=
  init (fun c => if c = 1 then [.activate (.par mT pTarget)] else [])
       (fun k => if k = 1 then [(mT, pTarget, .val 7)] else []) (fun _ _ => .val 0)

def exActs2 : List Act :=
  (List.replicate 10 ⟨.h 1, 0⟩) ++ [⟨.u 1, 0⟩, ⟨.u 1, 0⟩, ⟨.u 1, 1⟩, ⟨.u 1, 0⟩, ⟨.u 1, 0⟩, ⟨.u 1, 0⟩, ⟨.h 1, 0⟩]

example : ((run exCfg exInit2 exActs2).map (fun σ =>
      (quietB σ.trace, coveredBy (firmAfter σ.trace 1) mT pTarget, lastDelivered σ.trace 1 mT pTarget, σ.cache mT pTarget,
       finished σ (.h 1), finished σ (.u 1), σ.trace.length))) =
    some (true, true, some (.val 7), .val 7, true, true, 6) := by rfl

/-- prefix-related parameters: connection 1 activates `T:target` and `T:target_max`, deactivates `T:target`; an update
of `T:target_max` emitted afterwards still reaches it (the seeded `startswith(eventname)` mutant loses it) -/
def exInit3 : State :=
  init (fun c => if c = 1 then [.activate (.par mT pTarget), .activate (.par mT pTargetMax), .deactivate (.par mT pTarget)] else [])
       (fun k => if k = 1 then [(mT, pTargetMax, .val 3)] else []) (fun _ _ => .val 0)

example : ((run exCfg exInit3 ((List.replicate 26 (⟨.h 1, 0⟩ : Act)) ++
      [⟨.u 1, 0⟩, ⟨.u 1, 0⟩, ⟨.u 1, 1⟩, ⟨.u 1, 0⟩, ⟨.u 1, 0⟩, ⟨.u 1, 0⟩, ⟨.h 1, 0⟩])).map (fun σ =>
      (lastDelivered σ.trace 1 mT pTargetMax, listens σ 1 mT pTargetMax, listens σ 1 mT pTarget,
       finished σ (.h 1), finished σ (.u 1)))) =
    some (some (.val 3), true, false, true, true) := by rfl

/-- remote logging broken: `*IDN?` is answered with an error report, the activation is gone all the same and the update
emitted afterwards is not delivered -/
def exCfgBroken : Cfg := ⟨[mT], fun _ => [pTarget], [1], fun _ => true⟩
def exInit4 : State :=
  init (fun c => if c = 1 then [.activate .all, .ident] else [])
       (fun k => if k = 1 then [(mT, pTarget, .val 3)] else []) (fun _ _ => .val 0)

example : ((run exCfgBroken exInit4 ((List.replicate 16 (⟨.h 1, 0⟩ : Act)) ++
      [⟨.u 1, 0⟩, ⟨.u 1, 0⟩, ⟨.u 1, 0⟩, ⟨.u 1, 0⟩, ⟨.u 1, 0⟩, ⟨.h 1, 0⟩])).map (fun σ =>
      (σ.trace.drop 3, listens σ 1 mT pTarget, finished σ (.h 1), finished σ (.u 1)))) =
    some ([.reqStart 1 .ident, .reply 1 .ident false, .emit 1 mT pTarget (.val 3), .emitDone 1], false, true, true) := by rfl

/-- the monitors are not trivially true: the pinned tree's log `update 7, inactive, update 5` is rejected … -/
example : silentMon.accepts
    [.reqStart 1 (.activate (.par mT pTarget)), .deliver 1 mT pTarget (.val 0), .reply 1 (.activate (.par mT pTarget)) true,
     .deliver 1 mT pTarget (.val 7), .reqStart 1 (.deactivate (.par mT pTarget)), .reply 1 (.deactivate (.par mT pTarget)) true,
     .deliver 1 mT pTarget (.val 5)] = false := by decide

/-- … and the same log with the late update before the `inactive` reply is accepted -/
example : silentMon.accepts
    [.reqStart 1 (.activate (.par mT pTarget)), .deliver 1 mT pTarget (.val 0), .reply 1 (.activate (.par mT pTarget)) true,
     .deliver 1 mT pTarget (.val 7), .reqStart 1 (.deactivate (.par mT pTarget)), .deliver 1 mT pTarget (.val 5),
     .reply 1 (.deactivate (.par mT pTarget)) true] = true := by decide

end Frappy.Props.C08
