import FrappyProofs.Lemmas.Activate
import FrappyProofs.Lemmas.ActivateSnap
import FrappyProofs.Lemmas.ActivateLoss
import FrappyProofs.Lemmas.ActivateQuiet
import FrappyProofs.Lemmas.ActivateExplicit
import FrappyProofs.Lemmas.ActivateTables
import FrappyProofs.Lemmas.ActivateMatch
import FrappyProofs.Lemmas.ActivateLossExplicit
import FrappyProofs.Lemmas.ActivateExported
import FrappyProofs.Lemmas.ActivateDeadlock
import FrappyProofs.Lemmas.ActivateCache
import FrappyProofs.Lemmas.ActivateCall
import FrappyModel.Generated.C08
/-
C08 — property theorems (nothing but property theorems and their non-vacuity examples).

The model is of the repaired dispatcher (`fix:` commits for F13, F15, F16 in the repository).  Every theorem
quantifies over all node descriptions, all scripts of all request threads and updater threads, and all
reachable states, i.e. all interleavings of the model's actions.
-/
namespace Frappy.Props.C08
open Frappy.Activate Frappy.Spec.C08

/-- After the reply to the matching `deactivate`, to `*IDN?`, or after a disconnect, no update of that scope
is delivered: every update delivered to a connection lies in the scope of an activation of that connection
that is still possibly in force.  All interleavings, any number of connections and updaters. -/
theorem silent_after_deactivate (cfg : Cfg) (hs : Conn → List Req) (us : Nat → List (Mod × Par × Entry))
    (cache : Mod → Par → Entry) (σ : State) (h : Reach cfg (init hs us cache) σ) : Silent σ.trace :=
  (silentInv_reach cfg hs us cache σ h).acc

/-- Between an `activate s` request and its `active` reply the connection is sent one update for every
exported parameter in scope `s`, and every update ever delivered (snapshot or broadcast) carries the value
the cache holds at the moment of delivery — also when the activation races with updaters. -/
theorem snapshot_complete (cfg : Cfg) (hs : Conn → List Req) (us : Nat → List (Mod × Par × Entry))
    (cache : Mod → Par → Entry) (σ : State) (h : Reach cfg (init hs us cache) σ) :
    SnapshotComplete cfg cache σ.trace :=
  snapshotComplete_reach cfg hs us cache σ h

/-- An update emitted while a connection's activation covering the parameter is firmly in force (after
its `active` reply, no ending request started) reaches that connection before the assignment returns. -/
theorem no_loss (cfg : Cfg) (hs : Conn → List Req) (us : Nat → List (Mod × Par × Entry))
    (cache : Mod → Par → Entry) (σ : State) (h : Reach cfg (init hs us cache) σ) : NoLoss cfg σ.trace :=
  noLoss_reach' cfg hs us cache σ h

/-- When nothing is in progress (every request answered, every announced assignment returned), the last
update a connection holds for a parameter of a scope firmly in force equals the node's cache. -/
theorem quiescent_last_eq_cache (cfg : Cfg) (hs : Conn → List Req) (us : Nat → List (Mod × Par × Entry))
    (cache : Mod → Par → Entry) (σ : State) (h : Reach cfg (init hs us cache) σ) :
    QuiescentLastEqCache cfg cache σ.trace :=
  quiescent_reach cfg hs us cache σ h

/-- the cache the specification reconstructs from the trace is the node's cache -/
theorem cacheAfter_is_cache (cfg : Cfg) (hs : Conn → List Req) (us : Nat → List (Mod × Par × Entry))
    (cache : Mod → Par → Entry) (σ : State) (h : Reach cfg (init hs us cache) σ) :
    cacheAfter cache σ.trace = σ.cache := by
  rw [cacheAfter_eq cfg cache σ.trace]; exact (snapInv_reach cfg hs us cache σ h).cur

/-- `silent_after_deactivate` without the monitor: every update delivered to `c` for `m:p` is preceded by a request
marker `activate s` of `c` with `s` covering `m:p`, and no reply of `c` that ends `s` lies in between (`endsReply`:
the positive reply to the matching `deactivate`; any reply to `*IDN?`; the end of a disconnect, successful or not). -/
theorem silent_after_deactivate_explicit (cfg : Cfg) (hs : Conn → List Req) (us : Nat → List (Mod × Par × Entry))
    (cache : Mod → Par → Entry) (σ : State) (h : Reach cfg (init hs us cache) σ) : SilentExplicit σ.trace :=
  (silent_iff_explicit σ.trace).1 (silent_after_deactivate cfg hs us cache σ h)

/-- Replies answer requests: in every reachable trace a request marker of a connection appears only when none of its
requests is open, and a reply to it carries the request whose marker is the last one of that connection. -/
theorem replies_match (cfg : Cfg) (hs : Conn → List Req) (us : Nat → List (Mod × Par × Entry))
    (cache : Mod → Par → Entry) (σ : State) (h : Reach cfg (init hs us cache) σ) : RepliesMatch σ.trace :=
  (matchInv_reach cfg hs us cache σ h).acc

/-- `snapshot_complete` without the monitor (`SnapshotExplicitS`, the index form of the English sentence): every update
delivered at position `i` carries the value the cache holds after the first `i` events; and an `active` reply to
`activate s` of connection `c` at position `i` has its request marker at some `j < i`, no other marker of `c` and no reply to
`c` in between, and for every exported parameter of scope `s` an update delivered to `c` strictly between `j` and `i`. -/
theorem snapshot_complete_explicit (cfg : Cfg) (hs : Conn → List Req) (us : Nat → List (Mod × Par × Entry))
    (cache : Mod → Par → Entry) (σ : State) (h : Reach cfg (init hs us cache) σ) :
    SnapshotExplicitS cfg cache σ.trace :=
  snapshotExplicitS cfg cache σ.trace (snapshot_complete cfg hs us cache σ h) (replies_match cfg hs us cache σ h)

/-- what the monitor accepts is what the sentence says, for any trace (model or implementation): the index form with the
scope taken from the marker (`SnapshotExplicit`) follows from `SnapshotComplete` alone -/
theorem snapshot_monitor_sound (cfg : Cfg) (cache : Mod → Par → Entry) (tr : List Obs)
    (h : SnapshotComplete cfg cache tr) : SnapshotExplicit cfg cache tr :=
  snapshotExplicit_of_complete cfg cache tr h

/-- `no_loss` without the monitor (`NoLossExplicit`, the index form of the English sentence): a value stored by updater `u`
at position `i` whose assignment returns at position `j` has been delivered, strictly between `i` and `j`, to every
connection `c` of the node for which `m:p` was firmly covered when the value was stored and still was after each request
marker of `c` up to `j`.  "Firmly covered" is `firmAfter`, which `firm_in_force_explicit` spells out. -/
theorem no_loss_explicit (cfg : Cfg) (hs : Conn → List Req) (us : Nat → List (Mod × Par × Entry))
    (cache : Mod → Par → Entry) (σ : State) (h : Reach cfg (init hs us cache) σ) : NoLossExplicit cfg σ.trace :=
  noLossExplicit_of_noLoss cfg σ.trace (no_loss cfg hs us cache σ h)

/-- what `lossMon` accepts is what the sentence says, for any trace (model or implementation) -/
theorem noloss_monitor_sound (cfg : Cfg) (tr : List Obs) (h : NoLoss cfg tr) : NoLossExplicit cfg tr :=
  noLossExplicit_of_noLoss cfg tr h

/-- an activation `s` of `c` is firmly in force after `tr` iff its `active` reply is in `tr` and no later request marker of
`c` ends it (the matching `deactivate`, `*IDN?`, a disconnect) -/
theorem firm_in_force_explicit (tr : List Obs) (c : Conn) (s : Scope) :
    s ∈ firmAfter tr c ↔ ∃ j : Nat, tr[j]? = some (.reply c (.activate s) true) ∧
      ∀ (k : Nat) (o : Obs), j < k → tr[k]? = some o → ¬ endsMarker c s o :=
  mem_firmAfter tr c s

/-- the executable quiescence test the driver uses is the `Quiet` of the specification -/
theorem quiet_monitor_exact (tr : List Obs) : quietB tr = true ↔ Quiet tr := quietB_iff tr

/-- A request of connection `c`, and every action of an updater, leaves the scopes of all other connections
as they are. -/
theorem others_unaffected (cfg : Cfg) (σ σ' : State) (a : Act) : OthersUnaffected cfg σ σ' a := by
  intro hs c' m p hne
  unfold step at hs
  split at hs
  · rename_i c hc
    exact others_stepH cfg σ σ' c c' m p (by intro h; subst h; exact hne hc) hs
  · rename_i k hk
    obtain ⟨_, _, _, _, f5, f6, _⟩ := stepU_frame cfg σ σ' k a.arg (stepUG_some hs)
    simp [listens, f5, f6]

/-- "The scopes of other connections are unaffected", on the tables themselves: an action changes no row of
`_active_connections` / `_subscriptions` but the one of the connection whose request thread acts.  In particular no action
of an updater (`announceUpdate` → `broadcast_event`: listener selection and sends) changes any table entry, under any key.
Strictly stronger than `others_unaffected`: see the example `listens_same_tables_differ` below. -/
theorem tables_others_unaffected (cfg : Cfg) (σ σ' : State) (a : Act) : TablesFrame cfg σ σ' a :=
  tablesFrame cfg σ σ' a

/-- The same for a whole broadcast, as equations: the tables after any action of an updater are the tables before. -/
theorem broadcast_leaves_tables (cfg : Cfg) (σ σ' : State) (k : Nat) (arg : Conn)
    (h : step cfg σ ⟨.u k, arg⟩ = some σ') : σ'.active = σ.active ∧ σ'.subs = σ.subs := by
  obtain ⟨_, _, _, _, f5, f6, _⟩ := stepU_frame cfg σ σ' k arg (stepUG_some h)
  exact ⟨f5, f6⟩

/-- In every reachable state every table entry — a member of `_active_connections`, a member of `_subscriptions[k]` for
whatever string `k` — stands for an activation of that very connection which is still possibly in force: `k` is the
specifier of a module / parameter scope the connection asked for and no reply has ended it yet.  (So what a connection
receives never depends on entries somebody else's request or a broadcast left behind.) -/
theorem tables_own (cfg : Cfg) (hs : Conn → List Req) (us : Nat → List (Mod × Par × Entry))
    (cache : Mod → Par → Entry) (σ : State) (h : Reach cfg (init hs us cache) σ) : TablesOwn σ :=
  tablesOwn_reach cfg hs us cache σ h

/-- `tables_own` without the monitor state: connection `c` is entered under key `k` only if the trace contains a request
marker `activate s` of `c` itself with `s` the module / parameter scope whose specifier is `k`, and no later reply of `c`
ends `s`; likewise for `_active_connections` and the whole-node scope. -/
theorem tables_own_explicit (cfg : Cfg) (hs : Conn → List Req) (us : Nat → List (Mod × Par × Entry))
    (cache : Mod → Par → Entry) (σ : State) (h : Reach cfg (init hs us cache) σ) :
    (∀ c, σ.active c = true → ∃ j : Nat, σ.trace[j]? = some (Obs.reqStart c (.activate .all)) ∧
        ∀ (i : Nat) (o : Obs), j < i → σ.trace[i]? = some o → ¬ endsReply c .all o) ∧
    (∀ k c, σ.subs k c = true → ∃ s, s ≠ Scope.all ∧ s.key = k ∧
        ∃ j : Nat, σ.trace[j]? = some (Obs.reqStart c (.activate s)) ∧
          ∀ (i : Nat) (o : Obs), j < i → σ.trace[i]? = some o → ¬ endsReply c s o) := by
  obtain ⟨h1, h2⟩ := tables_own cfg hs us cache σ h
  refine ⟨fun c hc => (mem_liveAfter' σ.trace c .all).1 (h1 c hc), ?_⟩
  intro k c hk
  obtain ⟨s, hs1, hs2, hs3⟩ := h2 k c hk
  exact ⟨s, hs1, hs2, (mem_liveAfter' σ.trace c s).1 hs3⟩

/-- A scope consists of exported parameters of exported modules only: whatever is activated (also the whole node) and
whatever the updaters assign to (also parameters with `export=False` and parameters of modules that are not exported), every
update that is ever delivered — by a snapshot or by a broadcast — is of a parameter in `cfg.pars m` of a module in `cfg.mods`. -/
theorem only_exported (cfg : Cfg) (hs : Conn → List Req) (us : Nat → List (Mod × Par × Entry))
    (cache : Mod → Par → Entry) (σ : State) (h : Reach cfg (init hs us cache) σ) :
    ∀ c m p e, Obs.deliver c m p e ∈ σ.trace → m ∈ cfg.mods ∧ p ∈ cfg.pars m :=
  (onlyExported_iff cfg σ.trace).1 (expInv_reach cfg hs us cache σ h).tr

/-- the Boolean form the driver evaluates on implementation traces is that statement -/
theorem only_exported_monitor_exact (cfg : Cfg) (tr : List Obs) :
    OnlyExported cfg tr ↔ ∀ c m p e, Obs.deliver c m p e ∈ tr → m ∈ cfg.mods ∧ p ∈ cfg.pars m :=
  onlyExported_iff cfg tr

/-- The lock discipline of the repaired code (`_lock` → `updateLock` → `_subscription_lock`) cannot
deadlock: in no reachable state with an unfinished thread is every thread blocked. -/
theorem deadlock_free (cfg : Cfg) (hs : Conn → List Req) (us : Nat → List (Mod × Par × Entry))
    (cache : Mod → Par → Entry) (hown : ∀ c, us (own c) = []) (σ : State) (h : Reach cfg (init hs us cache) σ)
    (t : Tid) (ht : finished σ t = false) (hreal : ∀ c, t ≠ .u (own c)) : ∃ a, (step cfg σ a).isSome = true :=
  no_deadlock cfg σ (lockInv_reach cfg hs us cache σ h) (ownInv_reach cfg hs us cache hown σ h) t ht hreal

/-- Mutual exclusion, as used above: a lock is owned by exactly the thread whose program counter is
inside the region the lock guards. -/
theorem locks_exclusive (cfg : Cfg) (hs : Conn → List Req) (us : Nat → List (Mod × Par × Entry))
    (cache : Mod → Par → Entry) (σ : State) (h : Reach cfg (init hs us cache) σ) : LockInv σ :=
  lockInv_reach cfg hs us cache σ h

/-! ### round 4: the cache with its time stamps, omitted announcements, updates produced by `read` / `change` requests -/

/-- "… the last message it holds for a parameter equals the node's cache once things are quiet", with the node's cache itself
(`σ.cache`: value or error class AND time stamp of every parameter) instead of the cache reconstructed from the trace: in every
reachable quiet state the last update a connection holds for a parameter firmly in scope IS the entry the node holds — its
qualifier `t` included.  (The harness hands the real node's final cache to the same monitor, `quiescentBadNow`.) -/
theorem quiescent_last_eq_node_cache (cfg : Cfg) (hs : Conn → List Req) (us : Nat → List (Mod × Par × Entry))
    (cache : Mod → Par → Entry) (σ : State) (h : Reach cfg (init hs us cache) σ) :
    QuiescentLastEq cfg σ.cache σ.trace := by
  have h1 := quiescent_last_eq_cache cfg hs us cache σ h
  rw [← cacheAfter_is_cache cfg hs us cache σ h]
  exact h1

/-- The cache changes only by a store that is in the trace: any action either leaves the whole cache — every value, error
class and time stamp — as it is and appends no `emit` event, or it is the store of an announced assignment: it appends
`emit k m p e`, `m:p` now holds exactly `e`, and nothing else changed.  No request-thread action changes the cache. -/
theorem cache_changes_only_by_store (cfg : Cfg) (σ σ' : State) (a : Act) (h : step cfg σ a = some σ') :
    (σ'.cache = σ.cache ∧ ∀ u m p e, σ'.trace ≠ σ.trace ++ [.emit u m p e] ∨ a.t ≠ .u u) ∨
    ∃ k m p e, a.t = .u k ∧ σ'.trace = σ.trace ++ [.emit k m p e] ∧ emits cfg m p (σ.cache m p) e = true ∧
      storedAt σ.cache σ'.cache m p e := by
  unfold step at h
  split at h
  · rename_i c hc
    left
    refine ⟨cache_stepH cfg σ σ' c h, ?_⟩
    intro u m p e; right; rw [hc]; simp
  · rename_i k hk
    rcases cache_stepU cfg σ σ' k a.arg (stepUG_some h) with ⟨h1, h2⟩ | ⟨m, p, e, h1, h2, h3⟩
    · left; exact ⟨h1, fun u m p e => Or.inl (h2 u m p e)⟩
    · right; exact ⟨k, m, p, e, hk, h1, h2, h3⟩

/-- An announcement that is omitted — a repeated identical error, an unchanged value inside the parameter's omit window, a
parameter that is not exported — stores nothing: value, error state and TIME STAMP of the entry stay as they are and no event
is produced (so what the connections hold stays equal to the cache). -/
theorem omitted_announcement_stores_nothing (cfg : Cfg) (σ σ' : State) (k : Nat) (arg : Conn) (m : Mod) (p : Par) (e : Entry)
    (rest : List (Mod × Par × Entry)) (hpc : σ.upc k = .idle) (hsc : σ.uscript k = (m, p, e) :: rest)
    (hem : emits cfg m p (σ.cache m p) e = false) (hs : step cfg σ ⟨.u k, arg⟩ = some σ') :
    σ'.cache = σ.cache ∧ σ'.trace = σ.trace :=
  omitted_stores_nothing cfg σ σ' k arg m p e rest hpc hsc hem (stepUG_some hs)

/-- The omit window, exactly as `announceUpdate` computes it (`not changed and timestamp < (pobj.timestamp or 0) +
omit_unchanged_within`): the same value again for an exported parameter is announced iff its time stamp is at least the
window later than the stored one — also for a window that ends during the run, a window of 0 and time stamps that go back;
a different value, and any value after an error, is always announced; an error is announced iff it is not the same class. -/
theorem omit_window_exact (cfg : Cfg) (m : Mod) (p : Par) (hx : exported cfg m p = true) (v v' : Int) (t t' k k' : Nat) :
    emits cfg m p (.val v t') (.val v t) = decide (t' + cfg.omitWithin m p ≤ t) ∧
    (v' ≠ v → emits cfg m p (.val v' t') (.val v t) = true) ∧
    emits cfg m p (.err k t') (.val v t) = true ∧
    emits cfg m p (.val v t') (.err k t) = true ∧
    emits cfg m p (.err k' t') (.err k t) = decide (k' ≠ k) := by
  refine ⟨?_, ?_, ?_, ?_, ?_⟩
  · by_cases h : t < t' + cfg.omitWithin m p
    · simp [emits, omitted, hx, h, Nat.not_le.mpr h]
    · simp [emits, omitted, hx, h, Nat.not_lt.mp h]
  · intro hv; simp [emits, omitted, hx, hv]
  · simp [emits, omitted, hx]
  · simp [emits, sameErr, hx]
  · by_cases hk : k' = k <;> simp [emits, sameErr, hx, hk]

/-- Updates produced by a connection's own `read` / `change` request.  The announcement of such a request is run by the updater
slot `own c`; in every reachable state that slot is at rest unless the connection's thread is inside the call — it holds
`_lock`, its open request in the trace is that `read` / `change` — and the slot never ends.  Hence every property theorem
above (`no_loss`, `snapshot_complete`, `quiescent_last_eq_cache`, `silent_after_deactivate`, `only_exported`, …), which holds
for the events of all updater slots, holds for the updates a request produces: in particular the requester itself, when the
parameter lies in its firmly-in-force scope, has been sent the value when the announcement returns (`no_loss` for `u = own c`). -/
theorem request_update_within_request (cfg : Cfg) (hs : Conn → List Req) (us : Nat → List (Mod × Par × Entry))
    (cache : Mod → Par → Entry) (hown : ∀ c, us (own c) = []) (σ : State) (h : Reach cfg (init hs us cache) σ) (c : Conn)
    (hbusy : slotIdle σ (own c) = false) :
    σ.disp = some c ∧ ∃ w m p e, matchMon.after matchMon.init σ.trace c = some (.rw w m p e) := by
  have hO := ownInv_reach cfg hs us cache hown σ h
  have hL := lockInv_reach cfg hs us cache σ h
  have hM := matchInv_reach cfg hs us cache σ h
  have hin : inCall (σ.hpc c) = true := by
    cases hc : inCall (σ.hpc c) with
    | true => rfl
    | false => rw [hO.rest c hc] at hbusy; cases hbusy
  refine ⟨(hL.disp c).1 (by cases hpc : σ.hpc c <;> simp_all [inCall]), ?_⟩
  obtain ⟨w, m, p, e, hcur⟩ := inCall_curReq hin
  exact ⟨w, m, p, e, by rw [← hcur]; exact hM.cur c⟩

/-- The same on the trace (`OwnStores`, index form): every store made by the updater slot of connection `c` — every
`emit (own c) m p e` at position `i` — lies inside a `read` / `change` request of `c` for that very parameter, and the entry
stored is the one the request's driver call produced: the request open for `c` after the first `i` events is `read m:p` /
`change m:p` with result `e`.  So a request announces nothing but its own parameter, once, with the value it read / wrote. -/
theorem request_stores_what_the_request_says (cfg : Cfg) (hs : Conn → List Req) (us : Nat → List (Mod × Par × Entry))
    (cache : Mod → Par → Entry) (hown : ∀ c, us (own c) = []) (σ : State) (h : Reach cfg (init hs us cache) σ) :
    OwnStores σ.trace :=
  ownStores_reach cfg hs us cache hown σ h

/-- The checks in front of the driver call (`_getParameterValue` / `_setParameterValue`, transcribed as `rwKindOf`): a request is
refused before anything happens exactly when the specifier names no parameter of any module of the node, or it is a change of a
constant / read-only parameter; it reaches the driver — and may produce an update — exactly when it is a change that is not
refused, or a read of a non-constant parameter whose class defines `read_<p>`. -/
theorem request_checks (look : Mod → Par → Option ParInfo) (w : Bool) (m : Mod) (p : Par) :
    (rwKindOf look w m p = .refuse ↔ look m p = none ∨ ∃ i, look m p = some i ∧ w = true ∧ (i.constant = true ∨ i.readonly = true)) ∧
    (rwKindOf look w m p = .calls ↔ ∃ i, look m p = some i ∧
      ((w = true ∧ i.constant = false ∧ i.readonly = false) ∨ (w = false ∧ i.constant = false ∧ i.hasRead = true))) := by
  unfold rwKindOf
  cases hl : look m p with
  | none => simp
  | some i =>
    cases w <;> cases hc : i.constant <;> cases hr : i.readonly <;> cases hh : i.hasRead <;> simp [hc, hr, hh]

/-- A request the handler refuses as malformed on its first lines (`activate` / `deactivate` / `read` with data, `read` /
`change` without specifier) does nothing: once it holds `_lock` its only continuation is the error reply — tables, cache and
trace are untouched — and it ends no activation (`ends`), whatever it names. -/
theorem malformed_request_refused (cfg : Cfg) (σ : State) (c : Conn) (a s : Name) (hpc : σ.hpc c = .start (.malformed a s))
    (hd : σ.disp = none) :
    (∃ σ', step cfg σ ⟨.h c, 0⟩ = some σ' ∧ σ'.hpc c = .relDisp (.malformed a s) false ∧ σ'.active = σ.active ∧
      σ'.subs = σ.subs ∧ σ'.cache = σ.cache ∧ σ'.trace = σ.trace) ∧ ∀ x, ends (.malformed a s) x = false := by
  constructor
  · have h : step cfg σ ⟨.h c, 0⟩ =
        some { σ with disp := some c, hpc := set σ.hpc c (.relDisp (.malformed a s) false) } := by
      simp [step, stepH, hpc, hd, validReq]
    exact ⟨_, h, by simp, rfl, rfl, rfl, rfl⟩
  · intro x; rfl

/-- The string tests of `Dispatcher.unsubscribe` (`':' in`, `startswith(f'{eventname}:')`, exact key) remove exactly the
subscriptions the deactivation matches — for ALL names, in particular names that are string prefixes of one another
(`T` / `T2`, `target` / `target_max`): a scope that is not matched keeps its table entry, nobody else's entry changes. -/
theorem deactivate_exact (σ : State) (c : Conn) (d : Scope) (c' : Conn) (a : Scope) :
    tableHas (unregister σ c d) c' a = (if c' = c ∧ cancels d a = true then false else tableHas σ c' a) :=
  tableHas_unregister σ c d c' a

/-- prefix-related specifiers are different scopes: deactivating the shorter one does not match the longer one -/
theorem prefix_related_not_cancelled (m m' : Mod) (p p' : Par) :
    (p ≠ p' → cancels (.par m p) (.par m p') = false) ∧
    (m ≠ m' → cancels (.mod m) (.mod m') = false ∧ cancels (.mod m) (.par m' p) = false) := by
  constructor
  · intro h
    have : ¬ p = p' := h
    simp [cancels, this]
  · intro h
    have : ¬ m.val = m'.val := fun e => h (Subtype.ext e)
    simp [cancels, this]

/-- `*IDN?` and disconnect end every activation whatever the outcome of switching remote logging off (`Cfg.logFails`
is universally quantified in `silent_after_deactivate`): the table is cleared before that call, so every entry of
the connection is gone when the reply — positive or an error report — is sent. -/
theorem reset_clears_before_logging (σ : State) (c : Conn) (a : Scope) :
    tableHas (tableWrite σ c .ident) c a = false ∧ tableHas (tableWrite σ c .disconnect) c a = false :=
  ⟨tableHas_write_ends σ c .ident a rfl, tableHas_write_ends σ c .disconnect a rfl⟩

/-- Table fact the harness relies on to tell updates from replies in a connection's log: the reply names of
`activate`, `deactivate`, `*IDN?` (regenerated from `frappy.protocol.messages` on every run) are distinct,
none of them is the update message name, and none starts with the error prefix. -/
theorem reply_names_distinct :
    (Generated.C08.requestReply.map (·.2)).Nodup ∧
    Generated.C08.eventReply ∉ Generated.C08.requestReply.map (·.2) ∧
    (Generated.C08.requestReply.all (fun x => !x.2.startsWith Generated.C08.errorPrefix)) = true := by
  decide +kernel

/-! ### non-vacuity: a concrete interleaving (one connection, one updater, the F16 schedule) -/

def mT : Mod := ⟨['T'], by decide⟩
def mT2 : Mod := ⟨['T', '2'], by decide⟩
def pTarget : Par := ['t', 'a', 'r', 'g', 'e', 't']
def pTargetMax : Par := pTarget ++ ['_', 'm', 'a', 'x']

def exCfg : Cfg := ⟨[mT, mT2], fun _ => [pTarget, pTargetMax], [1], fun _ => false, fun _ _ => 0, fun _ _ _ => .calls⟩
def exInit : State :=
  init (fun c => if c = 1 then [.activate (.par mT pTarget), .deactivate (.par mT pTarget)] else [])
       (fun k => if k = 2 then [(mT, pTarget, .val 7 7), (mT, pTarget, .val 5 5)] else []) (fun _ _ => .val 0 0)

/-- the updater stores 7 and has selected its listeners while the connection is active; the deactivation has
to wait for the delivery -/
def exActs : List Act :=
  [⟨.h 1, 0⟩, ⟨.h 1, 0⟩, ⟨.h 1, 0⟩, ⟨.h 1, 0⟩,       -- marker, disp, register, release sub
   ⟨.u 2, 0⟩, ⟨.u 2, 0⟩,                              -- store 7, select listeners (holds sub)
   ⟨.u 2, 1⟩, ⟨.u 2, 0⟩, ⟨.u 2, 0⟩,                   -- send to 1, release sub, release upd
   ⟨.h 1, 0⟩, ⟨.h 1, 0⟩, ⟨.h 1, 0⟩, ⟨.h 1, 0⟩, ⟨.h 1, 0⟩, ⟨.h 1, 0⟩]  -- snapshot, release, reply

example : ((run exCfg exInit exActs).map (fun σ => σ.trace)) =
    some [.reqStart 1 (.activate (.par mT pTarget)), .emit 2 mT pTarget (.val 7 7), .deliver 1 mT pTarget (.val 7 7), .emitDone 2,
          .deliver 1 mT pTarget (.val 7 7), .reply 1 (.activate (.par mT pTarget)) true] := by decide

example : ∃ σ, Reach exCfg exInit σ ∧ σ.trace.length = 6 ∧ finished σ (.h 1) = false := by
  cases h : run exCfg exInit exActs with
  | none => exact absurd h (by decide)
  | some σ =>
    refine ⟨σ, run_reach exCfg exInit exInit σ exActs Reach.init h, ?_, ?_⟩
    · have : ((run exCfg exInit exActs).map (fun σ => σ.trace.length)) = some 6 := by decide
      rw [h] at this; simpa using this
    · have : ((run exCfg exInit exActs).map (fun σ => finished σ (.h 1))) = some false := by decide
      rw [h] at this; simpa using this

/-- while the updater holds the module's update lock the activating thread cannot start its snapshot (it is
blocked, the updater is not): blocking occurs, deadlock does not -/
example : ((run exCfg exInit (exActs.take 6 ++ [⟨.h 1, 0⟩])).isSome) = false := by decide

/-- a quiescent reachable state in which the hypotheses of `quiescent_last_eq_cache` and `no_loss` are met:
connection 1 stays activated, the updater's value 7 was emitted after the `active` reply, reached the
connection, and is the last message it holds -/
def exInit2 : State :=
  init (fun c => if c = 1 then [.activate (.par mT pTarget)] else [])
       (fun k => if k = 2 then [(mT, pTarget, .val 7 7)] else []) (fun _ _ => .val 0 0)

def exActs2 : List Act :=
  (List.replicate 10 ⟨.h 1, 0⟩) ++ [⟨.u 2, 0⟩, ⟨.u 2, 0⟩, ⟨.u 2, 1⟩, ⟨.u 2, 0⟩, ⟨.u 2, 0⟩, ⟨.u 2, 0⟩, ⟨.h 1, 0⟩]

example : ((run exCfg exInit2 exActs2).map (fun σ =>
      (quietB σ.trace, coveredBy (firmAfter σ.trace 1) mT pTarget, lastDelivered σ.trace 1 mT pTarget, σ.cache mT pTarget,
       finished σ (.h 1), finished σ (.u 2), σ.trace.length))) =
    some (true, true, some (.val 7 7), .val 7 7, true, true, 6) := by rfl

/-- `snapshot_complete_explicit` / `replies_match` are about something: the reachable trace of `exActs2` has an `active`
reply at position 2 (marker at 0, the snapshot item at 1) and a broadcast delivery at position 4 -/
example : ((run exCfg exInit2 exActs2).map (fun σ => (σ.trace[0]?, σ.trace[1]?, σ.trace[2]?, σ.trace[4]?,
      matchMon.accepts σ.trace, (snapMon exCfg (fun _ _ => .val 0 0)).accepts σ.trace))) =
    some (some (.reqStart 1 (.activate (.par mT pTarget))), some (.deliver 1 mT pTarget (.val 0 0)),
          some (.reply 1 (.activate (.par mT pTarget)) true), some (.deliver 1 mT pTarget (.val 7 7)), true, true) := by rfl

/-- `no_loss_explicit` is about something: in the same trace the store is at position 3, the return at 5, connection 1 is
firmly covered at the store, and the delivery is at position 4 -/
example : ((run exCfg exInit2 exActs2).map (fun σ => (σ.trace[3]?, σ.trace[4]?, σ.trace[5]?,
      coveredBy (firmAfter (σ.trace.take 3) 1) mT pTarget, (lossMon exCfg).accepts σ.trace))) =
    some (some (.emit 2 mT pTarget (.val 7 7)), some (.deliver 1 mT pTarget (.val 7 7)), some (.emitDone 2), true, true) := by rfl

/-- the loss monitor is not trivially true: the same trace without the delivery is rejected -/
example : (lossMon exCfg).accepts
    [.reqStart 1 (.activate (.par mT pTarget)), .deliver 1 mT pTarget (.val 0 0), .reply 1 (.activate (.par mT pTarget)) true,
     .emit 2 mT pTarget (.val 7 7), .emitDone 2] = false := by rfl

/-- the match monitor is not trivially true: a reply that answers another request than the open one is rejected -/
example : matchMon.accepts [.reqStart 1 (.activate .all), .reply 1 (.deactivate .all) true] = false := by decide

/-- prefix-related parameters: connection 1 activates `T:target` and `T:target_max`, deactivates `T:target`; an update
of `T:target_max` emitted afterwards still reaches it (the seeded `startswith(eventname)` mutant loses it) -/
def exInit3 : State :=
  init (fun c => if c = 1 then [.activate (.par mT pTarget), .activate (.par mT pTargetMax), .deactivate (.par mT pTarget)] else [])
       (fun k => if k = 2 then [(mT, pTargetMax, .val 3 3)] else []) (fun _ _ => .val 0 0)

example : ((run exCfg exInit3 ((List.replicate 26 (⟨.h 1, 0⟩ : Act)) ++
      [⟨.u 2, 0⟩, ⟨.u 2, 0⟩, ⟨.u 2, 1⟩, ⟨.u 2, 0⟩, ⟨.u 2, 0⟩, ⟨.u 2, 0⟩, ⟨.h 1, 0⟩])).map (fun σ =>
      (lastDelivered σ.trace 1 mT pTargetMax, listens σ 1 mT pTargetMax, listens σ 1 mT pTarget,
       finished σ (.h 1), finished σ (.u 2)))) =
    some (some (.val 3 3), true, false, true, true) := by rfl

/-- remote logging broken: `*IDN?` is answered with an error report, the activation is gone all the same and the update
emitted afterwards is not delivered -/
def exCfgBroken : Cfg := ⟨[mT], fun _ => [pTarget], [1], fun _ => true, fun _ _ => 0, fun _ _ _ => .calls⟩
def exInit4 : State :=
  init (fun c => if c = 1 then [.activate .all, .ident] else [])
       (fun k => if k = 2 then [(mT, pTarget, .val 3 3)] else []) (fun _ _ => .val 0 0)

example : ((run exCfgBroken exInit4 ((List.replicate 16 (⟨.h 1, 0⟩ : Act)) ++
      [⟨.u 2, 0⟩, ⟨.u 2, 0⟩, ⟨.u 2, 0⟩, ⟨.u 2, 0⟩, ⟨.u 2, 0⟩, ⟨.h 1, 0⟩])).map (fun σ =>
      (σ.trace.drop 3, listens σ 1 mT pTarget, finished σ (.h 1), finished σ (.u 2)))) =
    some ([.reqStart 1 .ident, .reply 1 .ident false, .emit 2 mT pTarget (.val 3 3), .emitDone 2], false, true, true) := by rfl

/-- two connections: 1 activates `T:target`, 2 activates the whole node, an update of `T:target` goes to both, 2 deactivates,
the next update goes to 1 only — and between the two the broadcast has left no entry for 2 under `T:target`
(what the seeded in-place `listeners |= …` does) -/
def exCfg2 : Cfg := ⟨[mT], fun _ => [pTarget], [1, 2], fun _ => false, fun _ _ => 0, fun _ _ _ => .calls⟩
def exInit5 : State :=
  init (fun c => if c = 1 then [.activate (.par mT pTarget)] else if c = 2 then [.activate .all, .deactivate .all] else [])
       (fun k => if k = 2 then [(mT, pTarget, .val 1 1), (mT, pTarget, .val 5 5)] else []) (fun _ _ => .val 0 0)

def exActs5a : List Act :=
  List.replicate 10 ⟨.h 1, 0⟩ ++ List.replicate 10 ⟨.h 2, 0⟩ ++ [⟨.u 2, 0⟩, ⟨.u 2, 0⟩, ⟨.u 2, 1⟩, ⟨.u 2, 2⟩, ⟨.u 2, 0⟩, ⟨.u 2, 0⟩]
def exActs5b : List Act :=
  List.replicate 6 ⟨.h 2, 0⟩ ++ [⟨.u 2, 0⟩, ⟨.u 2, 0⟩, ⟨.u 2, 1⟩, ⟨.u 2, 0⟩, ⟨.u 2, 0⟩]

/-- after the first broadcast (both connections were sent the value): the tables hold exactly the two own entries -/
example : ((run exCfg2 exInit5 exActs5a).map (fun σ =>
      (σ.subs (pkey mT pTarget) 1, σ.subs (pkey mT pTarget) 2, σ.active 1, σ.active 2,
       lastDelivered σ.trace 1 mT pTarget, lastDelivered σ.trace 2 mT pTarget))) =
    some (true, false, false, true, some (.val 1 1), some (.val 1 1)) := by rfl

/-- after the global `deactivate` of 2 and the second assignment: 1 holds 5, 2 still holds 1 -/
example : ((run exCfg2 exInit5 (exActs5a ++ exActs5b)).map (fun σ =>
      (σ.subs (pkey mT pTarget) 1, σ.subs (pkey mT pTarget) 2, σ.active 2,
       lastDelivered σ.trace 1 mT pTarget, lastDelivered σ.trace 2 mT pTarget, σ.cache mT pTarget, quietB σ.trace))) =
    some (true, false, false, some (.val 5 5), some (.val 1 1), .val 5 5, true) := by rfl

/-- `tables_own` is about something: a reachable state with entries in both tables -/
example : ∃ σ, Reach exCfg2 exInit5 σ ∧ σ.active 2 = true ∧ σ.subs (pkey mT pTarget) 1 = true ∧
    Scope.all ∈ liveAfter σ.trace 2 ∧ Scope.par mT pTarget ∈ liveAfter σ.trace 1 := by
  cases h : run exCfg2 exInit5 exActs5a with
  | none => exact absurd h (by decide)
  | some σ =>
    have hr := run_reach exCfg2 exInit5 exInit5 σ exActs5a Reach.init h
    have h1 : ((run exCfg2 exInit5 exActs5a).map (fun σ => (σ.active 2, σ.subs (pkey mT pTarget) 1))) = some (true, true) := by rfl
    rw [h] at h1
    simp only [Option.map_some, Option.some.injEq, Prod.mk.injEq] at h1
    have hown := tables_own exCfg2 _ _ _ σ hr
    refine ⟨σ, hr, h1.1, h1.2, hown.1 2 h1.1, ?_⟩
    obtain ⟨s, hs1, hs2, hs3⟩ := hown.2 _ 1 h1.2
    have : s = Scope.par mT pTarget := key_inj s (.par mT pTarget) hs1 (by simp) hs2
    rw [this] at hs3; exact hs3

/-- why the clause is stated on the tables and not only on `listens`: entering the globally active connection 2 under
`T:target` as well (what the seeded change does during a broadcast) changes nobody's `listens` at that moment, but
connection 2 then keeps listening after its global `deactivate` -/
def exPolluted (σ : State) : State := subscribe σ 2 (pkey mT pTarget)

example (σ : State) (h : σ.active 2 = true) :
    (∀ c m p, listens (exPolluted σ) c m p = listens σ c m p) ∧
    listens (unregister (exPolluted σ) 2 .all) 2 mT pTarget = true ∧
    (σ.subs (pkey mT pTarget) 2 = false → σ.subs mT.val 2 = false → listens (unregister σ 2 .all) 2 mT pTarget = false) := by
  refine ⟨?_, ?_, ?_⟩
  · intro c m p
    by_cases hc : c = 2
    · subst hc; simp [listens, exPolluted, subscribe, h]
    · simp [listens, exPolluted, subscribe, hc]
  · simp [listens, exPolluted, subscribe, unregister]
  · intro h1 h2
    have h3 : modPart (pkey mT pTarget) = mT.val := modPart_pkey mT pTarget
    simp [listens, unregister, h1, h2, h3]

/-- `only_exported` is about something: connection 1 is active for the whole node, the updater assigns to the hidden
parameter `#h` of `T` (not in `cfg.pars`) and to a parameter of the module `H` that is not exported: both are stored without
any event, the exported one in between is delivered -/
def mH : Mod := ⟨['H'], by decide⟩
def pHidden : Par := ['#', 'h']
def exInit6 : State :=
  init (fun c => if c = 1 then [.activate .all] else [])
       (fun k => if k = 2 then [(mT, pHidden, .val 4 4), (mT, pTarget, .val 5 5), (mH, pTarget, .val 6 6)] else []) (fun _ _ => .val 0 0)

example : ((run exCfg2 exInit6 ((List.replicate 10 (⟨.h 1, 0⟩ : Act)) ++ [⟨.u 2, 0⟩, ⟨.u 2, 0⟩] ++
      [⟨.u 2, 0⟩, ⟨.u 2, 0⟩, ⟨.u 2, 1⟩, ⟨.u 2, 0⟩, ⟨.u 2, 0⟩] ++ [⟨.u 2, 0⟩, ⟨.u 2, 0⟩, ⟨.u 2, 0⟩])).map (fun σ =>
      (σ.trace.drop 3, finished σ (.u 2), σ.trace.all (exportedOk exCfg2)))) =
    some ([.emit 2 mT pTarget (.val 5 5), .deliver 1 mT pTarget (.val 5 5), .emitDone 2], true, true) := by
  decide +kernel

/-- … and the monitor rejects a delivery of the hidden parameter -/
example : [Obs.reqStart 1 (.activate .all), .deliver 1 mT pHidden (.val 4 4)].all (exportedOk exCfg2) = false := by decide +kernel

/-- the monitors are not trivially true: the pinned tree's log `update 7, inactive, update 5` is rejected … -/
example : silentMon.accepts
    [.reqStart 1 (.activate (.par mT pTarget)), .deliver 1 mT pTarget (.val 0 0), .reply 1 (.activate (.par mT pTarget)) true,
     .deliver 1 mT pTarget (.val 7 7), .reqStart 1 (.deactivate (.par mT pTarget)), .reply 1 (.deactivate (.par mT pTarget)) true,
     .deliver 1 mT pTarget (.val 5 5)] = false := by decide

/-- … and the same log with the late update before the `inactive` reply is accepted -/
example : silentMon.accepts
    [.reqStart 1 (.activate (.par mT pTarget)), .deliver 1 mT pTarget (.val 0 0), .reply 1 (.activate (.par mT pTarget)) true,
     .deliver 1 mT pTarget (.val 7 7), .reqStart 1 (.deactivate (.par mT pTarget)), .deliver 1 mT pTarget (.val 5 5),
     .reply 1 (.deactivate (.par mT pTarget)) true] = true := by decide

/-! ### round 4 examples -/

/-- connection 1 activates `T:target` and then reads it (the driver answers 5 at time 3): its own request thread stores the
value, delivers it to the connection itself, the announcement returns, the reply follows -/
def exInit7 : State :=
  init (fun c => if c = 1 then [.activate (.par mT pTarget), .rw false mT pTarget (.val 5 3)] else []) (fun _ => []) (fun _ _ => .val 0 0)

def exActs7 : List Act :=
  List.replicate 13 ⟨.h 1, 0⟩ ++ [⟨.u 3, 0⟩, ⟨.u 3, 0⟩, ⟨.u 3, 1⟩, ⟨.u 3, 0⟩, ⟨.u 3, 0⟩] ++ List.replicate 4 ⟨.h 1, 0⟩

example : ((run exCfg exInit7 exActs7).map (fun σ => (σ.trace.drop 3, σ.cache mT pTarget, finished σ (.h 1),
      (lossMon exCfg).accepts σ.trace, quiescentBadNow exCfg σ.cache σ.trace))) =
    some ([.reqStart 1 (.rw false mT pTarget (.val 5 3)), .emit 3 mT pTarget (.val 5 3), .deliver 1 mT pTarget (.val 5 3),
           .emitDone 3, .reply 1 (.rw false mT pTarget (.val 5 3)) true], .val 5 3, true, true, none) := by
  rfl

/-- `request_update_within_request` is about something: in the middle of that run the slot `own 1 = 3` is busy, connection 1
holds `_lock` and its open request is the `read` -/
example : ((run exCfg exInit7 (exActs7.take 15)).map (fun σ => (slotIdle σ (own 1), σ.disp,
      matchMon.after matchMon.init σ.trace 1))) = some (false, some 1, some (.rw false mT pTarget (.val 5 3))) := by
  decide +kernel

/-- `request_stores_what_the_request_says` is about something: in that run the store by slot 3 is at position 4 and the request
open for connection 1 after the first 4 events is the `read` with that result -/
example : ((run exCfg exInit7 exActs7).map (fun σ => (σ.trace[4]?, matchMon.after matchMon.init (σ.trace.take 4) 1))) =
    some (some (.emit 3 mT pTarget (.val 5 3)), some (.rw false mT pTarget (.val 5 3))) := by rfl

/-- the slot cannot run ahead of the request (before the call it is blocked), and the request cannot return before the
announcement is done -/
example : (run exCfg exInit7 (List.replicate 12 ⟨.h 1, 0⟩ ++ [⟨.u 3, 0⟩])).isSome = false ∧
    (run exCfg exInit7 (List.replicate 14 ⟨.h 1, 0⟩)).isSome = false := by decide +kernel

/-- the trace of the seeded "pending read" change (the requester is left out of the listeners of its own read) is rejected by
the loss monitor and by the quiescence monitor -/
example : (lossMon exCfg).accepts
    [.reqStart 1 (.activate (.par mT pTarget)), .deliver 1 mT pTarget (.val 0 0), .reply 1 (.activate (.par mT pTarget)) true,
     .reqStart 1 (.rw false mT pTarget (.val 5 3)), .emit 3 mT pTarget (.val 5 3), .emitDone 3,
     .reply 1 (.rw false mT pTarget (.val 5 3)) true] = false ∧
    (quiescentBadNow exCfg (fun _ _ => .val 5 3)
    [.reqStart 1 (.activate (.par mT pTarget)), .deliver 1 mT pTarget (.val 0 0), .reply 1 (.activate (.par mT pTarget)) true,
     .reqStart 1 (.rw false mT pTarget (.val 5 3)), .emit 3 mT pTarget (.val 5 3), .emitDone 3,
     .reply 1 (.rw false mT pTarget (.val 5 3)) true]).isSome = true := by decide +kernel

/-- `request_checks` on a small table: `T:target` is writable without `read_` function, `T:target_max` read-only with one -/
example : let look : Mod → Par → Option ParInfo := fun m p =>
      if m = mT ∧ p = pTarget then some ⟨false, false, false⟩ else if m = mT ∧ p = pTargetMax then some ⟨true, false, true⟩ else none
    (rwKindOf look true mT pTarget, rwKindOf look false mT pTarget, rwKindOf look true mT pTargetMax,
     rwKindOf look false mT pTargetMax, rwKindOf look false mT2 pTarget) = (.calls, .plain, .refuse, .calls, .refuse) := by
  decide +kernel

/-- `deactivate T` with data is refused and ends nothing: the module activation stays in force, the update stored afterwards
is delivered -/
def exInit11 : State :=
  init (fun c => if c = 1 then [.activate (.mod mT), .malformed ['d', 'e', 'a', 'c', 't'] ['T']] else [])
       (fun k => if k = 2 then [(mT, pTarget, .val 1 1)] else []) (fun _ _ => .val 0 0)

example : ((run exCfg exInit11 (List.replicate 17 ⟨.h 1, 0⟩ ++ [⟨.u 2, 0⟩, ⟨.u 2, 0⟩, ⟨.u 2, 1⟩, ⟨.u 2, 0⟩, ⟨.u 2, 0⟩])).map (fun σ =>
      (σ.trace.drop 4, finished σ (.h 1), listens σ 1 mT pTarget))) =
    some ([.reqStart 1 (.malformed ['d', 'e', 'a', 'c', 't'] ['T']), .reply 1 (.malformed ['d', 'e', 'a', 'c', 't'] ['T']) false,
           .emit 2 mT pTarget (.val 1 1), .deliver 1 mT pTarget (.val 1 1), .emitDone 2], true, true) := by rfl

/-- a `change` takes `accessLock` twice, a `write_` function that raises announces nothing and the reply is an error report -/
def exInit8 : State :=
  init (fun c => if c = 1 then [.rw true mT pTarget (.err 0 4)] else []) (fun _ => []) (fun _ _ => .val 0 0)

example : ((run exCfg exInit8 (List.replicate 9 ⟨.h 1, 0⟩)).map (fun σ => (σ.trace, finished σ (.h 1), σ.cache mT pTarget))) =
    some ([.reqStart 1 (.rw true mT pTarget (.err 0 4)), .reply 1 (.rw true mT pTarget (.err 0 4)) false], true, .val 0 0) := by
  decide +kernel

/-- the omit window of 3 on `T:target`: the same value 1 at times 1, 2 (inside: omitted, the entry keeps time stamp 1) and
4 (the window is over: announced) — the hypotheses of `omitted_announcement_stores_nothing` and `cache_changes_only_by_store`
are met along a reachable run -/
def exCfgW : Cfg := ⟨[mT], fun _ => [pTarget], [1], fun _ => false, fun _ _ => 3, fun _ _ _ => .calls⟩
def exInit9 : State :=
  init (fun c => if c = 1 then [.activate .all] else [])
       (fun k => if k = 2 then [(mT, pTarget, .val 1 1), (mT, pTarget, .val 1 2), (mT, pTarget, .val 1 4)] else []) (fun _ _ => .val 0 0)

def exActs9a : List Act := List.replicate 10 ⟨.h 1, 0⟩ ++ [⟨.u 2, 0⟩, ⟨.u 2, 0⟩, ⟨.u 2, 1⟩, ⟨.u 2, 0⟩, ⟨.u 2, 0⟩]

example : ((run exCfgW exInit9 exActs9a).map (fun σ => (σ.upc 2, σ.uscript 2, σ.cache mT pTarget,
      emits exCfgW mT pTarget (σ.cache mT pTarget) (.val 1 2)))) =
    some (.idle, [(mT, pTarget, .val 1 2), (mT, pTarget, .val 1 4)], .val 1 1, false) := by rfl

example : ((run exCfgW exInit9 (exActs9a ++ [⟨.u 2, 0⟩, ⟨.u 2, 0⟩] ++ [⟨.u 2, 0⟩, ⟨.u 2, 0⟩, ⟨.u 2, 1⟩, ⟨.u 2, 0⟩, ⟨.u 2, 0⟩])).map (fun σ =>
      (σ.trace.drop 3, σ.cache mT pTarget, lastDelivered σ.trace 1 mT pTarget))) =
    some ([.emit 2 mT pTarget (.val 1 1), .deliver 1 mT pTarget (.val 1 1), .emitDone 2,
           .emit 2 mT pTarget (.val 1 4), .deliver 1 mT pTarget (.val 1 4), .emitDone 2], .val 1 4, some (.val 1 4)) := by
  decide +kernel

/-- what the seeded "refresh the time stamp of an omitted value" change produces — the node holds (1, t = 2) while the
connection's last message says t = 1 and no store is in the trace — is rejected when the node's cache is given to the monitor -/
example : (quiescentBadNow exCfgW (fun _ _ => .val 1 2)
    [.reqStart 1 (.activate .all), .deliver 1 mT pTarget (.val 0 0), .reply 1 (.activate .all) true,
     .emit 2 mT pTarget (.val 1 1), .deliver 1 mT pTarget (.val 1 1), .emitDone 2]).isSome = true ∧
    (quiescentBadNow exCfgW (fun _ _ => .val 1 1)
    [.reqStart 1 (.activate .all), .deliver 1 mT pTarget (.val 0 0), .reply 1 (.activate .all) true,
     .emit 2 mT pTarget (.val 1 1), .deliver 1 mT pTarget (.val 1 1), .emitDone 2]) = none := by decide +kernel

/-- initial states other than a plain value: the cache holds the start-up state "not initialized" (error class 2, no time
stamp) for `T:target`; the snapshot of `activate` delivers it like everything else (`snapshot_complete` holds for every initial
cache), and the monitor rejects a snapshot that leaves it out -/
def exInit10 : State :=
  init (fun c => if c = 1 then [.activate (.mod mT)] else []) (fun _ => [])
       (fun _ p => if p = pTarget then .err 2 0 else .val 0 0)

example : ((run exCfg exInit10 (List.replicate 13 ⟨.h 1, 0⟩)).map (fun σ => σ.trace)) =
    some [.reqStart 1 (.activate (.mod mT)), .deliver 1 mT pTarget (.err 2 0), .deliver 1 mT pTargetMax (.val 0 0),
          .reply 1 (.activate (.mod mT)) true] := by decide +kernel

example : (snapMon exCfg (fun _ p => if p = pTarget then .err 2 0 else .val 0 0)).accepts
    [.reqStart 1 (.activate (.mod mT)), .deliver 1 mT pTargetMax (.val 0 0), .reply 1 (.activate (.mod mT)) true] = false := by
  decide +kernel

end Frappy.Props.C08
