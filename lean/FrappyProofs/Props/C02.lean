import FrappyModel.Spec.C02
import FrappyModel.Generated.C02
namespace Frappy.Proofs.C02
open Frappy Frappy.Datatypes

/-- the words `BoolType.from_string` knows, as extracted from the source, are the model's -/
theorem bool_words_table :
    Generated.C02.boolTrueWords = boolTrueWords ∧ Generated.C02.boolFalseWords = boolFalseWords ∧
    Generated.C02.dumpsKeywords = [] := by decide

end Frappy.Proofs.C02
