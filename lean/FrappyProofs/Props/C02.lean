import FrappyProofs.Lemmas.WireCore
import FrappyProofs.Lemmas.ClientOf
import FrappyProofs.Lemmas.TextRoundtrip
import FrappyProofs.Lemmas.ClientText
import FrappyProofs.Lemmas.RatWireLaws
import FrappyProofs.Lemmas.TextLibRat
import FrappyProofs.Lemmas.Base64RT
import FrappyProofs.Lemmas.JsonTextRat
import FrappyModel.Generated.C02
/-
C02 — property theorems (nothing but property theorems and their non-vacuity examples).

For every float carrier `F` satisfying `Spec.C02.WireLaws`, every datatype tree `dt` with `dt.WF`
(what the constructors enforce), every valid value `v` (`Spec.C02.Valid`: in the declared value set,
every scaled leaf reproduced by the grid), under the library laws `JsonText.loads_dumps` / `TextLib.Lawful` (one per
library function, tested on the implementation side).  The base64 law `B64Law` is no hypothesis any more: it is proved
for the model's encoder and strict decoder (`Lemmas.C02.b64Law`); that these two agree with CPython's `base64` is checked
by the correspondence run.
-/
set_option linter.unusedSectionVars false
namespace Frappy.Props.C02
open Frappy.Spec.C01 Frappy.Spec.C02 Frappy.Datatypes Frappy.Lemmas.C02
open PVal (pyEq)

variable {F : Type} [FloatOps F] [WireLaws F]

/-! ## the exported form is strict JSON of the prescribed kind -/

theorem export_kind (dt : DType F) (hwf : dt.WF) (v : PVal F) (hv : Valid dt v) :
    ∃ j, exportValue dt v = .ok j ∧ KindOK dt j ∧ StrictJ j := by
  obtain ⟨j, _, h1, h2, h3, _⟩ := wire_core dt v hwf hv b64Law
  exact ⟨j, h1, h2, h3⟩

/-! ## importing it again on the node yields a value equal to `v` -/

theorem wire_roundtrip_node (dt : DType F) (hwf : dt.WF) (v : PVal F) (hv : Valid dt v) :
    ∃ v', (exportValue dt v >>= importValue dt) = .ok v' ∧ pyEq v' v = true := by
  obtain ⟨j, v', h1, _, _, _, h4, h5, _⟩ := wire_core dt v hwf hv b64Law
  exact ⟨v', by rw [h1]; exact h4, h5⟩

/-- … through the JSON text: any `dumps`/`loads` pair that reads back what it wrote for strict values -/
theorem wire_roundtrip_text (T : JsonText F) (dt : DType F) (hwf : dt.WF) (v : PVal F) (hv : Valid dt v) :
    ∃ j v', exportValue dt v = .ok j ∧ T.loads (T.dumps j) = some j ∧ importValue dt j = .ok v' ∧ pyEq v' v = true := by
  obtain ⟨j, v', h1, _, h3, _, h4, h5, _⟩ := wire_core dt v hwf hv b64Law
  exact ⟨j, v', h1, T.loads_dumps j h3, h4, h5⟩

/-- a canonical value (no `-0.0` leaf: what validation returns) comes back as the very same value, not only an equal one -/
theorem wire_roundtrip_exact (dt : DType F) (hwf : dt.WF) (v : PVal F) (hv : Valid dt v) (hc : Canon v) :
    (exportValue dt v >>= importValue dt) = .ok v := by
  obtain ⟨j, v', h1, _, _, _, h4, _, h6⟩ := wire_core dt v hwf hv b64Law
  rw [h1, ← h6 hc]
  exact h4

/-! ## … and on a client that rebuilt the datatype from the node's description -/

/-- `import_value` of the rebuilt datatype is `import_value` of the node's datatype -/
theorem client_imports_alike (dt cdt : DType F) (hc : clientOf dt = some cdt) (j : JVal F) :
    importValue cdt j = importValue dt j := import_clientOf dt cdt j hc

theorem wire_roundtrip_client (T : JsonText F) (dt cdt : DType F) (hwf : dt.WF) (hc : clientOf dt = some cdt)
    (v : PVal F) (hv : Valid dt v) :
    ∃ j v', exportValue dt v = .ok j ∧ T.loads (T.dumps j) = some j ∧ importValue cdt j = .ok v' ∧ pyEq v' v = true := by
  obtain ⟨j, v', h1, h2, h4, h5⟩ := wire_roundtrip_text T dt hwf v hv
  exact ⟨j, v', h1, h2, by rw [client_imports_alike dt cdt hc]; exact h4, h5⟩

/-! ## the text form is accepted back and maps to a value with the identical text form -/

/-- every well-formed tree (structs included), every valid canonical value (structs of node-side types given with all
their members: `TextComplete`; nothing is asked on a client's type): `to_string`
answers a text, `from_string` accepts it, the value it is read as has the identical text form and equals `v` at every
non-float leaf -/
theorem text_roundtrip (lib : TextLib F) (hl : TextLib.Lawful lib) (dt : DType F) (hwf : dt.WF)
    (v : PVal F) (hv : Valid dt v) (hc : Canon v) (htc : TextComplete dt v) :
    ∃ t v', toString lib dt v = some t ∧ fromString lib dt t = .ok v' ∧ toString lib dt v' = some t ∧
      SameButFloats v' v := by
  obtain ⟨t, v', h1, h2, h3, h4, _⟩ := text_rt lib hl dt (wft_of_wf dt hwf) v hv hc htc
  exact ⟨t, v', h1, h2, h3, h4⟩

/-- … the same on the datatype a client rebuilt from the description, for every valid value of it (structs may lack
their optional members there: every rebuilt struct has `client = True`) -/
theorem text_roundtrip_client (lib : TextLib F) (hl : TextLib.Lawful lib) (dt cdt : DType F) (hwf : dt.WF)
    (hc : clientOf dt = some cdt) (v : PVal F) (hv : Valid cdt v) (hcan : Canon v) :
    ∃ t v', toString lib cdt v = some t ∧ fromString lib cdt t = .ok v' ∧ toString lib cdt v' = some t ∧
      SameButFloats v' v := by
  obtain ⟨t, v', h1, h2, h3, h4, _⟩ := text_rt lib hl cdt (wft_clientOf dt cdt (wft_of_wf dt hwf) hc) v hv hcan
    (textComplete_clientOf dt cdt v hc)
  exact ⟨t, v', h1, h2, h3, h4⟩

/-! ### recorded finding: the format law is necessary — where it fails at a double leaf, the text form changes

`'%.1f' % -0.04` is `'-0.0'`, which `from_string` reads as `-0.0 + 0.0 = 0.0`, whose text form is `'0.0'`: the text form
offered for the valid value `-0.04` maps to a value with another text form (`known_findings/C02.json`,
`C02:text:form-changed:neg-zero-text`).  The two library facts are tested on the implementation side; the rest is this theorem. -/

theorem text_form_changes_where_format_law_fails (lib : TextLib F) (min max ar rr x : F) (w : PVal F) (r : F)
    (h1 : lib.evalAtom (lib.fmtFloat [] x) = some w) (h2 : PVal.toFloat? w = some r) (hn : FloatOps.isNaN r = false)
    (h3 : lib.fmtFloat [] (FloatOps.median3 (FloatOps.neg FloatOps.maxFinite) r FloatOps.maxFinite) ≠ lib.fmtFloat [] x) :
    ∃ t v', toString lib (.double min max ar rr) (.float x) = some t ∧ fromString lib (.double min max ar rr) t = .ok v' ∧
      toString lib (.double min max ar rr) v' ≠ some t := by
  refine ⟨.syn (.atom (lib.fmtFloat [] x)), .float (FloatOps.median3 (FloatOps.neg FloatOps.maxFinite) r FloatOps.maxFinite), rfl, ?_, ?_⟩
  · simp [fromString, literalEval, h1, call, conv, doubleCall_of_number h2 hn, Except.map]
  · intro h
    simp only [Datatypes.toString, formatValue, fmtNumber, Option.map_some, Option.some.injEq, Text.syn.injEq, Surf.atom.injEq] at h
    exact h3 h

/-- the same at a scaled leaf (`ScaledInteger(0.01).from_string('-0.0')` is `0.0`) -/
theorem text_form_changes_where_format_law_fails_scaled (lib : TextLib F) (scale min max ar rr x : F) (w : PVal F) (r y : F)
    (h1 : lib.evalAtom (lib.fmtFloat [] x) = some w) (h2 : PVal.toFloat? w = some r) (hs : DType.snap scale r = some y)
    (hf : FloatOps.isFinite y = true) (h3 : lib.fmtFloat [] y ≠ lib.fmtFloat [] x) :
    ∃ t v', toString lib (.scaled scale min max ar rr) (.float x) = some t ∧
      fromString lib (.scaled scale min max ar rr) t = .ok v' ∧ toString lib (.scaled scale min max ar rr) v' ≠ some t := by
  refine ⟨.syn (.atom (lib.fmtFloat [] x)), .float y, rfl, ?_, ?_⟩
  · simp [fromString, literalEval, h1, call, conv, scaledCall_of_number h2 hs hf, Except.map]
  · intro h
    simp only [Datatypes.toString, formatValue, fmtNumber, Option.map_some, Option.some.injEq, Text.syn.injEq, Surf.atom.injEq] at h
    exact h3 h

/-! ## what `setParameterFromString` puts on the wire imports, on the node, to the value the text was read as -/

/-- for every valid canonical value `v` held in the client's cache (a value of the rebuilt type `cdt`), the text
`str(CacheItem)` is read back by `from_string` as some `v'` with the identical text form (equal to `v` at every
non-float leaf); the value `setParameterFromString` sends is of the kind prescribed by the node's type, strict, and
imports on the node to a value equal to `v'`.  (A re-read float may lie outside the limits — `'%g' % 123456789.0`
reads back as `123457000.0`; `import_value` does not look at limits, the `change` request validates.) -/
theorem client_string_write (lib : TextLib F) (hl : TextLib.Lawful lib) (dt cdt : DType F) (hwf : dt.WF)
    (hc : clientOf dt = some cdt) (v : PVal F) (hv : Valid cdt v) (hcan : Canon v) :
    ∃ t v' j v'', cacheItemStr lib cdt v = some t ∧ fromString lib cdt t = .ok v' ∧ toString lib cdt v' = some t ∧
      SameButFloats v' v ∧ clientSetFromString lib cdt t = .ok j ∧ KindOK dt j ∧ StrictJ j ∧
      importValue dt j = .ok v'' ∧ pyEq v'' v' = true := by
  obtain ⟨t, v', h1, h2, h3, h4, hs⟩ := text_rt lib hl cdt (wft_clientOf dt cdt (wft_of_wf dt hwf) hc) v hv hcan
    (textComplete_clientOf dt cdt v hc)
  obtain ⟨j, v'', e1, e2, e3, _, e4, e5, _⟩ := send_core dt v' hwf (sendable_clientOf dt cdt v' hc hs) b64Law
  exact ⟨t, v', j, v'', h1, h2, h3, h4, by simp [clientSetFromString, clientSet, h2, export_clientOf dt cdt v' hc, e1], e2, e3, e4, e5⟩

/-- the whole path of a value through a client: the node exports the canonical valid value `v` (`update` message), the
client's `updateValue` imports it into a cache entry holding exactly `v`, `str(entry)` is a text `from_string` accepts,
reading it as `v'` (same text form, equal to `v` at every non-float leaf), and what `setParameterFromString` sends for
that text is strict JSON of the prescribed kind which the node imports to a value equal to `v'`.
`LimitsOnGrid dt`: the grid law at the limits of the scaled leaves (the limits travel as grid indices; nothing is asked
of a tree without scaled leaves) — then `v` is a valid value of the rebuilt type as well (`Lemmas.C02.valid_clientOf`). -/
theorem client_cache_string_write (lib : TextLib F) (hl : TextLib.Lawful lib) (dt cdt : DType F) (hwf : dt.WF)
    (hlim : LimitsOnGrid dt) (hc : clientOf dt = some cdt) (v : PVal F) (hv : Valid dt v) (hcan : Canon v) :
    ∃ j item t v' j' v'', exportValue dt v = .ok j ∧ updateValue cdt j = .ok item ∧ item.value = v ∧
      item.str lib cdt = some t ∧ fromString lib cdt t = .ok v' ∧ toString lib cdt v' = some t ∧ SameButFloats v' v ∧
      clientSetFromString lib cdt t = .ok j' ∧ KindOK dt j' ∧ StrictJ j' ∧ importValue dt j' = .ok v'' ∧ pyEq v'' v' = true := by
  obtain ⟨j, w, h1, _, _, _, h4, _, h6⟩ := wire_core dt v hwf hv b64Law
  have hw : w = v := h6 hcan
  subst hw
  obtain ⟨t, v', j', v'', c1, c2, c3, c4, c5, c6, c7, c8, c9⟩ :=
    client_string_write lib hl dt cdt hwf hc w (valid_clientOf dt cdt w hlim hc hv) hcan
  exact ⟨j, ⟨w, none⟩, t, v', j', v'', h1, by simp [updateValue, client_imports_alike dt cdt hc, h4], rfl, c1, c2, c3, c4, c5,
    c6, c7, c8, c9⟩

/-! ## a command call of the client: the argument arrives on the node, the result arrives on the client -/

/-- `execCommand(module, command, v)` for every valid canonical value `v` of the argument type the client rebuilt
(`cdt`): the argument it sends is strict JSON of the kind the *node's* argument type prescribes, and the node's
`import_value` (`Command.do`) makes of it the very value `v`; when the command answers with that value (result type =
argument type), the node exports it and `execCommand` returns the very value `v` again — the export/import pair of the
wire clause on the one client path that does not pass the cache. -/
theorem client_command_roundtrip (dt cdt : DType F) (hwf : dt.WF) (hc : clientOf dt = some cdt)
    (v : PVal F) (hv : Valid cdt v) (hcan : Canon v) :
    ∃ j, clientExecArg cdt v = .ok j ∧ KindOK dt j ∧ StrictJ j ∧ importValue dt j = .ok v ∧
      echoCommand dt cdt j = .ok v := by
  have hs : Sendable dt v :=
    sendable_clientOf dt cdt v hc (valid_sendable_wft cdt v (wft_clientOf dt cdt (wft_of_wf dt hwf) hc) hv)
  obtain ⟨j, w, e1, e2, e3, _, e4, _, e6⟩ := send_core dt v hwf hs b64Law
  have hw : w = v := e6 hcan
  subst hw
  refine ⟨j, by simp [clientExecArg, export_clientOf dt cdt w hc, e1], e2, e3, e4, ?_⟩
  simp [echoCommand, clientExecResult, e4, e1, client_imports_alike dt cdt hc]

/-- … for a value that is not canonical (a `-0.0` leaf) the node's argument and the client's result are equal to it -/
theorem client_command_roundtrip_eq (dt cdt : DType F) (hwf : dt.WF) (hc : clientOf dt = some cdt)
    (v : PVal F) (hv : Valid cdt v) :
    ∃ j a, clientExecArg cdt v = .ok j ∧ KindOK dt j ∧ StrictJ j ∧ importValue dt j = .ok a ∧ pyEq a v = true := by
  have hs : Sendable dt v :=
    sendable_clientOf dt cdt v hc (valid_sendable_wft cdt v (wft_clientOf dt cdt (wft_of_wf dt hwf) hc) hv)
  obtain ⟨j, w, e1, e2, e3, _, e4, e5, _⟩ := send_core dt v hwf hs b64Law
  exact ⟨j, w, by simp [clientExecArg, export_clientOf dt cdt v hc, e1], e2, e3, e4, e5⟩

/-! ## the base64 leaf: proved, not assumed -/

/-- `b64decode(b64encode(b), validate=True) == b` holds of the model's encoder (`Base64.encode`) and strict decoder
(`Base64.decode?`) for every byte string — formerly the hypothesis `B64Law` of every theorem above -/
theorem base64_roundtrip : ∀ b : List UInt8, Base64.decode? (Base64.encode b) = some b := b64Law

/-! ## constants of the source -/

/-- the words `BoolType.from_string` knows and the `json.dumps` settings of `encode_msg_frame` (none: `allow_nan`
stays on, so strictness is a property of the exported values — `export_kind` — not of the encoder) -/
theorem source_tables :
    Generated.C02.boolTrueWords = boolTrueWords ∧ Generated.C02.boolFalseWords = boolFalseWords ∧
    Generated.C02.dumpsKeywords = [] := by decide

/-! ## non-vacuity: a concrete tree and value over the exact carrier -/

/-- `struct {a: tuple(scaled 1/10 in [0,10]), b: array of enum, c: string}` with `c` optional -/
def exTree : DType Rat :=
  .struct [("a", .tuple [.scaled (1/10) 0 10 (1/10) 0]), ("b", .array (.enum [("off", 0), ("on", 1)]) 0 3),
    ("c", .string 0 5 true)] ["c"] false

def exValue : PVal Rat := .dict [("b", .tuple [.enum "on" 1, .enum "off" 0]), ("a", .tuple [.float (33/10)])]

theorem exTree_wf : exTree.WF := by
  have : exTree.wfB = true := by decide +kernel
  simp [exTree, DType.WF, DType.WFList, DType.WFFields, DType.namesOK, FloatOps.isFinite, DType.positive, DType.nonneg,
    FloatOps.isNaN, FloatOps.le, FloatOps.lt, FloatOps.abs, FloatOps.maxFinite, FloatOps.ofInt, RatCarrier.big]
  decide +kernel

theorem exValue_valid : Valid exTree exValue := by
  have : validB exTree exValue = true := by decide +kernel
  exact of_decide_eq_true this

example : (match exportValue exTree exValue with
    | .ok j => kindOKB exTree j && strictB j
    | _ => false) = true := by decide +kernel

example : ∃ v', (exportValue exTree exValue >>= importValue exTree) = .ok v' ∧ pyEq v' exValue = true :=
  wire_roundtrip_node exTree exTree_wf exValue exValue_valid

example : ∃ cdt, clientOf exTree = some cdt := ⟨_, rfl⟩

/-! non-vacuity of the wire law: `exJsonText` (`Lemmas/JsonTextRat.lean`) is a `dumps`/`loads` pair over `Rat` that reads
back every value it wrote -/

example : ∃ j v', exportValue exTree exValue = .ok j ∧ exJsonText.loads (exJsonText.dumps j) = some j ∧
    importValue exTree j = .ok v' ∧ pyEq v' exValue = true :=
  wire_roundtrip_text exJsonText exTree exTree_wf exValue exValue_valid

/-! non-vacuity of the text theorems: a library satisfying every law of `TextLib.Lawful` (`Lemmas/TextLibRat.lean`), the
struct tree above with a node-side value that has all its members, and — on the rebuilt type — the value without its
optional member -/

def exValueFull : PVal Rat :=
  .dict [("b", .tuple [.enum "on" 1, .enum "off" 0]), ("a", .tuple [.float (33/10)]), ("c", .str "x'y")]

/-- what a client rebuilds from the description of `exTree` -/
def exClient : DType Rat :=
  .struct [("a", .tuple [.scaled (1/10) 0 10 (1/10) 0]), ("b", .array (.enum [("off", 0), ("on", 1)]) 0 3),
    ("c", .string 0 5 true)] ["c"] true

theorem exTree_limits : LimitsOnGrid exTree := by
  have h0 : DType.snap (1/10 : Rat) 0 = some 0 := by decide +kernel
  have h10 : DType.snap (1/10 : Rat) 10 = some 10 := by decide +kernel
  simp only [exTree, LimitsOnGrid, LimitsOnGridFields, LimitsOnGridList, and_true, h0, h10, Option.some.injEq]
  refine ⟨fun lo h => ?_, fun hi h => ?_⟩
  · subst h; decide +kernel
  · subst h; decide +kernel

theorem exClient_eq : clientOf exTree = some exClient := by
  simp [exTree, exClient, clientOf, clientOfFields, clientOfList, clientScaled, DType.gridIndex, FloatOps.div, FloatOps.round,
    FloatOps.ofInt, FloatOps.mul]
  decide +kernel

example : ∃ j v', exportValue exTree exValue = .ok j ∧ exJsonText.loads (exJsonText.dumps j) = some j ∧
    importValue exClient j = .ok v' ∧ pyEq v' exValue = true :=
  wire_roundtrip_client exJsonText exTree exClient exTree_wf exClient_eq exValue exValue_valid

example : ∃ t v', toString exLib exTree exValueFull = some t ∧ fromString exLib exTree t = .ok v' ∧
    toString exLib exTree v' = some t ∧ SameButFloats v' exValueFull :=
  text_roundtrip exLib exLib_lawful exTree exTree_wf
    exValueFull
    (of_decide_eq_true (by decide +kernel : validB exTree exValueFull = true))
    (by simp [exValueFull, Canon, CanonFields, CanonList, FloatOps.same, FloatOps.addZero])
    (by simp [exTree, exValueFull, TextComplete, TextCompleteMember, TextCompleteZip])

example : ∃ t v' j v'', cacheItemStr exLib exClient exValue = some t ∧ fromString exLib exClient t = .ok v' ∧
    toString exLib exClient v' = some t ∧ SameButFloats v' exValue ∧ clientSetFromString exLib exClient t = .ok j ∧
    KindOK exTree j ∧ StrictJ j ∧ importValue exTree j = .ok v'' ∧ pyEq v'' v' = true :=
  client_string_write exLib exLib_lawful exTree exClient exTree_wf exClient_eq
    exValue
    (of_decide_eq_true (by decide +kernel : validB exClient exValue = true))
    (by simp [exValue, Canon, CanonFields, CanonList, FloatOps.same, FloatOps.addZero])

example : (exportValue exTree exValue >>= importValue exTree) = .ok exValue :=
  wire_roundtrip_exact exTree exTree_wf exValue exValue_valid
    (by simp [exValue, Canon, CanonFields, CanonList, FloatOps.same, FloatOps.addZero])

example : ∃ j item t v' j' v'', exportValue exTree exValue = .ok j ∧ updateValue exClient j = .ok item ∧
    item.value = exValue ∧ item.str exLib exClient = some t ∧ fromString exLib exClient t = .ok v' ∧
    toString exLib exClient v' = some t ∧ SameButFloats v' exValue ∧ clientSetFromString exLib exClient t = .ok j' ∧
    KindOK exTree j' ∧ StrictJ j' ∧ importValue exTree j' = .ok v'' ∧ pyEq v'' v' = true :=
  client_cache_string_write exLib exLib_lawful exTree exClient exTree_wf exTree_limits exClient_eq
    exValue exValue_valid
    (by simp [exValue, Canon, CanonFields, CanonList, FloatOps.same, FloatOps.addZero])

example : ∃ j, clientExecArg exClient exValue = .ok j ∧ KindOK exTree j ∧ StrictJ j ∧
    importValue exTree j = .ok exValue ∧ echoCommand exTree exClient j = .ok exValue :=
  client_command_roundtrip exTree exClient exTree_wf exClient_eq exValue
    (of_decide_eq_true (by decide +kernel : validB exClient exValue = true))
    (by simp [exValue, Canon, CanonFields, CanonList, FloatOps.same, FloatOps.addZero])

example : ∃ j a, clientExecArg exClient exValue = .ok j ∧ KindOK exTree j ∧ StrictJ j ∧
    importValue exTree j = .ok a ∧ pyEq a exValue = true :=
  client_command_roundtrip_eq exTree exClient exTree_wf exClient_eq exValue
    (of_decide_eq_true (by decide +kernel : validB exClient exValue = true))

example : Base64.encode [0, 255, 16, 7] = "AP8QBw==" ∧ Base64.decode? "AP8QBw==" = some [0, 255, 16, 7] := by decide +kernel

/-- a library whose float format is not idempotent at `1` (it prints `1` as a text that reads back as `0`, which prints
otherwise): the hypotheses of `text_form_changes_where_format_law_fails` are satisfiable -/
def exLibBad : TextLib Rat := { exLib with fmtFloat := fun _ x => if x = 1 then "i+" else "f" }

example : ∃ t v', toString exLibBad (.double 0 10 0 0) (.float (1 : Rat)) = some t ∧
    fromString exLibBad (.double 0 10 0 0) t = .ok v' ∧ toString exLibBad (.double 0 10 0 0) v' ≠ some t :=
  text_form_changes_where_format_law_fails exLibBad 0 10 0 0 1 (.int 0) 0
    (by
      have : "i+".toList = ['i', '+'] := by decide +kernel
      simp [exLibBad, exLib, this])
    rfl rfl
    (by
      have h : FloatOps.median3 (FloatOps.neg FloatOps.maxFinite) (0 : Rat) FloatOps.maxFinite = 0 := by decide +kernel
      simp only [h]
      simp [exLibBad])

example : ∃ t v', toString exLibBad (.scaled (1/10) 0 10 0 0) (.float (1 : Rat)) = some t ∧
    fromString exLibBad (.scaled (1/10) 0 10 0 0) t = .ok v' ∧ toString exLibBad (.scaled (1/10) 0 10 0 0) v' ≠ some t :=
  text_form_changes_where_format_law_fails_scaled exLibBad (1/10) 0 10 0 0 1 (.int 0) 0 0
    (by
      have : "i+".toList = ['i', '+'] := by decide +kernel
      simp [exLibBad, exLib, this])
    rfl (by decide +kernel) (by decide +kernel) (by simp [exLibBad])

/-- a tree without struct for the text theorem: `array of tuple(enum)` (one-member tuples) -/
def exTextTree : DType Rat := .array (.tuple [.enum [("off", 0), ("on", 1)]]) 0 3

def exTextValue : PVal Rat := .tuple [.tuple [.enum "on" 1], .tuple [.enum "off" 0]]

example : exTextTree.wfB = true ∧ validB exTextTree exTextValue = true := by decide +kernel

example : ∃ t v', toString exLib exTextTree exTextValue = some t ∧ fromString exLib exTextTree t = .ok v' ∧
    toString exLib exTextTree v' = some t ∧ SameButFloats v' exTextValue :=
  text_roundtrip exLib exLib_lawful exTextTree
    (by simp [exTextTree, DType.WF, DType.WFList, DType.namesOK])
    exTextValue
    (of_decide_eq_true (by decide +kernel : validB exTextTree exTextValue = true))
    (by simp [exTextValue, Canon, CanonList])
    (by simp [exTextTree, exTextValue, TextComplete, TextCompleteZip])

end Frappy.Props.C02
