import FrappyProofs.Lemmas.WireCore
import FrappyProofs.Lemmas.ClientOf
import FrappyProofs.Lemmas.TextRoundtrip
import FrappyProofs.Lemmas.RatWireLaws
import FrappyModel.Generated.C02
/-
C02 — property theorems (nothing but property theorems and their non-vacuity examples).

For every float carrier `F` satisfying `Spec.C02.WireLaws`, every datatype tree `dt` with `dt.WF`
(what the constructors enforce), every valid value `v` (`Spec.C02.Valid`: in the declared value set,
every scaled leaf reproduced by the grid), under the library laws `B64Law` / `JsonText.loads_dumps` /
`TextLib.Lawful` (one per library function, tested on the implementation side).
-/
set_option linter.unusedSectionVars false
namespace Frappy.Props.C02
open Frappy.Spec.C01 Frappy.Spec.C02 Frappy.Datatypes Frappy.Lemmas.C02
open PVal (pyEq)

variable {F : Type} [FloatOps F] [WireLaws F]

/-! ## the exported form is strict JSON of the prescribed kind -/

theorem export_kind (dt : DType F) (hwf : dt.WF) (v : PVal F) (hv : Valid dt v) (hb : B64Law) :
    ∃ j, exportValue dt v = .ok j ∧ KindOK dt j ∧ StrictJ j := by
  obtain ⟨j, _, h1, h2, h3, _⟩ := wire_core dt v hwf hv hb
  exact ⟨j, h1, h2, h3⟩

/-! ## importing it again on the node yields a value equal to `v` -/

theorem wire_roundtrip_node (dt : DType F) (hwf : dt.WF) (v : PVal F) (hv : Valid dt v) (hb : B64Law) :
    ∃ v', (exportValue dt v >>= importValue dt) = .ok v' ∧ pyEq v' v = true := by
  obtain ⟨j, v', h1, _, _, _, h4, h5⟩ := wire_core dt v hwf hv hb
  exact ⟨v', by rw [h1]; exact h4, h5⟩

/-- … through the JSON text: any `dumps`/`loads` pair that reads back what it wrote for strict values -/
theorem wire_roundtrip_text (T : JsonText F) (dt : DType F) (hwf : dt.WF) (v : PVal F) (hv : Valid dt v) (hb : B64Law) :
    ∃ j v', exportValue dt v = .ok j ∧ T.loads (T.dumps j) = some j ∧ importValue dt j = .ok v' ∧ pyEq v' v = true := by
  obtain ⟨j, v', h1, _, h3, _, h4, h5⟩ := wire_core dt v hwf hv hb
  exact ⟨j, v', h1, T.loads_dumps j h3, h4, h5⟩

/-! ## … and on a client that rebuilt the datatype from the node's description -/

/-- `import_value` of the rebuilt datatype is `import_value` of the node's datatype -/
theorem client_imports_alike (dt cdt : DType F) (hc : clientOf dt = some cdt) (j : JVal F) :
    importValue cdt j = importValue dt j := import_clientOf dt cdt j hc

theorem wire_roundtrip_client (T : JsonText F) (dt cdt : DType F) (hwf : dt.WF) (hc : clientOf dt = some cdt)
    (v : PVal F) (hv : Valid dt v) (hb : B64Law) :
    ∃ j v', exportValue dt v = .ok j ∧ T.loads (T.dumps j) = some j ∧ importValue cdt j = .ok v' ∧ pyEq v' v = true := by
  obtain ⟨j, v', h1, h2, h4, h5⟩ := wire_roundtrip_text T dt hwf v hv hb
  exact ⟨j, v', h1, h2, by rw [client_imports_alike dt cdt hc]; exact h4, h5⟩

/-! ## the text form is accepted back and maps to a value with the identical text form -/

/-- full statement: every well-formed tree (structs included), every valid canonical value (structs of node-side types
given with all members, `TextComplete`), enum names that `strip` leaves alone -/
def text_roundtrip_statement (F : Type) [FloatOps F] [WireLaws F] : Prop :=
  ∀ (lib : TextLib F), TextLib.Lawful lib → ∀ (dt : DType F), dt.WF → NamesStripped lib dt →
  ∀ (v : PVal F), Valid dt v → Canon v → TextComplete dt v →
  ∃ t v', toString lib dt v = some t ∧ fromString lib dt t = .ok v' ∧ toString lib dt v' = some t ∧ SameButFloats v' v

/-- proved part: every tree without a struct node (all leaf kinds, arrays, tuples — the one-member tuple included).
Missing: the struct case (the model and the monitors cover it; the correspondence run judges it on the implementation). -/
theorem text_roundtrip_partial (lib : TextLib F) (hl : TextLib.Lawful lib) (dt : DType F) (hwf : dt.WF)
    (hns : NoStruct dt) (hnames : NamesStripped lib dt) (v : PVal F) (hv : Valid dt v) (hc : Canon v) :
    ∃ t v', toString lib dt v = some t ∧ fromString lib dt t = .ok v' ∧ toString lib dt v' = some t ∧
      SameButFloats v' v := by
  have core := text_core lib hl dt [] v hwf hns hv hc
  cases dt with
  | string minc maxc utf8 =>
    cases v <;> simp only [Valid, InSetG] at hv <;> try exact hv.elim
    case str s =>
      have h := string_rt (F := F) hv
      exact ⟨.bare s, .str s, rfl, by simp [fromString, h, Except.map], rfl, by simp [SameButFloats]⟩
  | enum ms =>
    cases v <;> simp only [Valid, InSetG] at hv <;> try exact hv.elim
    case enum n k =>
      simp only [DType.WF] at hwf
      simp only [NamesStripped] at hnames
      have hs : lib.strip n = n := hnames (n, k) hv
      have hf := find_member_name hv hwf.2.1
      exact ⟨.bare n, .enum n k, rfl, by simp [fromString, hs, hf], rfl, by simp [SameButFloats]⟩
  | bool =>
    cases v <;> simp only [Valid, InSetG] at hv <;> try exact hv.elim
    case bool b =>
      refine ⟨.bare (lib.reprBool b), .bool b, rfl, ?_, rfl, by simp [SameButFloats]⟩
      cases b
      · simp [fromString, hl.boolWordFalse, boolFalseWords]
      · simp [fromString, hl.boolWordTrue, boolFalseWords, boolTrueWords]
  | double min max ar rr =>
    obtain ⟨s, w, v', h1, h2, h3, h4, h5⟩ := core
    exact ⟨.syn s, v', by simp [Datatypes.toString, h1], by simp [fromString, h2, h3], by simp [Datatypes.toString, h4], h5⟩
  | int min max =>
    obtain ⟨s, w, v', h1, h2, h3, h4, h5⟩ := core
    exact ⟨.syn s, v', by simp [Datatypes.toString, h1], by simp [fromString, h2, h3], by simp [Datatypes.toString, h4], h5⟩
  | scaled scale min max ar rr =>
    obtain ⟨s, w, v', h1, h2, h3, h4, h5⟩ := core
    exact ⟨.syn s, v', by simp [Datatypes.toString, h1], by simp [fromString, h2, h3], by simp [Datatypes.toString, h4], h5⟩
  | blob minb maxb =>
    obtain ⟨s, w, v', h1, h2, h3, h4, h5⟩ := core
    exact ⟨.syn s, v', by simp [Datatypes.toString, h1], by simp [fromString, h2, h3], by simp [Datatypes.toString, h4], h5⟩
  | array elem lo hi =>
    obtain ⟨s, w, v', h1, h2, h3, h4, h5⟩ := core
    exact ⟨.syn s, v', by simp [Datatypes.toString, h1], by simp [fromString, h2, h3], by simp [Datatypes.toString, h4], h5⟩
  | tuple elems =>
    obtain ⟨s, w, v', h1, h2, h3, h4, h5⟩ := core
    exact ⟨.syn s, v', by simp [Datatypes.toString, h1], by simp [fromString, h2, h3], by simp [Datatypes.toString, h4], h5⟩
  | struct ms opt cl => simp [NoStruct] at hns

/-! ## what `setParameterFromString` puts on the wire imports, on the node, to the value the text was read as -/

/-- full statement: for every valid canonical value `v` held in the client's cache, the text `str(CacheItem)` is read
back as some `v'`, and the value sent imports on the node to a value equal to `v'` -/
def client_string_write_statement (F : Type) [FloatOps F] [WireLaws F] : Prop :=
  ∀ (lib : TextLib F), TextLib.Lawful lib → B64Law → ∀ (dt cdt : DType F), dt.WF → clientOf dt = some cdt →
  NamesStripped lib cdt → ∀ (v : PVal F), Valid cdt v → Canon v →
  ∃ t v' j v'', cacheItemStr lib cdt v = some t ∧ fromString lib cdt t = .ok v' ∧ clientSetFromString lib cdt t = .ok j ∧
    KindOK dt j ∧ StrictJ j ∧ importValue dt j = .ok v'' ∧ pyEq v'' v' = true

/-- proved part: whenever the value the text is read as is a valid value of the node's type (always so when the type
has no float leaf, where `text_roundtrip_partial` gives `v' = v` leaf by leaf; a re-read float may leave the limits),
the value sent is the exported form — strict, of the prescribed kind — and imports on the node to a value equal to it.
Missing: validity of the re-read value for float leaves. -/
theorem client_string_write_partial (lib : TextLib F) (hb : B64Law) (dt cdt : DType F) (hwf : dt.WF)
    (hc : clientOf dt = some cdt) (t : Text) (v' : PVal F) (hback : fromString lib cdt t = .ok v') (hv' : Valid dt v') :
    ∃ j v'', clientSetFromString lib cdt t = .ok j ∧ KindOK dt j ∧ StrictJ j ∧ importValue dt j = .ok v'' ∧
      pyEq v'' v' = true := by
  obtain ⟨j, v'', h1, h2, h3, _, h4, h5⟩ := wire_core dt v' hwf hv' hb
  exact ⟨j, v'', by simp [clientSetFromString, hback, export_clientOf dt cdt v' hc, h1], h2, h3, h4, h5⟩

/-! ## constants of the source -/

/-- the words `BoolType.from_string` knows and the `json.dumps` settings of `encode_msg_frame` (none: `allow_nan`
stays on, so strictness is a property of the exported values — `export_kind` — not of the encoder) -/
theorem source_tables :
    Generated.C02.boolTrueWords = boolTrueWords ∧ Generated.C02.boolFalseWords = boolFalseWords ∧
    Generated.C02.dumpsKeywords = [] := by decide

/-! ## non-vacuity: a concrete tree and value over the exact carrier -/

/-- `struct {a: tuple(scaled 1/10 in [0,10]), b: array of enum, c: string}` with `c` optional -/
def exTree : DType Rat :=
  .struct [("a", .tuple [.scaled (1/10) 0 10 (1/10) 0]), ("b", .array (.enum [("off", 0), ("on", 1)]) 0 3),
    ("c", .string 0 5 true)] ["c"] false

def exValue : PVal Rat := .dict [("b", .tuple [.enum "on" 1, .enum "off" 0]), ("a", .tuple [.float (33/10)])]

theorem exTree_wf : exTree.WF := by
  have : exTree.wfB = true := by decide +kernel
  simp [exTree, DType.WF, DType.WFList, DType.WFFields, DType.namesOK, FloatOps.isFinite, DType.positive, DType.nonneg,
    FloatOps.isNaN, FloatOps.le, FloatOps.lt, FloatOps.abs, FloatOps.maxFinite, FloatOps.ofInt, RatCarrier.big]
  decide +kernel

theorem exValue_valid : Valid exTree exValue := by
  have : validB exTree exValue = true := by decide +kernel
  exact of_decide_eq_true this

example : (match exportValue exTree exValue with
    | .ok j => kindOKB exTree j && strictB j
    | _ => false) = true := by decide +kernel

example (hb : B64Law) : ∃ v', (exportValue exTree exValue >>= importValue exTree) = .ok v' ∧ pyEq v' exValue = true :=
  wire_roundtrip_node exTree exTree_wf exValue exValue_valid hb

example : ∃ cdt, clientOf exTree = some cdt := ⟨_, rfl⟩

/-- a tree without struct for the text theorem: `array of tuple(enum)` (one-member tuples) -/
def exTextTree : DType Rat := .array (.tuple [.enum [("off", 0), ("on", 1)]]) 0 3

def exTextValue : PVal Rat := .tuple [.tuple [.enum "on" 1], .tuple [.enum "off" 0]]

example : exTextTree.wfB = true ∧ validB exTextTree exTextValue = true := by decide +kernel

end Frappy.Props.C02
