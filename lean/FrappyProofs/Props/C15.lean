import FrappyModel.Spec.C15
namespace Frappy.Proofs.C15
open Frappy.Lifecycle Frappy.Spec.C15

theorem placeholder : True := trivial

end Frappy.Proofs.C15
