import FrappyProofs.Lemmas.LifecycleGroups
import FrappyProofs.Lemmas.LifecycleOnce
import FrappyProofs.Lemmas.LifecycleParams
import FrappyProofs.Lemmas.LifecycleRestart
import FrappyProofs.Lemmas.MultiEvent
import FrappyModel.Generated.C15
/-
C15 — Lifecycle: initialise, write config, poll, serve; shutdown in reverse order.
Property theorems over `FrappyModel.Klass.Lifecycle` against `FrappyModel.Spec.C15`.

Proved for every configuration, fuel, schedule and choice function of `set.pop()` (whole runs):
`attached_ready`, `no_half_start`, `ready_after_first_round`; `sorted_modules_topological` (every graph with a
topological numbering); `shutdown_phase_order`, `shutdown_order_whole_run` (resolved attachments assumed acyclic);
`init_order_once_partial` (one early, one init, in order, for every initialised module of a node that came up; every
module of the creation loop initialised; the start phase logs exactly the start loop); `ready_only_after_first_round`.
Start-up faults (any exception in `write_<p>`, `initialReads`, the first polls): `write_faults_lose_no_write`,
`startup_sequence_complete`, `writes_precede_polls_in_prologue`, `no_write_after_first_poll` (full: whole run, any
faults, no hypothesis), `writes_before_first_poll_partial` (exactly once and before the first poll — **any faults**,
communication failures in initial reads and first polls included, since the `fix:` commit that makes up for the
skipped `writeInitParams`); `comm_failure_writes_made_up` / `unrepaired_prologue_skips_writes` show the former finding
`C15:writes_skipped_after_comm_failure` gone on the model of the repaired code and present on the sequence of the
unrepaired code.
Added in round 6: `hooks_at_most_once` (full: every life of a node, rejected ones included — no hook of any module runs
twice), `init_order_once_of_up` + `declared_modules_exist` (the clause `InitOrderOnce` itself for every node that came up),
`handle_writes_registers_start_values` (`Module._handle_writes`: exactly the configured start values are registered,
whatever the default), `configuration_linked` (the former hypothesis `Linked`, proved from the invariant `LI` of
`get_module` / `create_modules`), hence `writes_before_first_poll` and `start_values_handed_over` — the clauses of the
specification on the whole log against the module list of the configuration (hypothesis: Pinatas static) —, and
`rejected_parameter_reported`.
Kept as `…_statement` (not proved; evidence = correspondence run + monitors): `init_order_once_statement` (missing: a clean
configuration produces no error; existence of Pinata products / automatic communicators),
`bad_attachment_reported_statement` (its second half is `no_half_start`), `writes_before_first_poll_statement` (proved as
`writes_before_first_poll` under the additional hypothesis `StaticPinatas`), `shutdown_order_statement` (declared instead
of resolved attachments).
Added in round 7 (restart = further rounds of `Server.run` on the same `Server` object): `restart_same_configuration`
(a round of a node without Pinatas hands `srv.module_cfg` to the next round exactly as it was loaded), hence
`restart_round_like_first` (every round of such a node is the first round: same log, same state — so every theorem of
this file holds for every round); `restart_rounds_partial` (every configuration: declared modules stay declared by
name); `restart_rounds_statement` (nodes with Pinatas, whose products are entries of
`module_cfg` from the second round on) is kept as a statement, with a checked instance.
-/
namespace Frappy.Proofs.C15
open Frappy.Lifecycle Frappy.Spec.C15 Frappy.Proofs.Lifecycle Frappy.Proofs.LifecycleInit Frappy.Proofs.LifecycleWait
  Frappy.Proofs.LifecycleWrites Frappy.Proofs.LifecycleGroups Frappy.Proofs.LifecycleOnce Frappy.Proofs.LifecycleParams
  Frappy.Proofs.LifecycleRestart

/-- a finite graph on `mods` is acyclic: it has a topological numbering (with numbers up to the number of modules —
the length of the longest path) -/
def Acyclic (mods : List Name) (att : Name → List Name) : Prop :=
  ∃ rank : Name → Nat, (∀ u ∈ mods, ∀ d ∈ att u, rank d < rank u) ∧ ∀ m ∈ mods, rank m ≤ mods.length

/-- `_getSortedModules` returns a topological order (users first) of the attachment graph, on every acyclic graph
and for every way `unmarked.pop()` may choose: every module exactly once, and never a module before one of its users. -/
theorem sorted_modules_topological (mods : List Name) (att : Name → List Name) (pick : List Name → Nat)
    (hclosed : ∀ u ∈ mods, ∀ d ∈ att u, d ∈ mods) (hacyc : Acyclic mods att) :
    (getSortedModules mods att pick).Nodup ∧
    (∀ m, m ∈ getSortedModules mods att pick ↔ m ∈ mods) ∧
    (getSortedModules mods att pick).Pairwise (fun a b => a ∉ att b) := by
  obtain ⟨rank, hr, hb⟩ := hacyc
  exact getSortedModules_spec att mods rank pick hclosed hr hb

example : Acyclic ["u", "io", "x"] (fun n => if n = "u" then ["io"] else if n = "x" then ["u", "io"] else []) :=
  ⟨fun n => if n = "x" then 2 else if n = "u" then 1 else 0, by decide, by decide⟩

/-- full statement of the shutdown clause for a whole life of the node, against the *declared* attachments -/
def shutdown_order_statement : Prop :=
  ∀ (cfg : Cfg) (fuel : Nat) (sched : List Act) (pick : List Name → Nat),
    let r := run cfg fuel sched pick
    r.st.oof = false → r.st.errors = [] →
    ShutdownOrder r.st.modules
      ((declaredEdges (allMods cfg r.st.ioDict) r.st.ioDict).filter (fun e => (names (allMods cfg r.st.ioDict)).contains e.2))
      r.log

/-- the shutdown clause for a whole life of the node (every schedule, every choice function), against the *resolved*
attachments (`attachedModules`) of the started node, which are assumed acyclic and closed.  Missing for
`shutdown_order_statement`: that a node which came up has resolved exactly its declared attachments and that they are
acyclic (this is what `get_module` checks; the invariant `edges ⊆ completion order` is not proved). -/
theorem shutdown_order_whole_run (cfg : Cfg) (fuel : Nat) (sched : List Act) (pick : List Name → Nat)
    (herr : (run cfg fuel sched pick).st.errors = [])
    (hclosed : ∀ e ∈ (run cfg fuel sched pick).st.edges,
      e.1 ∈ (run cfg fuel sched pick).st.modules → e.2 ∈ (run cfg fuel sched pick).st.modules)
    (hacyc : ∃ rank : Name → Nat, (∀ e ∈ (run cfg fuel sched pick).st.edges, rank e.2 < rank e.1) ∧
      ∀ m ∈ (run cfg fuel sched pick).st.modules, rank m ≤ (run cfg fuel sched pick).st.modules.length) :
    ShutdownOrder (run cfg fuel sched pick).st.modules (run cfg fuel sched pick).st.edges
      (run cfg fuel sched pick).log := by
  rw [(run_log cfg fuel sched pick).1] at herr hclosed hacyc ⊢
  rw [(run_log cfg fuel sched pick).2]
  simp only [herr, List.isEmpty_nil, if_true, laterPart]
  have : (startup cfg fuel).log ++ (waitPhase (startup cfg fuel) sched ++ [Ev.shutdownbegin] ++
      shutdownLog (startup cfg fuel).modules (threadsOf (startup cfg fuel)) (startup cfg fuel).edges pick) =
      ((startup cfg fuel).log ++ (waitPhase (startup cfg fuel) sched ++ [Ev.shutdownbegin])) ++
      shutdownLog (startup cfg fuel).modules (threadsOf (startup cfg fuel)) (startup cfg fuel).edges pick := by
    simp [List.append_assoc]
  rw [this]
  obtain ⟨rank, hr, hb⟩ := hacyc
  exact shutdownOrder_prefix _ _ _ _ (before_shutdown_plain cfg fuel sched)
    (shutdownLog_order _ _ _ pick rank (startup_modsNd cfg fuel) hclosed hr hb)
    (shutdownLog_stop_all _ _ _ pick (startup_modsNd cfg fuel))

/-- proved part: the shutdown phase (`shutdown_modules`) of the model stops every poll thread first, shuts every
module down exactly once and users before the modules attached to them, whenever the resolved attachments of the
started node are acyclic — for every choice function.  Missing for the full statement: that the log of the earlier
phases contains no shutdown events, and that a node which came up has exactly the declared attachments resolved and
acyclic (both hold on every configuration of the correspondence run). -/
theorem shutdown_phase_order (mods threads : List Name) (edges : List (Name × Name)) (pick : List Name → Nat)
    (hnd : mods.Nodup) (hclosed : ∀ e ∈ edges, e.1 ∈ mods → e.2 ∈ mods)
    (hacyc : ∃ rank : Name → Nat, (∀ e ∈ edges, rank e.2 < rank e.1) ∧ ∀ m ∈ mods, rank m ≤ mods.length) :
    ShutdownOrder mods edges (shutdownLog mods threads edges pick) := by
  obtain ⟨rank, hr, hb⟩ := hacyc
  exact shutdownLog_order mods threads edges pick rank hnd hclosed hr hb

example : ∃ rank : Name → Nat, (∀ e ∈ [("u", "io"), ("x", "u")], rank e.2 < rank e.1) ∧
    ∀ m ∈ ["io", "u", "x"], rank m ≤ ["io", "u", "x"].length :=
  ⟨fun n => if n = "x" then 2 else if n = "u" then 1 else 0, by decide, by decide⟩

/-- `ready_after_first_round`, full: in every life of the node (every configuration, schedule of start loop / poll
threads / clock, choice function) `ready` is logged at most once, and before it every poll thread that is ever started
has been started and has reported its first round, or the deadline has passed and the thread is named as timed out. -/
theorem ready_after_first_round (cfg : Cfg) (fuel : Nat) (sched : List Act) (pick : List Name → Nat) :
    ReadyAfterFirstRound (run cfg fuel sched pick).log :=
  run_ready cfg fuel sched pick

/-- the same at the level of the machine, for every schedule: at the moment the waiting main
thread reports ready, the start loop is complete and every poll thread that was started has reported its first round,
or the deadline has passed and the thread is named as timed out.  Missing for the full statement: the bookkeeping that
turns "at the moment of `ready`" into positions in the complete log. -/
theorem ready_only_after_first_round (st : St) (sched : List Act) :
    let w := waitRun (waitInit st) sched
    w.ready = false → (wakeStep w).ready = true →
      w.mainTodo = [] ∧
      ∀ t, Ev.thread t ∈ w.log →
        Ev.rounddone t ∈ w.log ∨ (w.expired = true ∧ Ev.timeout t ∈ (wakeStep w).log) := by
  intro w hr hw
  have hinv : WInv w := winv_run sched _ (winv_init st)
  have hm : w.mainTodo = [] := by
    cases hme : w.mainTodo with
    | nil => rfl
    | cons a l => simp [wakeStep, hr, hme] at hw
  refine ⟨hm, ?_⟩
  intro t ht
  rcases hinv.pend t ht with hp | hp
  · right
    have hne : w.pending.isEmpty = false := by
      cases hpe : w.pending with
      | nil => rw [hpe] at hp; cases hp
      | cons a l => rfl
    cases he : w.expired with
    | false => simp [wakeStep, hr, hm, hne, he] at hw
    | true =>
      refine ⟨rfl, ?_⟩
      simp only [wakeStep, hr, hm, hne, he, List.isEmpty_nil, Bool.not_true, Bool.or_self, if_true,
        Bool.false_eq_true, if_false, List.mem_append, List.mem_map, List.mem_singleton]
      exact Or.inl (Or.inr ⟨t, hp, rfl⟩)
  · exact Or.inl hp

def modA : ModCfg := { (default : ModCfg) with name := "a", poll := true }

example : (waitRun (waitInit { modules := ["a"], groups := [("a", "a")], mcfg := [modA] })
    [.main, .main, .step "a"]).ready = false := by
  decide +kernel

example : (wakeStep (waitRun (waitInit { modules := ["a"], groups := [("a", "a")], mcfg := [modA] })
    [.main, .main, .step "a", .step "a", .step "a"])).ready = true := by
  decide +kernel

/-- proved part of `init_order_once`: in every life of a node that came up (no errors; every schedule and choice
function) every initialised module has exactly one `early` and exactly one `init` event in the whole log, in that
order; every module produced by the creation loop is initialised (unless the fuel bound was hit); and the start
phase logs exactly the start loop — one `start` per module of the node, in declaration order — whatever the schedule.
Missing for the full statement: that no module is created after the creation loop (so that "initialised" covers all
of `modules`), the position of `start m` after `init m` stated on the log, and that a clean configuration produces no
error. -/
theorem init_order_once_partial (cfg : Cfg) (fuel : Nat) (sched : List Act) (pick : List Name → Nat)
    (herr : (run cfg fuel sched pick).st.errors = []) :
    (∀ m ∈ (run cfg fuel sched pick).st.inited,
      OnceInOrder (Ev.early m) (Ev.init m) (run cfg fuel sched pick).log) ∧
    ((run cfg fuel sched pick).st.oof = false →
      ∀ m ∈ (createLoop cfg.dyn fuel fuel cfg.mods { known := cfg.mods }).modules,
        m ∈ (run cfg fuel sched pick).st.inited) ∧
    (waitPhase (run cfg fuel sched pick).st sched).filter isMainEv = startEvents (run cfg fuel sched pick).st := by
  rw [(run_log cfg fuel sched pick).1] at herr ⊢
  rw [(run_log cfg fuel sched pick).2]
  have hcore : (core cfg fuel).errors = [] := by
    rw [startup_eq] at herr
    split at herr
    · exact herr
    · simpa [emit] using herr
  have hst : startup cfg fuel = core cfg fuel := by
    rw [startup_eq]; simp [hcore]
  refine ⟨?_, ?_, start_loop_complete _ sched⟩
  · intro m hm
    simp only [herr, List.isEmpty_nil, if_true]
    rw [hst] at hm ⊢
    apply onceInOrder_append _ _ _ _ (core_once cfg fuel hcore m hm)
    · intro h; have := (later_no_init _ sched pick _ h).2; simp [isInitEv] at this
    · intro h; have := (later_no_init _ sched pick _ h).2; simp [isInitEv] at this
  · intro hoof m hm
    rw [hst] at hoof ⊢
    exact core_created_inited cfg fuel hoof m hm

/-- "exactly once and in that order", the part demanded of **every** life of a node, full: for every configuration —
failing early / late initialisation, missing, wrongly typed and cyclic attachments included — every fuel, schedule and
choice function, and every module: `earlyInit`, `initModule` and `startModule` each run at most once in the whole log,
however often the module is reached (the attachments of several users, the creation loop, the description of the
exported modules), `initModule` is never entered without `earlyInit` and never before it.  (The class of seeded change
C15-m7: a module whose initialisation failed is initialised again each time it is reached.) -/
theorem hooks_at_most_once (cfg : Cfg) (fuel : Nat) (sched : List Act) (pick : List Name → Nat) :
    HooksAtMostOnce (run cfg fuel sched pick).log := by
  apply hooksAtMostOnce_of
  intro m
  rw [(run_log cfg fuel sched pick).2]
  have ht := top_core cfg fuel
  have hk := top_hookOk _ ht m
  have h0 := top_no_start _ ht m
  have hS : HookOk m (startup cfg fuel).log ∧ (startup cfg fuel).log.count (Ev.start m) = 0 := by
    rw [startup_eq]
    split
    · exact ⟨hk, h0⟩
    · simp only [emit]
      refine ⟨hookOk_append m _ _ hk h0 (by intro e he; simp at he; subst he; rfl) (by simp), ?_⟩
      rw [List.count_append, h0]; simp
  split
  · have hl := later_hooks (startup cfg fuel) sched pick (startup_modsNd cfg fuel) m
    exact hookOk_append m _ _ hS.1 hS.2 hl.2 hl.1
  · exact hS.1

/-- the clause speaks about something: a module whose `initModule` fails, used by two other modules and exported, is
reached four times (two users, the creation loop, the description) and initialised once; the node is rejected -/
def onceD : ModCfg := { (default : ModCfg) with name := "d", exported := true, failInit := true }
def onceU : ModCfg := { (default : ModCfg) with name := "u", atts := [⟨"a0", some "d", true, 0⟩], touchInit := ["a0"] }
def onceV : ModCfg := { (default : ModCfg) with name := "v", atts := [⟨"a0", some "d", true, 0⟩], touchEarly := ["a0"] }
def onceCfg : Cfg := { mods := [onceU, onceV, onceD], dyn := [] }

example : (run onceCfg 20 [] (fun _ => 0)).log =
    [Ev.early "u", Ev.init "u", Ev.early "d", Ev.init "d", Ev.early "v", Ev.exit] ∧
    (run onceCfg 20 [] (fun _ => 0)).st.errors.length = 3 := by
  decide +kernel

/-- ... and a second initialisation of the failed module (what the judge sees on the seeded change) breaks the clause -/
example : ¬ HooksAtMostOnce [Ev.early "u", Ev.init "u", Ev.early "d", Ev.init "d", Ev.early "v", Ev.early "d",
    Ev.init "d", Ev.exit] := by
  decide

/-- "each module is early-initialised, then initialised, then started, exactly once and in that order", for **every node
that came up** — the clause of the specification itself, on the whole log: every configuration (any attachment graph,
shared and automatic communicators, Pinatas), every schedule and choice function.  (Behind it: `core_nothing_created_late`
— when the creation loop of `create_modules` is through, every description the node knows has been tried, so a life that
ends without an error creates no module after it — hence every module of the node is covered by the initialisation
loop; `hooks` of the start phase from `start_loop_complete`.)  Missing for `init_order_once_statement`: that a clean
configuration produces no error and that every described module is created. -/
theorem init_order_once_of_up (cfg : Cfg) (fuel : Nat) (sched : List Act) (pick : List Name → Nat)
    (herr : (run cfg fuel sched pick).st.errors = []) (hoof : (run cfg fuel sched pick).st.oof = false) :
    InitOrderOnce (run cfg fuel sched pick).st.modules (run cfg fuel sched pick).log :=
  run_init_order_once cfg fuel sched pick herr hoof

/-- ... and every declared module is one of them: in a node that came up every module the configuration declares exists
(so `init_order_once_of_up` covers it).  Still missing for `init_order_once_statement`: that a clean configuration
produces no error, and the existence of the modules the Pinatas produce and of the automatic communicators. -/
theorem declared_modules_exist (cfg : Cfg) (fuel : Nat) (sched : List Act) (pick : List Name → Nat)
    (herr : (run cfg fuel sched pick).st.errors = []) (hoof : (run cfg fuel sched pick).st.oof = false) :
    ∀ c ∈ cfg.mods, c.name ∈ (run cfg fuel sched pick).st.modules := by
  rw [(run_log cfg fuel sched pick).1] at herr hoof ⊢
  obtain ⟨hst, hcore⟩ := startup_core cfg fuel herr
  rw [hst] at hoof ⊢
  exact declared_created cfg fuel hcore hoof

def init_order_once_statement : Prop :=
  ∀ (cfg : Cfg) (fuel : Nat) (sched : List Act) (pick : List Name → Nat),
    let r := run cfg fuel sched pick
    r.st.oof = false → cleanB cfg r.st.ioDict = true →
    r.st.errors = [] ∧ (∀ n ∈ names (allMods cfg r.st.ioDict), n ∈ r.st.modules) ∧ InitOrderOnce r.st.modules r.log

/-- `attached_ready`, full: in every life of the node (every configuration, cyclic or not, failing hooks or not,
every fuel, schedule and choice function), whenever a module obtains an attached module, that module's `initModule`
has already been entered — and (invariant `Inv.initOk` behind it) has run to completion without error. -/
theorem attached_ready (cfg : Cfg) (fuel : Nat) (sched : List Act) (pick : List Name → Nat) :
    AttachedReady (run cfg fuel sched pick).log := by
  apply attachedReady_of_ARfrom
  rw [(run_log cfg fuel sched pick).2]
  split
  · exact ARfrom_append _ (fun e he => (later_no_init _ sched pick e he).1) _ _ (startup_ar cfg fuel)
  · exact startup_ar cfg fuel

/-- "reported as a configuration error instead of a half-started node", full: whenever the error list is not empty,
no `startModule` is ever called -/
theorem no_half_start (cfg : Cfg) (fuel : Nat) (sched : List Act) (pick : List Name → Nat) :
    NoHalfStart ⟨(run cfg fuel sched pick).st.modules, (run cfg fuel sched pick).st.errors,
      (run cfg fuel sched pick).log, (run cfg fuel sched pick).st.ioDict, [], []⟩ := by
  intro herr e he
  simp only at herr he
  rw [(run_log cfg fuel sched pick).1] at herr
  rw [(run_log cfg fuel sched pick).2] at he
  have hne : (startup cfg fuel).errors.isEmpty = false := by
    cases h : (startup cfg fuel).errors with
    | nil => exact absurd h herr
    | cons a l => rfl
  simp only [hne] at he
  rcases startup_shape cfg fuel e he with h | rfl
  · cases e <;> simp [isInitEv] at h <;> rfl
  · rfl

def bad_attachment_reported_statement : Prop :=
  ∀ (cfg : Cfg) (fuel : Nat) (sched : List Act) (pick : List Name → Nat),
    let r := run cfg fuel sched pick
    r.st.oof = false →
    (badAttachmentB cfg r.st.ioDict = true → r.st.errors ≠ []) ∧
    NoHalfStart ⟨r.st.modules, r.st.errors, r.log, r.st.ioDict, [], []⟩

/-- parameter values the configuration gets wrong are "reported as a configuration error instead of a half-started
node" as well: a declared module with a configured value that is not of the parameter's datatype, or without a value
that is required (`needscfg`) — the two complaints of `Module._handle_writes` — makes the node report an error (and then,
by `no_half_start`, nothing is started), in every configuration with distinct module names and static Pinatas. -/
theorem rejected_parameter_reported (cfg : Cfg) (fuel : Nat) (sched : List Act) (pick : List Name → Nat)
    (hsp : StaticPinatas cfg) (hoof : (run cfg fuel sched pick).st.oof = false)
    (hnd : (names (allMods cfg (run cfg fuel sched pick).st.ioDict)).Nodup)
    (c : ModCfg) (hc : c ∈ cfg.mods) (hw : c.params.any paramWrong = true) :
    (run cfg fuel sched pick).st.errors ≠ [] := by
  intro herr
  rw [(run_log cfg fuel sched pick).1] at hoof herr hnd
  obtain ⟨hst, hcore⟩ := startup_core cfg fuel herr
  rw [hst] at hoof hnd
  have hm := declared_created cfg fuel hcore hoof c hc
  have hcA : c ∈ allMods cfg (core cfg fuel).ioDict := by
    rw [allMods_eq]; exact List.mem_append_left _ (List.mem_append_left _ hc)
  have hrej := (linked_core cfg hsp fuel hcore hoof hnd c hcA hm).2.2
  have : c.params.any paramWrong = c.params.any paramRejected := by
    congr 1; funext q; exact paramWrong_eq q
  rw [this, hrej] at hw
  cases hw

/-- hypotheses met: a value that is not of the datatype on a module another one uses; the node is rejected -/
def rejM : ModCfg := { (default : ModCfg) with name := "m", params := [{ name := "w0", cfgValue := some 1, cfgBad := true }] }
def rejU : ModCfg := { (default : ModCfg) with name := "u", atts := [⟨"a0", some "m", true, 0⟩], touchInit := ["a0"] }
def rejCfg : Cfg := { mods := [rejU, rejM], dyn := [] }

example : StaticPinatas rejCfg ∧ (run rejCfg 20 [] (fun _ => 0)).st.oof = false ∧
    (names (allMods rejCfg (run rejCfg 20 [] (fun _ => 0)).st.ioDict)).Nodup ∧ rejM.params.any paramWrong = true ∧
    (run rejCfg 20 [] (fun _ => 0)).log = [Ev.early "u", Ev.init "u", Ev.exit] := by
  refine ⟨by unfold StaticPinatas; decide, ?_⟩
  decide +kernel

/-- full statement, against the module list of the *configuration*.  (The two well-formedness hypotheses are what a
Python `dict` guarantees — module names and parameter names are keys; without them the clause is false for trivial
reasons: a value listed twice is written twice.)  Proved below as `writes_before_first_poll` with one more hypothesis,
`StaticPinatas cfg`. -/
def writes_before_first_poll_statement : Prop :=
  ∀ (cfg : Cfg) (fuel : Nat) (sched : List Act) (pick : List Name → Nat),
    let r := run cfg fuel sched pick
    r.st.oof = false → r.st.errors = [] →
    (names (allMods cfg r.st.ioDict)).Nodup → (∀ c ∈ allMods cfg r.st.ioDict, (c.params.map (·.name)).Nodup) →
    WritesBeforeFirstPoll ((allMods cfg r.st.ioDict).filter (fun c => r.st.modules.contains c.name)) r.log

/-- "configured start values are written before the first poll", order part, **full**: in the whole life of the node —
every configuration (any attachment graph, shared communicators, Pinatas), every fuel, **every schedule** of start loop /
poll threads / clock, every choice function, and **any faults** in writes, initial reads and first polls (communication
failures included) — no configured value of a module is written after the first poll of that module.  (Behind it:
`startup_groupsOk`, the invariant of `get_module` that no module is registered twice for polling, so every module is
served by one poll thread; `OI`, the invariant of the start phase under every schedule.) -/
theorem no_write_after_first_poll (cfg : Cfg) (fuel : Nat) (sched : List Act) (pick : List Name → Nat)
    (m : Name) (p : String) :
    NeverAfter (· == Ev.firstpoll m) (· == Ev.write m p) (run cfg fuel sched pick).log :=
  run_write_order cfg fuel sched pick (uniqueOwner_of_groupsOk _ (startup_groupsOk cfg fuel)) m p

/-- proved part of `writes_before_first_poll_statement` (whole life of a node that came up; every schedule and choice
function; **any faults** in the writes, the initial reads and the first polls — communication failures included): a
configured value `p` of a module `m` served by poll thread `t` is handed to `write_<p>` exactly once in the whole log,
and never after the first poll of `m`.  (Before the `fix:` commit "start values skipped by a communication failure …"
this needed "no communication failure in the initial reads of `t`": the members behind the failure were polled without
their values ever being written — `unrepaired_prologue_skips_writes`.)  Stated about the module objects of the node; the
link to the Spec's `allMods` (that a created module carries the parameters of its description and that a module with
start values is registered with a poll thread that is started) is `configuration_linked`. -/
theorem writes_before_first_poll_partial (cfg : Cfg) (fuel : Nat) (sched : List Act) (pick : List Name → Nat)
    (herr : (run cfg fuel sched pick).st.errors = [])
    (t m : Name) (p : String) (ht : t ∈ threadsOf (run cfg fuel sched pick).st)
    (hm : m ∈ members (run cfg fuel sched pick).st t)
    (hp : (cfgOf (run cfg fuel sched pick).st m).writes.count p = 1) :
    (run cfg fuel sched pick).log.count (Ev.write m p) = 1 ∧
    NeverAfter (· == Ev.firstpoll m) (· == Ev.write m p) (run cfg fuel sched pick).log := by
  refine ⟨?_, no_write_after_first_poll cfg fuel sched pick m p⟩
  rw [(run_log cfg fuel sched pick).1] at herr ht hm hp
  have hG := startup_groupsOk cfg fuel
  rw [run_write_count cfg fuel sched pick herr (uniqueOwner_of_groupsOk _ hG) t m p ht hm
    (members_nodup_of_groupsOk _ hG t), hp]

/-- `Module._handle_writes` registers **exactly** the configured start values: for every module description, `writeDict`
holds, in the order of the parameters, the start value (`value` of the configuration, else the `value` argument of the
declaration) of every parameter that has one — whatever the declared or configured default is, equal to the start value
or not — and nothing else; so the parameters for which `writeInitParams` calls a write method of the driver are the
Spec's `startParams`.  (The class of seeded change C15-m9: a start value equal to the default is not registered.) -/
theorem handle_writes_registers_start_values (c : ModCfg) :
    writeDict c = c.params.filterMap (fun q => (startValue q).map (fun v => (q.name, v))) ∧
    c.writes = startParams c := by
  have hv : ∀ q : PCfg, q.value = startValue q := by
    intro q; unfold PCfg.value startValue; cases q.cfgValue <;> rfl
  have hh : ∀ q : PCfg, handleWrites q = (startValue q).map (fun v => (q.name, v)) := by
    intro q
    unfold handleWrites hasWriteAttr
    rw [hv]
    cases startValue q <;> simp
  have hf : handleWrites = fun q => (startValue q).map (fun v => (q.name, v)) := funext hh
  refine ⟨by unfold writeDict; rw [hf], ?_⟩
  unfold ModCfg.writes startParams
  simp only [hh, Option.isSome_map]

/-- every combination of declared / configured default and value, start value equal to the default included -/
def hwM : ModCfg := { (default : ModCfg) with name := "m", params := [
  { name := "a", clsDefault := some 3, cfgValue := some 3 },                       -- configured value = declared default
  { name := "b", clsDefault := some 0, clsValue := some 0 },                       -- declared value = declared default
  { name := "c", clsDefault := some 1, cfgDefault := some 2, cfgValue := some 2 }, -- = configured default
  { name := "d", clsDefault := some 1, cfgDefault := some 2 },                     -- only defaults: not a start value
  { name := "e", clsValue := some 4, cfgValue := some 5 },                         -- the configuration wins
  { name := "f", hasWrite := false, cfgValue := some 7 },                          -- no method of the driver to call
  { name := "g", clsDefault := none }] }                                           -- nothing given at all

example : writeDict hwM = [("a", 3), ("b", 0), ("c", 2), ("e", 5), ("f", 7)] ∧ startParams hwM = ["a", "b", "c", "e"] ∧
    hwM.writes = ["a", "b", "c", "e"] := by
  decide

/-- the value a `write_` method is handed at start-up is the configured start value of that parameter: in every state
of the node and for every log, for the module objects whose parameter names are distinct (keys of a `dict`) -/
theorem start_values_handed_over_objects (st : St) (log : List Ev) (ms : List Name)
    (hnd : ∀ m ∈ ms, ((cfgOf st m).params.map (·.name)).Nodup) :
    StartValuesHandedOver (ms.map (objOf st)) (writtenOf st log) := by
  intro c hc q hq hw v hv w hwm h1 h2
  obtain ⟨m, hm, rfl⟩ := List.mem_map.mp hc
  obtain ⟨e, _, he⟩ := List.mem_filterMap.mp hwm
  cases e with
  | write m' p => ?_
  | _ => simp at he
  replace he : Option.map (fun v => (m', p, v)) (List.lookup p (writeDict (objOf st m'))) = some w := he
  cases hl : List.lookup p (writeDict (objOf st m')) with
  | none => rw [hl] at he; cases he
  | some v' =>
    rw [hl] at he
    simp only [Option.map_some, Option.some.injEq] at he
    subst he
    simp only at h1 h2
    have hmm : m' = m := h1
    subst hmm
    -- the entry of writeDict comes from a parameter with that name; names are distinct: it is `q`
    have hmem : (p, v') ∈ writeDict (objOf st m') := by
      have := List.lookup_eq_some_iff.mp hl
      obtain ⟨l1, l2, hsplit, _⟩ := this
      rw [hsplit]; simp
    obtain ⟨q', hq', hh⟩ := List.mem_filterMap.mp hmem
    have hq2 : q ∈ (cfgOf st m').params := hq
    have hq2' : q' ∈ (cfgOf st m').params := hq'
    have hname : q'.name = p := by
      unfold handleWrites at hh
      split at hh
      · cases hh
      · split at hh
        · simp only [Option.some.injEq, Prod.mk.injEq] at hh; exact hh.1
        · cases hh
    have heq : q' = q := by
      have hN := hnd m' hm
      have hnq : q'.name = q.name := by rw [hname]; exact h2
      exact nodup_map_inj (·.name) _ hN q' hq2' q hq2 hnq
    subst heq
    unfold handleWrites at hh
    have hval : q'.value = startValue q' := by
      unfold PCfg.value startValue
      cases q'.cfgValue <;> rfl
    rw [hval] at hh
    have hv' : startValue q' = some v := by simpa using hv
    rw [hv'] at hh
    simp only [hasWriteAttr, if_true, Option.some.injEq, Prod.mk.injEq] at hh
    exact hh.2.symm

example : writtenOf { mcfg := [hwM] } [Ev.write "m" "a", Ev.initread "m", Ev.write "m" "e"] = [("m", "a", 3), ("m", "e", 5)] ∧
    ((cfgOf { mcfg := [hwM] } "m").params.map (·.name)).Nodup := by
  decide

/-- ... and a `write_` method handed the default instead of the configured value breaks the clause -/
example : ¬ StartValuesHandedOver [hwM] [("m", "e", 0)] := by decide

/-- the link between the configuration and the node: `Linked U st` — every module description `c` of the list the clause
is judged on has become a module object that carries `c`'s configured start values and is registered with a poll thread
that is started.  Under it the clause of the specification itself holds for the whole log — every schedule and choice
function, any faults, communication failures included.  (Round 5 left it as a hypothesis; `configuration_linked` below
proves it for every node that came up.) -/
def Linked (U : List ModCfg) (st : St) : Prop :=
  ∀ c ∈ U, ∀ p ∈ startParams c, ∃ t ∈ threadsOf st, c.name ∈ members st t ∧ (cfgOf st c.name).writes.count p = 1

theorem writes_before_first_poll_of_linked (cfg : Cfg) (fuel : Nat) (sched : List Act) (pick : List Name → Nat)
    (herr : (run cfg fuel sched pick).st.errors = []) (U : List ModCfg)
    (hl : Linked U (run cfg fuel sched pick).st) :
    WritesBeforeFirstPoll U (run cfg fuel sched pick).log := by
  intro c hc p hp
  obtain ⟨t, ht, hm, hcnt⟩ := hl c hc p hp
  exact writes_before_first_poll_partial cfg fuel sched pick herr t c.name p ht hm hcnt

/-- **the link between the configuration and the node** (the hypothesis `Linked` discharged): in every node that came
up, for the module list the clause is judged on — the modules the configuration describes (declared ones, products of
the statically declared Pinatas, automatic communicators) that exist in the node, with distinct names and distinct
parameter names —, every module with a configured start value has become a module object with exactly the parameters of
its description and is registered with a poll thread that is started.  Behind it: `LI`, an invariant of `get_module` /
`create_modules` (every module object is made from a description of the configuration — only its `io` attachment is
filled in — or is an automatic communicator of `ioDict`; `Module.initModule` registers a module that has something to
poll or to write with the poll thread of a module of the node), `core_nothing_created_late` and `core_all_inited`. -/
theorem configuration_linked (cfg : Cfg) (fuel : Nat) (sched : List Act) (pick : List Name → Nat)
    (hsp : StaticPinatas cfg)
    (hoof : (run cfg fuel sched pick).st.oof = false) (herr : (run cfg fuel sched pick).st.errors = [])
    (hnd : (names (allMods cfg (run cfg fuel sched pick).st.ioDict)).Nodup)
    (hpn : ∀ c ∈ allMods cfg (run cfg fuel sched pick).st.ioDict, (c.params.map (·.name)).Nodup) :
    Linked ((allMods cfg (run cfg fuel sched pick).st.ioDict).filter
      (fun c => (run cfg fuel sched pick).st.modules.contains c.name)) (run cfg fuel sched pick).st := by
  rw [(run_log cfg fuel sched pick).1] at hoof herr hnd hpn ⊢
  obtain ⟨hst, hcore⟩ := startup_core cfg fuel herr
  rw [hst] at hoof hnd hpn ⊢
  intro c hc p hp
  obtain ⟨hcA, hcm⟩ := List.mem_filter.mp hc
  have hm : c.name ∈ (core cfg fuel).modules := by simpa using hcm
  obtain ⟨hsim, hreg, -⟩ := linked_core cfg hsp fuel hcore hoof hnd c hcA hm
  have hw : c.writes = startParams c := (handle_writes_registers_start_values c).2
  have hpw : p ∈ c.writes := by rw [hw]; exact hp
  obtain ⟨t, ht, hmem⟩ := hreg (needsPoll_of_writes c p hpw)
  refine ⟨t, ht, hmem, ?_⟩
  rw [writes_of_params hsim.2.2.2.1]
  have hle := List.nodup_iff_count.mp (writes_nodup c (hpn c hcA)) p
  have hpos := List.count_pos_iff.mpr hpw
  omega

/-- "configured start values are written before the first poll", the clause of the specification itself on the whole
log, against the module list of the **configuration**: every configuration with statically declared Pinatas (any
attachment graph, shared and automatic communicators, declaration order), every fuel, every schedule of start loop /
poll threads / clock, every choice function, **any faults** in writes, initial reads and first polls — in every node that
came up, every configured start value of every described module is handed to its write method exactly once, and never
after the first poll of that module.  This is `writes_before_first_poll_statement` with the one additional hypothesis
`StaticPinatas` (no module produced by a Pinata is a Pinata itself — the assumption under which the Spec's `allMods` is
the module list of the node). -/
theorem writes_before_first_poll (cfg : Cfg) (fuel : Nat) (sched : List Act) (pick : List Name → Nat)
    (hsp : StaticPinatas cfg)
    (hoof : (run cfg fuel sched pick).st.oof = false) (herr : (run cfg fuel sched pick).st.errors = [])
    (hnd : (names (allMods cfg (run cfg fuel sched pick).st.ioDict)).Nodup)
    (hpn : ∀ c ∈ allMods cfg (run cfg fuel sched pick).st.ioDict, (c.params.map (·.name)).Nodup) :
    WritesBeforeFirstPoll ((allMods cfg (run cfg fuel sched pick).st.ioDict).filter
      (fun c => (run cfg fuel sched pick).st.modules.contains c.name)) (run cfg fuel sched pick).log :=
  writes_before_first_poll_of_linked cfg fuel sched pick herr _
    (configuration_linked cfg fuel sched pick hsp hoof herr hnd hpn)

/-- "configured start values are written": in every node that came up, whatever a write method of a described module is
handed at start-up is the configured start value of that parameter (same quantification as `writes_before_first_poll`) -/
theorem start_values_handed_over (cfg : Cfg) (fuel : Nat) (sched : List Act) (pick : List Name → Nat)
    (hsp : StaticPinatas cfg)
    (hoof : (run cfg fuel sched pick).st.oof = false) (herr : (run cfg fuel sched pick).st.errors = [])
    (hnd : (names (allMods cfg (run cfg fuel sched pick).st.ioDict)).Nodup)
    (hpn : ∀ c ∈ allMods cfg (run cfg fuel sched pick).st.ioDict, (c.params.map (·.name)).Nodup) :
    StartValuesHandedOver ((allMods cfg (run cfg fuel sched pick).st.ioDict).filter
      (fun c => (run cfg fuel sched pick).st.modules.contains c.name))
      (writtenOf (run cfg fuel sched pick).st (run cfg fuel sched pick).log) := by
  have hlink : ∀ c ∈ (allMods cfg (run cfg fuel sched pick).st.ioDict).filter
      (fun c => (run cfg fuel sched pick).st.modules.contains c.name),
      (cfgOf (run cfg fuel sched pick).st c.name).params = c.params := by
    rw [(run_log cfg fuel sched pick).1] at hoof herr hnd ⊢
    obtain ⟨hst, hcore⟩ := startup_core cfg fuel herr
    rw [hst] at hoof hnd ⊢
    intro c hc
    obtain ⟨hcA, hcm⟩ := List.mem_filter.mp hc
    exact (linked_core cfg hsp fuel hcore hoof hnd c hcA (by simpa using hcm)).1.2.2.2.1
  intro c hc q hq hw v hv w hwm h1 h2
  have hobj := start_values_handed_over_objects (run cfg fuel sched pick).st (run cfg fuel sched pick).log [c.name]
    (by
      intro m hm
      have : m = c.name := by simpa using hm
      rw [this, hlink c hc]
      exact hpn c (List.mem_filter.mp hc).1)
  exact hobj (objOf (run cfg fuel sched pick).st c.name) (by simp) q (by show q ∈ (cfgOf _ c.name).params; rw [hlink c hc]; exact hq)
    hw v hv w hwm h1 h2

/-- the hypotheses are met by a node with a shared communicator, a failing write, a communication failure in the initial
reads of the first member and in the first poll of the second, under a schedule that preempts the start loop -/
def wpU : ModCfg := { (default : ModCfg) with name := "u", cls := .hasio, poll := true, params := [wp "w0", wp "w1"], atts := [⟨"io", some "c", false, 0⟩], writeFail := [("w0", "HardwareError")], readsFail := some "CommunicationFailedError" }
def wpV : ModCfg := { (default : ModCfg) with name := "v", cls := .hasio, poll := true, params := [wp "w1"], atts := [⟨"io", some "c", false, 0⟩], pollFail := some "CommunicationFailedError" }
def wpC : ModCfg := { (default : ModCfg) with name := "c", cls := .comm, poll := true, exported := true }
def wpCfg : Cfg := { mods := [wpU, wpV, wpC], dyn := [] }

example : (run wpCfg 20 [.main, .main, .step "c"] (fun _ => 0)).st.errors = [] ∧
    "c" ∈ threadsOf (run wpCfg 20 [.main, .main, .step "c"] (fun _ => 0)).st ∧
    "v" ∈ members (run wpCfg 20 [.main, .main, .step "c"] (fun _ => 0)).st "c" ∧
    ¬ readsQuiet (objOf (run wpCfg 20 [.main, .main, .step "c"] (fun _ => 0)).st "u") ∧
    (cfgOf (run wpCfg 20 [.main, .main, .step "c"] (fun _ => 0)).st "v").writes.count "w1" = 1 := by
  decide +kernel

/-- the order theorem speaks about something: in that run a value is written and its module is polled -/
example : Ev.write "u" "w1" ∈ (run wpCfg 20 [.main, .main, .step "c"] (fun _ => 0)).log ∧
    Ev.firstpoll "u" ∈ (run wpCfg 20 [.main, .main, .step "c"] (fun _ => 0)).log ∧
    Ev.write "v" "w1" ∈ (run wpCfg 20 [.main, .main, .step "c"] (fun _ => 0)).log ∧
    Ev.firstpoll "v" ∈ (run wpCfg 20 [.main, .main, .step "c"] (fun _ => 0)).log := by
  decide +kernel

/-- start-up faults, the loop of `writeInitParams`: for every module object and **every** assignment of exceptions to its
`write_` methods (`writeFail`: any class, at any position, any number of them) every configured value is handed to its
`write_` method exactly once, in the order of `writeDict`, and no exception leaves `writeInitParams` — a refused start
value never drops the values queued behind it (the class of seeded change C15-m5). -/
theorem write_faults_lose_no_write (c : ModCfg) :
    (writeInitParams c).1 = c.writes.map (Ev.write c.name) ∧ (writeInitParams c).2 = none := by
  rw [writeInitParams_eq]; exact ⟨rfl, rfl⟩

/-- hypotheses met with faults of both `except` arms, first and middle position -/
def wfM : ModCfg :=
  { (default : ModCfg) with name := "m", params := [wp "w0", wp "w1", wp "w2"], writeFail := [("w0", "RuntimeError"), ("w1", "HardwareError")] }

example : (writeInitParams wfM).1 =
    [Ev.write "m" "w0", Ev.write "m" "w1", Ev.write "m" "w2"] := by decide

/-- ... whereas with the error handling around the whole loop (an exception leaving the loop body) the rest is lost:
`blocks` stops at the first block an exception leaves -/
example : blocks [([Ev.write "m" "w0"], some "RuntimeError"), ([Ev.write "m" "w1"], none)] =
    ([Ev.write "m" "w0"], some "RuntimeError") := by decide

/-- the start-up sequence of a poll thread when no communication failure occurs — for every state of the node, every
thread, every assignment of write faults (any class, communication failures included: `writeInitParams` swallows them)
and every other exception in `initialReads` / the first polls: the configured values of a member and then its initial
reads, member by member, for **every** member; then the first polls of the polled members; then — last — the report
that the first round is done. -/
theorem startup_sequence_complete (st : St) (t : Name)
    (hr : ∀ m ∈ members st t, readsQuiet (objOf st m))
    (hp : ∀ m ∈ (members st t).filter (fun m => (cfgOf st m).poll), pollQuiet (objOf st m)) :
    prologue st t =
      (members st t).flatMap (fun m => (cfgOf st m).writes.map (Ev.write m) ++ [Ev.initread m]) ++
      ((members st t).filter (fun m => (cfgOf st m).poll)).map Ev.firstpoll ++ [Ev.rounddone t] := by
  unfold prologue
  simp only [initLoop_ok st _ hr, pollLoop_ok st _ hp]

def wfA : ModCfg := { (default : ModCfg) with name := "a", poll := true, params := [wp "w0", wp "w1"], writeFail := [("w0", "CommunicationFailedError")], readsFail := some "KeyError" }
def wfB : ModCfg := { (default : ModCfg) with name := "b", params := [wp "w1"], pollFail := some "HardwareError" }
def wfSt : St := { modules := ["a"], groups := [("a", "a"), ("a", "b")], mcfg := [wfA, wfB] }

example : (∀ m ∈ members wfSt "a", readsQuiet (objOf wfSt m)) ∧
    (∀ m ∈ (members wfSt "a").filter (fun m => (cfgOf wfSt m).poll), pollQuiet (objOf wfSt m)) := by
  decide

example : prologue wfSt "a" =
    [Ev.write "a" "w0", Ev.write "a" "w1", Ev.initread "a", Ev.write "b" "w1", Ev.initread "b", Ev.firstpoll "a",
     Ev.rounddone "a"] := by decide

/-- with any faults whatsoever (communication failures included): in the events of a poll thread no configured value is
written after a first poll — the thread's log is a part without polls followed by a part without writes. -/
theorem writes_precede_polls_in_prologue (st : St) (t : Name) :
    ∃ A B, prologue st t = A ++ B ∧ (∀ e ∈ A, ∀ m, e ≠ Ev.firstpoll m) ∧ (∀ e ∈ B, ∀ m p, e ≠ Ev.write m p) :=
  prologue_split st t

example : prologue wfSt "a" = [Ev.write "a" "w0", Ev.write "a" "w1", Ev.initread "a", Ev.write "b" "w1", Ev.initread "b"] ++
    [Ev.firstpoll "a", Ev.rounddone "a"] := by decide

/-- the former finding `C15:writes_skipped_after_comm_failure` (`known_findings/C15.json`, now under `fixed`): `io` serves
`a` and `b`; `initialReads` of `a` raises a CommunicationFailedError. -/
def cfIo : ModCfg := { (default : ModCfg) with name := "io", cls := .comm, exported := true }
def cfA : ModCfg := { (default : ModCfg) with name := "a", cls := .hasio, exported := true, poll := true, params := [wp "w0"], atts := [⟨"io", some "io", false, 0⟩], readsFail := some "CommunicationFailedError" }
def cfB : ModCfg := { (default : ModCfg) with name := "b", cls := .hasio, exported := true, poll := true, params := [wp "w0"], atts := [⟨"io", some "io", false, 0⟩] }
def cfCfg : Cfg := { mods := [cfIo, cfA, cfB], dyn := [] }

/-- on the model of the repaired code: the node comes up, the round is reported done at once, the configured value of `b`
is then written — once — and only after that `b` is polled; the clause holds and the judge accepts the run -/
theorem comm_failure_writes_made_up :
    (run cfCfg 20 [] (fun _ => 0)).st.errors = [] ∧
    prologue (run cfCfg 20 [] (fun _ => 0)).st "io" =
      [Ev.write "a" "w0", Ev.initread "a", Ev.comfail "a", Ev.rounddone "io", Ev.write "b" "w0", Ev.firstpoll "a",
       Ev.firstpoll "b"] ∧
    WritesBeforeFirstPoll [cfA, cfB] (run cfCfg 20 [] (fun _ => 0)).log ∧
    judge cfCfg ⟨(run cfCfg 20 [] (fun _ => 0)).st.modules, [], (run cfCfg 20 [] (fun _ => 0)).log, [],
      writtenOf (run cfCfg 20 [] (fun _ => 0)).st (run cfCfg 20 [] (fun _ => 0)).log, []⟩ = [] := by
  decide +kernel

/-- the hypotheses are met by the configuration of the former finding (shared communicator, a communication failure) and
by the sample configuration (Pinata, dynamic module) -/
example : StaticPinatas cfCfg ∧ (run cfCfg 20 [] (fun _ => 0)).st.oof = false ∧
    (run cfCfg 20 [] (fun _ => 0)).st.errors = [] ∧
    (names (allMods cfCfg (run cfCfg 20 [] (fun _ => 0)).st.ioDict)).Nodup ∧
    (∀ c ∈ allMods cfCfg (run cfCfg 20 [] (fun _ => 0)).st.ioDict, (c.params.map (·.name)).Nodup) ∧
    startParams cfB = ["w0"] := by
  refine ⟨by unfold StaticPinatas; decide, ?_⟩
  decide +kernel

/-- `Linked` is met by the configuration of the former finding (so `writes_before_first_poll_of_linked` gives the clause
for it without evaluating the log) -/
example : Linked [cfIo, cfA, cfB] (run cfCfg 20 [] (fun _ => 0)).st := by
  unfold Linked
  decide +kernel

/-- the sequence of a poll thread as `Module.__pollThread` produced it **before** the repair (no `writeInitParams` behind
the start-up sequence) — kept only to state what the repaired defect was -/
def prologueUnrepaired (st : St) (t : Name) : List Ev :=
  let ms := members st t
  let polled := ms.filter (fun m => (cfgOf st m).poll)
  match (initLoop st ms).aborted with
  | some _ => (initLoop st ms).evs ++ [Ev.rounddone t] ++ latePolls st polled
  | none =>
    match (pollLoop st polled).aborted with
    | some rest => (initLoop st ms).evs ++ (pollLoop st polled).evs ++ [Ev.rounddone t] ++ latePolls st rest
    | none => (initLoop st ms).evs ++ (pollLoop st polled).evs ++ [Ev.rounddone t]

/-- the repaired defect, as a statement about the unrepaired sequence: `b` is polled and its configured value is never
written; and the repair changes nothing else — the two sequences differ exactly by the late writes -/
theorem unrepaired_prologue_skips_writes :
    Ev.firstpoll "b" ∈ prologueUnrepaired (run cfCfg 20 [] (fun _ => 0)).st "io" ∧
    Ev.write "b" "w0" ∉ prologueUnrepaired (run cfCfg 20 [] (fun _ => 0)).st "io" ∧
    ¬ WritesBeforeFirstPoll [cfB] (prologueUnrepaired (run cfCfg 20 [] (fun _ => 0)).st "io") := by
  decide +kernel

/-- whenever no communication failure hits the initial reads of a thread the repair changes nothing -/
theorem repair_changes_only_broken_off_rounds (st : St) (t : Name)
    (h : (initLoop st (members st t)).aborted = none) : prologue st t = prologueUnrepaired st t := by
  unfold prologue prologueUnrepaired
  simp only [h]
  cases (pollLoop st (List.filter (fun m => (cfgOf st m).poll) (members st t))).aborted <;> rfl

/-- the configuration of the former finding: `d` fails in earlyInit, `u` uses its attachment to `d` in initModule -/
def findingCfg : Cfg :=
  { mods := [{ (default : ModCfg) with name := "d", failEarly := true },
             { (default : ModCfg) with name := "u", atts := [⟨"a0", some "d", true, 0⟩], touchInit := ["a0"] }],
    dyn := [] }

/-- the former finding (a module whose earlyInit raised was handed to its user) is repaired: the user's attachment
raises instead, nobody obtains `d` -/
theorem finding_repaired : AttachedReady (startup findingCfg 10).log ∧
    ∀ e ∈ (startup findingCfg 10).log, gotten e = none := by
  decide +kernel

theorem findingCfg_rejected : (startup findingCfg 10).errors ≠ [] ∧
    ∀ e ∈ (run findingCfg 10 [] (fun _ => 0)).log, isStart e = false := by
  decide +kernel

/-- sanity of the model on a clean configuration with a Pinata, a communicator and configured writes: the judge of
the specification accepts the model's own run -/
def sP : ModCfg := { (default : ModCfg) with name := "p", cls := .pinata, scan := ["d0"] }
def sU : ModCfg := { (default : ModCfg) with name := "u", cls := .hasio, poll := true, params := [wp "w0"], atts := [⟨"a2", some "v", true, 0⟩, ⟨"io", some "c", false, 0⟩] }
def sV : ModCfg := { (default : ModCfg) with name := "v", exported := true }
def sC : ModCfg := { (default : ModCfg) with name := "c", cls := .comm, poll := true, exported := true }
def sD : ModCfg := { (default : ModCfg) with name := "d0", poll := true, atts := [⟨"a0", some "u", true, 0⟩], touchInit := ["a0"] }
def sampleCfg : Cfg := { mods := [sP, sU, sV, sC], dyn := [sD] }

theorem sample_run_accepted :
    (run sampleCfg 20 [.main, .main, .step "c"] (fun _ => 1)).st.errors = [] ∧
    judge sampleCfg ⟨(run sampleCfg 20 [.main, .main, .step "c"] (fun _ => 1)).st.modules, [],
      (run sampleCfg 20 [.main, .main, .step "c"] (fun _ => 1)).log, [],
      writtenOf (run sampleCfg 20 [.main, .main, .step "c"] (fun _ => 1)).st
        (run sampleCfg 20 [.main, .main, .step "c"] (fun _ => 1)).log, []⟩ = [] := by
  decide +kernel

/-- the hypotheses of `init_order_once_of_up` are met by that configuration (Pinata, dynamic module, communicator) -/
example : (run sampleCfg 20 [.main, .main, .step "c"] (fun _ => 1)).st.errors = [] ∧
    (run sampleCfg 20 [.main, .main, .step "c"] (fun _ => 1)).st.oof = false ∧
    (run sampleCfg 20 [.main, .main, .step "c"] (fun _ => 1)).st.modules = ["p", "u", "v", "c", "d0"] := by
  decide +kernel

/-- the model never polls after a shutdown and leaves no poll thread behind (the clause is there for the
implementation: the threads are observed, not inferred from flags) -/
theorem poll_threads_stopped (cfg : Cfg) (fuel : Nat) (sched : List Act) (pick : List Name → Nat) :
    PollThreadsStopped (run cfg fuel sched pick).log :=
  run_no_stray cfg fuel sched pick

/-- The atomicity the start-phase theorems rely on, made explicit: in `frappy/lib/multievent.py`, at the granularity of
its primitives (lock, event.set, event.clear, unlock — every interleaving of any number of threads that follows the
protocol of `set_`/`clear_`), when a single thread `R` registers the single events and waits, `wait()` returns True only
when no single event is pending.  (`ready_after_first_round` uses the abstract machine in which `set_` and `clear_`
are atomic; the harness checks on every run that the real primitives follow `Frappy.MultiEvent.step`.) -/
theorem multievent_wait_sound (R : Frappy.MultiEvent.Tid) (trace : List (Frappy.MultiEvent.Tid × Frappy.MultiEvent.Lbl))
    (hreg : ∀ p ∈ trace, ∀ t, p.2 = Frappy.MultiEvent.Lbl.register t → p.1 = R)
    (m m' : Frappy.MultiEvent.ME) (hrun : Frappy.MultiEvent.run {} trace = some m)
    (hdone : Frappy.MultiEvent.step m R (Frappy.MultiEvent.Lbl.waitdone true) = some m') :
    m.events = [] := by
  have hj := Frappy.Proofs.MultiEvent.J_run R trace {} m (Frappy.Proofs.MultiEvent.J_init R) hreg hrun
  cases hw : m.waiter with
  | none => simp [Frappy.MultiEvent.step, hw] at hdone
  | some p =>
    obtain ⟨h, e⟩ := p
    simp only [Frappy.MultiEvent.step, hw, if_true] at hdone
    by_cases hc : (h == R && (e || m.flag)) = true
    · simp only [Bool.and_eq_true, beq_iff_eq, Bool.or_eq_true] at hc
      obtain ⟨rfl, hc⟩ := hc
      rcases hc with he | hf
      · subst he; exact hj.waitEmpty hw
      · rcases hj.flagOk hf with h0 | ⟨T', hT'⟩
        · exact h0
        · have := hj.regHold T' (Or.inl hT')
          subst this
          exact absurd hT' (hj.waitHold T' e _ hw)
    · rw [if_neg hc] at hdone; cases hdone

/-- the protocol is followed by the real order of primitives ... -/
example : Frappy.MultiEvent.firstStuck {} 0
    [("main", .register "a"), ("main", .lock), ("main", .evclear), ("main", .unlock),
     ("t", .fire "a"), ("t", .lock), ("t", .evset), ("t", .unlock), ("main", .wait), ("main", .waitdone true)] = none := by
  decide

/-- ... and a `set_` that sets the event after releasing the lock (seeded change C15-m2) is not a trace of it -/
theorem set_outside_lock_unfollowable : Frappy.MultiEvent.firstStuck {} 0
    [("main", .register "a"), ("main", .lock), ("main", .evclear), ("main", .unlock),
     ("t", .fire "a"), ("t", .lock), ("t", .unlock), ("t", .evset)] = some 6 := by
  decide

/-- the acyclicity test of the monitors (Kahn stripping) is exactly "has a topological numbering" of the edges inside
the node list — sound (the stripping rounds are such a numbering, bounded by the number of nodes) and complete -/
theorem acyclicB_iff (nodes : List Name) (edges : List (Name × Name)) :
    acyclicB nodes edges = true ↔
      ∃ rank : Name → Nat, ∀ e ∈ edges, e.1 ∈ nodes → e.2 ∈ nodes → rank e.2 < rank e.1 := by
  constructor
  · intro h
    obtain ⟨rank, hr, _⟩ := acyclicB_sound nodes edges h
    exact ⟨rank, hr⟩
  · exact acyclicB_complete nodes edges

/-! ## restart: a further round of `Server.run` on the same `Server` object -/

/-- What a round hands to the next one is `srv.module_cfg`, and a round of a node without Pinatas leaves it exactly as
`Server.__init__` loaded it — whatever happens in the round (failing hooks, bad attachments, automatic communicators,
any fuel): the configuration of round `k` is the configuration.  (`module_cfg[modname] = options` in `create_modules`
writes the entry back that is there; `get_module_instance` works on a copy; nothing else touches it: `Ext.known`.) -/
theorem restart_same_configuration (cfg : Cfg) (hnp : ∀ c ∈ cfg.mods, c.cls ≠ Cls.pinata)
    (hnd : (cfg.mods.map (·.name)).Nodup) (k : Nat) : roundCfg cfg k = cfg :=
  roundCfg_eq cfg hnp hnd k

/-- "a second round must behave like the first", full for nodes without Pinatas: the life of the node in round `k`
*is* its first life — same module objects, same errors, same event log (hooks, start values, polls, shutdown order)
under the same schedule and choice function.  So every theorem of this file about `run cfg` is a theorem about every
round, judged against the configuration that was loaded. -/
theorem restart_round_like_first (cfg : Cfg) (hnp : ∀ c ∈ cfg.mods, c.cls ≠ Cls.pinata)
    (hnd : (cfg.mods.map (·.name)).Nodup) (k fuel : Nat) (sched : List Act) (pick : List Name → Nat) :
    run (roundCfg cfg k) fuel sched pick = run cfg fuel sched pick := by
  rw [restart_same_configuration cfg hnp hnd k]

/-- in particular the start values of round `k` (instance of `handle_writes_registers_start_values` per round: the
descriptions the round starts from are the loaded ones, parameter dictionaries included) -/
theorem restart_start_values_kept (cfg : Cfg) (hnp : ∀ c ∈ cfg.mods, c.cls ≠ Cls.pinata)
    (hnd : (cfg.mods.map (·.name)).Nodup) (k : Nat) :
    (roundCfg cfg k).mods.map writeDict = cfg.mods.map writeDict := by
  rw [restart_same_configuration cfg hnp hnd k]

/-- the general statement, Pinatas included (their products are entries of `module_cfg` from the second round on, and
the next round finds them as declared modules): every round describes the same modules as the first.  Not proved —
it needs "a product is appended to `module_cfg` once, under its own name, unchanged" as an invariant of the creation
loop with the Pinata branch, and the names of products distinct from the declared ones; the evidence is the
correspondence run (stream `restart`, variant `pin`, 2–3 rounds) and the instance below. -/
def restart_rounds_statement : Prop :=
  ∀ (cfg : Cfg) (k : Nat) (io : List (String × Name)),
    (∀ d ∈ cfg.dyn, d.cls ≠ Cls.pinata) → ((cfg.mods ++ cfg.dyn).map (·.name)).Nodup →
    ∀ n, n ∈ names (allMods (roundCfg cfg k) io) ↔ n ∈ names (allMods cfg io)

/-- the part of `restart_rounds_statement` that is proved, for **every** configuration (Pinatas, failing hooks, rejected
modules included) and every round: a declared module is still declared, under its name, in the `module_cfg` the round
starts from, and what the Pinatas can produce is the same.  Missing for the statement: the description found under the
name is the loaded one (a product of a Pinata with the name of a declared module whose creation failed replaces it:
`module_cfg[modname] = options`), and the products are declared once. -/
theorem restart_rounds_partial (cfg : Cfg) (k : Nat) :
    (∀ c ∈ cfg.mods, ∃ d ∈ (roundCfg cfg k).mods, d.name = c.name) ∧ (roundCfg cfg k).dyn = cfg.dyn :=
  ⟨roundCfg_keeps_declared cfg k, roundCfg_dyn cfg k⟩

/-- non-vacuity of `restart_same_configuration` / `restart_round_like_first`: a node with a communicator made from a
`uri`, used by its creator inside `initModule`, and a module declared first that is attached to the creator -/
def rTop : ModCfg := { (default : ModCfg) with name := "top", atts := [⟨"a0", some "dev", true, 0⟩], touchInit := ["a0"] }
def rDev : ModCfg := { (default : ModCfg) with name := "dev", cls := .hasio, poll := true, params := [wp "w0"], uri := some "x://1", atts := [⟨"io", none, false, 0⟩], touchInit := ["io"] }
def restartCfg0 : Cfg := { mods := [rTop, rDev], dyn := [] }

example : (∀ c ∈ restartCfg0.mods, c.cls ≠ Cls.pinata) ∧ (restartCfg0.mods.map (·.name)).Nodup := by decide

/-- … and on that node the automatically created communicator is initialised when its creator — reached first through
the attachment of `top` — uses it (the instance of `attached_ready` the seeded change C15-m10 breaks), in round 3 as in
round 1 -/
example : (run (roundCfg restartCfg0 2) 20 [] (fun _ => 0)).st.errors = [] ∧
    (run (roundCfg restartCfg0 2) 20 [] (fun _ => 0)).log.take 7 =
      [.early "top", .init "top", .early "dev", .init "dev", .early "dev_io", .init "dev_io", .get "dev" "io" "dev_io"] := by
  rw [restart_round_like_first restartCfg0 (by decide) (by decide)]
  decide +kernel

/-- instance of `restart_rounds_statement` on the Pinata sample: the second round starts from the loaded descriptions
plus the product `d0`, describes the same modules, and its life is the life of the first round -/
example : (roundCfg sampleCfg 1).mods.map (·.name) = ["p", "u", "v", "c", "d0"] ∧
    (names (allMods (roundCfg sampleCfg 1) [])).all (names (allMods sampleCfg [])).contains = true ∧
    (names (allMods sampleCfg [])).all (names (allMods (roundCfg sampleCfg 1) [])).contains = true ∧
    (run (roundCfg sampleCfg 1) 20 [.main, .main, .step "c"] (fun _ => 1)).log =
      (run sampleCfg 20 [.main, .main, .step "c"] (fun _ => 1)).log := by
  decide +kernel

/-- constants of the source the harness and the generators rely on (start-up timeout of `_processCfg`, default
export flags): re-extracted on every run, an edit breaks this proof -/
theorem table_facts : Frappy.Generated.C15.startTimeout = 30 ∧ Frappy.Generated.C15.pinataExported = false ∧
    Frappy.Generated.C15.moduleExported = true := by decide

end Frappy.Proofs.C15
