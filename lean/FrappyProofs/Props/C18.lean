import FrappyProofs.Lemmas.Control
/-
C18 — property theorems (nothing but property theorems and their non-vacuity examples).
-/
namespace Frappy.Props.C18
open Frappy.Spec.C18 Frappy.Scan

/-! ## controllers of one output -/

section control
open Frappy.Control

/-- one operation, from any state in which at most one input is marked and the output names it: the same
holds afterwards, and an operation that takes over control leaves exactly the new controller marked, named
by the output — the previous one is switched off -/
theorem control_step (n : Nat) (s : St) (op : Op) (h : SingleController n s.cb s.act) :
    SingleController n (step1 n s op).cb (step1 n s op).act ∧
    TakenOver n (takeoverOf n s.act op) (step1 n s op).cb (step1 n s op).act := by
  have single_of_named : ∀ (cb : Option Nat) (act : Nat → Bool),
      (∀ i, i < n → act i = true → cb = some i) → SingleController n cb act := by
    intro cb act hb
    refine ⟨fun i hi j hj hai haj => ?_, hb⟩
    have := (hb i hi hai).symm.trans (hb j hj haj)
    exact Option.some.inj this
  have hact : ∀ k, k < n →
      SingleController n (activate n k { s with evs := [], ok := true }).cb (activate n k { s with evs := [], ok := true }).act ∧
      TakenOver n (.byInput k) (activate n k { s with evs := [], ok := true }).cb
        (activate n k { s with evs := [], ok := true }).act := by
    intro k _
    refine ⟨single_of_named _ _ ?_, ?_⟩
    · intro i hi hai
      rw [activate_act _ _ _ _ hi] at hai
      rw [activate_cb]; simp at hai; rw [hai]
    · refine ⟨activate_cb .., fun i hi => ?_⟩
      rw [activate_act _ _ _ _ hi]; simp
  have hself : SingleController n (selfControlled n { s with evs := [], ok := true }).cb
        (selfControlled n { s with evs := [], ok := true }).act ∧
      TakenOver n .bySelf (selfControlled n { s with evs := [], ok := true }).cb
        (selfControlled n { s with evs := [], ok := true }).act := by
    have hall : ∀ i, i < n → (selfControlled n { s with evs := [], ok := true }).act i = false := by
      intro i hi
      cases hc : s.cb with
      | none =>
        rw [selfControlled_none _ _ (by simpa using hc)]
        cases ha : s.act i with
        | false => simpa using ha
        | true => have := h.2 i hi ha; rw [hc] at this; cases this
      | some c => exact selfControlled_act n _ c (by simpa using hc) i hi
    refine ⟨single_of_named _ _ ?_, selfControlled_cb .., hall⟩
    intro i hi hai; rw [hall i hi] at hai; cases hai
  cases op with
  | writeIn k guarded =>
    simp only [step1, step, takeoverOf]
    by_cases hk : k < n
    · simp only [hk, if_true]
      by_cases hg : (guarded && s.act k) = true
      · simp only [hg, if_true]; exact ⟨h, trivial⟩
      · simp only [hg]; exact hact k hk
    · simp only [hk, if_false]; exact ⟨h, trivial⟩
  | writeOut => exact hself
  | activate k =>
    simp only [step1, step, takeoverOf]
    by_cases hk : k < n
    · simp only [hk, if_true]; exact hact k hk
    · simp only [hk, if_false]; exact ⟨h, trivial⟩
  | deactivate k =>
    simp only [step1, step, takeoverOf]
    by_cases hk : k < n
    · simp only [hk, if_true]
      refine ⟨single_of_named _ _ ?_, trivial⟩
      intro i hi hai
      rw [deactivate_act] at hai
      rw [deactivate_cb]
      by_cases hik : i = k
      · simp [hik] at hai
      · simp only [hik, if_false] at hai; exact h.2 i hi hai
    · simp only [hk, if_false]; exact ⟨h, trivial⟩
  | selfControlled => exact hself
  | updateTarget k =>
    simp only [step1, step, takeoverOf]
    by_cases hk : k < n
    · simp only [hk, if_true]; exact ⟨h, trivial⟩
    · simp only [hk, if_false]; exact ⟨h, trivial⟩

/-- after every history the invariant holds -/
theorem control_exec (n : Nat) (ops : List Op) : ∀ s, SingleController n s.cb s.act →
    SingleController n (exec n s ops).cb (exec n s ops).act := by
  induction ops with
  | nil => intro s h; exact h
  | cons op ops ih => intro s h; exact ih _ (control_step n s op h).1

/-- **single_controller** — for every history of client writes (to an input's target, to the output's
target) and driver-side calls (`activate_control`, `deactivate_control`, `self_controlled`,
`update_target`) on `n` inputs of one output, at every quiescent point at most one input is marked as
controlling and the output names exactly that one. -/
theorem single_controller (n : Nat) (ops : List Op) :
    ∀ s ∈ run n init ops, SingleController n s.cb s.act := by
  intro s hs
  obtain ⟨pre, op, post, _, rfl⟩ := mem_scan _ _ _ _ hs
  have hinit : SingleController n init.cb init.act := ⟨fun i _ j _ hi _ => by simp [init] at hi, fun i _ hi => by simp [init] at hi⟩
  exact (control_step n _ op (control_exec n pre init hinit)).1

/-- **takeover_switches_off** — after every history, an operation by which input `k` (or the output itself)
takes over control leaves exactly `k` (nobody) marked and `k` (`self`) named by the output: the previous
controller is switched off. -/
theorem takeover_switches_off (n : Nat) (ops : List Op) (op : Op) :
    TakenOver n (takeoverOf n (exec n init ops).act op) (exec n init (ops ++ [op])).cb (exec n init (ops ++ [op])).act := by
  have hinit : SingleController n init.cb init.act := ⟨fun i _ j _ hi _ => by simp [init] at hi, fun i _ hi => by simp [init] at hi⟩
  have := (control_step n _ op (control_exec n ops init hinit)).2
  simpa [exec, List.foldl_append] using this

/-- the stronger reading is preserved by every operation except a direct `deactivate_control` call -/
theorem names_active_step (n : Nat) (s : St) (op : Op) (hop : ∀ k, op ≠ .deactivate k)
    (h : SingleController n s.cb s.act) (hn : NamesActive n s.cb s.act) :
    NamesActive n (step1 n s op).cb (step1 n s op).act := by
  have hact : ∀ k, k < n → NamesActive n (activate n k { s with evs := [], ok := true }).cb
      (activate n k { s with evs := [], ok := true }).act := by
    intro k hk c hc
    rw [activate_cb] at hc
    have : k = c := Option.some.inj hc
    subst this
    exact ⟨hk, by rw [activate_act _ _ _ _ hk]; simp⟩
  have hself : NamesActive n (selfControlled n { s with evs := [], ok := true }).cb
      (selfControlled n { s with evs := [], ok := true }).act := by
    intro c hc; rw [selfControlled_cb] at hc; cases hc
  cases op with
  | writeIn k guarded =>
    simp only [step1, step]
    by_cases hk : k < n
    · simp only [hk, if_true]
      by_cases hg : (guarded && s.act k) = true
      · simp only [hg, if_true]; exact hn
      · simp only [hg]; exact hact k hk
    · simp only [hk, if_false]; exact hn
  | writeOut => exact hself
  | activate k =>
    simp only [step1, step]
    by_cases hk : k < n
    · simp only [hk, if_true]; exact hact k hk
    · simp only [hk, if_false]; exact hn
  | deactivate k => exact absurd rfl (hop k)
  | selfControlled => exact hself
  | updateTarget k =>
    simp only [step1, step]
    by_cases hk : k < n
    · simp only [hk, if_true]; exact hn
    · simp only [hk, if_false]; exact hn

/-- **controlled_by_names_active** — in every history without a direct `deactivate_control` call the
output names an input only while that input is marked as controlling (otherwise it names `self`). -/
theorem controlled_by_names_active (n : Nat) (ops : List Op) (hops : ∀ op ∈ ops, ∀ k, op ≠ .deactivate k) :
    NamesActive n (exec n init ops).cb (exec n init ops).act := by
  have hinit : SingleController n init.cb init.act := ⟨fun i _ j _ hi _ => by simp [init] at hi, fun i _ hi => by simp [init] at hi⟩
  have gen : ∀ (ops : List Op) (s : St), (∀ op ∈ ops, ∀ k, op ≠ .deactivate k) →
      SingleController n s.cb s.act → NamesActive n s.cb s.act →
      NamesActive n (exec n s ops).cb (exec n s ops).act := by
    intro ops
    induction ops with
    | nil => intro s _ _ hn; exact hn
    | cons op ops ih =>
      intro s hops h hn
      exact ih _ (fun o ho => hops o (List.mem_cons_of_mem _ ho)) (control_step n s op h).1
        (names_active_step n s op (hops op List.mem_cons_self) h hn)
  exact gen ops init hops hinit (by intro c hc; simp [init] at hc)

/-- the recorded gap of the stronger reading: a direct `deactivate_control` call (as `frappy_psi/mercury.py:
Loop.set_output` makes it) leaves the output naming an input that is not marked -/
theorem names_active_fails_after_deactivate :
    ¬ NamesActive 2 (exec 2 init [.activate 1, .deactivate 1]).cb (exec 2 init [.activate 1, .deactivate 1]).act := by
  decide

/-- non-vacuity: three inputs, a hand-over chain -/
example : (run 3 init [.writeIn 0 true, .writeIn 2 true, .updateTarget 1, .writeOut, .activate 1]).map
    (fun s => (s.cb, (List.range 3).map s.act)) =
    [(some 0, [true, false, false]), (some 2, [false, false, true]), (some 2, [false, false, true]),
     (none, [false, false, false]), (some 1, [false, true, false])] := by decide

/-- the monitor rejects two marked inputs, and an output naming the wrong one -/
example : controlOkB 3 { takeover := .no, strong := false, cb := some 0, act := [true, true, false] } = false := by decide
example : controlOkB 3 { takeover := .byInput 1, strong := false, cb := some 0, act := [false, true, false] } = false := by decide
example : controlOkB 3 { takeover := .byInput 1, strong := true, cb := some 1, act := [false, true, false] } = true := by decide

end control

end Frappy.Props.C18
