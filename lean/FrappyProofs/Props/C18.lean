import FrappyProofs.Lemmas.Control
import FrappyProofs.Lemmas.ExtParams
import FrappyProofs.Lemmas.StructErrors
import FrappyModel.Generated.C18
/-
C18 — property theorems (nothing but property theorems and their non-vacuity examples).
-/
namespace Frappy.Props.C18
open Frappy.Spec.C18 Frappy.Scan

/-! ## controllers of the outputs of a node -/

section control
open Frappy.Control

theorem allSingle_of_named (n nout : Nat) (outOf : Nat → Nat) (cb : Nat → Option Nat) (act : Nat → Bool)
    (hb : ∀ o, o < nout → ∀ i, i < n → outOf i = o → act i = true → cb o = some i) : AllSingle n nout outOf cb act := by
  intro o ho
  refine ⟨fun i hi j hj hall => ?_, hb o ho⟩
  obtain ⟨h1, h2, h3, h4⟩ := hall
  exact Option.some.inj ((hb o ho i hi h1 h3).symm.trans (hb o ho j hj h2 h4))

theorem untouched_refl (n nout : Nat) (outOf : Nat → Nat) (o : Nat) (cb : Nat → Option Nat) (act : Nat → Bool) :
    OthersUntouched n nout outOf o cb cb act act := ⟨fun _ _ _ => rfl, fun _ _ _ => rfl⟩

/-- `activate_control` of input `k`, whatever the `set_control_active` methods do (return, raise before or after marking):
the invariant survives; when it returned, exactly `k` is marked and named; nothing of another output changes -/
theorem activate_ok (cfg : Cfg) (f : Faults) (k : Nat) (s : St) (h : AllSingle cfg.n cfg.nout cfg.outOf s.cb s.act) :
    AllSingle cfg.n cfg.nout cfg.outOf (activate cfg f k s).cb (activate cfg f k s).act ∧
    ((activate cfg f k s).ok = true → TakenOver cfg.n cfg.outOf (.byInput k) (activate cfg f k s).cb (activate cfg f k s).act) ∧
    OthersUntouched cfg.n cfg.nout cfg.outOf (cfg.outOf k) s.cb (activate cfg f k s).cb s.act (activate cfg f k s).act := by
  refine ⟨?_, fun hok => activate_taken cfg f k s hok,
    ⟨fun o' _ hne => activate_frame_cb cfg f k s o' hne, fun i _ hne => activate_frame_act cfg f k s i hne⟩⟩
  have hcb := deactivateAll_cb cfg f (some k) (inputsOf cfg (cfg.outOf k)) s
  have hmono := deactivateAll_mono cfg f (some k) (inputsOf cfg (cfg.outOf k)) s
  have hdone := deactivateAll_done cfg f (some k) (inputsOf cfg (cfg.outOf k)) s
  simp only [activate]
  generalize deactivateAll cfg f (some k) (inputsOf cfg (cfg.outOf k)) s = s1 at *
  refine allSingle_of_named _ _ _ _ _ ?_
  intro o ho i hi hio hai
  by_cases hok1 : s1.ok = true
  · simp only [hok1, Bool.not_true, Bool.false_eq_true, if_false] at hai ⊢
    rw [setAct_cb, setCb_cb, hcb]
    rw [setAct_act] at hai
    by_cases hsame : cfg.outOf i = cfg.outOf k
    · have hik : i = k := by
        apply Classical.byContradiction
        intro hik
        simp only [hik, if_false, setCb_act] at hai
        have := hdone hok1 i ((mem_inputsOf ..).2 ⟨hi, hsame⟩) (by intro e; exact hik (Option.some.inj e).symm)
        rw [this] at hai; cases hai
      subst hik
      simp [← hio]
    · have hik : ¬ i = k := by intro e; rw [e] at hsame; exact hsame rfl
      simp only [hik, if_false, setCb_act] at hai
      have hne : ¬ o = cfg.outOf k := by rw [← hio]; exact hsame
      simp only [hne, if_false]
      exact (h o ho).2 i hi hio (hmono i hai)
  · have hfalse : s1.ok = false := by simpa using hok1
    simp only [hfalse, Bool.not_false, if_true] at hai ⊢
    rw [hcb]; exact (h o ho).2 i hi hio (hmono i hai)

/-- `self_controlled` of output `o0`, whatever the `set_control_active` methods do -/
theorem selfControlled_ok (cfg : Cfg) (f : Faults) (o0 : Nat) (s : St) (h : AllSingle cfg.n cfg.nout cfg.outOf s.cb s.act)
    (ho0 : o0 < cfg.nout) :
    AllSingle cfg.n cfg.nout cfg.outOf (selfControlled cfg f o0 s).cb (selfControlled cfg f o0 s).act ∧
    ((selfControlled cfg f o0 s).ok = true →
      TakenOver cfg.n cfg.outOf (.bySelf o0) (selfControlled cfg f o0 s).cb (selfControlled cfg f o0 s).act) ∧
    OthersUntouched cfg.n cfg.nout cfg.outOf o0 s.cb (selfControlled cfg f o0 s).cb s.act (selfControlled cfg f o0 s).act := by
  refine ⟨?_, ?_, ⟨fun o' _ hne => selfControlled_frame_cb cfg f o0 s o' hne,
    fun i _ hne => selfControlled_frame_act cfg f o0 s i hne⟩⟩
  · -- the invariant
    unfold selfControlled
    cases hc : s.cb o0 with
    | none => exact h
    | some c =>
      simp only []
      have hcb := deactivateAll_cb cfg f none (inputsOf cfg o0) s
      have hmono := deactivateAll_mono cfg f none (inputsOf cfg o0) s
      have hdone := deactivateAll_done cfg f none (inputsOf cfg o0) s
      generalize deactivateAll cfg f none (inputsOf cfg o0) s = s1 at *
      refine allSingle_of_named _ _ _ _ _ ?_
      intro o ho i hi hio hai
      by_cases hok1 : s1.ok = true
      · simp only [hok1, Bool.not_true, Bool.false_eq_true, if_false, setCb_act] at hai ⊢
        by_cases hoo : o = o0
        · have := hdone hok1 i ((mem_inputsOf ..).2 ⟨hi, hio.trans hoo⟩) (by simp)
          rw [this] at hai; cases hai
        · rw [setCb_cb, hcb]; simp only [hoo, if_false]
          exact (h o ho).2 i hi hio (hmono i hai)
      · have hfalse : s1.ok = false := by simpa using hok1
        simp only [hfalse, Bool.not_false, if_true] at hai ⊢
        rw [hcb]; exact (h o ho).2 i hi hio (hmono i hai)
  · -- taken over
    intro hok
    refine ⟨selfControlled_taken_cb cfg f o0 s hok, fun i hi hio => ?_⟩
    unfold selfControlled at hok ⊢
    cases hc : s.cb o0 with
    | none =>
      simp only []
      cases ha : s.act i with
      | false => rfl
      | true => have := (h o0 ho0).2 i hi hio ha; rw [hc] at this; cases this
    | some c =>
      simp only [hc] at hok ⊢
      have hdone := deactivateAll_done cfg f none (inputsOf cfg o0) s
      generalize deactivateAll cfg f none (inputsOf cfg o0) s = s1 at *
      by_cases hok1 : s1.ok = true
      · simp only [hok1, Bool.not_true, Bool.false_eq_true, if_false, setCb_act]
        exact hdone hok1 i ((mem_inputsOf ..).2 ⟨hi, hio⟩) (by simp)
      · have hfalse : s1.ok = false := by simpa using hok1
        simp [hfalse] at hok

/-- one operation (with any outcomes of the `set_control_active` calls it makes), from any state in which every output has
at most one marked input and names it: the same holds afterwards — also when the operation stopped half-way; an operation
that takes over control of an output and returns leaves exactly the new controller marked among the inputs of that output,
named by it — the previous one is switched off; and nothing of another output changes -/
theorem control_step (cfg : Cfg) (s : St) (op : Op × Faults) (h : AllSingle cfg.n cfg.nout cfg.outOf s.cb s.act) :
    AllSingle cfg.n cfg.nout cfg.outOf (step1 cfg s op).cb (step1 cfg s op).act ∧
    ((step1 cfg s op).ok = true → TakenOver cfg.n cfg.outOf (takeoverOf cfg s.act op.1) (step1 cfg s op).cb (step1 cfg s op).act) ∧
    OthersUntouched cfg.n cfg.nout cfg.outOf (targetOf cfg op.1) s.cb (step1 cfg s op).cb s.act (step1 cfg s op).act := by
  obtain ⟨op, f⟩ := op
  have same : ∀ (P : Prop), AllSingle cfg.n cfg.nout cfg.outOf s.cb s.act ∧ (P → TakenOver cfg.n cfg.outOf .no s.cb s.act) ∧
      OthersUntouched cfg.n cfg.nout cfg.outOf (targetOf cfg op) s.cb s.cb s.act s.act :=
    fun _ => ⟨h, fun _ => trivial, untouched_refl ..⟩
  have hact : ∀ k, _ := fun k => activate_ok cfg f k { s with evs := [], ok := true } h
  have hself : ∀ o, o < cfg.nout → _ := fun o ho => selfControlled_ok cfg f o { s with evs := [], ok := true } h ho
  cases op with
  | writeIn k guarded =>
    simp only [step1, step, takeoverOf, targetOf]
    by_cases hk : validIn cfg k = true
    · simp only [hk, if_true]
      by_cases hg : (guarded && s.act k) = true
      · simp only [hg, if_true]; exact same _
      · simp only [hg]; exact hact k
    · simp only [hk]; exact same _
  | writeOut o =>
    simp only [step1, step, takeoverOf, targetOf]
    by_cases ho : o < cfg.nout
    · simp only [ho, if_true]; exact hself o ho
    · simp only [ho, if_false]; exact same _
  | activate k =>
    simp only [step1, step, takeoverOf, targetOf]
    by_cases hk : validIn cfg k = true
    · simp only [hk, if_true]; exact hact k
    · simp only [hk]; exact same _
  | deactivate k =>
    simp only [step1, step, takeoverOf, targetOf]
    by_cases hk : validIn cfg k = true
    · simp only [hk, if_true]
      refine ⟨allSingle_of_named _ _ _ _ _ ?_, fun _ => trivial, ⟨fun _ _ _ => by simp, ?_⟩⟩
      · intro o ho i hi hio hai
        rw [deactivate_cb]
        have hsa := deactivate_mono cfg f k _ i hai
        exact (h o ho).2 i hi hio hsa
      · intro i _ hne
        have hik : i ≠ k := by intro e; rw [e] at hne; exact hne rfl
        exact deactivate_frame cfg f k _ i hik
    · simp only [hk]; exact same _
  | selfControlled o =>
    simp only [step1, step, takeoverOf, targetOf]
    by_cases ho : o < cfg.nout
    · simp only [ho, if_true]; exact hself o ho
    · simp only [ho, if_false]; exact same _
  | updateTarget o k =>
    simp only [step1, step, takeoverOf, targetOf]
    split <;> exact same _

theorem allSingle_init (cfg : Cfg) : AllSingle cfg.n cfg.nout cfg.outOf init.cb init.act :=
  allSingle_of_named _ _ _ _ _ (fun _ _ i _ _ hi => by simp [init] at hi)

/-- after every history the invariant holds -/
theorem control_exec (cfg : Cfg) (ops : List (Op × Faults)) : ∀ s, AllSingle cfg.n cfg.nout cfg.outOf s.cb s.act →
    AllSingle cfg.n cfg.nout cfg.outOf (exec cfg s ops).cb (exec cfg s ops).act := by
  induction ops with
  | nil => intro s h; exact h
  | cons op ops ih => intro s h; exact ih _ (control_step cfg s op h).1

/-- **single_controller** — for every wiring (any number of outputs, each with any number of inputs) and every history
of client writes (to an input's target, to an output's target) and driver-side calls (`activate_control`,
`deactivate_control`, `self_controlled`, `update_target`), with ANY behaviour of the drivers' `set_control_active` methods
during each of them (return, raise before the flag is changed, raise after it — e.g. the previous controller cannot be
switched off while another one takes over): at every quiescent point — also after an operation that failed half-way —
every output has at most one input marked as controlling and names exactly that one. -/
theorem single_controller (cfg : Cfg) (ops : List (Op × Faults)) :
    ∀ s ∈ run cfg init ops, AllSingle cfg.n cfg.nout cfg.outOf s.cb s.act := by
  intro s hs
  obtain ⟨pre, op, post, _, rfl⟩ := mem_scan _ _ _ _ hs
  exact (control_step cfg _ op (control_exec cfg pre init (allSingle_init cfg))).1

/-- **takeover_switches_off** — after every history, an operation by which input `k` (or an output itself) takes
over control of an output and which returns leaves exactly `k` (nobody) marked among the inputs of that output and `k`
(`self`) named by it: the previous controller is switched off.  (An operation that did not return has not taken over: see
`single_controller` for what holds then.) -/
theorem takeover_switches_off (cfg : Cfg) (ops : List (Op × Faults)) (op : Op × Faults)
    (hok : (exec cfg init (ops ++ [op])).ok = true) :
    TakenOver cfg.n cfg.outOf (takeoverOf cfg (exec cfg init ops).act op.1)
      (exec cfg init (ops ++ [op])).cb (exec cfg init (ops ++ [op])).act := by
  have := (control_step cfg _ op (control_exec cfg ops init (allSingle_init cfg))).2.1
  simp only [exec, List.foldl_append, List.foldl_cons, List.foldl_nil] at hok ⊢
  exact this hok

/-- **outputs_independent** — the frame condition: after every history, an operation on output `o` (a write to it or to
one of its inputs, a call of one of their control methods), failed or not, changes neither `controlled_by` of another
output nor `control_active` of an input attached to another output. -/
theorem outputs_independent (cfg : Cfg) (ops : List (Op × Faults)) (op : Op × Faults) :
    OthersUntouched cfg.n cfg.nout cfg.outOf (targetOf cfg op.1) (exec cfg init ops).cb (exec cfg init (ops ++ [op])).cb
      (exec cfg init ops).act (exec cfg init (ops ++ [op])).act := by
  have := (control_step cfg _ op (control_exec cfg ops init (allSingle_init cfg))).2.2
  simpa [exec, List.foldl_append] using this

/-- the stronger reading for output `o` is preserved by every operation except a direct `deactivate_control` call on one
of its inputs and an operation on `o` that did not return -/
theorem names_active_step (cfg : Cfg) (s : St) (op : Op × Faults) (o : Nat)
    (hop : ∀ k, op.1 = .deactivate k → cfg.outOf k ≠ o)
    (hok : targetOf cfg op.1 = o → (step1 cfg s op).ok = true)
    (hn : NamesActive cfg.n cfg.outOf o (s.cb o) s.act) :
    NamesActive cfg.n cfg.outOf o ((step1 cfg s op).cb o) (step1 cfg s op).act := by
  obtain ⟨op, f⟩ := op
  have hact : ∀ k, validIn cfg k = true →
      (cfg.outOf k = o → (activate cfg f k { s with evs := [], ok := true }).ok = true) → NamesActive cfg.n cfg.outOf o
      ((activate cfg f k { s with evs := [], ok := true }).cb o) (activate cfg f k { s with evs := [], ok := true }).act := by
    intro k hk hokk c hc
    have hkn : k < cfg.n := by simp [validIn] at hk; exact hk.1
    by_cases ho : o = cfg.outOf k
    · obtain ⟨h1, h2⟩ := activate_taken cfg f k _ (hokk ho.symm)
      rw [ho, h1] at hc
      have hck : k = c := Option.some.inj hc
      subst hck
      exact ⟨hkn, ho.symm, (h2 k hkn rfl).2 rfl⟩
    · rw [activate_frame_cb cfg f k _ o ho] at hc
      obtain ⟨h1, h2, h3⟩ := hn c hc
      refine ⟨h1, h2, ?_⟩
      rw [activate_frame_act cfg f k _ c (by rw [h2]; exact ho)]
      exact h3
  have hself : ∀ o0, (o0 = o → (selfControlled cfg f o0 { s with evs := [], ok := true }).ok = true) →
      NamesActive cfg.n cfg.outOf o
      ((selfControlled cfg f o0 { s with evs := [], ok := true }).cb o) (selfControlled cfg f o0 { s with evs := [], ok := true }).act := by
    intro o0 hok0 c hc
    by_cases ho : o = o0
    · rw [ho, selfControlled_taken_cb cfg f o0 _ (hok0 ho.symm)] at hc; cases hc
    · rw [selfControlled_frame_cb cfg f o0 _ o ho] at hc
      obtain ⟨h1, h2, h3⟩ := hn c hc
      refine ⟨h1, h2, ?_⟩
      rw [selfControlled_frame_act cfg f o0 _ c (by rw [h2]; exact ho)]
      exact h3
  cases op with
  | writeIn k guarded =>
    simp only [step1, step, targetOf] at hok ⊢
    by_cases hk : validIn cfg k = true
    · simp only [hk, if_true] at hok ⊢
      by_cases hg : (guarded && s.act k) = true
      · simp only [hg, if_true]; exact hn
      · simp only [hg] at hok ⊢; exact hact k hk hok
    · simp only [hk]; exact hn
  | writeOut o0 =>
    simp only [step1, step, targetOf] at hok ⊢
    by_cases ho0 : o0 < cfg.nout
    · simp only [ho0, if_true] at hok ⊢; exact hself o0 hok
    · simp only [ho0, if_false]; exact hn
  | activate k =>
    simp only [step1, step, targetOf] at hok ⊢
    by_cases hk : validIn cfg k = true
    · simp only [hk, if_true] at hok ⊢; exact hact k hk hok
    · simp only [hk]; exact hn
  | deactivate k =>
    simp only [step1, step]
    by_cases hk : validIn cfg k = true
    · simp only [hk, if_true]
      intro c hc
      rw [deactivate_cb] at hc
      obtain ⟨h1, h2, h3⟩ := hn c hc
      refine ⟨h1, h2, ?_⟩
      have hck : c ≠ k := by intro e; rw [e] at h2; exact hop k rfl h2
      rw [deactivate_frame cfg f k _ c hck]
      exact h3
    · simp only [hk]; exact hn
  | selfControlled o0 =>
    simp only [step1, step, targetOf] at hok ⊢
    by_cases ho0 : o0 < cfg.nout
    · simp only [ho0, if_true] at hok ⊢; exact hself o0 hok
    · simp only [ho0, if_false]; exact hn
  | updateTarget o0 k =>
    simp only [step1, step]
    split <;> exact hn

/-- **controlled_by_names_active** — in every history without a direct `deactivate_control` call on an input of
output `o` and in which every operation on `o` returned (no `set_control_active` of its inputs failed), that output names
an input only while the input is marked as controlling (otherwise it names `self`) — whatever happens at the other outputs,
failures included. -/
theorem controlled_by_names_active (cfg : Cfg) (o : Nat) (ops : List (Op × Faults))
    (hops : ∀ op ∈ ops, ∀ k, op.1 = .deactivate k → cfg.outOf k ≠ o)
    (hoks : ∀ pre op post, ops = pre ++ op :: post → targetOf cfg op.1 = o → (step1 cfg (exec cfg init pre) op).ok = true) :
    NamesActive cfg.n cfg.outOf o ((exec cfg init ops).cb o) (exec cfg init ops).act := by
  have gen : ∀ (ops : List (Op × Faults)) (s : St), (∀ op ∈ ops, ∀ k, op.1 = .deactivate k → cfg.outOf k ≠ o) →
      (∀ pre op post, ops = pre ++ op :: post → targetOf cfg op.1 = o → (step1 cfg (exec cfg s pre) op).ok = true) →
      NamesActive cfg.n cfg.outOf o (s.cb o) s.act →
      NamesActive cfg.n cfg.outOf o ((exec cfg s ops).cb o) (exec cfg s ops).act := by
    intro ops
    induction ops with
    | nil => intro s _ _ hn; exact hn
    | cons op ops ih =>
      intro s hops hoks hn
      refine ih _ (fun o' ho' => hops o' (List.mem_cons_of_mem _ ho')) ?_
        (names_active_step cfg s op o (hops op List.mem_cons_self) (hoks [] op ops rfl) hn)
      intro pre op' post he ht
      have := hoks (op :: pre) op' post (by rw [he]; rfl) ht
      simpa [exec] using this
  exact gen ops init hops hoks (by intro c hc; simp [init] at hc)

/-- two outputs: inputs 0 and 2 on output 0, input 1 on output 1 -/
def cfg2 : Cfg := { n := 3, nout := 2, outOf := fun i => if i = 1 then 1 else 0 }

/-- the gap of the stronger reading: a direct `deactivate_control` call (as `frappy_psi/mercury.py: Loop.set_output`
makes it) leaves the output naming an input that is not marked -/
theorem names_active_fails_after_deactivate :
    ¬ NamesActive cfg2.n cfg2.outOf 0 ((exec cfg2 init (plain [.activate 2, .deactivate 2])).cb 0)
      (exec cfg2 init (plain [.activate 2, .deactivate 2])).act := by
  decide

/-- … and so does a take-over in which the new controller could not be switched on (the output is renamed, nobody is
marked): the stronger reading needs operations that return -/
theorem names_active_fails_after_failed_activation :
    ¬ NamesActive cfg2.n cfg2.outOf 0
      ((exec cfg2 init [(.activate 2, fun i b => if i = 2 ∧ b = true then .failBefore else .ok)]).cb 0)
      (exec cfg2 init [(.activate 2, fun i b => if i = 2 ∧ b = true then .failBefore else .ok)]).act := by
  decide

/-- non-vacuity: hand-over on output 0 while input 1 keeps controlling output 1 -/
example : (run cfg2 init (plain [.writeIn 1 true, .writeIn 0 true, .writeIn 2 true, .updateTarget 0 1, .writeOut 0, .activate 0])).map
    (fun s => ((List.range 2).map s.cb, (List.range 3).map s.act)) =
    [([none, some 1], [false, true, false]), ([some 0, some 1], [true, true, false]),
     ([some 2, some 1], [false, true, true]), ([some 2, some 1], [false, true, true]),
     ([none, some 1], [false, true, false]), ([some 0, some 1], [true, true, false])] := by decide

/-- the previous controller (input 0) cannot be switched off -/
def stuck0 : Faults := fun i b => if i = 0 ∧ b = false then .failBefore else .ok
/-- the hardware of input 0 raises after the module was marked as not controlling -/
def late0 : Faults := fun i b => if i = 0 ∧ b = false then .failAfter else .ok

/-- non-vacuity, with faults: input 0 controls output 0; the take-over by input 2 fails because input 0 cannot be switched
off — input 0 stays marked and named, input 2 is not marked; the same for a manual write to the output; a second take-over
goes through.  With an input that raises after it was unmarked the output keeps naming it (nobody is marked), and the next
manual write names `self`. -/
example : (run cfg2 init [(.activate 0, noFaults), (.writeIn 2 false, stuck0), (.writeOut 0, stuck0), (.writeIn 2 false, noFaults),
      (.activate 0, noFaults), (.writeOut 0, late0), (.writeOut 0, noFaults)]).map
    (fun s => ((List.range 2).map s.cb, (List.range 3).map s.act, s.ok)) =
    [([some 0, none], [true, false, false], true), ([some 0, none], [true, false, false], false),
     ([some 0, none], [true, false, false], false), ([some 2, none], [false, false, true], true),
     ([some 0, none], [true, false, false], true), ([some 0, none], [false, false, false], false),
     ([none, none], [false, false, false], true)] := by decide

/-- the monitor rejects two marked inputs of one output, an output naming the wrong one, and an operation on output 1
that switched off the controller of output 0 (shared registry) -/
example : controlOkB 3 2 [0, 1, 0] {
    takeover := .no, target := none, strong := [false, false], cbB := [some 0, none],
    actB := [true, false, true], cb := [some 0, none], act := [true, false, true] } = false := by decide
example : controlOkB 3 2 [0, 1, 0] {
    takeover := .byInput 2, target := some 0, strong := [false, false], cbB := [none, none],
    actB := [false, false, false], cb := [some 0, none], act := [false, false, true] } = false := by decide
example : controlOkB 3 2 [0, 1, 0] {
    takeover := .byInput 1, target := some 1, strong := [true, true], cbB := [some 0, none],
    actB := [true, false, false], cb := [some 0, some 1], act := [false, true, false] } = false := by decide
example : controlOkB 3 2 [0, 1, 0] {
    takeover := .byInput 1, target := some 1, strong := [true, true], cbB := [some 0, none],
    actB := [true, false, false], cb := [some 0, some 1], act := [true, true, false] } = true := by decide
/-- … and a failed take-over by input 2 that left the output renamed while input 0 is still the one marked; the same
record with the output still naming input 0 is accepted -/
example : controlOkB 3 2 [0, 1, 0] {
    takeover := .byInput 2, target := some 0, ok := false, strong := [false, true], cbB := [some 0, none],
    actB := [true, false, false], cb := [some 2, none], act := [true, false, false] } = false := by decide
example : controlOkB 3 2 [0, 1, 0] {
    takeover := .byInput 2, target := some 0, ok := false, strong := [false, true], cbB := [some 0, none],
    actB := [true, false, false], cb := [some 0, none], act := [true, false, false] } = true := by decide

end control

/-! ## struct parameter and member parameters -/

section struct
open Frappy.ExtParams

/-- **struct_members_agree** — for every layout (the programmer wrote `read_<struct>`, `write_<struct>`, both (combined
layout) or neither (per-member layout), and in either layout `read_<m>` / `write_<m>` for any subset of the members),
every history of client reads and writes of
the struct and of its members and of driver-side assignments to either, and every outcome of the driver
bodies (any returned value, `None`, a `SECoPError` or any other exception (`ExcKind`) — also at any member position in
the middle of a generated struct access), at every
quiescent point the struct holds a value for every member and the member parameter shows the same value.  With and
without the omission of unchanged updates (`cfg.omitUnch`: an omitted update runs no callback, so the cross-updating
relies on "unchanged" meaning "already in agreement") and whatever pending flags (`sP`, `mP`) the parameters start with.
`hnd`: the member names are the keys of a `dict`. -/
theorem struct_members_agree (cfg : Cfg) (hnd : cfg.members.Nodup) (sP : Bool) (mP : List String) (ops : List Op) :
    ∀ s ∈ run cfg { init cfg with sP := sP, mP := mP } ops, MembersAgree cfg.members s.struct s.mem := by
  intro s hs
  obtain ⟨pre, op, post, _, rfl⟩ := mem_scan _ _ _ _ hs
  have hI : Inv cfg { init cfg with sP := sP, mP := mP } := inv_congr cfg rfl rfl (inv_init cfg)
  exact (inv_step cfg hnd _ op (inv_exec cfg hnd pre _ hI)).2

/-- the same from any consistent starting point (e.g. after start-up with configured values) -/
theorem struct_members_agree_from (cfg : Cfg) (hnd : cfg.members.Nodup) (s0 : St) (h0 : wf cfg s0.struct = true)
    (h1 : MembersAgree cfg.members s0.struct s0.mem) (ops : List Op) :
    ∀ s ∈ run cfg s0 ops, MembersAgree cfg.members s.struct s.mem := by
  intro s hs
  obtain ⟨pre, op, post, _, rfl⟩ := mem_scan _ _ _ _ hs
  exact (inv_step cfg hnd _ op (inv_exec cfg hnd pre _ ⟨h0, h1⟩)).2

/-- **struct_members_agree_overlapped** — the same when accesses to the whole struct OVERLAP with assignments of other
threads (repaired code, `fix:` 8a147a3: the guard counter is kept per thread).  A history is a list of operations each of
which is either one nothing gets into (`seq`: any operation of `struct_members_agree`, the driver-side assignments of any
thread among them — they run under `updateLock` as a whole) or a generated `read_<struct>` / `write_<struct>` of the
per-member layout with an `Overlap`: any lists of assignments to the struct or to members, by other threads, before each
member is treated, after the loop, between the read of the struct value in `finally` and the update with the merged value,
before the error is announced; and any values (`seen`) for the cache reads of members without `read_<m>`, which are done
outside `updateLock` and may see the middle of another thread's update; or a generated member method of the combined
layout (`readMemberO`: `read_<struct>()[m]`, then the update of the member; `writeMemberO`: read of the cached struct,
`write_<struct>`, `read_<m>`, update of the member with the value `read_<m>` RETURNED) with any lists of such assignments before
each of its steps.  At every quiescent point (no operation in progress) struct and members agree.  Every other access is a single
update under `updateLock` (programmer-written member methods, plain wrappers, `read_/write_<struct>` of the combined layout):
whatever other threads do comes before or after it, which `seq` covers.  Granularity: what is done under `updateLock` is
atomic for everybody who takes that lock; a read of the cached struct value outside it is a single reference read and is taken
at its position. -/
theorem struct_members_agree_overlapped (cfg : Cfg) (hnd : cfg.members.Nodup) (s0 : St) (h0 : wf cfg s0.struct = true)
    (h1 : MembersAgree cfg.members s0.struct s0.mem) (ops : List OOp) :
    ∀ s ∈ orun cfg s0 ops, MembersAgree cfg.members s.struct s.mem := by
  intro s hs
  obtain ⟨pre, op, post, _, rfl⟩ := mem_scan _ _ _ _ hs
  exact (inv_ostep cfg hnd _ op (inv_oexec cfg hnd pre _ ⟨h0, h1⟩)).2

/-- without anything in between, an overlapped access is the access of the sequential model -/
theorem overlapped_nothing_is_sequential (cfg : Cfg) (rA : RRes Dict) (rB : String → RRes Val) (v : Dict) (wA : WRes Dict)
    (wB : String → WRes Val) (s : St) :
    ostep cfg s (.readStructO rA rB {}) = step cfg s (.readStruct rA rB) ∧
    ostep cfg s (.writeStructO v wA wB {}) = step cfg s (.writeStruct v wA wB) := by
  have hr : ∀ l m, readIterO cfg rB {} l m = readIter cfg rB l m := by
    intro l m
    simp only [readIterO, readIter, interrupt, List.foldl_nil, Option.orElse]
  have hw : ∀ l m, writeIterO cfg v wB {} l m = writeIter cfg v wB l m := by
    intro l m
    simp only [writeIterO, writeIter, interrupt, List.foldl_nil]
  have hf : ∀ b l, finishLoopO cfg b {} l = finishLoop cfg b l := by
    intro b l
    simp only [finishLoopO, finishLoop, interrupt, List.foldl_nil]
  have hr' : readIterO cfg rB {} = readIter cfg rB := by funext l m; exact hr l m
  have hw' : writeIterO cfg v wB {} = writeIter cfg v wB := by funext l m; exact hw l m
  constructor
  · simp only [ostep, step, readStructO, readStructB, interrupt, List.append_nil, List.foldl_nil, hf, hr']
  · simp only [ostep, step, writeStructO, writeStructB, interrupt, List.append_nil, List.foldl_nil, hf, hw']

/-- the other half of the defect repaired by `fix:` 8a147a3: with one counter for all threads and a thread switch between the
load and the store of `insideRW += 1`, two threads that each enter and leave once (every thread performs exactly
`enterLeave`, in order) can leave the counter at −1 — non-zero for good, so that no member update reaches the struct any more;
run one after the other they leave it at 0 -/
theorem shared_counter_update_lost :
    let sched : List (Nat × CAct) := [(0, .load), (1, .load), (0, .storeInc), (1, .storeInc), (0, .load), (0, .storeDec), (1, .load), (1, .storeDec)]
    (sched.filter (·.1 = 0)).map (·.2) = enterLeave ∧ (sched.filter (·.1 = 1)).map (·.2) = enterLeave ∧
    (sched.foldl cstep {}).counter = -1 ∧
    ((enterLeave.map (fun a => (0, a)) ++ enterLeave.map (fun a => (1, a))).foldl cstep {}).counter = 0 := by
  decide

def cfgO : Cfg := { members := ["p", "i"], hasRS := false, hasWS := false, hasR := fun _ => true, hasW := fun _ => true, omitUnch := true }
def sO : St := { struct := [("p", 1), ("i", 2)], mem := [("p", 1), ("i", 2)] }

/-- non-vacuity (`cfgO.members.Nodup`, `sO` consistent): the poller reads the struct and finds nothing new; after it has read
`p`, another thread assigns `p = 42` — the member update reaches the struct (its callback is not suppressed), so the result
`{p: 1, i: 2}` is a change again and brings the member back; a second access fails at `i` while another thread assigns the
whole struct between the read of the struct value in `finally` and the update with the merged value -/
example : cfgO.members.Nodup ∧ wf cfgO sO.struct = true ∧ membersAgreeB cfgO.members sO.struct sO.mem = true ∧
    (orun cfgO sO [
      .readStructO (.fail .secop) (fun m => if m = "p" then .ok 1 else .ok 2)
        { before := fun m => if m = "i" then [.assignMember "p" 42] else [] },
      .readStructO (.fail .secop) (fun m => if m = "p" then .ok 5 else .fail .value)
        { afterRead := [.assignStruct [("p", 7), ("i", 8)]] }]).map (fun s => (s.struct, s.mem, s.ok)) =
    [([("p", 1), ("i", 2)], [("p", 1), ("i", 2)], true), ([("p", 5), ("i", 2)], [("p", 5), ("i", 2)], false)] := by decide

/-- the defect repaired by `fix:` 8a147a3, on the model: with ONE guard counter for all threads the callback of an
assignment by another thread is suppressed while an access is in progress (`announceMemberIn` instead of `announceMember`);
an access that finds nothing new is omitted as unchanged, and struct and member stay different. -/
theorem shared_guard_loses_member_update :
    let cfg : Cfg := { members := ["p"], hasRS := false, hasWS := false, hasR := fun _ => true, hasW := fun _ => true, omitUnch := true }
    let s0 : St := { struct := [("p", 1)], mem := [("p", 1)] }
    -- read_<struct>: read_p finds 1 (omitted); the other thread assigns p = 42 with its callback suppressed; the result {p: 1} is omitted
    let l1 := readIter cfg (fun _ => .ok 1) { st := s0 } "p"
    let s2 := finishLoop cfg true { l1 with st := announceMemberIn cfg "p" 42 l1.st }
    ¬ MembersAgree cfg.members s2.struct s2.mem := by
  intro cfg s0 l1 s2
  rw [← membersAgreeB_iff]
  decide

def cfgA : Cfg := { members := ["p", "i", "d"], hasRS := true, hasWS := true, hasR := fun _ => false, hasW := fun _ => false }
def cfgB : Cfg := { members := ["p", "i", "d"], hasRS := false, hasWS := false, hasR := fun m => m != "d", hasW := fun m => m != "d" }
/-- only `read_<struct>` written, and the programmer's own `read_i` next to it -/
def cfgC : Cfg := { members := ["p", "i"], hasRS := true, hasWS := false, hasR := fun m => m == "i", hasW := fun _ => false }

/-- non-vacuity, combined layout: a driver-side member assignment reaches the struct (F32), a member write goes
through `write_<struct>` and `read_<struct>` -/
example : (run cfgA (init cfgA) [
      .driverAssignMember "p" 9,
      .writeMember "i" 5 .retNone (.ok [("p", 9), ("i", 4), ("d", 0)]) (.fail .value) (.fail .key)]).map (fun s => (s.struct, s.mem, s.ok)) =
    [([("p", 9), ("i", 0), ("d", 0)], [("p", 9), ("i", 0), ("d", 0)], true),
     ([("p", 9), ("i", 4), ("d", 0)], [("p", 9), ("i", 4), ("d", 0)], true)] := by decide

/-- non-vacuity, per-member layout: a driver-side struct assignment reaches the members (F32); a struct read in
which the second member fails still leaves the struct up to date with the first -/
example : (run cfgB (init cfgB) [
      .driverAssignStruct [("p", 3), ("i", 4), ("d", 1)],
      .readStruct (.fail .secop) (fun m => if m = "p" then .ok 7 else .fail .value)]).map (fun s => (s.struct, s.mem, s.ok)) =
    [([("p", 3), ("i", 4), ("d", 1)], [("p", 3), ("i", 4), ("d", 1)], true),
     ([("p", 7), ("i", 4), ("d", 1)], [("p", 7), ("i", 4), ("d", 1)], false)] := by decide

/-- **struct_write_refused_at_first_member_is_inert** — per-member layout, repaired code (`fix:` 4979d20, the C04 finding
`…refused-but-struct-and-members-announced-again`): a client write of the whole struct whose FIRST member refuses (its
`write_<m>` - wrapper checks included - raises) ends with that exception and leaves everything as it was: no value stored,
no pending flag touched, NO update message (the events of the step are empty).  Before the repair the `finally` clause
assigned the struct its own value and struct and members were announced again.  A refusal at a LATER member still
re-synchronises struct and members (`struct_members_agree`; second example below). -/
theorem struct_write_refused_at_first_member_is_inert (cfg : Cfg) (hc : cfg.combined = false) (m : String) (ms : List String)
    (hm : cfg.members = m :: ms) (v : Dict) (wA : WRes Dict) (wB : String → WRes Val) (k : ExcKind) (s : St)
    (hv : wf cfg v = true) (hw : cfg.hasW m = true) (hf : wB m = .fail k) :
    step1 cfg s (.writeStruct v wA wB) = { s with evs := [], ok := false, exc := some k } := by
  unfold step1
  simp only [step, hc, Bool.false_eq_true, if_false]
  rw [writeStructB_first_refused cfg m ms hm v wB k _ hv hw hf]
  rfl

/-- non-vacuity: the hypotheses hold for `cfgB`; the first member refusing sends nothing (a pending read error of `i` stays
pending), the second member refusing leaves `p` written and struct and members in agreement, announced -/
example : cfgB.combined = false ∧ cfgB.members = "p" :: ["i", "d"] ∧ wf cfgB [("p", 3), ("i", 30), ("d", 1)] = true ∧
    cfgB.hasW "p" = true := by decide

example : (run cfgB { struct := (init cfgB).struct, mem := (init cfgB).mem, mP := ["i"] } [
      .writeStruct [("p", 3), ("i", 30), ("d", 1)] (.fail .secop) (fun _ => .fail .secop),
      .writeStruct [("p", 3), ("i", 30), ("d", 1)] (.fail .secop) (fun m => if m = "p" then .retNone else .fail .secop)]).map
        (fun s => (s.struct == s.mem, s.mem, s.evs, s.mP, s.ok)) =
    [(true, [("p", 0), ("i", 0), ("d", 0)], [], ["i"], false),
     (true, [("p", 3), ("i", 0), ("d", 0)],
      [.mem "p" 3, .mem "p" 3, .mem "i" 0, .mem "d" 0, .struct [("p", 3), ("i", 0), ("d", 0)]], [], false)] := by decide

/-- non-vacuity, mixed layout: a member write stores the struct through the plain `write_<struct>` wrapper and ends with
the programmer's `read_i` (which reports 6, not the requested 5); a write of the other member ends with the generated
read through `read_<struct>` -/
example : (run cfgC (init cfgC) [
      .writeMember "i" 5 (.fail .secop) (.fail .secop) .retNone (.ok 6),
      .writeMember "p" 2 (.fail .secop) (.ok [("p", 3), ("i", 6)]) .retNone (.fail .key)]).map (fun s => (s.struct, s.mem, s.ok)) =
    [([("p", 0), ("i", 6)], [("p", 0), ("i", 6)], true), ([("p", 3), ("i", 6)], [("p", 3), ("i", 6)], true)] := by decide

example : cfgA.members.Nodup ∧ cfgB.members.Nodup ∧ cfgC.members.Nodup := by decide

/-- non-vacuity, combined layout: a generated `write_i(5)` — another thread assigns `p = 9` between the read of the cached
struct and `write_<struct>` (lost: the struct written was built from the older value), and the whole struct between
`read_<struct>` and the update of the member (kept, with the value `read_<struct>` returned for `i` on top); then a generated
`read_d` with assignments before each of its two steps -/
example : (orun cfgA (init cfgA) [
      .writeMemberO "i" 5 .retNone (.ok [("p", 9), ("i", 4), ("d", 0)]) (.fail .key)
        [[], [.assignMember "p" 9], [], [.assignStruct [("p", 1), ("i", 1), ("d", 1)]]],
      .readMemberO "d" (.ok [("p", 2), ("i", 2), ("d", 2)]) [[.assignMember "d" 7], [.assignMember "i" 8]]]).map
        (fun s => (s.struct, s.mem, s.ok)) =
    [([("p", 1), ("i", 4), ("d", 1)], [("p", 1), ("i", 4), ("d", 1)], true),
     ([("p", 2), ("i", 8), ("d", 2)], [("p", 2), ("i", 8), ("d", 2)], true)] := by decide


/-- non-vacuity, unchanged updates omitted (per-member layout): a struct read that finds the values the parameters
already have sends nothing at all; one that finds a new `p` updates that member and then the struct, whose callback leaves
the unchanged members alone; after a failed read of `i` errors are pending on `i` and on the struct, and the next update of
`i` (and, through its callback, of the struct) is sent although the values are the old ones -/
example : (run { cfgB with omitUnch := true } (init cfgB) [
      .readStruct (.fail .secop) (fun _ => .ok 0),
      .readStruct (.fail .secop) (fun m => if m = "p" then .ok 7 else .ok 0),
      .readStruct (.fail .secop) (fun m => if m = "p" then .ok 7 else .fail .value),
      .readMember "i" (.fail .secop) (.ok 0)]).map (fun s => (s.struct == s.mem, s.mem, s.evs, s.sP, s.mP)) =
    [(true, [("p", 0), ("i", 0), ("d", 0)], [], false, []),
     (true, [("p", 7), ("i", 0), ("d", 0)], [.mem "p" 7, .struct [("p", 7), ("i", 0), ("d", 0)]], false, []),
     (true, [("p", 7), ("i", 0), ("d", 0)], [], true, ["i"]),
     (true, [("p", 7), ("i", 0), ("d", 0)], [.struct [("p", 7), ("i", 0), ("d", 0)], .mem "i" 0], false, [])] := by decide

/-- the monitor rejects what the pinned code did (member assigned, struct stale) -/
example : membersAgreeB ["p", "i"] [("p", 7), ("i", 1)] [("p", 9), ("i", 1)] = false := by decide

/-- what the monitor `MembersRecovered` is given for one operation of the model -/
def sinfoOf (s : St) : SInfo :=
  { ok := s.ok, announced := s.evs.any (fun e => match e with | .struct _ => true | _ => false), flagged := s.mP }

/-- **struct_update_recovers_members** — error states: for every layout, from ANY state (whatever members are in error
state, whatever the struct and the members hold), every operation (`read`/`change` of the struct or of a member, driver-side
assignment of either) with any oracle outcomes, with and without omission of unchanged updates: when the operation returned
and a value of the struct parameter was announced during it, no member is in error state (or never announced) afterwards —
a member that failed before is repaired together with the struct, whether or not its value differs from the one propagated
last.  (`struct_update_recovers_members_overlapped`: the same for accesses that overlap with assignments of other threads.) -/
theorem struct_update_recovers_members (cfg : Cfg) (s : St) (op : Op) :
    MembersRecovered cfg.members (sinfoOf (step1 cfg s op)) := by
  intro hok hann m hm
  have hq : Q cfg { s with evs := [], exc := none } := by
    intro he; obtain ⟨d, hd⟩ := he; cases hd
  have := q_step cfg _ op hq hok
  refine this ?_ m hm
  simp only [sinfoOf, List.any_eq_true] at hann
  obtain ⟨e, he, hs⟩ := hann
  cases e with
  | struct d => exact ⟨d, he⟩
  | mem m x => simp at hs

/-- … at every point of every history -/
theorem struct_update_recovers_members_run (cfg : Cfg) (s0 : St) (ops : List Op) :
    ∀ s ∈ run cfg s0 ops, MembersRecovered cfg.members (sinfoOf s) := by
  intro s hs
  obtain ⟨pre, op, post, _, rfl⟩ := mem_scan _ _ _ _ hs
  exact struct_update_recovers_members cfg _ op

/-- **struct_update_recovers_members_overlapped** — the same for histories in which accesses overlap with driver-side
assignments of other threads (`OOp`: any `Overlap` / `iv`, any values seen by cache reads): an access that returned and during
which a value of the struct was announced — by the access itself or by an assignment of another thread that fell into it —
leaves no member in error state. -/
theorem struct_update_recovers_members_overlapped (cfg : Cfg) (s : St) (op : OOp) :
    MembersRecovered cfg.members (sinfoOf (ostep1 cfg s op)) := by
  intro hok hann m hm
  have hq : Q cfg { s with evs := [], exc := none } := by
    intro he; obtain ⟨d, hd⟩ := he; cases hd
  have := q_ostep cfg _ op hq hok
  refine this ?_ m hm
  simp only [sinfoOf, List.any_eq_true] at hann
  obtain ⟨e, he, hs⟩ := hann
  cases e with
  | struct d => exact ⟨d, he⟩
  | mem m x => simp at hs

/-- non-vacuity (per-member layout): `read_i` fails — `i` is in error state, the struct is not; a member-wise read of the
struct into which an assignment of another thread falls repairs it -/
example : (orun cfgB (init cfgB) [
      .seq (.readMember "i" (.fail .secop) (.fail .value)),
      .readStructO (.fail .secop) (fun _ => .ok 5) { atEnd := [.assignMember "p" 9] }]).map
        (fun s => (s.ok, s.sP, s.mP, (sinfoOf s).announced)) =
    [(false, false, ["i"], false), (true, false, [], true)] := by decide

/-- non-vacuity (combined layout, the situation of a client reading a member during a communication failure): the read of
`i` fails — the struct and `i` are in error state; the next read of the struct delivers the values it had before: the struct is
announced and `i` is announced again although its value is the old one; with omission of unchanged updates the members that
were not in error state are left alone -/
example : (run { cfgA with omitUnch := true } (init cfgA) [
      .readStruct (.ok [("p", 1), ("i", 2), ("d", 3)]) (fun _ => .ok 0),
      .readMember "i" (.fail .secop) (.ok 0),
      .readStruct (.ok [("p", 1), ("i", 2), ("d", 3)]) (fun _ => .ok 0)]).map (fun s => (s.ok, s.sP, s.mP, s.evs)) =
    [(true, false, [], [.mem "p" 1, .mem "i" 2, .mem "d" 3, .struct [("p", 1), ("i", 2), ("d", 3)]]),
     (false, true, ["i"], []),
     (true, false, [], [.mem "i" 2, .struct [("p", 1), ("i", 2), ("d", 3)]])] := by decide

/-- the monitor rejects a record in which the struct was announced by an operation that returned while a member stays in
error state, and accepts it when the operation failed or the struct was not announced -/
example : structRecOkB ["p", "i"] ([("p", 1), ("i", 2)], [("p", 1), ("i", 2)],
    { ok := true, announced := true, flagged := ["i"] }) = false := by decide
example : structRecOkB ["p", "i"] ([("p", 1), ("i", 2)], [("p", 1), ("i", 2)],
    { ok := true, announced := false, flagged := ["i"] }) = true := by decide
example : structRecOkB ["p", "i"] ([("p", 1), ("i", 2)], [("p", 1), ("i", 2)],
    { ok := false, announced := true, flagged := ["i"] }) = true := by decide

end struct

/-! ## float parameter bound to an enumerated index -/

section floatenum
open Frappy.ExtParams

theorem finv_exec (cfg : FCfg) (ops : List FOp) : ∀ s, FInv cfg s → FInv cfg (fexec cfg s ops) := by
  induction ops with
  | nil => intro s h; exact h
  | cons op ops ih => intro s h; exact ih _ (finv_step cfg s op h)

/-- **floatenum_consistent** — for every label set (any values, any index numbering, any order, unique indices), every
history of client writes of the float parameter and of the index, reads, and driver-side assignments to the index
**and to the float parameter itself** — with any outcome of the programmer's `read_/write_<idx>` bodies (a value,
`None`, a SECoP error or any other exception) — the float parameter shows `valuedict[index]` after every operation,
every accepted write of the float parameter handed the driver an index whose value no other label is closer to, and
every driver-side assignment of a value `x` to the float parameter leaves an index whose value no other label is closer to
`x` (the comparison with the value of the current index is exact: a value next to it, at any scale, re-selects).  This
holds with and without the omission of unchanged updates (`cfg.omitUnch`; frappy's default window of 0.1 s makes either
apply to an update, depending on timing) and whatever `readerror` flags (`e1`, `e2`) the two parameters start with. -/
theorem floatenum_consistent (cfg : FCfg) (idx0 : Int) (hn : (cfg.vdict.map Prod.fst).Nodup)
    (h0 : validIdx cfg idx0 = true) (e1 e2 : Bool) (pre : List FOp) (op : FOp) :
    FloatEnumOk cfg.vdict (frecOf cfg (fexec cfg (finit cfg idx0 e1 e2) pre) op) := by
  have hinit : FInv cfg (finit cfg idx0 e1 e2) := by
    unfold validIdx at h0
    unfold FInv ShowsIndexValue finit
    cases h : cfg.vdict.lookup idx0 with
    | none => rw [h] at h0; simp at h0
    | some v => simp
  have hs := finv_exec cfg pre _ hinit
  refine ⟨finv_step cfg _ op hs, ?_, ?_⟩
  · intro x hw hok
    cases op with
    | writeFloat y w =>
      simp only [frecOf, Option.some.injEq] at hw
      subst hw
      obtain ⟨i, hi⟩ := writeFloat_ok_selected cfg y w _ (by simpa [frecOf, fstep1, fstep] using hok)
      exact ⟨i, by simp [frecOf, hi], closest_spec cfg.vdict y i hn hi⟩
    | writeIdx i w => simp [frecOf] at hw
    | readIdx r => simp [frecOf] at hw
    | readFloat => simp [frecOf] at hw
    | driverAssignIdx j => simp [frecOf] at hw
    | driverAssignFloat y => simp [frecOf] at hw
  · intro x ha _
    cases op with
    | driverAssignFloat y =>
      simp only [frecOf, Option.some.injEq] at ha
      subst ha
      have hs' : FInv cfg { fexec cfg (finit cfg idx0 e1 e2) pre with evs := [], exc := none } := hs
      exact assignFloat_selects cfg hn y _ hs'
    | writeFloat y w => simp [frecOf] at ha
    | writeIdx i w => simp [frecOf] at ha
    | readIdx r => simp [frecOf] at ha
    | readFloat => simp [frecOf] at ha
    | driverAssignIdx j => simp [frecOf] at ha

def fcfg : FCfg := { vdict := [(0, 4), (1, 1), (2, 16)], lo := 1, hi := 16, hasR := false, hasW := true }

/-- the repaired finding: `self.<name> = 9` from the driver moves the index to the closest label (4 → index 0 is at
distance 5, 16 → index 2 at distance 7) and the float parameter shows its value -/
example : (frun fcfg (finit fcfg 1) [.driverAssignFloat 9, .driverAssignFloat 16, .driverAssignFloat 1]).map
    (fun s => (s.idx, s.value, s.evs)) =
    [(0, 4, [.value 4, .idx 0, .value 4]), (2, 16, [.value 16, .idx 2, .value 16]), (1, 1, [.value 1, .idx 1, .value 1])] := by
  decide

/-- **closest_first_minimum** — the tie rule of `min(valuedict, key=…)`: the selected label is strictly closer than
every label before it in `valuedict` order and at least as close as every label after it. -/
theorem closest_first_minimum (vdict : List (Int × Val)) (x : Val) (i : Int) (h : closest vdict x = some i) :
    ∃ pre v post, vdict = pre ++ (i, v) :: post ∧ (∀ e ∈ pre, dist v x < dist e.2 x) ∧
      ∀ e ∈ post, dist v x ≤ dist e.2 x := by
  cases vdict with
  | nil => simp [closest] at h
  | cons c cs =>
    simp only [closest, Option.some.injEq] at h
    rcases closestFrom_first x cs c with ⟨hr, hall⟩ | ⟨pre, post, heq, hlt, hpre, hpost⟩
    · refine ⟨[], c.2, cs, ?_, by simp, hall⟩
      rw [hr] at h; rw [← h]; rfl
    · refine ⟨c :: pre, (closestFrom c cs x).2, post, ?_, ?_, hpost⟩
      · rw [← h, List.cons_append, ← heq]
      · intro e he
        rcases List.mem_cons.1 he with e1 | e1
        · rw [e1]; exact hlt
        · exact hpre e e1

/-- tie rule of `min(valuedict, key=…)`: of two equally close labels the first in `valuedict` order wins -/
example : closest [(0, 4), (1, 2), (2, 8)] 3 = some 0 ∧ closest [(1, 2), (0, 4), (2, 8)] 3 = some 1 := by decide

/-- non-vacuity: write 9 selects 4 (distance 5) over 16 (distance 7); the driver overriding the index keeps
the pair consistent; a driver-side index assignment is followed -/
example : (frun fcfg (finit fcfg 0) [.writeFloat 9 .retNone, .writeFloat 2 (.ret 2), .driverAssignIdx 1]).map
    (fun s => (s.idx, s.value, s.ok)) = [(0, 4, true), (2, 16, true), (1, 1, true)] := by decide

/-- a value right next to the value of the current index (labels 1·2⁴⁰, 2·2⁴⁰, 4·2⁴⁰ scaled by 2⁴⁰; assigned: the value
of index 0 plus one unit) is not "equal enough": the callback re-selects, here the same index, and the float parameter
shows the exact value again; one unit more than the midpoint to the next label selects the next -/
example : (frun { vdict := [(0, 1099511627776), (1, 2199023255552), (2, 4398046511104)], lo := 1099511627776,
                  hi := 4398046511104, hasR := false, hasW := false }
      { idx := 0, value := 1099511627776 } [.driverAssignFloat 1099511627777, .driverAssignFloat 1649267441665]).map
    (fun s => (s.idx, s.value, s.evs)) =
    [(0, 1099511627776, [.value 1099511627776, .value 1099511627776]),
     (1, 2199023255552, [.value 2199023255552, .idx 1, .value 2199023255552])] := by decide

/-- with unchanged updates omitted: a driver-side assignment whose closest label is the current index (9 → 4 at index 0)
corrects the float parameter directly — the pinned code re-assigned the index, that update was omitted, and the float
parameter kept 9; an assignment of the value already shown and an index update that changes nothing are omitted
entirely (no update message) -/
example : (frun { fcfg with omitUnch := true } (finit fcfg 0) [.driverAssignFloat 5, .driverAssignFloat 4, .driverAssignIdx 0,
      .driverAssignFloat 9, .driverAssignFloat 15, .readIdx (.fail .secop), .driverAssignIdx 2]).map
    (fun s => (s.idx, s.value, s.evs)) =
    [(0, 4, [.value 4, .value 4]), (0, 4, []), (0, 4, []), (0, 4, [.value 4, .value 4]),
     (2, 16, [.value 16, .idx 2, .value 16]), (2, 16, []), (2, 16, [])] := by decide

/-- the monitor rejects a value that does not belong to the index, a write that did not select a closest label, and a
driver-side assignment after which the float parameter keeps a value next to (but not) the value of the index -/
example : floatEnumOkB [(0, 4), (1, 1)] { write := none, assign := none, ok := true, selected := none, idx := 0, value := 1 } = false := by
  decide
example : floatEnumOkB [(0, 4), (1, 1), (2, 16)]
    { write := some 9, assign := none, ok := true, selected := some 2, idx := 2, value := 16 } = false := by
  decide
example : floatEnumOkB [(0, 1099511627776), (1, 2199023255552)]
    { write := none, assign := some 1099511627777, ok := true, selected := none, idx := 0, value := 1099511627777 } = false := by
  decide
example : floatEnumOkB [(0, 4), (1, 1), (2, 16)]
    { write := none, assign := some 15, ok := true, selected := none, idx := 0, value := 4 } = false := by
  decide

/-- **labels_wellformed** — whatever list of labels the constructor accepts (bare labels, tuples with or without index
and value, any numbering, in any order; the conversion of a label text to a number is an oracle): the indices of
`valuedict` are unique, every member of the enum has a value, all values lie in the range of the float parameter's
datatype, no two labels share an index, and there is at least one label.  These are the hypotheses of
`floatenum_consistent`, which therefore are facts about every constructed float/enum pair, not assumptions. -/
theorem labels_wellformed (specs : List LabelSpec) (r : ParsedLabels) (h : parseLabels specs = some r) :
    (r.vdict.map Prod.fst).Nodup ∧ (∀ e ∈ r.edict, ∃ v, r.vdict.lookup e.2 = some v) ∧
    (∀ c ∈ r.vdict, r.lo ≤ c.2 ∧ c.2 ≤ r.hi) ∧ (r.edict.map Prod.snd).Nodup ∧ r.vdict ≠ [] := by
  unfold parseLabels at h
  simp only at h
  cases hf : fillValues (fun lab => (specs.find? (fun e => e.label == lab)).bind (·.derived))
      (collectLabels specs 0 [] []).1 (collectLabels specs 0 [] []).2 with
  | none => rw [hf] at h; simp at h
  | some vd =>
    rw [hf] at h
    simp only at h
    obtain ⟨h1, _, h3, _⟩ := fillValues_spec _ _ _ _ hf (collectLabels_nodup specs 0 [] [] (by simp))
    by_cases hnd : ((collectLabels specs 0 [] []).1.map Prod.snd).Nodup
    · simp only [hnd, decide_true, Bool.not_true, Bool.false_eq_true, if_false] at h
      cases vd with
      | nil => simp at h
      | cons c cs =>
        simp only [Option.some.injEq] at h
        subst h
        refine ⟨h1, ?_, ?_, hnd, by simp⟩
        · intro e he
          have := h3 e he
          cases hl : List.lookup e.2 (c :: cs) with
          | none => rw [hl] at this; simp at this
          | some v => exact ⟨v, rfl⟩
        · intro c' hc'
          obtain ⟨m1, m2⟩ := minVal_le cs c.2
          obtain ⟨x1, x2⟩ := le_maxVal cs c.2
          rcases List.mem_cons.1 hc' with hc | hc
          · subst hc; exact ⟨m1, x1⟩
          · exact ⟨m2 c' hc, x2 c' hc⟩
    · simp [hnd] at h

/-- **floatenum_consistent_of_labels** — `floatenum_consistent` for every pair the constructor builds: for every accepted
label list, every start index among the enum members and every history, the float parameter shows the value of the
current index after every operation, writes and driver-side assignments select a closest label. -/
theorem floatenum_consistent_of_labels (specs : List LabelSpec) (r : ParsedLabels) (h : parseLabels specs = some r)
    (hasR hasW om e1 e2 : Bool) (e : String × Int) (he : e ∈ r.edict) (pre : List FOp) (op : FOp) :
    FloatEnumOk r.vdict (frecOf { vdict := r.vdict, lo := r.lo, hi := r.hi, hasR := hasR, hasW := hasW, omitUnch := om }
      (fexec { vdict := r.vdict, lo := r.lo, hi := r.hi, hasR := hasR, hasW := hasW, omitUnch := om }
        (finit { vdict := r.vdict, lo := r.lo, hi := r.hi, hasR := hasR, hasW := hasW, omitUnch := om } e.2 e1 e2) pre) op) := by
  obtain ⟨h1, h2, _, _, _⟩ := labels_wellformed specs r h
  obtain ⟨v, hv⟩ := h2 e he
  exact floatenum_consistent { vdict := r.vdict, lo := r.lo, hi := r.hi, hasR := hasR, hasW := hasW, omitUnch := om } e.2 h1
    (by simp [validIdx, hv]) e1 e2 pre op

/-- non-vacuity: all forms of a label; index 3 given, `'2'` continues with 4, `(1, '7')` jumps back, `('d', 5)` continues
with 2; the values of `'2'` and `'7'` come from the label text and are appended to `valuedict` in the order of `edict` -/
example : parseLabels [⟨some 3, "a", some 1, none⟩, ⟨none, "2", none, some 2⟩, ⟨some 1, "7", none, some 7⟩,
      ⟨none, "d", some 5, none⟩] =
    some { edict := [("a", 3), ("2", 4), ("7", 1), ("d", 2)], vdict := [(3, 1), (2, 5), (4, 2), (1, 7)], lo := 1, hi := 7 } := by
  decide

/-- refused: a label that is no number without a value; two labels with one index.  Accepted (a quirk): the same label
twice — the enum keeps one member, `valuedict` both indices -/
example : parseLabels [⟨none, "x", none, none⟩] = none ∧
    parseLabels [⟨some 0, "a", some 1, none⟩, ⟨some 0, "b", some 2, none⟩] = none ∧ parseLabels [] = none ∧
    parseLabels [⟨none, "a", some 1, none⟩, ⟨none, "a", some 2, none⟩] =
      some { edict := [("a", 1)], vdict := [(0, 1), (1, 2)], lo := 1, hi := 2 } := by decide

end floatenum

/-! ## parameter with limit parameters -/

section limits
open Frappy.ExtParams

theorem checkLimits_reset (cfg : LCfg) (s : LSt) (x : Val) :
    checkLimits cfg { s with evs := [], exc := none } x = checkLimits cfg s x := rfl

/-- one operation from any state -/
theorem limits_step (cfg : LCfg) (s : LSt) (op : LOp) : LimitsOk cfg.layers (lrecOf cfg s op) := by
  refine ⟨?_, ?_⟩
  · intro x hw hok happ
    cases op with
    | write y c w cl =>
      simp only [lrecOf, Option.some.injEq] at hw
      subst hw
      simp only [lrecOf, lstep1, lstep, checkLimits_reset] at hok happ ⊢
      by_cases hro : (cl && cfg.readonly) = true
      · simp [hro, lfail] at hok
      simp only [hro, Bool.false_eq_true, if_false] at hok ⊢
      by_cases hr : inRange cfg y = true
      · by_cases hc : (runChecks (checkLimits cfg s y) c cfg.layers 0).ok = true
        · have hlim : checkLimits cfg s y = true := by
            obtain ⟨a, ha, hauto, hst⟩ := happ
            exact runChecks_auto _ c cfg.layers 0 a hc ha hauto (fun j hj => by have := hst j hj; omega)
          have hwithin : Within (limitsOf cfg s) y := within_of_check cfg s y hlim
          refine ⟨hwithin, ?_⟩
          intro he
          simp only [hr, hc, Bool.not_true, Bool.false_eq_true, if_false] at hok ⊢
          have hset : (setValue cfg y { s with evs := [], exc := none }).value = y ∧
              Within (limitsOf cfg (setValue cfg y { s with evs := [], exc := none }))
                (setValue cfg y { s with evs := [], exc := none }).value := by
            rw [setValue_value, setValue_limits]; exact ⟨rfl, hwithin⟩
          unfold echoes at he
          by_cases hW : cfg.hasW = true
          · simp only [hW, if_true] at hok ⊢
            simp only [hW, Bool.not_true, Bool.false_or, Bool.or_eq_true, beq_iff_eq] at he
            rcases he with he | he
            · subst he; exact hset
            · subst he
              simp only [hr, if_true] at hok ⊢
              exact hset
          · simp only [hW, Bool.false_eq_true, if_false]
            exact hset
        · simp [hr, hc] at hok
      · simp [hr, lfail] at hok
    | writeMin y => simp [lrecOf] at hw
    | writeMax y => simp [lrecOf] at hw
    | writeLimits a b => simp [lrecOf] at hw
    | driverAssign y => simp [lrecOf] at hw
    | driverAssignMin y => simp [lrecOf] at hw
    | driverAssignMax y => simp [lrecOf] at hw
    | driverAssignLimits a b => simp [lrecOf] at hw
  · intro ab hs hinv
    cases op with
    | writeLimits a b =>
      simp only [lrecOf, Option.some.injEq] at hs
      subst hs
      have hv : validLimits cfg a b = false := by
        unfold validLimits
        have hba : b < a := hinv
        have : decide (a ≤ b) = false := by simp only [decide_eq_false_iff_not]; exact Int.not_le.mpr hba
        simp [this]
      simp [lrecOf, lstep1, lstep, hv, lfail, limitsOf]
    | write y c w cl => simp [lrecOf] at hs
    | writeMin y => simp [lrecOf] at hs
    | writeMax y => simp [lrecOf] at hs
    | driverAssign y => simp [lrecOf] at hs
    | driverAssignMin y => simp [lrecOf] at hs
    | driverAssignMax y => simp [lrecOf] at hs
    | driverAssignLimits a b => simp [lrecOf] at hs

/-- **limits_enforced** — for every class layout (the limit parameters `<p>_min`, `<p>_max`, `<p>_limits`, any subset,
declared in any classes of the hierarchy — the class of `<p>`, a subclass, a mixin — with programmer-written
`check_<p>` methods in any classes, doing anything: return, raise, `return True`), every history of writes and driver-side
assignments that moved the limits or the parameter, and every operation issued after it: an accepted write of `<p>` is
inside every limit parameter current at that moment (and with a driver that takes the value over, `<p>` is inside its
limits afterwards) whenever the automatic check applies (`AutoApplies`: some class that defines a limit parameter first has
no `check_<p>` of its own, and no programmer's check before it in MRO order returned `True`) — in particular a `check_<p>`
inherited from a class further down never switches the limits off; a write of an inverted `<p>_limits` pair is refused and
leaves the limits as they were.  With and without omission of unchanged updates (`cfg.omitUnch`), whatever `readerror` flags
the parameters start with. -/
theorem limits_enforced (cfg : LCfg) (v0 : Val) (e1 e2 e3 e4 : Bool) (pre : List LOp) (op : LOp) :
    LimitsOk cfg.layers (lrecOf cfg (lexec cfg (linit cfg v0 e1 e2 e3 e4) pre) op) :=
  limits_step cfg _ op

/-- **limits_enforced_plain** — the common case spelled out: when no class of the hierarchy defines a `check_<p>` of
its own, every accepted write is inside all limit parameters that exist (there is at least one), whatever the classes
they are declared in. -/
theorem limits_enforced_plain (cfg : LCfg) (v0 : Val) (e1 e2 e3 e4 : Bool) (pre : List LOp) (x : Val) (c : List CRes) (w : WRes Val)
    (cl : Bool) (hown : ∀ l ∈ cfg.layers, l.ownCheck = false)
    (hlim : (cfg.hasMin || cfg.hasMax || cfg.hasLimits) = true)
    (hok : (lstep1 cfg (lexec cfg (linit cfg v0 e1 e2 e3 e4) pre) (.write x c w cl)).ok = true) :
    Within (limitsOf cfg (lexec cfg (linit cfg v0 e1 e2 e3 e4) pre)) x := by
  have hnone : ∀ (layers : List Layer) (i : Nat) (lim : Bool), (∀ l ∈ layers, l.ownCheck = false) →
      (runChecks lim c layers i).stopAt = none := by
    intro layers
    induction layers with
    | nil => intro i lim _; rfl
    | cons l rest ih =>
      intro i lim h
      have hl := h l List.mem_cons_self
      have hr := ih (i + 1) lim (fun l' hl' => h l' (List.mem_cons_of_mem _ hl'))
      simp only [runChecks, hl, Bool.false_eq_true, if_false]
      split
      · split
        · exact hr
        · rfl
      · exact hr
  -- the class that declares one of the limit parameters last in MRO order carries the automatic check
  have hex : ∀ (sel : Layer → Bool) (layers : List Layer), layers.any sel = true →
      ∃ a, a < layers.length ∧ FirstDeclares layers sel a := by
    intro sel layers
    induction layers with
    | nil => intro h; simp at h
    | cons l rest ih =>
      intro h
      by_cases hrest : rest.any sel = true
      · obtain ⟨a, ha, h1, h2⟩ := ih hrest
        refine ⟨a + 1, by simp; omega, by simpa using h1, fun b hb hab => ?_⟩
        cases b with
        | zero => omega
        | succ b' =>
          have := h2 b' (by simp at hb; omega) (by omega)
          simpa using this
      · have hl : sel l = true := by
          simp only [List.any_cons, Bool.or_eq_true] at h
          rcases h with h | h
          · exact h
          · exact absurd h hrest
        refine ⟨0, by simp, by simpa using hl, fun b hb hab => ?_⟩
        cases b with
        | zero => omega
        | succ b' =>
          have hf : rest.any sel = false := by simpa using hrest
          have hm : rest.getD b' default ∈ rest := by
            have hb' : b' < rest.length := by simp at hb; omega
            have : rest.getD b' default = rest[b'] := by simp [List.getD_eq_getElem?_getD, hb']
            rw [this]
            exact List.getElem_mem hb'
          have := (List.any_eq_false.1 hf) _ hm
          simpa using this
  have happ : AutoApplies cfg.layers (lrecOf cfg (lexec cfg (linit cfg v0 e1 e2 e3 e4) pre) (.write x c w cl)).stopAt := by
    have hst : (lrecOf cfg (lexec cfg (linit cfg v0 e1 e2 e3 e4) pre) (.write x c w cl)).stopAt = none := hnone _ _ _ hown
    rw [hst]
    have hownAt : ∀ a, (cfg.layers.getD a default).ownCheck = false := by
      intro a
      by_cases ha : a < cfg.layers.length
      · have : cfg.layers.getD a default = cfg.layers[a] := by simp [List.getD_eq_getElem?_getD, ha]
        rw [this]; exact hown _ (List.getElem_mem ha)
      · have : cfg.layers.getD a default = default := by
          simp [List.getD_eq_getElem?_getD, List.getElem?_eq_none (Nat.le_of_not_lt ha)]
        rw [this]; rfl
    simp only [Bool.or_eq_true] at hlim
    rcases hlim with (hlim | hlim) | hlim
    · obtain ⟨a, ha, hf⟩ := hex (·.declMin) cfg.layers hlim
      exact ⟨a, ha, ⟨hownAt a, Or.inl hf⟩, fun j hj => by cases hj⟩
    · obtain ⟨a, ha, hf⟩ := hex (·.declMax) cfg.layers hlim
      exact ⟨a, ha, ⟨hownAt a, Or.inr (Or.inl hf)⟩, fun j hj => by cases hj⟩
    · obtain ⟨a, ha, hf⟩ := hex (·.declLimits) cfg.layers hlim
      exact ⟨a, ha, ⟨hownAt a, Or.inr (Or.inr hf)⟩, fun j hj => by cases hj⟩
  exact ((limits_step cfg _ (.write x c w cl)).1 x rfl hok happ).1

/-- `_max` and `_limits` declared in a subclass of the class of `<p>` -/
def lcfg : LCfg := { lo := 0, hi := 100, layers := [{ declMax := true, declLimits := true }, {}], hasW := false }

/-- non-vacuity: limits moved at run time, a write inside `_limits` but above `_max` refused, an inverted pair refused -/
example : (lrun lcfg (linit lcfg 3) [.writeLimits 10 50, .writeMax 40, .write 45 [] .retNone, .write 30 [] .retNone,
      .writeLimits 5 1, .write 5 [] .retNone]).map (fun s => (s.value, s.max, s.limits, s.ok)) =
    [(3, 100, (10, 50), true), (3, 40, (10, 50), true), (3, 40, (10, 50), false), (30, 40, (10, 50), true),
     (30, 40, (10, 50), false), (30, 40, (10, 50), false)] := by decide

example : (∀ l ∈ lcfg.layers, l.ownCheck = false) ∧ (lcfg.hasMin || lcfg.hasMax || lcfg.hasLimits) = true := by decide

/-- the limits are declared in a subclass (position 1) of a driver class with a `check_<p>` of its own (position 2, a
hardware constraint), the module class itself (position 0) has another one -/
def lcfgInh : LCfg :=
  { lo := 0, hi := 100, layers := [{ ownCheck := true }, { declMin := true, declMax := true }, { ownCheck := true }], hasW := false }

/-- non-vacuity: the inherited check method is applied *in addition*: a value above `_max` is refused although both
programmer's checks let it pass; a value inside is refused when the inherited check raises; the automatic check applies
unless the check method of the module class (before it in MRO order) returns `True` -/
example : (lrun lcfgInh (linit lcfgInh 3) [.writeMax 40, .write 45 [.pass, .pass, .pass] .retNone,
      .write 30 [.pass, .pass, .fail .secop] .retNone, .write 30 [] .retNone, .write 45 [.stop] .retNone,
      .write 46 [.pass, .pass, .stop] .retNone]).map (fun s => (s.value, s.max, s.ok, s.exc)) =
    [(3, 40, true, none), (3, 40, false, none), (3, 40, false, some .secop), (30, 40, true, none), (45, 40, true, none),
     (45, 40, false, none)] ∧
    AutoApplies lcfgInh.layers none ∧ AutoApplies lcfgInh.layers (some 2) ∧ ¬ AutoApplies lcfgInh.layers (some 0) := by decide

/-- … and when the class that declares the limits brings its own `check_<p>` there is no automatic check at all -/
example : ¬ AutoApplies [{ declMin := true, ownCheck := true }, {}] none ∧
    AutoApplies [{ declMin := true, ownCheck := true }, { declMax := true }] none := by decide

/-- the monitor rejects what the pinned code did: an inverted pair accepted; `_max` ignored next to `_limits`; and a write
above `_max` accepted because the class declaring `_max` inherits a `check_<p>` -/
example : limitsOkB [{ declLimits := true }] {
    write := none, stopAt := none, echo := false, setLimits := some (5, 1), ok := true,
    before := ⟨none, none, some (0, 100)⟩, after := ⟨none, none, some (5, 1)⟩, value := 3 } = false := by decide
example : limitsOkB [{ declMax := true, declLimits := true }] {
    write := some 45, stopAt := none, echo := true, setLimits := none, ok := true,
    before := ⟨none, some 40, some (10, 50)⟩, after := ⟨none, some 40, some (10, 50)⟩, value := 45 } = false := by decide
example : limitsOkB [{ declMax := true }, { ownCheck := true }] {
    write := some 45, stopAt := none, echo := true, setLimits := none, ok := true,
    before := ⟨none, some 40, none⟩, after := ⟨none, some 40, none⟩, value := 45 } = false := by decide
/-- … but accepts it when the check method of a class before the automatic one returned `True` -/
example : limitsOkB [{ ownCheck := true }, { declMax := true }] {
    write := some 45, stopAt := some 0, echo := true, setLimits := none, ok := true,
    before := ⟨none, some 40, none⟩, after := ⟨none, some 40, none⟩, value := 45 } = true := by decide

end limits

/-! ## facts about the source the models start from (generated tables) -/

section tables
open Frappy.Generated.C18

/-- the limit postfixes the model knows are the ones `Limit` allows; nobody controls an output and no input is
marked at start; clients cannot set the control flags; `insideRW` starts at 0 and is kept per thread (what
`struct_members_agree_overlapped` assumes: an access in progress does not suppress the callbacks of another thread); the default window for omitting unchanged
updates is not 0 (so both values of `omitUnch` occur in a running node) -/
theorem tables_match_model :
    limitPostfixes = ["limits", "max", "min"] ∧ controlledByMembers = [("self", 0)] ∧ controlledByDefault = 0 ∧
    controlActiveDefault = false ∧ controlActiveReadonly = true ∧ controlledByReadonly = true ∧
    insideRWInitial = 0 ∧ insideRWPerThread = true ∧ 0 < omitUnchangedWithinDefaultUs := by decide

end tables

end Frappy.Props.C18
