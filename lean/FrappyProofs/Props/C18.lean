import FrappyProofs.Lemmas.Control
import FrappyProofs.Lemmas.ExtParams
import FrappyModel.Generated.C18
/-
C18 — property theorems (nothing but property theorems and their non-vacuity examples).
-/
namespace Frappy.Props.C18
open Frappy.Spec.C18 Frappy.Scan

/-! ## controllers of one output -/

section control
open Frappy.Control

/-- one operation, from any state in which at most one input is marked and the output names it: the same
holds afterwards, and an operation that takes over control leaves exactly the new controller marked, named
by the output — the previous one is switched off -/
theorem control_step (n : Nat) (s : St) (op : Op) (h : SingleController n s.cb s.act) :
    SingleController n (step1 n s op).cb (step1 n s op).act ∧
    TakenOver n (takeoverOf n s.act op) (step1 n s op).cb (step1 n s op).act := by
  have single_of_named : ∀ (cb : Option Nat) (act : Nat → Bool),
      (∀ i, i < n → act i = true → cb = some i) → SingleController n cb act := by
    intro cb act hb
    refine ⟨fun i hi j hj hai haj => ?_, hb⟩
    have := (hb i hi hai).symm.trans (hb j hj haj)
    exact Option.some.inj this
  have hact : ∀ k, k < n →
      SingleController n (activate n k { s with evs := [], ok := true }).cb (activate n k { s with evs := [], ok := true }).act ∧
      TakenOver n (.byInput k) (activate n k { s with evs := [], ok := true }).cb
        (activate n k { s with evs := [], ok := true }).act := by
    intro k _
    refine ⟨single_of_named _ _ ?_, ?_⟩
    · intro i hi hai
      rw [activate_act _ _ _ _ hi] at hai
      rw [activate_cb]; simp at hai; rw [hai]
    · refine ⟨activate_cb .., fun i hi => ?_⟩
      rw [activate_act _ _ _ _ hi]; simp
  have hself : SingleController n (selfControlled n { s with evs := [], ok := true }).cb
        (selfControlled n { s with evs := [], ok := true }).act ∧
      TakenOver n .bySelf (selfControlled n { s with evs := [], ok := true }).cb
        (selfControlled n { s with evs := [], ok := true }).act := by
    have hall : ∀ i, i < n → (selfControlled n { s with evs := [], ok := true }).act i = false := by
      intro i hi
      cases hc : s.cb with
      | none =>
        rw [selfControlled_none _ _ (by simp)]
        cases ha : s.act i with
        | false => simp
        | true => have := h.2 i hi ha; rw [hc] at this; cases this
      | some c => exact selfControlled_act n _ c (by simp) i hi
    refine ⟨single_of_named _ _ ?_, selfControlled_cb .., hall⟩
    intro i hi hai; rw [hall i hi] at hai; cases hai
  cases op with
  | writeIn k guarded =>
    simp only [step1, step, takeoverOf]
    by_cases hk : k < n
    · simp only [hk, if_true]
      by_cases hg : (guarded && s.act k) = true
      · simp only [hg, if_true]; exact ⟨h, trivial⟩
      · simp only [hg]; exact hact k hk
    · simp only [hk, if_false]; exact ⟨h, trivial⟩
  | writeOut => exact hself
  | activate k =>
    simp only [step1, step, takeoverOf]
    by_cases hk : k < n
    · simp only [hk, if_true]; exact hact k hk
    · simp only [hk, if_false]; exact ⟨h, trivial⟩
  | deactivate k =>
    simp only [step1, step, takeoverOf]
    by_cases hk : k < n
    · simp only [hk, if_true]
      refine ⟨single_of_named _ _ ?_, trivial⟩
      intro i hi hai
      rw [deactivate_act] at hai
      rw [deactivate_cb]
      by_cases hik : i = k
      · simp [hik] at hai
      · simp only [hik, if_false] at hai; exact h.2 i hi hai
    · simp only [hk, if_false]; exact ⟨h, trivial⟩
  | selfControlled => exact hself
  | updateTarget k =>
    simp only [step1, step, takeoverOf]
    by_cases hk : k < n
    · simp only [hk, if_true]; exact ⟨h, trivial⟩
    · simp only [hk, if_false]; exact ⟨h, trivial⟩

/-- after every history the invariant holds -/
theorem control_exec (n : Nat) (ops : List Op) : ∀ s, SingleController n s.cb s.act →
    SingleController n (exec n s ops).cb (exec n s ops).act := by
  induction ops with
  | nil => intro s h; exact h
  | cons op ops ih => intro s h; exact ih _ (control_step n s op h).1

/-- **single_controller** — for every history of client writes (to an input's target, to the output's
target) and driver-side calls (`activate_control`, `deactivate_control`, `self_controlled`,
`update_target`) on `n` inputs of one output, at every quiescent point at most one input is marked as
controlling and the output names exactly that one. -/
theorem single_controller (n : Nat) (ops : List Op) :
    ∀ s ∈ run n init ops, SingleController n s.cb s.act := by
  intro s hs
  obtain ⟨pre, op, post, _, rfl⟩ := mem_scan _ _ _ _ hs
  have hinit : SingleController n init.cb init.act := ⟨fun i _ j _ hi _ => by simp [init] at hi, fun i _ hi => by simp [init] at hi⟩
  exact (control_step n _ op (control_exec n pre init hinit)).1

/-- **takeover_switches_off** — after every history, an operation by which input `k` (or the output itself)
takes over control leaves exactly `k` (nobody) marked and `k` (`self`) named by the output: the previous
controller is switched off. -/
theorem takeover_switches_off (n : Nat) (ops : List Op) (op : Op) :
    TakenOver n (takeoverOf n (exec n init ops).act op) (exec n init (ops ++ [op])).cb (exec n init (ops ++ [op])).act := by
  have hinit : SingleController n init.cb init.act := ⟨fun i _ j _ hi _ => by simp [init] at hi, fun i _ hi => by simp [init] at hi⟩
  have := (control_step n _ op (control_exec n ops init hinit)).2
  simpa [exec, List.foldl_append] using this

/-- the stronger reading is preserved by every operation except a direct `deactivate_control` call -/
theorem names_active_step (n : Nat) (s : St) (op : Op) (hop : ∀ k, op ≠ .deactivate k)
    (hn : NamesActive n s.cb s.act) :
    NamesActive n (step1 n s op).cb (step1 n s op).act := by
  have hact : ∀ k, k < n → NamesActive n (activate n k { s with evs := [], ok := true }).cb
      (activate n k { s with evs := [], ok := true }).act := by
    intro k hk c hc
    rw [activate_cb] at hc
    have : k = c := Option.some.inj hc
    subst this
    exact ⟨hk, by rw [activate_act _ _ _ _ hk]; simp⟩
  have hself : NamesActive n (selfControlled n { s with evs := [], ok := true }).cb
      (selfControlled n { s with evs := [], ok := true }).act := by
    intro c hc; rw [selfControlled_cb] at hc; cases hc
  cases op with
  | writeIn k guarded =>
    simp only [step1, step]
    by_cases hk : k < n
    · simp only [hk, if_true]
      by_cases hg : (guarded && s.act k) = true
      · simp only [hg, if_true]; exact hn
      · simp only [hg]; exact hact k hk
    · simp only [hk, if_false]; exact hn
  | writeOut => exact hself
  | activate k =>
    simp only [step1, step]
    by_cases hk : k < n
    · simp only [hk, if_true]; exact hact k hk
    · simp only [hk, if_false]; exact hn
  | deactivate k => exact absurd rfl (hop k)
  | selfControlled => exact hself
  | updateTarget k =>
    simp only [step1, step]
    by_cases hk : k < n
    · simp only [hk, if_true]; exact hn
    · simp only [hk, if_false]; exact hn

/-- **controlled_by_names_active** — in every history without a direct `deactivate_control` call the
output names an input only while that input is marked as controlling (otherwise it names `self`). -/
theorem controlled_by_names_active (n : Nat) (ops : List Op) (hops : ∀ op ∈ ops, ∀ k, op ≠ .deactivate k) :
    NamesActive n (exec n init ops).cb (exec n init ops).act := by
  have hinit : SingleController n init.cb init.act := ⟨fun i _ j _ hi _ => by simp [init] at hi, fun i _ hi => by simp [init] at hi⟩
  have gen : ∀ (ops : List Op) (s : St), (∀ op ∈ ops, ∀ k, op ≠ .deactivate k) →
      SingleController n s.cb s.act → NamesActive n s.cb s.act →
      NamesActive n (exec n s ops).cb (exec n s ops).act := by
    intro ops
    induction ops with
    | nil => intro s _ _ hn; exact hn
    | cons op ops ih =>
      intro s hops h hn
      exact ih _ (fun o ho => hops o (List.mem_cons_of_mem _ ho)) (control_step n s op h).1
        (names_active_step n s op (hops op List.mem_cons_self) hn)
  exact gen ops init hops hinit (by intro c hc; simp [init] at hc)

/-- the recorded gap of the stronger reading: a direct `deactivate_control` call (as `frappy_psi/mercury.py:
Loop.set_output` makes it) leaves the output naming an input that is not marked -/
theorem names_active_fails_after_deactivate :
    ¬ NamesActive 2 (exec 2 init [.activate 1, .deactivate 1]).cb (exec 2 init [.activate 1, .deactivate 1]).act := by
  decide

/-- non-vacuity: three inputs, a hand-over chain -/
example : (run 3 init [.writeIn 0 true, .writeIn 2 true, .updateTarget 1, .writeOut, .activate 1]).map
    (fun s => (s.cb, (List.range 3).map s.act)) =
    [(some 0, [true, false, false]), (some 2, [false, false, true]), (some 2, [false, false, true]),
     (none, [false, false, false]), (some 1, [false, true, false])] := by decide

/-- the monitor rejects two marked inputs, and an output naming the wrong one -/
example : controlOkB 3 { takeover := .no, strong := false, cb := some 0, act := [true, true, false] } = false := by decide
example : controlOkB 3 { takeover := .byInput 1, strong := false, cb := some 0, act := [false, true, false] } = false := by decide
example : controlOkB 3 { takeover := .byInput 1, strong := true, cb := some 1, act := [false, true, false] } = true := by decide

end control

/-! ## struct parameter and member parameters -/

section struct
open Frappy.ExtParams

/-- **struct_members_agree** — for every layout (combined `read_/write_<struct>` methods or per-member
methods, any subset of members with programmer-written methods), every history of client reads and writes of
the struct and of its members and of driver-side assignments to either, and every outcome of the driver
bodies (any returned value, `None`, an exception — also in the middle of a struct access), at every
quiescent point the struct holds a value for every member and the member parameter shows the same value. -/
theorem struct_members_agree (cfg : Cfg) (ops : List Op) :
    ∀ s ∈ run cfg (init cfg) ops, MembersAgree cfg.members s.struct s.mem := by
  intro s hs
  obtain ⟨pre, op, post, _, rfl⟩ := mem_scan _ _ _ _ hs
  exact (inv_step cfg _ op (inv_exec cfg pre _ (inv_init cfg))).2

/-- the same from any consistent starting point (e.g. after start-up with configured values) -/
theorem struct_members_agree_from (cfg : Cfg) (s0 : St) (h0 : wf cfg s0.struct = true)
    (h1 : MembersAgree cfg.members s0.struct s0.mem) (ops : List Op) :
    ∀ s ∈ run cfg s0 ops, MembersAgree cfg.members s.struct s.mem := by
  intro s hs
  obtain ⟨pre, op, post, _, rfl⟩ := mem_scan _ _ _ _ hs
  exact (inv_step cfg _ op (inv_exec cfg pre _ ⟨h0, h1⟩)).2

def cfgA : Cfg := { members := ["p", "i", "d"], combined := true, hasR := fun _ => false, hasW := fun _ => false }
def cfgB : Cfg := { members := ["p", "i", "d"], combined := false, hasR := fun m => m != "d", hasW := fun m => m != "d" }

/-- non-vacuity, combined layout: a driver-side member assignment reaches the struct (F32), a member write goes
through `write_<struct>` and `read_<struct>` -/
example : (run cfgA (init cfgA) [
      .driverAssignMember "p" 9,
      .writeMember "i" 5 .retNone (.ok [("p", 9), ("i", 4), ("d", 0)]) (.fail .value)]).map (fun s => (s.struct, s.mem, s.ok)) =
    [([("p", 9), ("i", 0), ("d", 0)], [("p", 9), ("i", 0), ("d", 0)], true),
     ([("p", 9), ("i", 4), ("d", 0)], [("p", 9), ("i", 4), ("d", 0)], true)] := by decide

/-- non-vacuity, per-member layout: a driver-side struct assignment reaches the members (F32); a struct read in
which the second member fails still leaves the struct up to date with the first -/
example : (run cfgB (init cfgB) [
      .driverAssignStruct [("p", 3), ("i", 4), ("d", 1)],
      .readStruct (.fail .secop) (fun m => if m = "p" then .ok 7 else .fail .value)]).map (fun s => (s.struct, s.mem, s.ok)) =
    [([("p", 3), ("i", 4), ("d", 1)], [("p", 3), ("i", 4), ("d", 1)], true),
     ([("p", 7), ("i", 4), ("d", 1)], [("p", 7), ("i", 4), ("d", 1)], false)] := by decide

/-- the monitor rejects what the pinned code did (member assigned, struct stale) -/
example : membersAgreeB ["p", "i"] [("p", 7), ("i", 1)] [("p", 9), ("i", 1)] = false := by decide

end struct

/-! ## float parameter bound to an enumerated index -/

section floatenum
open Frappy.ExtParams

theorem finv_exec (cfg : FCfg) (ops : List FOp) : ∀ s, FInv cfg s → FInv cfg (fexec cfg s ops) := by
  induction ops with
  | nil => intro s h; exact h
  | cons op ops ih => intro s h; exact ih _ (finv_step cfg s op h)

/-- **floatenum_consistent** — for every label set (any values, any index numbering, any order, unique indices), every
history of client writes of the float parameter and of the index, reads, and driver-side assignments to the index
**and to the float parameter itself** — with any outcome of the programmer's `read_/write_<idx>` bodies (a value,
`None`, a SECoP error or any other exception) — the float parameter shows `valuedict[index]` after every operation,
and every accepted write of the float parameter handed the driver an index whose value no other label is closer to. -/
theorem floatenum_consistent (cfg : FCfg) (idx0 : Int) (hn : (cfg.vdict.map Prod.fst).Nodup)
    (h0 : validIdx cfg idx0 = true) (pre : List FOp) (op : FOp) :
    FloatEnumOk cfg.vdict (frecOf cfg (fexec cfg (finit cfg idx0) pre) op) := by
  have hinit : FInv cfg (finit cfg idx0) := by
    unfold validIdx at h0
    unfold FInv ShowsIndexValue finit
    cases h : cfg.vdict.lookup idx0 with
    | none => rw [h] at h0; simp at h0
    | some v => simp
  have hs := finv_exec cfg pre _ hinit
  refine ⟨finv_step cfg _ op hs, ?_⟩
  intro x hw hok
  cases op with
  | writeFloat y w =>
    simp only [frecOf, Option.some.injEq] at hw
    subst hw
    obtain ⟨i, hi⟩ := writeFloat_ok_selected cfg y w _ (by simpa [frecOf, fstep1, fstep] using hok)
    exact ⟨i, by simp [frecOf, hi], closest_spec cfg.vdict y i hn hi⟩
  | writeIdx i w => simp [frecOf] at hw
  | readIdx r => simp [frecOf] at hw
  | readFloat => simp [frecOf] at hw
  | driverAssignIdx j => simp [frecOf] at hw
  | driverAssignFloat y => simp [frecOf] at hw

def fcfg : FCfg := { vdict := [(0, 4), (1, 1), (2, 16)], lo := 1, hi := 16, hasR := false, hasW := true }

/-- the repaired finding: `self.<name> = 9` from the driver moves the index to the closest label (4 → index 0 is at
distance 5, 16 → index 2 at distance 7) and the float parameter shows its value -/
example : (frun fcfg (finit fcfg 1) [.driverAssignFloat 9, .driverAssignFloat 16, .driverAssignFloat 1]).map
    (fun s => (s.idx, s.value, s.evs)) =
    [(0, 4, [.value 4, .idx 0, .value 4]), (2, 16, [.value 16, .idx 2, .value 16]), (1, 1, [.value 1, .idx 1, .value 1])] := by
  decide

/-- **closest_first_minimum** — the tie rule of `min(valuedict, key=…)`: the selected label is strictly closer than
every label before it in `valuedict` order and at least as close as every label after it. -/
theorem closest_first_minimum (vdict : List (Int × Val)) (x : Val) (i : Int) (h : closest vdict x = some i) :
    ∃ pre v post, vdict = pre ++ (i, v) :: post ∧ (∀ e ∈ pre, dist v x < dist e.2 x) ∧
      ∀ e ∈ post, dist v x ≤ dist e.2 x := by
  cases vdict with
  | nil => simp [closest] at h
  | cons c cs =>
    simp only [closest, Option.some.injEq] at h
    rcases closestFrom_first x cs c with ⟨hr, hall⟩ | ⟨pre, post, heq, hlt, hpre, hpost⟩
    · refine ⟨[], c.2, cs, ?_, by simp, hall⟩
      rw [hr] at h; rw [← h]; rfl
    · refine ⟨c :: pre, (closestFrom c cs x).2, post, ?_, ?_, hpost⟩
      · rw [← h, List.cons_append, ← heq]
      · intro e he
        rcases List.mem_cons.1 he with e1 | e1
        · rw [e1]; exact hlt
        · exact hpre e e1

/-- tie rule of `min(valuedict, key=…)`: of two equally close labels the first in `valuedict` order wins -/
example : closest [(0, 4), (1, 2), (2, 8)] 3 = some 0 ∧ closest [(1, 2), (0, 4), (2, 8)] 3 = some 1 := by decide

/-- non-vacuity: write 9 selects 4 (distance 5) over 16 (distance 7); the driver overriding the index keeps
the pair consistent; a driver-side index assignment is followed -/
example : (frun fcfg (finit fcfg 0) [.writeFloat 9 .retNone, .writeFloat 2 (.ret 2), .driverAssignIdx 1]).map
    (fun s => (s.idx, s.value, s.ok)) = [(0, 4, true), (2, 16, true), (1, 1, true)] := by decide

/-- the monitor rejects a value that does not belong to the index, and a write that did not select a closest label -/
example : floatEnumOkB [(0, 4), (1, 1)] { write := none, ok := true, selected := none, idx := 0, value := 1 } = false := by
  decide
example : floatEnumOkB [(0, 4), (1, 1), (2, 16)] { write := some 9, ok := true, selected := some 2, idx := 2, value := 16 } = false := by
  decide

end floatenum

/-! ## parameter with limit parameters -/

section limits
open Frappy.ExtParams

/-- one operation from any state -/
theorem limits_step (cfg : LCfg) (s : LSt) (op : LOp) : LimitsOk (lrecOf cfg s op) := by
  refine ⟨?_, ?_⟩
  · intro x hw hok
    cases op with
    | write y w =>
      simp only [lrecOf, Option.some.injEq] at hw
      subst hw
      simp only [lrecOf, lstep1, lstep] at hok ⊢
      by_cases hr : inRange cfg y = true
      · by_cases hc : checkLimits cfg { s with evs := [], exc := none } y = true
        · have hwithin : Within (limitsOf cfg s) y := within_of_check cfg { s with evs := [], exc := none } y hc
          refine ⟨hwithin, ?_⟩
          intro he
          simp only [hr, hc, Bool.not_true, Bool.false_eq_true, if_false] at hok ⊢
          unfold echoes at he
          by_cases hW : cfg.hasW = true
          · simp only [hW, if_true] at hok ⊢
            simp only [hW, Bool.not_true, Bool.false_or, Bool.or_eq_true, beq_iff_eq] at he
            rcases he with he | he
            · subst he; exact ⟨rfl, hwithin⟩
            · subst he
              simp only [hr, if_true] at hok ⊢
              exact ⟨rfl, hwithin⟩
          · simp only [hW, Bool.false_eq_true, if_false]
            exact ⟨rfl, hwithin⟩
        · simp [hr, hc, lfail] at hok
      · simp [hr, lfail] at hok
    | writeMin y => simp [lrecOf] at hw
    | writeMax y => simp [lrecOf] at hw
    | writeLimits a b => simp [lrecOf] at hw
    | driverAssign y => simp [lrecOf] at hw
    | driverAssignMin y => simp [lrecOf] at hw
    | driverAssignMax y => simp [lrecOf] at hw
    | driverAssignLimits a b => simp [lrecOf] at hw
  · intro ab hs hinv
    cases op with
    | writeLimits a b =>
      simp only [lrecOf, Option.some.injEq] at hs
      subst hs
      have hv : validLimits cfg a b = false := by
        unfold validLimits
        have hba : b < a := hinv
        have : decide (a ≤ b) = false := by simp only [decide_eq_false_iff_not]; exact Int.not_le.mpr hba
        simp [this]
      simp [lrecOf, lstep1, lstep, hv, lfail, limitsOf]
    | write y w => simp [lrecOf] at hs
    | writeMin y => simp [lrecOf] at hs
    | writeMax y => simp [lrecOf] at hs
    | driverAssign y => simp [lrecOf] at hs
    | driverAssignMin y => simp [lrecOf] at hs
    | driverAssignMax y => simp [lrecOf] at hs
    | driverAssignLimits a b => simp [lrecOf] at hs

/-- **limits_enforced** — for every configuration of limit parameters (`<p>_min`, `<p>_max`, `<p>_limits`, any
subset), every history of writes and driver-side assignments that moved the limits or the parameter, and
every operation issued after it: an accepted write of `<p>` is inside every limit parameter current at that
moment (and with a driver that takes the value over, `<p>` is inside its limits afterwards); a write of an
inverted `<p>_limits` pair is refused and leaves the limits as they were. -/
theorem limits_enforced (cfg : LCfg) (v0 : Val) (pre : List LOp) (op : LOp) :
    LimitsOk (lrecOf cfg (lexec cfg (linit cfg v0) pre) op) :=
  limits_step cfg _ op

def lcfg : LCfg := { lo := 0, hi := 100, hasMin := false, hasMax := true, hasLimits := true, hasW := false }

/-- non-vacuity: limits moved at run time, a write inside `_limits` but above `_max` refused, an inverted pair refused -/
example : (lrun lcfg (linit lcfg 3) [.writeLimits 10 50, .writeMax 40, .write 45 .retNone, .write 30 .retNone,
      .writeLimits 5 1, .write 5 .retNone]).map (fun s => (s.value, s.max, s.limits, s.ok)) =
    [(3, 100, (10, 50), true), (3, 40, (10, 50), true), (3, 40, (10, 50), false), (30, 40, (10, 50), true),
     (30, 40, (10, 50), false), (30, 40, (10, 50), false)] := by decide

/-- the monitor rejects what the pinned code did: an inverted pair accepted; `_max` ignored next to `_limits` -/
example : limitsOkB {
    write := none, echo := false, setLimits := some (5, 1), ok := true,
    before := ⟨none, none, some (0, 100)⟩, after := ⟨none, none, some (5, 1)⟩, value := 3 } = false := by decide
example : limitsOkB {
    write := some 45, echo := true, setLimits := none, ok := true,
    before := ⟨none, some 40, some (10, 50)⟩, after := ⟨none, some 40, some (10, 50)⟩, value := 45 } = false := by decide

end limits

/-! ## facts about the source the models start from (generated tables) -/

section tables
open Frappy.Generated.C18

/-- the limit postfixes the model knows are the ones `Limit` allows; nobody controls an output and no input is
marked at start; clients cannot set the control flags; `insideRW` starts at 0 -/
theorem tables_match_model :
    limitPostfixes = ["limits", "max", "min"] ∧ controlledByMembers = [("self", 0)] ∧ controlledByDefault = 0 ∧
    controlActiveDefault = false ∧ controlActiveReadonly = true ∧ controlledByReadonly = true ∧
    insideRWInitial = 0 := by decide

end tables

end Frappy.Props.C18
