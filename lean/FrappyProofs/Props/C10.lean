import FrappyProofs.Lemmas.Config
import FrappyProofs.Lemmas.Merge
import FrappyProofs.Lemmas.WriteLoop
import FrappyProofs.Lemmas.ConfigDsl
import FrappyProofs.Lemmas.ConfigAttach
import FrappyProofs.Lemmas.ConfigAttachClean
import FrappyProofs.Lemmas.ConfigUnit
import FrappyModel.Klass.ConfigDT
import FrappyModel.Generated.C10
/-
C10 — property theorems (nothing but property theorems, full statements kept as `…_statement`, and
non-vacuity examples).  All theorems hold for every datatype oracle `Ops`.
-/
namespace Frappy.Props.C10
open Frappy.Config Frappy.Spec.C10 Frappy.Lemmas.Config

variable {DT Val : Type}

/-! ## rejected as a whole -/

/-- an accepted configuration of a well-formed class contains none of the errors named in the statement -/
theorem accepted_clean (ops : Ops DT Val) (c : ClassDesc DT Val) (cfg : Cfg Val) (i : Instance DT Val)
    (wf : WellFormed c) (h : applyConfig ops c cfg = .ok i) : ¬ Offence ops c cfg := by
  have acc := accepted_of_ok ops c cfg i h
  intro hoff
  cases hoff with
  | unknownName k hk hnot =>
    have hl := acc.left
    unfold leftover at hl
    have : k ∈ (cfg.map (·.1)).filter (fun k => !(knownNames c).contains k) := by
      rw [List.mem_filter]; exact ⟨hk, by simpa using hnot⟩
    rw [hl] at this; cases this
  | badModProp d v hd hcfg hval =>
    have hok := ((modProps_ok cfg c.modProps ⟨[], [], false⟩ rfl acc.mpRaised acc.mpErrs).2 d hd).2
    rcases hcfg with hc | hc | ⟨items, hc, hv⟩
    · rw [hc] at hok; simp [applyModProp, hval] at hok
    · rw [hc] at hok; simp [applyModProp, hval] at hok
    · rw [hc] at hok; simp [applyModProp, hv, hval] at hok
  | propExtraKey d items k hd hcfg hk hne =>
    have hex := ((modProps_ok cfg c.modProps ⟨[], [], false⟩ rfl acc.mpRaised acc.mpErrs).2 d hd).1
    rw [hcfg] at hex
    simp only [extraKeys, List.filter_eq_nil_iff] at hex
    have := hex k hk
    simp [hne] at this
  | mandatory d hd hm hcv hcfg =>
    have hnone : lookup d.name (applyModProps c.modProps cfg).values = none := by
      apply modProps_no_value cfg d.name c.modProps ⟨[], [], false⟩ rfl
      intro d' hd' hn
      have : d' = d := name_determines (fun x : ModPropDesc Val => x.name) c.modProps wf.propNames d' hd' d hd hn
      subst this
      exact ⟨by rw [hcfg]; rfl, hcv⟩
    have hmand := acc.mandatory
    unfold checkMandatory at hmand
    cases hf : c.modProps.find? (fun d => d.mandatory && (lookup d.name (applyModProps c.modProps cfg).values).isNone) with
    | some d' => rw [hf] at hmand; cases hmand
    | none =>
      rw [List.find?_eq_none] at hf
      have := hf d hd
      simp [hm, hnone] at this
  | cmdProp n items k v hn hcfg hkv hbad =>
    have hok := (Lemmas.ConfigDsl.cmds_ok ops cfg c.otherNames ⟨[], false⟩ rfl acc.cmRaised acc.cmErrs).2 n hn
    rw [hcfg] at hok
    simp only [addCommand] at hok
    obtain ⟨f, hf, hs⟩ := Lemmas.ConfigDsl.cmdEntries_nil ops n items hok (k, v) hkv
    simp only [hf] at hbad
    cases hfv : f v with
    | none => rw [hfv] at hs; cases hs
    | some _ => rw [hfv] at hbad; cases hbad
  | param pd dt0 dflt items hpd hs hcfg hoff =>
    obtain ⟨outs, o, _, _, _, _, pk, hchk⟩ := accepted_param ops c cfg i acc wf pd hpd dt0 dflt hs
    rw [items_eq pd cfg items hcfg] at hoff
    obtain ⟨dt', hafter, hodt, hval, hnov, hdef⟩ := pk.dt
    cases hoff with
    | badProp hb => rw [pk.noBadProp] at hb; cases hb
    | badValue dt'' x ha hx hconv =>
      rw [hafter] at ha; cases ha
      rcases hx with hx | hx
      · have := (hval x hx).1; rw [hconv] at this; cases this
      · have := hdef x hx; rw [hconv] at this; cases this
    | inverted dt'' ha hchk' =>
      rw [hafter] at ha; cases ha
      have := hchk dt' hodt; rw [hchk'] at this; cases this
    | needsCfg hn hg =>
      have := (hnov hg).2; rw [hn] at this; cases this

/-- `rejected_whole` (first half): a configuration of a well-formed class containing an unknown property or
parameter name (also an unknown key in the dict given for a module property), an unknown parameter property or a
property value of the wrong type, a value or default of the
wrong type (for the datatype AFTER the overrides; limit parameters included, their datatype being derived from
the base parameter's), an ill-typed module property, a missing mandatory property, a missing required value,
or inverted limits, is rejected, and the report is not empty.  (Second half — nothing is registered and the
module is reported — is `errors_complete`.) -/
theorem rejected_whole (ops : Ops DT Val) (c : ClassDesc DT Val) (cfg : Cfg Val) (wf : WellFormed c)
    (h : Offence ops c cfg) : ∃ es, applyConfig ops c cfg = .error es ∧ es ≠ [] := by
  cases hres : applyConfig ops c cfg with
  | ok i => exact absurd h (accepted_clean ops c cfg i wf hres)
  | error es => exact ⟨es, rfl, applyConfig_error_ne_nil ops c cfg es hres⟩

/-! ## applied faithfully -/

/-- an accepted configuration shows on the instance: for every parameter (own datatype, or limit derived from its
base) there is its parameter object, whose datatype is the datatype it started from with the configured overrides
applied in order (this is what `describe` exports and what later validation uses) and is consistent, and whose
start value is the configured (else class level) value converted by that FINAL datatype -/
theorem config_applied (ops : Ops DT Val) (c : ClassDesc DT Val) (cfg : Cfg Val) (i : Instance DT Val)
    (wf : WellFormed c) (h : applyConfig ops c cfg = .ok i) (pd : ParamDesc DT Val) (dt0 : DT) (dflt : Option Val)
    (hpd : pd ∈ c.params) (hs : startOf ops c cfg pd = some (dt0, dflt)) :
    ∃ p ∈ i.params, p.name = pd.name ∧
      ∃ dt', dtAfter ops dt0 ((cfgOf pd.name cfg).getD []) = some dt' ∧ p.dt = some dt' ∧ ops.checkDT dt' = true ∧
        (∀ x, givenFor "value" pd.value ((cfgOf pd.name cfg).getD []) = some x →
          ∃ y, ops.convert dt' x = some y ∧ p.value = some y) := by
  have acc := accepted_of_ok ops c cfg i h
  obtain ⟨outs, o, hi, _, ho, hname, pk, hchk⟩ := accepted_param ops c cfg i acc wf pd hpd dt0 dflt hs
  obtain ⟨dt', hafter, hodt, hval, _, _⟩ := pk.dt
  refine ⟨o.inst, by rw [hi]; exact List.mem_map_of_mem ho, hname, dt', hafter, hodt, hchk dt' hodt, ?_⟩
  intro x hx
  obtain ⟨hsome, hv, _⟩ := hval x hx
  cases hc : ops.convert dt' x with
  | none => rw [hc] at hsome; cases hsome
  | some y => exact ⟨y, rfl, by rw [hv]; simp [conv, hc]⟩

/-- configured own properties (readonly, visibility, export, group, description, …): for EVERY parameter of an accepted
configuration (limit parameters included) the parameter object carries `ownAfter` — the class values with every configured
property set, in the order written, to its value as converted by the property's datatype -/
theorem config_applied_own (ops : Ops DT Val) (c : ClassDesc DT Val) (cfg : Cfg Val) (i : Instance DT Val)
    (h : applyConfig ops c cfg = .ok i) (pd : ParamDesc DT Val) (hpd : pd ∈ c.params) :
    ∃ p ∈ i.params, p.name = pd.name ∧ p.own = ownAfter ops pd.own ((cfgOf pd.name cfg).getD []) := by
  have acc := accepted_of_ok ops c cfg i h
  obtain ⟨outs, hrun, hi, _, herrs, _⟩ := accepted_run ops c cfg i acc
  obtain ⟨insts', o, hadd, ho⟩ := run_mem ops cfg c.params [] outs hrun pd hpd
  have hitems := addParam_items ops insts' pd cfg o hadd
  obtain ⟨a, ha⟩ := Lemmas.ConfigDsl.addParam_entries ops insts' pd _ _ o hitems hadd
  refine ⟨o.inst, by rw [hi]; exact List.mem_map_of_mem ho, addParam_name ops _ _ _ _ hadd, ?_⟩
  have hown : o.inst.own = a.own := by
    -- `o` is what `_handle_writes` made of `a`: own properties untouched
    have hw : ∀ a', (handleWrites ops pd a').inst.own = a'.own := by
      intro a'
      unfold handleWrites
      split
      · rfl
      · split
        · rfl
        · split
          · simp only [startFromDefault]; split <;> rfl
          · rfl
    rcases hitems with he | ⟨he, hnil⟩
    · rw [he] at hadd
      simp only [addParam, ha, PRes.done.injEq] at hadd
      rw [← hadd]; exact hw a
    · rw [he] at hadd
      simp only [addParam, PRes.done.injEq] at hadd
      rw [hnil] at ha
      simp only [applyEntries, Option.some.injEq] at ha
      rw [← hadd, ← ha]; exact hw _
  rw [hown, Lemmas.ConfigDsl.applyEntries_own ops _ _ a ha, (startAcc_value ops insts' pd).2]

/-! ## module properties -/

theorem applyModProp_given (d : ModPropDesc Val) (cfg : Cfg Val) (v : Val) (hg : propGiven d cfg = some v) :
    applyModProp d (lookup d.name cfg) = match d.validate v with | some v' => .set v' | none => .bad := by
  unfold propGiven at hg
  cases hl : lookup d.name cfg with
  | none => simp [hl] at hg
  | some e =>
    rw [hl] at hg
    cases e with
    | prop pc =>
      cases pc with
      | bare v0 => simp only [Option.some.injEq] at hg; subst hg; rfl
      | dict ov => simp only at hg; subst hg; rfl
    | acc items => simp only at hg; simp only [applyModProp, hg]; cases d.validate v <;> rfl

/-- "each configured module property … is applied to that instance": in an accepted configuration of a well-formed
class, the value the configuration gives for a module property — bare, as `Param(v)` or in a dict — converted by the
property's datatype is the value the instance has.  (Holds for every instance built: `applyConfig` only reads `cfg`.) -/
theorem modprops_applied (ops : Ops DT Val) (c : ClassDesc DT Val) (cfg : Cfg Val) (i : Instance DT Val)
    (wf : WellFormed c) (h : applyConfig ops c cfg = .ok i) (d : ModPropDesc Val) (hd : d ∈ c.modProps) (v : Val)
    (hg : propGiven d cfg = some v) :
    ∃ v', d.validate v = some v' ∧ lookup d.name i.modProps = some v' := by
  have acc := accepted_of_ok ops c cfg i h
  have hok := ((modProps_ok cfg c.modProps ⟨[], [], false⟩ rfl acc.mpRaised acc.mpErrs).2 d hd).2
  have hap := applyModProp_given d cfg v hg
  cases hv : d.validate v with
  | none => rw [hv] at hap; rw [hap] at hok; rcases hok with h1 | ⟨_, h1⟩ <;> cases h1
  | some v' =>
    rw [hv] at hap
    refine ⟨v', rfl, ?_⟩
    rw [acc.inst]
    exact Lemmas.ConfigDsl.modProps_value cfg d v' hap c.modProps ⟨[], [], false⟩ rfl acc.mpRaised wf.propNames hd rfl

/-! ## optional accessibles: declared in a base class, not implemented by the class -/

/-- the constructor's loop over `accessibles` (with its `continue` for optional ones) is the loop over the implemented
accessibles, and it takes out of `cfgdict` only entries of implemented accessibles -/
theorem optional_skipped (ops : Ops DT Val) (ds : List (AccDecl DT Val)) (cfg : Cfg Val) :
    (accLoop ops ds cfg).out = applyParams ops (implemented ds) cfg ∧
    ∀ k ∈ (accLoop ops ds cfg).popped, k ∈ (implemented ds).map (·.name) := by
  refine ⟨Lemmas.ConfigDsl.accLoop_fold ops cfg ds _, fun k hk => ?_⟩
  rcases Lemmas.ConfigDsl.accLoop_popped ops cfg ds _ k hk with h | h
  · cases h
  · exact h

/-- a cfg entry naming an optional accessible which the class does not implement (and which is not the name of
anything else the class has) is never consumed by the loop and the configuration is rejected -/
theorem optional_cfg_rejected (ops : Ops DT Val) (mp : List (ModPropDesc Val)) (ds : List (AccDecl DT Val))
    (other : List Name) (cfg : Cfg Val) (wf : WellFormed (⟨mp, implemented ds, other⟩ : ClassDesc DT Val))
    (d : AccDecl DT Val) (_hd : d ∈ ds) (_hopt : d.optional = true) (hcfg : d.desc.name ∈ cfg.map (·.1))
    (hnot : d.desc.name ∉ knownNames (⟨mp, implemented ds, other⟩ : ClassDesc DT Val)) :
    d.desc.name ∉ (accLoop ops ds cfg).popped ∧
    ∃ es, applyConfig ops ⟨mp, implemented ds, other⟩ cfg = .error es ∧ es ≠ [] := by
  refine ⟨fun hp => hnot ?_, rejected_whole ops _ cfg wf (.unknownName d.desc.name hcfg hnot)⟩
  have := (optional_skipped ops ds cfg).2 _ hp
  simp only [knownNames, List.mem_append]
  exact Or.inl (Or.inr this)

/-! ## the configuration DSL -/

open Lemmas.ConfigDsl in
/-- `dsl_faithful`: the dict `Mod(name, cls, description, args…)` builds (`Param.__init__`, the wrapping of bare values,
the `Group` loop) is the module configuration the written text stands for (`specCfg`) — for every well-written
argument list (distinct keywords, none called `description`, no `Param(v, value=…)`, every group member has an
argument of its own).  In particular every written value, whatever it is (`None`, `0`, `''` …), is in the dict under
`value`, and `g=Group('a', 'b')` sets `group` of `a` and of `b` and of nothing else. -/
theorem dsl_faithful (mkStr : Name → Val) (descr : Val) (args : List (Name × DslArg Val))
    (ok : WrittenOk args) (hg : GroupsOk args) :
    modDict mkStr descr args = some (specCfg mkStr descr args) := by
  have hfold := modArgs_fold args [("description", Entry.prop (PropCfg.bare descr))] ok.keys
    (fun k hk => by
      have : "description" ≠ k := fun he => ok.noDescr (he ▸ hk)
      simp [lookup, this])
    ok.noValueKw
  simp only [List.singleton_append] at hfold
  -- the dict after the first loop, its keys are distinct
  have hsub := plain_keys_sublist args
  have hnd : ((("description", Entry.prop (PropCfg.bare descr)) :: args.filterMap plainEntry).map (·.1)).Nodup := by
    simp only [List.map_cons, List.nodup_cons]
    exact ⟨fun h => ok.noDescr (hsub.subset h), hsub.nodup ok.keys⟩
  -- every member of every group has a Param dict there
  have hmem : ∀ g ∈ groupsOf args, ∀ m ∈ g.2, ∃ items,
      lookup m (("description", Entry.prop (PropCfg.bare descr)) :: args.filterMap plainEntry) = some (.acc items) := by
    intro g hgm m hm
    obtain ⟨a, ha, hw⟩ := hg g.1 g.2 (mem_groupsOf args g hgm) m hm
    cases hwi : writtenItems a with
    | none => rw [hwi] at hw; cases hw
    | some items =>
      refine ⟨items, lookup_of_mem _ m _ hnd (List.mem_cons_of_mem _ ?_)⟩
      rw [List.mem_filterMap]
      exact ⟨(m, a), ha, by simp [plainEntry, hwi]⟩
  obtain ⟨S', h1, h2⟩ := groups_fold mkStr _ hnd (groupsOf args) (fun _ => none) hmem
  have hid : (("description", Entry.prop (PropCfg.bare descr)) :: args.filterMap plainEntry).map (upd mkStr (fun _ => none))
      = ("description", Entry.prop (PropCfg.bare descr)) :: args.filterMap plainEntry := by
    rw [List.map_congr_left (fun kv _ => upd_none mkStr kv)]; simp
  unfold modDict
  rw [hfold, ← hid, h1]
  -- the group assignment reached is the one the specification reads off the text
  have hS : ∀ k, S' k = groupFor args k := fun k => by rw [h2 k, groupFor_groupsOf]; rfl
  simp only [specCfg, List.map_cons, Option.some.injEq, List.cons.injEq]
  refine ⟨rfl, ?_⟩
  rw [List.map_filterMap]
  apply filterMap_ext
  intro kv _
  unfold plainEntry
  cases writtenItems kv.2 with
  | none => rfl
  | some items => simp [upd, hS]

open Lemmas.ConfigDsl in
/-- the check the driver runs on every written module implies the hypotheses of `dsl_faithful` -/
theorem writtenOkB_sound (args : List (Name × DslArg Val)) (h : writtenOkB args = true) :
    WrittenOk args ∧ GroupsOk args := by
  simp only [writtenOkB, Bool.and_eq_true, decide_eq_true_eq, Bool.not_eq_true', List.all_eq_true] at h
  obtain ⟨⟨⟨h1, h2⟩, h3⟩, h4⟩ := h
  refine ⟨⟨h1, fun hm => ?_, fun k v kwds hk => ?_⟩, fun g ms hg m hm => ?_⟩
  · have : (args.map (·.1)).contains "description" = true := by simpa using hm
    rw [this] at h2; cases h2
  · have := h3 _ hk
    simpa using this
  · have := h4 _ hg
    simp only [List.all_eq_true, List.any_eq_true, Bool.and_eq_true, beq_iff_eq] at this
    obtain ⟨kv', hkv', hn, hw⟩ := this m hm
    exact ⟨kv'.2, by rw [← hn]; exact hkv', hw⟩

/-- the check the driver runs on every class description implies `WellFormed`, the hypothesis of the theorems -/
theorem wellFormedB_sound (c : ClassDesc DT Val) (h : wellFormedB c = true) : WellFormed c := by
  simp only [wellFormedB, Bool.and_eq_true, decide_eq_true_eq, List.all_eq_true, Bool.or_eq_true, Bool.not_eq_true',
    bne_iff_ne, ne_eq, Option.isNone_iff_eq_none] at h
  obtain ⟨⟨h1, h2⟩, h3⟩ := h
  refine ⟨h1, h2, fun pd hpd hl b hb hn => ?_⟩
  rcases h3 pd hpd with h' | h'
  · rw [hl] at h'; cases h'
  · rcases h' b hb with h'' | h''
    · exact absurd hn h''
    · exact h''

/-- end to end, from the text of a configuration file: a well-written module whose text contains one of the errors of
the statement (read by the specification: `specCfg`) — e.g. a parameter written `p=None`, `p=Param(None, max=20)` where
`None` is not a value of the datatype — is rejected, whatever the class -/
theorem written_config_rejected (ops : Ops DT Val) (c : ClassDesc DT Val) (wf : WellFormed c) (mkStr : Name → Val)
    (descr : Val) (args : List (Name × DslArg Val)) (hw : writtenOkB args = true)
    (h : Offence ops c (specCfg mkStr descr args)) :
    ∃ cfg es, modDict mkStr descr args = some cfg ∧ applyConfig ops c cfg = .error es ∧ es ≠ [] := by
  obtain ⟨ok, gok⟩ := writtenOkB_sound args hw
  obtain ⟨es, h1, h2⟩ := rejected_whole ops c _ wf h
  exact ⟨_, es, dsl_faithful mkStr descr args ok gok, h1, h2⟩

/-! ## written exactly once, before the first poll -/

/-- for an accepted configuration of a well-formed class, and for EVERY write oracle (plain `write_<p>`, common write
handlers which pop the configured values of their siblings, hand-written methods popping anything):
(1) the configured (else class level) value of a parameter with a write method is registered for writing,
(2) no parameter is registered twice, (3) nothing is registered that has no write method,
(4) the start-up of the poll thread hands every registered value to a write method exactly once — as the argument of a
call or as a sibling value the call consumes — all of it before the first poll, and nothing afterwards -/
theorem writes_once_before_poll (ops : Ops DT Val) (c : ClassDesc DT Val) (cfg : Cfg Val) (i : Instance DT Val)
    (wf : WellFormed c) (h : applyConfig ops c cfg = .ok i) (consumes : WriteOracle Val) :
    (∀ pd dt0 dflt x, pd ∈ c.params → startOf ops c cfg pd = some (dt0, dflt) →
        pd.hasWrite = true → givenFor "value" pd.value ((cfgOf pd.name cfg).getD []) = some x →
        (pd.name, x) ∈ i.writeDict) ∧
    (i.writeDict.map (·.1)).Nodup ∧
    (∀ p v, (p, v) ∈ i.writeDict → ∃ pd ∈ c.params, pd.name = p ∧ pd.hasWrite = true) ∧
    HandedOnce (prologue consumes i) i.writeDict := by
  have acc := accepted_of_ok ops c cfg i h
  obtain ⟨outs, hrun, _, hwd, _, _⟩ := accepted_run ops c cfg i acc
  have hnd : (i.writeDict.map (·.1)).Nodup := by
    rw [hwd]
    have hs := writes_sublist outs
    rw [run_names ops cfg c.params [] outs hrun] at hs
    exact hs.nodup wf.paramNames
  refine ⟨?_, hnd, ?_, ?_⟩
  · intro pd dt0 dflt x hpd hs hw hx
    obtain ⟨outs', o, _, hwd', ho, hname, pk, _⟩ := accepted_param ops c cfg i acc wf pd hpd dt0 dflt hs
    obtain ⟨dt', _, _, hval, _, _⟩ := pk.dt
    have hwv := (hval x hx).2.2
    rw [hw] at hwv
    rw [hwd', List.mem_filterMap]
    exact ⟨o, ho, by simp [writeOf, hwv, hname]⟩
  · intro p v hkv
    rw [hwd, List.mem_filterMap] at hkv
    obtain ⟨o, ho, hw⟩ := hkv
    obtain ⟨insts', pd, hpd, hadd⟩ := run_mem' ops cfg c.params [] outs hrun o ho
    cases hov : o.write with
    | none => simp [writeOf, hov] at hw
    | some v' =>
      simp only [writeOf, hov, Option.map_some, Option.some.injEq, Prod.mk.injEq] at hw
      refine ⟨pd, hpd, ?_, write_some ops insts' pd _ o v' hadd hov⟩
      rw [← addParam_name ops _ _ _ _ hadd, hw.1]
  · refine ⟨writeInitParams consumes i, [], rfl, Lemmas.WriteLoop.writeLoop_no_poll consumes _ _, ?_, rfl⟩
    exact Lemmas.WriteLoop.writeLoop_handed consumes _ _ hnd (fun kv hkv => List.mem_map_of_mem hkv)

/-! ## the node: nothing registered for a failing module, all failing modules reported -/

theorem createStep_mono (ops : Ops DT Val) (acc : NodeOut DT Val) (m : Name × ClassDesc DT Val × Cfg Val) :
    (∀ x ∈ acc.modules, x ∈ (createStep ops acc m).modules) ∧ (∀ x ∈ acc.errors, x ∈ (createStep ops acc m).errors) := by
  unfold createStep
  split
  · exact ⟨fun _ h => h, fun _ h => h⟩
  · split
    · exact ⟨fun _ h => List.mem_append_left _ h, fun _ h => h⟩
    · exact ⟨fun _ h => h, fun _ h => List.mem_append_left _ h⟩

/-- `errors_complete` + second half of `rejected_whole`: with distinct module names, a module is registered
iff its configuration is accepted, a rejected module is reported with its (non-empty) error list —
all failing modules together — and the node starts iff no module failed -/
theorem errors_complete (ops : Ops DT Val) :
    ∀ (mods : List (Name × ClassDesc DT Val × Cfg Val)) (acc : NodeOut DT Val),
      (∀ m ∈ mods, (lookup m.1 acc.modules).isNone) → (mods.map (·.1)).Nodup →
      ∀ m ∈ mods,
        (∀ i, applyConfig ops m.2.1 m.2.2 = .ok i → (m.1, i) ∈ (mods.foldl (createStep ops) acc).modules) ∧
        (∀ es, applyConfig ops m.2.1 m.2.2 = .error es →
          (m.1, es) ∈ (mods.foldl (createStep ops) acc).errors ∧ es ≠ [] ∧
          (∀ i, (m.1, i) ∈ (mods.foldl (createStep ops) acc).modules → (m.1, i) ∈ acc.modules)) := by
  intro mods
  induction mods with
  | nil => intro _ _ _ m hm; cases hm
  | cons m0 rest ih =>
    intro acc hfresh hnd m hm
    simp only [List.map_cons, List.nodup_cons] at hnd
    have hfresh0 := hfresh m0 List.mem_cons_self
    -- freshness is kept for the rest
    have hfresh' : ∀ m' ∈ rest, (lookup m'.1 (createStep ops acc m0).modules).isNone := by
      intro m' hm'
      have hne : m0.1 ≠ m'.1 := by
        intro he; exact hnd.1 (by rw [he]; exact List.mem_map_of_mem hm')
      have hf := hfresh m' (List.mem_cons_of_mem _ hm')
      unfold createStep
      have hnone : (lookup m0.1 acc.modules).isSome = false := by
        cases hl : lookup m0.1 acc.modules <;> simp_all
      simp only [hnone, Bool.false_eq_true, ↓reduceIte]
      split
      · rename_i i _
        have : ∀ (l : List (Name × Instance DT Val)), (lookup m'.1 l).isNone → (lookup m'.1 (l ++ [(m0.1, i)])).isNone := by
          intro l
          induction l with
          | nil => intro _; simp [lookup, hne]
          | cons x l ihl =>
            intro hx
            simp only [List.cons_append, lookup] at hx ⊢
            split
            · rename_i hxe; simp [hxe] at hx
            · rename_i hxe; simp only [hxe, ↓reduceIte] at hx; exact ihl hx
        exact this _ hf
      · exact hf
    rcases List.mem_cons.1 hm with rfl | hin
    · -- the module processed now
      simp only [List.foldl_cons]
      have hnone : (lookup m.1 acc.modules).isSome = false := by
        cases hl : lookup m.1 acc.modules <;> simp_all
      have mono : ∀ (l : List (Name × ClassDesc DT Val × Cfg Val)) (a : NodeOut DT Val),
          (∀ x ∈ a.modules, x ∈ (l.foldl (createStep ops) a).modules) ∧
          (∀ x ∈ a.errors, x ∈ (l.foldl (createStep ops) a).errors) := by
        intro l
        induction l with
        | nil => intro a; exact ⟨fun _ h => h, fun _ h => h⟩
        | cons y l ihl =>
          intro a
          have s := createStep_mono ops a y
          have r := ihl (createStep ops a y)
          exact ⟨fun x h => r.1 x (s.1 x h), fun x h => r.2 x (s.2 x h)⟩
      refine ⟨?_, ?_⟩
      · intro i hok
        apply (mono rest _).1
        simp [createStep, hnone, hok]
      · intro es herr
        refine ⟨?_, Lemmas.Config.applyConfig_error_ne_nil ops _ _ es herr, ?_⟩
        · apply (mono rest _).2
          simp [createStep, hnone, herr]
        · -- no later step registers this name: names are distinct
          have hstep : (createStep ops acc m).modules = acc.modules := by simp [createStep, hnone, herr]
          have later : ∀ (l : List (Name × ClassDesc DT Val × Cfg Val)) (a : NodeOut DT Val),
              m.1 ∉ l.map (·.1) → ∀ i, (m.1, i) ∈ (l.foldl (createStep ops) a).modules → (m.1, i) ∈ a.modules := by
            intro l
            induction l with
            | nil => intro a _ i h; exact h
            | cons y l ihl =>
              intro a hnot i h
              simp only [List.map_cons, List.mem_cons, not_or] at hnot
              have h' := ihl (createStep ops a y) hnot.2 i h
              unfold createStep at h'
              split at h'
              · exact h'
              · split at h'
                · rcases List.mem_append.1 h' with h'' | h''
                  · exact h''
                  · simp only [List.mem_singleton, Prod.mk.injEq] at h''
                    exact absurd h''.1 hnot.1
                · exact h'
          intro i hi
          have := later rest _ hnd.1 i hi
          rw [hstep] at this; exact this
    · simp only [List.foldl_cons]
      obtain ⟨h1, h2⟩ := ih (createStep ops acc m0) hfresh' hnd.2 m hin
      refine ⟨h1, fun es herr => ?_⟩
      obtain ⟨a, b, cc⟩ := h2 es herr
      refine ⟨a, b, fun i hi => ?_⟩
      have := cc i hi
      have hne : m0.1 ≠ m.1 := by
        intro he; exact hnd.1 (by rw [he]; exact List.mem_map_of_mem hin)
      unfold createStep at this
      split at this
      · exact this
      · split at this
        · rcases List.mem_append.1 this with h'' | h''
          · exact h''
          · simp only [List.mem_singleton, Prod.mk.injEq] at h''
            exact absurd h''.1.symm hne
        · exact this

/-! ## module properties naming another module (`Attached`): the whole node -/

/-- hypotheses about a node: distinct module names (a dict), well-formed classes -/
structure NodeOk (mods : List (ModDecl DT Val)) : Prop where
  names : (mods.map (·.name)).Nodup
  classes : ∀ m ∈ mods, WellFormed m.cls

open Lemmas.ConfigAttach in
/-- never half applied, with the whole node at hand: every module of the node is reported as not created (with its
non-empty error list), or reported as not initialised, or is registered with EVERY attachment its configuration gives
applied — the module named exists on the node, is of the kind the property asks for, and is the attribute of the instance.
For every datatype oracle, every reading `nameOf` of values as module names, every fuel-free node. -/
theorem attachments_settled (ops : Ops DT Val) (nameOf : Val → Option Name) (mods : List (ModDecl DT Val))
    (ok : NodeOk mods) (m : ModDecl DT Val) (hm : m ∈ mods) :
    (∃ es, (m.name, es) ∈ (startNode ops nameOf mods).node.errors ∧ es ≠ []) ∨
    m.name ∈ (startNode ops nameOf mods).init.errors.map (·.1) ∨
    (∀ d ∈ m.attached, ∀ t, attGiven nameOf m d = some t →
      targetOk mods d t = true ∧ (startNode ops nameOf mods).attachedOf m.name d.prop = some t) := by
  have hnd : ((nodeCfgs mods).map (·.1)).Nodup := by
    simpa [nodeCfgs, List.map_map, Function.comp_def] using ok.names
  have hmem : (m.name, m.cls, m.cfg) ∈ nodeCfgs mods := List.mem_map_of_mem (f := fun m => (m.name, m.cls, m.cfg)) hm
  have hc := errors_complete ops (nodeCfgs mods) ⟨[], []⟩ (fun _ _ => rfl) hnd _ hmem
  cases happ : applyConfig ops m.cls m.cfg with
  | error es => exact Or.inl ⟨es, (hc.2 es happ).1, (hc.2 es happ).2.1⟩
  | ok i =>
    refine Or.inr ?_
    have hreg : (m.name, i) ∈ (createNode ops (nodeCfgs mods)).modules := hc.1 i happ
    -- the registered instance of that name is this one
    have hl : lookup m.name (createNode ops (nodeCfgs mods)).modules = some i := by
      cases hl : lookup m.name (createNode ops (nodeCfgs mods)).modules with
      | none => have := lookup_isSome_of_mem _ _ _ hreg; rw [hl] at this; cases this
      | some i' =>
        rcases createNode_sound ops (nodeCfgs mods) ⟨[], []⟩ m.name i' (lookup_mem _ _ _ hl) with h | ⟨m', hm', h1, h2⟩
        · cases h
        · obtain ⟨md, hmd, rfl⟩ := List.mem_map.1 hm'
          have : md = m := name_determines (fun x : ModDecl DT Val => x.name) mods ok.names md hmd m hm h1
          subst this
          rw [happ] at h2; cases h2; rfl
    let env : InitEnv DT Val := ⟨mods, createNode ops (nodeCfgs mods), nameOf⟩
    have hdecl : declOf env m.name = some m := find?_of_nodup (fun x : ModDecl DT Val => x.name) mods ok.names m hm
    obtain ⟨inv, hinit⟩ := initNode_spec env
    have hini := hinit (m.name, i) hreg (by rw [hdecl]; rfl)
    rcases inv.res m.name hini with herr | hres
    · exact Or.inl herr
    · refine Or.inr (fun d hd t hg => ?_)
      have hat : attTarget nameOf i d = some t := by
        rw [att_link ops nameOf m i (ok.classes m hm) happ d]; exact hg
      obtain ⟨hk, hin⟩ := hres i m hl hdecl d hd t hat
      exact ⟨targetOk_of_hasKind env d t hk, attachedOf_eq env _ inv.sound m.name d.prop t i hl hat hin⟩

/-- `attached_applied`: "each configured module property … is applied to that instance", for properties naming another
module.  On a node which starts, every attachment the configuration gives (configured value converted by the property's
datatype, else the class value; the empty string is "not attached") names a module of the node of the kind asked for, and
the attribute of the instance is that module — mandatory or optional property, used by the module's own initialisation or not -/
theorem attached_applied (ops : Ops DT Val) (nameOf : Val → Option Name) (mods : List (ModDecl DT Val))
    (ok : NodeOk mods) (hs : (startNode ops nameOf mods).starts = true) :
    AttachedApplied nameOf mods (startNode ops nameOf mods).attachedOf := by
  simp only [Started.starts, Bool.and_eq_true, List.isEmpty_iff] at hs
  intro m hm d hd t hg
  rcases attachments_settled ops nameOf mods ok m hm with ⟨es, he, _⟩ | h | h
  · rw [hs.1] at he; cases he
  · rw [hs.2] at h; cases h
  · exact h d hd t hg

/-- `bad_attachment_reported`: a module whose configuration names, for an attached-module property, a module the node
does not have or one of the wrong kind, is among the failing modules reported (as not created or as not initialised), and
the node does not start — whatever else the node contains, and whether or not the attribute is used during initialisation -/
theorem bad_attachment_reported (ops : Ops DT Val) (nameOf : Val → Option Name) (mods : List (ModDecl DT Val))
    (ok : NodeOk mods) (m : ModDecl DT Val) (hm : m ∈ mods) (hb : BadAttachment nameOf mods m) :
    ((∃ es, (m.name, es) ∈ (startNode ops nameOf mods).node.errors ∧ es ≠ []) ∨
      m.name ∈ (startNode ops nameOf mods).init.errors.map (·.1)) ∧
    (startNode ops nameOf mods).starts = false := by
  obtain ⟨d, t, hd, hg, hbad⟩ := hb
  have key : (∃ es, (m.name, es) ∈ (startNode ops nameOf mods).node.errors ∧ es ≠ []) ∨
      m.name ∈ (startNode ops nameOf mods).init.errors.map (·.1) := by
    rcases attachments_settled ops nameOf mods ok m hm with h | h | h
    · exact Or.inl h
    · exact Or.inr h
    · rw [(h d hd t hg).1] at hbad; cases hbad
  refine ⟨key, ?_⟩
  simp only [Started.starts, Bool.and_eq_false_iff, List.isEmpty_eq_false_iff]
  rcases key with ⟨es, he, _⟩ | h
  · exact Or.inl (List.ne_nil_of_mem he)
  · right; intro hnil; rw [hnil] at h; cases h

open Lemmas.ConfigAttach in
/-- `attachments_accepted` — the converse of `bad_attachment_reported`: attachments without error never keep a node from
starting.  If every module of the node is created, every attachment the configuration gives names a module of the node
of the kind asked for, and no module is (transitively) attached to itself, then no module fails to initialise and the node
starts — whatever the order of the modules, the depth of the attachments and the order in which a module asks for them. -/
theorem attachments_accepted (ops : Ops DT Val) (nameOf : Val → Option Name) (mods : List (ModDecl DT Val))
    (ok : NodeOk mods) (hcreated : (startNode ops nameOf mods).node.errors = [])
    (hgood : ∀ m ∈ mods, ∀ d ∈ m.attached, ∀ t, attGiven nameOf m d = some t → targetOk mods d t = true)
    (hacyc : acyclicB nameOf mods = true) :
    (startNode ops nameOf mods).init.errors = [] ∧ (startNode ops nameOf mods).starts = true := by
  have hnd : ((nodeCfgs mods).map (·.1)).Nodup := by
    simpa [nodeCfgs, List.map_map, Function.comp_def] using ok.names
  -- the instance registered under the name of a configured module is the one built from its configuration
  have hinst : ∀ md ∈ mods, ∀ i, lookup md.name (createNode ops (nodeCfgs mods)).modules = some i →
      applyConfig ops md.cls md.cfg = .ok i := by
    intro md hmd i hl
    rcases createNode_sound ops (nodeCfgs mods) ⟨[], []⟩ md.name i (lookup_mem _ _ _ hl) with h | ⟨m', hm', h1, h2⟩
    · cases h
    · obtain ⟨md', hmd', rfl⟩ := List.mem_map.1 hm'
      have : md' = md := name_determines (fun x : ModDecl DT Val => x.name) mods ok.names md' hmd' md hmd h1
      subst this; exact h2
  let env : InitEnv DT Val := ⟨mods, createNode ops (nodeCfgs mods), nameOf⟩
  have g : Good env := by
    refine ⟨ok.names, fun md hmd => ?_, fun kv hkv => ?_, fun md hmd i hl d => ?_, hgood⟩
    · have hmem : (md.name, md.cls, md.cfg) ∈ nodeCfgs mods :=
        List.mem_map_of_mem (f := fun m => (m.name, m.cls, m.cfg)) hmd
      have hc := errors_complete ops (nodeCfgs mods) ⟨[], []⟩ (fun _ _ => rfl) hnd _ hmem
      cases happ : applyConfig ops md.cls md.cfg with
      | error es =>
        have := (hc.2 es happ).1
        have hnil : (createNode ops (nodeCfgs mods)).errors = [] := hcreated
        rw [show (nodeCfgs mods).foldl (createStep ops) ⟨[], []⟩ = createNode ops (nodeCfgs mods) from rfl, hnil] at this
        cases this
      | ok i => exact lookup_isSome_of_mem _ _ _ (hc.1 i happ)
    · rcases createNode_sound ops (nodeCfgs mods) ⟨[], []⟩ kv.1 kv.2 hkv with h | ⟨m', hm', h1, _⟩
      · cases h
      · obtain ⟨md', hmd', rfl⟩ := List.mem_map.1 hm'
        rw [← h1]; exact List.mem_map_of_mem (f := (·.name)) hmd'
    · exact att_link ops nameOf md i (ok.classes md hmd) (hinst md hmd i hl) d
  have hinit : (startNode ops nameOf mods).init.errors = [] := initNode_clean env g hacyc
  refine ⟨hinit, ?_⟩
  simp only [Started.starts, Bool.and_eq_true, List.isEmpty_iff]
  exact ⟨hcreated, hinit⟩

/-- the depth bound built into the model of `SecNode.get_module` (fuel: number of registered modules + 1) is never
what ends an initialisation — for every node: the modules being initialised (`SecNode.initializing`) are distinct
registered modules.  So `InitErr.fuel` is not an outcome, and the model is the unbounded recursion of the code. -/
theorem init_fuel_suffices (ops : Ops DT Val) (nameOf : Val → Option Name) (mods : List (ModDecl DT Val)) :
    ∀ e ∈ (startNode ops nameOf mods).init.errors, e.2 ≠ InitErr.fuel :=
  Lemmas.ConfigAttach.initNode_nofuel _

/-! ## merging -/

/-- the definition a (sub)list of `Mod` calls of one file leaves for name `k`: the LAST one -/
def lastDef {M : Type} (k : Name) (l : List (Name × M)) (init : Option M) : Option M :=
  l.foldl (fun acc kv => if kv.1 = k then some kv.2 else acc) init

theorem lookup_setKey {M : Type} (k n : Name) (v : M) : ∀ (d : List (Name × M)),
    lookup k (setKey n v d) = if n = k then some v else lookup k d := by
  intro d
  induction d with
  | nil => simp [setKey, lookup]
  | cons x d ih =>
    simp only [setKey]
    by_cases hx : x.1 = n
    · simp only [hx, ↓reduceIte, lookup]
      by_cases hn : n = k <;> simp [hn]
    · simp only [hx, ↓reduceIte, lookup, ih]
      by_cases hxk : x.1 = k
      · have : n ≠ k := fun h => hx (by rw [hxk, h])
        simp [hxk, this]
      · simp [hxk]

/-- `merge_first_wins`, part 1 — within ONE file a later `Mod` of the same name replaces the earlier one
(`Config.__init__`: dict comprehension; only a warning is logged) -/
theorem file_last_wins {M : Type} (k : Name) : ∀ (l : List (Name × M)) (d : List (Name × M)),
    lookup k (l.foldl (fun d kv => setKey kv.1 kv.2 d) d) = lastDef k l (lookup k d) := by
  intro l
  induction l with
  | nil => intro d; rfl
  | cons x l ih =>
    intro d
    simp only [List.foldl_cons, lastDef]
    rw [ih, lookup_setKey]
    rfl

/-- `merge_first_wins`, part 2 — what `load_config` (repeated `Config.merge_modules`) guarantees for every list of
files and every module name `k`: the merged configuration holds for `k` the definition of the FIRST file that
defines it, with origin `none` if that is the first file and `some equipment_id` of the defining file otherwise
(`original_id`), nothing if no file defines it; and `k` is listed as ambiguous iff at least two files define it -/
theorem merge_first_wins {M : Type} (f : CfgFile M) (rest : List (CfgFile M)) (k : Name) :
    lookup k (loadConfig (f :: rest)).modules = firstDef (f :: rest) true k ∧
    (k ∈ (loadConfig (f :: rest)).ambiguous ↔ 2 ≤ countFiles (f :: rest) k) := by
  have hknown : ∀ x, (lookup x (⟨f.modules.map (fun m => (m.1, m.2, (none : Option Name))), []⟩ : Merged M).modules).isSome
      = (fun x => (lookup x f.modules).isSome) x := by
    intro x
    have := Lemmas.Merge.lookup_map (fun m : M => (m, (none : Option Name))) x f.modules
    simp only [this]
    cases lookup x f.modules <;> rfl
  obtain ⟨h1, h2⟩ := Lemmas.Merge.fold_spec rest _ _ hknown k
  unfold loadConfig
  constructor
  · rw [h1]
    have := Lemmas.Merge.lookup_map (fun m : M => (m, (none : Option Name))) k f.modules
    simp only [this, firstDef]
    cases hk : lookup k f.modules <;> simp
  · rw [h2, Lemmas.Merge.ambRest_count]
    have hc : countFiles (f :: rest) k = (if (lookup k f.modules).isSome then 1 else 0) + countFiles rest k := by
      unfold countFiles
      simp only [List.filter_cons]
      split <;> simp <;> omega
    rw [hc]
    cases hg : (lookup k f.modules).isSome <;> simp <;> omega

/-! ## non-vacuity (a small non-recursive instance of the oracles: a datatype is a pair of integer limits) -/

def toyOps : Ops (Int × Int) Int :=
  { convert := fun _ v => if v = -999 then none else some v,          -- -999 plays "a value of the wrong type"
    validate := fun dt v => if dt.1 ≤ v ∧ v ≤ dt.2 then some v else none,
    setProp := fun dt k v => if k = "min" then .ok (v, dt.2) else if k = "max" then .ok (dt.1, v) else .unknown,
    checkDT := fun dt => decide (dt.1 ≤ dt.2),
    dtDefault := fun dt => dt.1,
    ownProp := fun k => if k = "readonly" then some (fun v => if v = 0 ∨ v = 1 then some v else none) else none,
    cmdProp := fun k => if k = "visibility" then some (fun v => if 1 ≤ v ∧ v ≤ 3 then some v else none) else none,
    cmdRaises := fun _ v => decide (100 ≤ v),
    limitDT := fun _ dt => dt,
    limitDefault := fun _ dt => dt.2 }

def exParam : ParamDesc (Int × Int) Int :=
  { name := "pa", dt := some (0, 10), limit := none, base := "", value := none, default := some 1,
    needscfg := false, hasWrite := true, own := [] }

def exClass : ClassDesc (Int × Int) Int :=
  { modProps := [⟨"description", some, true, none⟩], params := [exParam], otherNames := [] }

def exCfg : Cfg Int :=
  [("description", .prop (.bare 7)), ("pa", .acc [("value", 15), ("max", 20), ("readonly", 1)])]

/-- accepted: the value 15 is outside the class limits 0..10 but inside the overridden ones 0..20; the
instance shows datatype 0..20, start value 15, readonly 1, and the prologue is `write pa 15; firstPoll` -/
example : (match applyConfig toyOps exClass exCfg with
    | .ok i => (i.params.map (fun p => (p.dt, p.value, p.own))) == [(some (0, 20), some 15, [("readonly", 1)])]
        && handed (prologue (fun _ _ _ => []) i) == [("pa", 15)] && (prologue (fun _ _ _ => []) i).length == 2
    | .error _ => false) = true := by decide

def exPI : ClassDesc (Int × Int) Int :=
  { modProps := [⟨"description", some, true, none⟩],
    params := [{ exParam with name := "p" }, { exParam with name := "i" }, { exParam with name := "d" }], otherNames := [] }

/-- a common write handler over `p`, `i`, `d`: whichever is called takes the configured values of the others -/
def pidOracle : WriteOracle Int := fun _ _ _ => ["p", "i", "d"]

/-- three configured values, ONE call: `write p 5` consuming `i = 7` and `d = 9`, then the first poll; each value is
handed over exactly once.  (A loop over a snapshot of the VALUES would call the handler three times.) -/
example : (match applyConfig toyOps exPI [("description", .prop (.bare 7)), ("p", .acc [("value", 5)]),
      ("i", .acc [("value", 7)]), ("d", .acc [("value", 9)])] with
    | .ok i => (prologue pidOracle i).length == 2 && handed (prologue pidOracle i) == [("p", 5), ("i", 7), ("d", 9)]
        && (prologue (fun _ _ _ => []) i).length == 4
    | .error _ => false) = true := by decide

/-- the hypotheses of `config_applied` / `writes_once_before_poll` are met by this example -/
example : ∃ i, applyConfig toyOps exClass exCfg = .ok i ∧ (exClass.params.map (·.name)).Nodup ∧
    lookup exParam.name exCfg = some (.acc [("value", 15), ("max", 20), ("readonly", 1)]) :=
  ⟨_, rfl, by decide, rfl⟩

theorem exClass_wf : WellFormed exClass :=
  ⟨by decide, by decide, by intro pd hpd hl; simp [exClass, exParam] at hpd; subst hpd; simp at hl⟩

/-- `config_applied_own` on the example: `readonly=1` from the cfg is what the parameter object carries -/
example : ownAfter toyOps exParam.own ((cfgOf "pa" exCfg).getD []) = [("readonly", 1)] := by decide

/-- rejected: an unknown name -/
example : Offence toyOps exClass (exCfg ++ [("zz", .prop (.bare 4))]) :=
  .unknownName "zz" (by decide) (by decide)

/-- rejected: an ill-typed value; the report names it -/
example : (match applyConfig toyOps exClass [("description", .prop (.bare 7)), ("pa", .acc [("value", -999)])] with
    | .error es => es == [.badValue "pa" "value"]
    | .ok _ => false) = true := by decide

/-- inverted limits are an offence of the proved kind -/
example : Offence toyOps exClass [("description", .prop (.bare 7)), ("pa", .acc [("min", 11)])] :=
  .param exParam (0, 10) (some 1) [("min", 11)] (List.mem_singleton.2 rfl) rfl (Or.inl rfl)
    (.inverted (11, 10) rfl rfl)

/-- an unknown parameter property is an offence of the proved kind -/
example : Offence toyOps exClass [("description", .prop (.bare 7)), ("pa", .acc [("nosuch", 1)])] :=
  .param exParam (0, 10) (some 1) [("nosuch", 1)] (List.mem_singleton.2 rfl) rfl (Or.inl rfl) (.badProp rfl)

/-- a command configured with an unknown property, or an ill-typed one, is an offence … -/
example : Offence toyOps { exClass with otherNames := ["go"] } (exCfg ++ [("go", .acc [("visibility", 2), ("nosuch", 1)])]) :=
  .cmdProp "go" [("visibility", 2), ("nosuch", 1)] "nosuch" 1 (List.mem_singleton.2 rfl) rfl (by simp) rfl

/-- … and the model reports it (collected, not raised); a well-typed property of a command is accepted -/
example : (match applyConfig toyOps { exClass with otherNames := ["go"] } (exCfg ++ [("go", .acc [("visibility", 2), ("nosuch", 1)])]),
      applyConfig toyOps { exClass with otherNames := ["go"] } (exCfg ++ [("go", .acc [("visibility", 9)])]),
      applyConfig toyOps { exClass with otherNames := ["go"] } (exCfg ++ [("go", .acc [("visibility", 2)])]) with
    | .error e1, .error e2, .ok _ => e1 == [.unknownProp "go" "nosuch"] && e2 == [.badValue "go" "visibility"]
    | _, _, _ => false) = true := by decide

def exLimit : ParamDesc (Int × Int) Int :=
  { name := "pa_max", dt := none, limit := some .max, base := "pa", value := none, default := none,
    needscfg := false, hasWrite := false, own := [] }

def exClassL : ClassDesc (Int × Int) Int := { exClass with params := [exParam, exLimit] }

theorem exClassL_wf : WellFormed exClassL := by
  refine ⟨by decide, by decide, ?_⟩
  intro pd hpd hl b hb hn
  simp only [exClassL, List.mem_cons, List.not_mem_nil, or_false] at hpd hb
  rcases hpd with rfl | rfl
  · simp [exParam] at hl
  · rcases hb with rfl | rfl
    · rfl
    · simp [exLimit] at hn

/-- the former finding (cfg of a derived limit ignored) is an offence by the specification … -/
example : Offence toyOps exClassL [("description", .prop (.bare 7)), ("pa_max", .acc [("nosuch", 1)])] :=
  .param exLimit (0, 10) (some 10) [("nosuch", 1)] (by simp [exClassL]) rfl (Or.inl rfl) (.badProp rfl)

/-- … and the repaired model rejects it (the constructor is left by the exception of `setProperty`) -/
example : (match applyConfig toyOps exClassL [("description", .prop (.bare 7)), ("pa_max", .acc [("nosuch", 1)])] with
    | .error es => es == [.raised]
    | .ok _ => false) = true := by decide

/-- an override on the limit applies to the limit only: `pa` keeps 0..10, `pa_max` gets 0..5, start value 10 -/
example : (match applyConfig toyOps exClassL [("description", .prop (.bare 7)), ("pa_max", .acc [("max", 5)])] with
    | .ok i => i.params.map (fun p => (p.name, p.dt, p.value)) ==
        [("pa", some (0, 10), some 1), ("pa_max", some (0, 5), some 10)]
    | .error _ => false) = true := by decide

/-- `modprops_applied` is not vacuous: the configured description is on the instance -/
example : ∃ i, applyConfig toyOps exClass exCfg = .ok i ∧
    propGiven (⟨"description", some, true, none⟩ : ModPropDesc Int) exCfg = some 7 ∧
    lookup "description" i.modProps = some 7 := ⟨_, rfl, rfl, rfl⟩

/-- a base class declares `ramp` as optional, the class does not implement it -/
def exDecls : List (AccDecl (Int × Int) Int) := [⟨exParam, false⟩, ⟨{ exParam with name := "ramp" }, true⟩]

example : implemented exDecls = [exParam] := rfl

/-- the hypotheses of `optional_cfg_rejected` are met: `ramp=…` in the cfg of the class without `ramp` … -/
example : (⟨{ exParam with name := "ramp" }, true⟩ : AccDecl (Int × Int) Int) ∈ exDecls ∧
    "ramp" ∈ (exCfg ++ [("ramp", Entry.acc [("value", 5)])] : Cfg Int).map (·.1) ∧
    "ramp" ∉ knownNames (⟨exClass.modProps, implemented exDecls, []⟩ : ClassDesc (Int × Int) Int) :=
  ⟨by simp [exDecls], by decide, by decide⟩

/-- … and it is reported as a name that does not exist (the loop has not taken it out of cfgdict) -/
example : (match applyConfig toyOps ⟨exClass.modProps, implemented exDecls, []⟩ (exCfg ++ [("ramp", .acc [("value", 5)])]) with
    | .error es => es == [.unknownNames ["ramp"]] && !(accLoop toyOps exDecls (exCfg ++ [("ramp", .acc [("value", 5)])])).popped.contains "ramp"
    | .ok _ => false) = true := by decide

/-- a module as written: `Mod('m', cls, 7, pa=Param(-999, max=20), pb=3, pc=Param(min=1))` — the written value of `pa`
(here -999, "a value of the wrong type", think of `None`) IS in the dict, after the keywords -/
def exArgs : List (Name × DslArg Int) :=
  [("pa", .param (some (-999)) [("max", 20)]), ("pb", .bare 3), ("pc", .param none [("min", 1)])]

theorem exArgs_ok : Lemmas.ConfigDsl.WrittenOk (exArgs ++ [("g", .group ["pa", "pc"])]) :=
  ⟨by decide, by decide, by
    intro k v kwds h
    simp only [exArgs, List.cons_append, List.nil_append, List.mem_cons, Prod.mk.injEq, List.not_mem_nil, or_false] at h
    rcases h with ⟨_, h⟩ | ⟨_, h⟩ | ⟨_, h⟩ | ⟨_, h⟩
    · cases h; rfl
    · cases h
    · cases h
    · cases h⟩

/-- the hypotheses of `dsl_faithful` are met by a module written with `Param(v, k=…)`, a bare value, `Param(k=…)` and a group -/
theorem exArgs_groups : Lemmas.ConfigDsl.GroupsOk (exArgs ++ [("g", .group ["pa", "pc"])]) := by
  intro g ms h m hm
  simp only [exArgs, List.cons_append, List.nil_append, List.mem_cons, Prod.mk.injEq, List.not_mem_nil, or_false] at h
  rcases h with ⟨_, h⟩ | ⟨_, h⟩ | ⟨_, h⟩ | ⟨_, h⟩
  · cases h
  · cases h
  · cases h
  · cases h
    simp only [List.mem_cons, List.not_mem_nil, or_false] at hm
    rcases hm with rfl | rfl
    · exact ⟨_, List.mem_cons_self, rfl⟩
    · exact ⟨.param none [("min", 1)], by simp [exArgs], rfl⟩

example : groupsOf exArgs = [] ∧ modDict (fun _ => 0) 7 exArgs = some
    [("description", .prop (.bare 7)), ("pa", .acc [("max", 20), ("value", -999)]), ("pb", .acc [("value", 3)]),
     ("pc", .acc [("min", 1)])] := ⟨rfl, rfl⟩

example : writtenOkB (exArgs ++ [("g", .group ["pa", "pc"])]) = true ∧ wellFormedB exClassL = true := by decide

/-- the hypothesis of `written_config_rejected` is met: the written `-999` is an ill-typed value by the specification -/
example : Offence toyOps exClass (specCfg (fun _ => 0) 7 [("pa", .param (some (-999)) [("max", 20)])]) :=
  .param exParam (0, 10) (some 1) [("max", 20), ("value", -999)] (List.mem_singleton.2 rfl) rfl (Or.inl rfl)
    (.badValue (0, 20) (-999) rfl (Or.inl rfl) rfl)

/-- … so the module is rejected for the ill-typed value, end to end -/
example : (match (modDict (fun _ => 0) 7 exArgs).map (applyConfig toyOps { exClass with params :=
      [exParam, { exParam with name := "pb" }, { exParam with name := "pc" }] }) with
    | some (.error es) => es == [.badValue "pa" "value"]
    | _ => false) = true := by decide

/-- the statement with groups on a concrete instance: `g=Group('pa', 'pc')` puts `group` into both dicts -/
example : modDict (fun _ => 42) 7 (exArgs ++ [("g", .group ["pa", "pc"])]) =
    some (specCfg (fun _ => 42) 7 (exArgs ++ [("g", .group ["pa", "pc"])])) ∧
    cfgOf "pc" (specCfg (fun _ => 42) 7 (exArgs ++ [("g", .group ["pa", "pc"])])) = some [("min", 1), ("group", 42)] :=
  ⟨rfl, rfl⟩

/-- a group member without argument of its own: `KeyError`, the file does not load -/
example : modDict (fun _ => 42) 7 (exArgs ++ [("g", .group ["zz"])]) = none := rfl

/-! ### attached modules: a regulator `r` with an optional `out = Attached(KA)`, modules `t` (a `KA`) and `u` (not) -/

/-- module names as values of the toy oracle: 1 ↦ "t", 2 ↦ "u", 3 ↦ "outt" (a typo), 4 ↦ "r", 0 ↦ not attached -/
def toyName (v : Int) : Option Name :=
  if v = 1 then some "t" else if v = 2 then some "u" else if v = 3 then some "outt" else if v = 4 then some "r" else none

def exAttClass : ClassDesc (Int × Int) Int :=
  { modProps := [⟨"description", some, true, none⟩, ⟨"out", some, false, none⟩], params := [exParam], otherNames := [] }

def exReg (out : Option Int) : ModDecl (Int × Int) Int :=
  { name := "r", cls := exAttClass,
    cfg := [("description", .prop (.bare 7))] ++ (match out with | some v => [("out", .prop (.bare v))] | none => []),
    kinds := ["Module"], attached := [⟨"out", "KA"⟩] }

def exPlain (name : Name) (kinds : List Name) : ModDecl (Int × Int) Int :=
  { name := name, cls := exClass, cfg := [("description", .prop (.bare 7))], kinds := kinds, attached := [] }

def exNode (out : Option Int) : List (ModDecl (Int × Int) Int) :=
  [exReg out, exPlain "t" ["Module", "KA"], exPlain "u" ["Module"]]

theorem exAttClass_wf : WellFormed exAttClass :=
  ⟨by decide, by decide, by intro pd hpd hl; simp [exAttClass, exParam] at hpd; subst hpd; simp at hl⟩

/-- the hypotheses of the node theorems are met by the example node, whatever `out` is configured to -/
theorem exNode_ok (out : Option Int) : NodeOk (exNode out) := by
  refine ⟨by simp [exNode, exReg, exPlain], ?_⟩
  intro m hm
  simp only [exNode, List.mem_cons, List.not_mem_nil, or_false] at hm
  rcases hm with rfl | rfl | rfl
  · exact exAttClass_wf
  · exact exClass_wf
  · exact exClass_wf

/-- `attached_applied` is not vacuous: `out='t'` — the node starts and the attribute of `r` is `t`; the regulator without
output (`out` not configured, or `out=''`) starts as well, the attribute is `None` -/
example : (startNode toyOps toyName (exNode (some 1))).starts = true ∧
    attGiven toyName (exReg (some 1)) ⟨"out", "KA"⟩ = some "t" ∧
    (startNode toyOps toyName (exNode (some 1))).attachedOf "r" "out" = some "t" ∧
    (startNode toyOps toyName (exNode none)).starts = true ∧
    (startNode toyOps toyName (exNode none)).attachedOf "r" "out" = none ∧
    (startNode toyOps toyName (exNode (some 0))).starts = true := by decide +kernel

/-- `bad_attachment_reported` is not vacuous: a typo in the module name (`out='outt'`) of the OPTIONAL property is a bad
attachment by the specification … -/
example : BadAttachment toyName (exNode (some 3)) (exReg (some 3)) :=
  .mk ⟨"out", "KA"⟩ "outt" (by simp [exReg]) (by decide +kernel) (by decide +kernel)

/-- … and so is a module of the wrong kind (`out='u'`, `u` is not a `KA`) -/
example : BadAttachment toyName (exNode (some 2)) (exReg (some 2)) :=
  .mk ⟨"out", "KA"⟩ "u" (by simp [exReg]) (by decide +kernel) (by decide +kernel)

/-- what the model reports for them: `r` is created, fails to initialise, the node does not start -/
example : (startNode toyOps toyName (exNode (some 3))).init.errors = [("r", .noSuchModule "out" "outt")] ∧
    (startNode toyOps toyName (exNode (some 2))).init.errors = [("r", .wrongKind "out" "u")] ∧
    (startNode toyOps toyName (exNode (some 3))).starts = false ∧
    (startNode toyOps toyName (exNode (some 3))).node.modules.map (·.1) = ["r", "t", "u"] := by decide +kernel

/-- a module which needs itself (`out='r'` with `r` a `KA`): reported, not started; the fuel is not what ends it -/
example : (startNode toyOps toyName [{ exReg (some 4) with kinds := ["Module", "KA"] }]).init.errors =
    [("r", .cyclic "out" "r")] := by decide +kernel

/-- the attached module's own constructor fails (`t` has an unknown name in its cfg): `t` is reported as not created, its
constructor is run a second time for `r`, `r` is reported as not initialised -/
example : (startNode toyOps toyName [exReg (some 1),
      { exPlain "t" ["Module", "KA"] with cfg := [("description", .prop (.bare 7)), ("zz", .prop (.bare 1))] }]).init.errors =
      [("r", .doesNotExist "out" "t")] ∧
    (startNode toyOps toyName [exReg (some 1),
      { exPlain "t" ["Module", "KA"] with cfg := [("description", .prop (.bare 7)), ("zz", .prop (.bare 1))] }]).init.recreated = ["t"] := by
  decide +kernel

/-- a chain `r → t → u` of attachments (as deep as the node is large): initialised depth first, all applied, started -/
example : (startNode toyOps toyName [exReg (some 1), { exReg (some 2) with name := "t", kinds := ["Module", "KA"] },
      exPlain "u" ["Module", "KA"]]).init.initialized = ["u", "t", "r"] ∧
    (startNode toyOps toyName [exReg (some 1), { exReg (some 2) with name := "t", kinds := ["Module", "KA"] },
      exPlain "u" ["Module", "KA"]]).attachedOf "t" "out" = some "u" ∧
    (startNode toyOps toyName [exReg (some 1), { exReg (some 2) with name := "t", kinds := ["Module", "KA"] },
      exPlain "u" ["Module", "KA"]]).starts = true := by decide +kernel

/-- the hypotheses of `attachments_accepted` are met by the chain `r → t → u` and by the node with `out='t'` -/
example : acyclicB toyName [exReg (some 1), { exReg (some 2) with name := "t", kinds := ["Module", "KA"] },
      exPlain "u" ["Module", "KA"]] = true ∧ acyclicB toyName (exNode (some 1)) = true ∧
    (startNode toyOps toyName (exNode (some 1))).node.errors = [] ∧
    targetOk (exNode (some 1)) ⟨"out", "KA"⟩ "t" = true := by decide +kernel

/-- … and `acyclicB` does exclude something: a module which needs itself, two modules which need each other -/
example : acyclicB toyName [{ exReg (some 4) with kinds := ["Module", "KA"] }] = false ∧
    acyclicB toyName [exReg (some 1), { exReg (some 4) with name := "t", kinds := ["Module", "KA"] }] = false := by
  decide +kernel

/-- the monitor the driver runs on every observed node judges exactly the specification: if `attachedB` says `true` then,
on the observation, (1) a node which starts has every given attachment applied (`AttachedApplied` with the observed
attributes), and (2) every module with a bad attachment is reported and the node does not start -/
theorem attachedB_sound (nameOf : Val → Option Name) (mods : List (ModDecl DT Val)) (n : ObsNode)
    (h : attachedB nameOf mods n = true) :
    (n.starts = true → AttachedApplied nameOf mods n.attachedOf) ∧
    (∀ m ∈ mods, BadAttachment nameOf mods m →
      n.starts = false ∧ (m.name ∈ n.reported ∨ m.name ∈ n.initReported)) := by
  simp only [attachedB, List.all_eq_true] at h
  constructor
  · intro hs m hm d hd t hg
    have := h m hm d hd
    rw [hg] at this
    cases hok : targetOk mods d t with
    | true => simp only [hok, ↓reduceIte, hs, Bool.not_true, Bool.false_or, beq_iff_eq] at this; exact ⟨rfl, this⟩
    | false => simp [hok, hs] at this
  · intro m hm ⟨d, t, hd, hg, hbad⟩
    have := h m hm d hd
    rw [hg] at this
    simp only [hbad, Bool.false_eq_true, ↓reduceIte, Bool.and_eq_true, Bool.not_eq_true', Bool.or_eq_true,
      List.contains_eq_mem, decide_eq_true_eq] at this
    exact this

/-- `attachedB_sound` is not vacuous: the observation of the started example node passes the monitor, the same node
observed as started with a typo in `out` does not -/
example : attachedB toyName (exNode (some 1)) ⟨["r", "t", "u"], ["r", "t", "u"], [], true, [], [("r", "out", some "t")]⟩ = true ∧
    attachedB toyName (exNode (some 3)) ⟨["r", "t", "u"], ["r", "t", "u"], [], true, [], [("r", "out", none)]⟩ = false ∧
    attachedB toyName (exNode (some 3)) ⟨["r", "t", "u"], ["r", "t", "u"], [], false, ["r"], []⟩ = true := by
  decide +kernel

/-- merging on a concrete example: three files, `b` defined in all of them, `c` only in the third -/
example : mergeB (· == ·)
    [⟨"eq0", [("a", "0.a"), ("b", "0.b")]⟩, ⟨"eq1", [("b", "1.b")]⟩, ⟨"eq2", [("c", "2.c"), ("b", "2.b")]⟩]
    (loadConfig [⟨"eq0", [("a", "0.a"), ("b", "0.b")]⟩, ⟨"eq1", [("b", "1.b")]⟩, ⟨"eq2", [("c", "2.c"), ("b", "2.b")]⟩])
    = true := by decide

/-! ## the main unit: `$` in the units of ALL parameters shows the unit configured for `value` -/

open Frappy.Lemmas.ConfigUnit in
/-- the main unit the constructor takes from the instance is the one the configuration gives (`Spec.mainUnit`: the unit
of `value` after ITS overrides) -/
theorem main_unit_agrees (ops : Ops DT Val) (u : UnitOps DT) (c : ClassDesc DT Val) (cfg : Cfg Val) (j : Instance DT Val)
    (wf : WellFormed c) (hv : ∀ pdv ∈ c.params, pdv.name = "value" → (startOf ops c cfg pdv).isSome = true)
    (h : applyConfig ops c cfg = .ok j) : mainUnitOf u j.params = mainUnit ops u c cfg := by
  have hnames := accepted_names ops c cfg j (accepted_of_ok ops c cfg j h)
  have hnd : (j.params.map (·.name)).Nodup := by rw [hnames]; exact wf.paramNames
  unfold mainUnit
  cases hf : c.params.find? (fun pd => pd.name == "value") with
  | none =>
    have hnot : "value" ∉ j.params.map (·.name) := by
      rw [hnames]
      intro hm
      obtain ⟨pd, hpd, hn⟩ := List.mem_map.1 hm
      have := List.find?_eq_none.1 hf pd hpd
      simp [hn] at this
    simp [mainUnitOf, findInst_none "value" j.params hnot]
  | some pdv =>
    have hpdv : pdv ∈ c.params := List.mem_of_find?_eq_some hf
    have hname : pdv.name = "value" := by
      have := List.find?_some hf
      simpa using this
    have hsome := hv pdv hpdv hname
    cases hs : startOf ops c cfg pdv with
    | none => rw [hs] at hsome; cases hsome
    | some sd =>
      obtain ⟨dt0, dflt⟩ := sd
      obtain ⟨p, hp, hpn, dt', hafter, hpdt, _, _⟩ := config_applied ops c cfg j wf h pdv dt0 dflt hpdv hs
      have hfi := findInst_of_mem "value" j.params hnd p hp (by rw [hpn, hname])
      simp [mainUnitOf, hfi, hpdt, hs, hafter]

/-- "the described datainfo shows the overridden … unit", for EVERY parameter of an accepted configuration — scalar or
structured, own datatype or derived limit: its datatype on the instance (what `describe` exports) is the datatype after
its overrides with the main unit put in wherever a unit refers to it (`setMainUnit`, whatever the datatype's own `unit`
says), the main unit being the unit of `value` after the overrides of `value`; without a main unit it is the datatype
after the overrides.  (`hv`: the parameter called `value`, if there is one, has a datatype — checked by the driver on
every class description.) -/
theorem main_unit_applied (ops : Ops DT Val) (u : UnitOps DT) (c : ClassDesc DT Val) (cfg : Cfg Val) (i : Instance DT Val)
    (wf : WellFormed c) (hv : ∀ pdv ∈ c.params, pdv.name = "value" → (startOf ops c cfg pdv).isSome = true)
    (h : applyConfigU ops u c cfg = .ok i) (pd : ParamDesc DT Val) (dt0 : DT) (dflt : Option Val)
    (hpd : pd ∈ c.params) (hs : startOf ops c cfg pd = some (dt0, dflt)) :
    ∃ p ∈ i.params, p.name = pd.name ∧
      ∃ dt', dtAfter ops dt0 ((cfgOf pd.name cfg).getD []) = some dt' ∧
        p.dt = some (shownDT u (mainUnit ops u c cfg) dt') := by
  unfold applyConfigU at h
  cases hj : applyConfig ops c cfg with
  | error es => rw [hj] at h; cases h
  | ok j =>
    rw [hj] at h
    injection h with h
    obtain ⟨p, hp, hpn, dt', hafter, hpdt, _, _⟩ := config_applied ops c cfg j wf hj pd dt0 dflt hpd hs
    have hmu := main_unit_agrees ops u c cfg j wf hv hj
    subst h
    unfold mainUnitPass
    rw [hmu]
    cases hm : mainUnit ops u c cfg with
    | none => exact ⟨p, hp, hpn, dt', hafter, by simpa [shownDT] using hpdt⟩
    | some mu =>
      refine ⟨substParam u mu p, List.mem_map_of_mem hp, hpn, dt', hafter, ?_⟩
      simp [substParam, hpdt, shownDT]

/-- the main-unit step changes nothing but datatypes: acceptance, start values, own properties and what is written are
those of `applyConfig` (so every other theorem of this file speaks about `applyConfigU`, too) -/
theorem main_unit_only_units (ops : Ops DT Val) (u : UnitOps DT) (c : ClassDesc DT Val) (cfg : Cfg Val) :
    (∀ es, applyConfigU ops u c cfg = .error es ↔ applyConfig ops c cfg = .error es) ∧
    (∀ i, applyConfigU ops u c cfg = .ok i → ∃ j, applyConfig ops c cfg = .ok j ∧ i.modProps = j.modProps ∧
      i.writeDict = j.writeDict ∧
      i.params.map (fun p => (p.name, p.own, p.value, p.default, p.notInit, p.given)) =
        j.params.map (fun p => (p.name, p.own, p.value, p.default, p.notInit, p.given))) := by
  unfold applyConfigU
  cases hj : applyConfig ops c cfg with
  | error es => exact ⟨fun es' => Iff.rfl, fun i h => (by cases h)⟩
  | ok j =>
    refine ⟨fun es' => ⟨fun h => (by cases h), fun h => (by cases h)⟩, fun i h => ?_⟩
    injection h with h
    subst h
    refine ⟨j, rfl, ?_⟩
    unfold mainUnitPass
    cases mainUnitOf u j.params with
    | none => exact ⟨rfl, rfl, rfl⟩
    | some mu => exact ⟨rfl, rfl, by simp [List.map_map, Function.comp_def, substParam]⟩

/-- the check the driver runs on every case implies the hypothesis `hv` of `main_unit_applied` -/
theorem valueTypedB_sound (ops : Ops DT Val) (c : ClassDesc DT Val) (cfg : Cfg Val) (h : valueTypedB ops c cfg = true) :
    ∀ pdv ∈ c.params, pdv.name = "value" → (startOf ops c cfg pdv).isSome = true := by
  intro pdv hp hn
  have := List.all_eq_true.1 h pdv hp
  simpa [hn] using this

/-- monitor soundness for the unit clause: if `appliedB` accepts the observation of a registered module, then every
parameter which is described shows — up to the driver's equality on datatypes — exactly the datatype `main_unit_applied`
proves for the model: the datatype after its overrides with the main unit of the configuration put in -/
theorem appliedB_unit_sound (ops : Ops DT Val) (u : UnitOps DT) (g : Glue DT Val) (c : ClassDesc DT Val) (cfg : Cfg Val)
    (o : ObsModule DT Val) (h : appliedB ops u g c cfg o = true) (hreg : o.registered = true)
    (pd : ParamDesc DT Val) (hpd : pd ∈ c.params) (dt0 : DT) (dflt : Option Val)
    (hs : startOf ops c cfg pd = some (dt0, dflt)) :
    ∃ op, findObs pd.name o.params = some op ∧
      ∃ dt', dtAfter ops dt0 ((cfgOf pd.name cfg).getD []) = some dt' ∧
        (op.described.isSome = true →
          optB g.beqDT op.datainfo (some (shownDT u (mainUnit ops u c cfg) dt')) = true) := by
  unfold appliedB at h
  simp only [hreg, Bool.not_true, Bool.false_or, Bool.and_eq_true] at h
  have hp := List.all_eq_true.1 h.2 pd hpd
  simp only [hs] at hp
  cases hf : findObs pd.name o.params with
  | none => simp [hf] at hp
  | some op =>
    simp only [hf] at hp
    refine ⟨op, rfl, ?_⟩
    unfold paramAppliedB at hp
    cases hd : dtAfter ops dt0 ((cfgOf pd.name cfg).getD []) with
    | none => simp [hd] at hp
    | some dt' =>
      simp only [hd, Bool.and_eq_true] at hp
      refine ⟨dt', rfl, ?_⟩
      intro hdesc
      have h4 := hp.1.2
      cases hdd : op.described with
      | none => rw [hdd] at hdesc; cases hdesc
      | some n => simpa [hdd] using h4

/-! ## which configuration file is applied -/

open Frappy.Lemmas.ConfigUnit in
/-- `to_config_path` searches directory by directory: the file it returns is the one of the FIRST configuration
directory which has the name at all (an earlier directory shadows the later ones, whatever the suffixes), under the
preferred suffix of that directory; a reference with a path separator is that file; not found iff no directory has it -/
theorem cfg_lookup_dir_major (isFile : String → String → Bool) (dirs : List String) (r : CfgRef) :
    toConfigPath isFile dirs r = fileFor isFile dirs r := by
  cases r with
  | path p => rfl
  | name n =>
    simp only [toConfigPath, fileFor]
    induction dirs with
    | nil => rfl
    | cons d ds ih =>
      rw [candidates_cons, List.find?_append, find_in_dir]
      simp only [firstDirWith, List.find?_cons]
      cases hs : cfgSuffixes.find? (fun s => isFile d (n ++ s)) with
      | some s =>
        have hany : (cfgSuffixes.any fun s => isFile d (n ++ s)) = true :=
          List.any_eq_true.2 ⟨s, List.mem_of_find?_eq_some hs, List.find?_some (p := fun s => isFile d (n ++ s)) hs⟩
        simp [hany, hs]
      | none =>
        have hany : (cfgSuffixes.any fun s => isFile d (n ++ s)) = false := by
          rw [Bool.eq_false_iff]
          intro ht
          obtain ⟨s, hsm, hst⟩ := List.any_eq_true.1 ht
          have := List.find?_eq_none.1 hs s hsm
          exact this hst
        simpa [hany, firstDirWith] using ih

/-- a file in an earlier directory shadows every file of that name in later directories: if no directory before `d` has
the name under any suffix and `d` has it under some, the file applied is in `d` -/
theorem earlier_dir_shadows (isFile : String → String → Bool) (pre post : List String) (d n s : String)
    (hpre : ∀ d' ∈ pre, ∀ s' ∈ cfgSuffixes, isFile d' (n ++ s') = false)
    (hs : s ∈ cfgSuffixes) (hd : isFile d (n ++ s) = true) :
    ∃ f, toConfigPath isFile (pre ++ d :: post) (.name n) = some (d, f) ∧ isFile d f = true := by
  rw [cfg_lookup_dir_major]
  have hfd : firstDirWith isFile (pre ++ d :: post) n = some d := by
    unfold firstDirWith
    rw [List.find?_append]
    have h1 : pre.find? (fun d => cfgSuffixes.any fun s => isFile d (n ++ s)) = none := by
      rw [List.find?_eq_none]
      intro d' hd' ht
      obtain ⟨s', hs', ht'⟩ := List.any_eq_true.1 ht
      rw [hpre d' hd' s' hs'] at ht'
      cases ht'
    have h2 : (cfgSuffixes.any fun s => isFile d (n ++ s)) = true := List.any_eq_true.2 ⟨s, hs, hd⟩
    simp [h1, List.find?_cons, h2]
  simp only [fileFor, hfd]
  cases hf : cfgSuffixes.find? (fun s => isFile d (n ++ s)) with
  | none => exact absurd hd (List.find?_eq_none.1 hf s hs)
  | some s0 => exact ⟨n ++ s0, rfl, List.find?_some (p := fun s => isFile d (n ++ s)) hf⟩

/-- `load_config` parses exactly the files the references stand for, in order, or nothing when one is not found — the
monitor `lookupB` accepts what the model does -/
theorem lookup_judged (isFile : String → String → Bool) (dirs : List String) (refs : List CfgRef) :
    lookupB isFile dirs refs (resolveAll isFile dirs refs) = true := by
  induction refs with
  | nil => simp [resolveAll, lookupB]
  | cons r rest ih =>
    simp only [resolveAll]
    rw [cfg_lookup_dir_major]
    cases hr : fileFor isFile dirs r with
    | none => simp [lookupB, hr]
    | some f =>
      cases hrest : resolveAll isFile dirs rest with
      | none =>
        rw [hrest] at ih
        simp only [lookupB] at ih
        simp [lookupB, ih]
      | some fs =>
        rw [hrest] at ih
        simp only [lookupB] at ih ⊢
        simpa [hr] using ih

/-! ### non-vacuity: a toy datatype with a unit -/

def toyOpsU : Ops ((Int × Int) × String) Int :=
  { convert := fun dt v => toyOps.convert dt.1 v, validate := fun dt v => toyOps.validate dt.1 v,
    setProp := fun dt k v => if k = "unit" then .ok (dt.1, if v = 1 then "K" else "mbar") else
      match toyOps.setProp dt.1 k v with
      | .ok d => .ok (d, dt.2)
      | .unknown => .unknown
      | .bad => .bad,
    checkDT := fun dt => toyOps.checkDT dt.1, dtDefault := fun dt => toyOps.dtDefault dt.1,
    ownProp := toyOps.ownProp, cmdProp := toyOps.cmdProp, cmdRaises := toyOps.cmdRaises,
    limitDT := fun _ dt => dt, limitDefault := fun _ dt => dt.1.2 }

/-- `$` alone refers to the main unit -/
def toyUnits : UnitOps ((Int × Int) × String) := ⟨(·.2), fun mu dt => (dt.1, if dt.2 = "$" then mu else dt.2)⟩

def exValue : ParamDesc ((Int × Int) × String) Int :=
  { name := "value", dt := some ((0, 10), "mbar"), limit := none, base := "", value := none, default := some 1,
    needscfg := false, hasWrite := false, own := [] }

/-- `value` in mbar, `pa` in `$`, and `pa_max` (a derived limit: a copy of the datatype of `pa`) -/
def exClassU : ClassDesc ((Int × Int) × String) Int :=
  { modProps := [⟨"description", some, true, none⟩],
    params := [exValue, { exValue with name := "pa", dt := some ((0, 10), "$"), hasWrite := true },
               { exValue with name := "pa_max", dt := none, limit := some .max, base := "pa", default := none }],
    otherNames := [] }

theorem exClassU_wf : WellFormed exClassU := by
  refine ⟨by decide, by decide, ?_⟩
  intro pd hpd hl b hb hn
  simp only [exClassU, List.mem_cons, List.not_mem_nil, or_false] at hpd hb
  rcases hpd with rfl | rfl | rfl
  · cases hl
  · cases hl
  · rcases hb with rfl | rfl | rfl
    · rfl
    · rfl
    · simp [exValue] at hn

/-- the cfg overrides the unit of `value` (mbar → K) and a limit of `pa`: `pa` and `pa_max` show K, not `$`, not mbar -/
example : mainUnit toyOpsU toyUnits exClassU [("description", .prop (.bare 7)), ("value", .acc [("unit", 1)])] = some "K" ∧
    (match applyConfigU toyOpsU toyUnits exClassU [("description", .prop (.bare 7)), ("value", .acc [("unit", 1)]),
        ("pa", .acc [("max", 8)])] with
     | .ok i => i.params.map (fun p => (p.name, p.dt)) ==
         [("value", some ((0, 10), "K")), ("pa", some ((0, 8), "K")), ("pa_max", some ((0, 8), "K"))]
     | .error _ => false) = true := by
  constructor <;> decide +kernel

/-- the hypotheses of `main_unit_applied` are satisfiable -/
example : ∃ i, applyConfigU toyOpsU toyUnits exClassU [("description", .prop (.bare 7)), ("value", .acc [("unit", 1)])] = .ok i ∧
    ∀ pdv ∈ exClassU.params, pdv.name = "value" →
      (startOf toyOpsU exClassU [("description", .prop (.bare 7)), ("value", .acc [("unit", 1)])] pdv).isSome = true := by
  refine ⟨_, rfl, ?_⟩
  intro pdv hp hn
  simp only [exClassU, List.mem_cons, List.not_mem_nil, or_false] at hp
  rcases hp with rfl | rfl | rfl
  · rfl
  · simp [exValue] at hn
  · simp [exValue] at hn

def toyGlue : Glue ((Int × Int) × String) Int := ⟨(· == ·), (· == ·), fun n _ => some n⟩

def exObsU (paMaxUnit : String) : ObsModule ((Int × Int) × String) Int :=
  { registered := true, errors := [], modProps := [], events := [], driver := [],
    params := [⟨"value", some 1, some ((0, 10), "K"), some "value", ["value"], [], []⟩,
               ⟨"pa", some 1, some ((0, 8), "K"), some "pa", ["pa"], [], []⟩,
               ⟨"pa_max", some 8, some ((0, 8), paMaxUnit), some "pa_max", ["pa_max"], [], []⟩] }

/-- the monitor accepts the observation in which every `$` shows the configured unit K, and refuses the one in which the
derived limit still shows `$` (what the seeded change C10-m11 produces for structured datatypes) -/
example :
    let cfg : Cfg Int := [("description", .prop (.bare 7)), ("value", .acc [("unit", 1)]), ("pa", .acc [("max", 8)])]
    appliedB toyOpsU toyUnits toyGlue exClassU cfg (exObsU "K") = true ∧
    appliedB toyOpsU toyUnits toyGlue exClassU cfg (exObsU "$") = false := by
  decide +kernel

/-- site/cryo.py shadows general/cryo_cfg.py; within one directory `_cfg.py` is preferred; a missing name is not found -/
example :
    let isFile := fun d f => [("site", "cryo.py"), ("general", "cryo_cfg.py"), ("general", "cryo.py"), ("general", "x")].contains (d, f)
    toConfigPath isFile ["site", "general"] (.name "cryo") = some ("site", "cryo.py") ∧
    toConfigPath isFile ["general", "site"] (.name "cryo") = some ("general", "cryo_cfg.py") ∧
    toConfigPath isFile ["site", "general"] (.name "x") = some ("general", "x") ∧
    toConfigPath isFile ["site", "general"] (.name "nosuch") = none ∧
    lookupB isFile ["site", "general"] [.name "cryo"] (some [("general", "cryo_cfg.py")]) = false ∧
    resolveAll isFile ["site", "general"] [.name "cryo", .name "x"] = some [("site", "cryo.py"), ("general", "x")] := by
  decide +kernel

/-! ## the driver's instance of the unit oracles satisfies the law the main-unit pass assumes -/

/-- `applyConfigU` runs the main-unit step after the final checks, the constructor before them: for the driver's
datatypes the outcome of `checkProperties` does not depend on units -/
theorem checkDT_setMainUnit (mu : String) : ∀ dt : ConfigDT.CDT,
    ConfigDT.checkDT (ConfigDT.setMainUnit mu dt) = ConfigDT.checkDT dt
  | .double _ _ _ => by simp [ConfigDT.setMainUnit, ConfigDT.checkDT]
  | .int _ _ => by simp [ConfigDT.setMainUnit]
  | .string _ _ _ => by simp [ConfigDT.setMainUnit]
  | .bool => by simp [ConfigDT.setMainUnit]
  | .enum _ => by simp [ConfigDT.setMainUnit]
  | .array lo hi m => by simp [ConfigDT.setMainUnit, ConfigDT.checkDT, checkDT_setMainUnit mu m]
  | .tuple _ => by simp [ConfigDT.setMainUnit, ConfigDT.checkDT]

/-- the unit an array shows is the unit of its members, a tuple has none: a `$` inside a tuple is invisible to
`datatype.unit` and is still replaced -/
example : ConfigDT.unitOf (.tuple [.double none none "$", .double none none "s"]) = "" ∧
    ConfigDT.unitOf (.array 0 3 (.double none none "K")) = "K" := ⟨rfl, rfl⟩

/-! ## table facts (re-checked against the repository on every run) -/

/-- every settable property of `Parameter` is known to the driver's instance of the oracles -/
theorem ownProp_covers_table : ∀ k ∈ Generated.C10.paramProps,
    k = "value" ∨ k = "default" ∨ (ConfigDT.ownProp k).isSome = true := by decide

/-- the datatype property names the driver's `setProp` dispatches on are the ones of the repository -/
theorem dt_props_table :
    Generated.C10.floatRangeProps = ["unit", "min", "max", "fmtstr", "absolute_resolution", "relative_resolution"] ∧
    Generated.C10.intRangeProps = ["min", "max"] ∧ Generated.C10.stringProps = ["minchars", "maxchars", "isUTF8"] ∧
    Generated.C10.arrayProps = ["minlen", "maxlen"] ∧ Generated.C10.boolProps = [] ∧ Generated.C10.enumProps = [] ∧
    Generated.C10.tupleProps = [] ∧ Generated.C10.unlimited = ConfigDT.unlimited ∧
    Generated.C10.defaultMaxInt = ConfigDT.defaultMaxInt ∧
    "description" ∈ Generated.C10.mandatoryModuleProps := by decide

end Frappy.Props.C10
